#!/bin/bash
# usage: tools/reconfirm_flaky.sh <tag>... : for each seeded change, re-run the two load-sensitive packages alone in a scratch worktree with the patch applied
export GOFLAGS=-mod=mod GOPROXY=off GOTOOLCHAIN=auto
for tag in "$@"; do
  wt=/tmp/reconf-$tag
  git -C /repo worktree add -q --detach $wt HEAD || exit 2
  (cd $wt && git apply /verif/seeded/$tag/patch.diff && go test -vet=off -count=1 ./shell/autocomplete/ ./builtins/core/structs/ 2>&1 | tail -2 | tr '\n' ' '; echo " <- $tag")
  git -C /repo worktree remove --force $wt
done
