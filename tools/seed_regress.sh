#!/bin/bash
# usage: tools/seed_regress.sh [tag...] : run every seeded change (default: all) against the check named in its meta.json
# (the property's own check, or the ones listed in meta.json "regress_checks"); prints one line per seed
cd /verif
tags="$@"; [ -z "$tags" ] && tags=$(ls seeded | grep -v README)
for t in $tags; do
  checks=$(python3 -c "
import json; m=json.load(open('seeded/$t/meta.json')); print(' '.join(m.get('regress_checks', [m['property']])))")
  out=$(tools/seedtest.sh /verif/seeded/$t $checks 2>&1 | grep "^== ")
  caught=$(echo "$out" | grep -c "VIOLATION")
  echo "$t: $([ $caught -gt 0 ] && echo CAUGHT || echo MISSED) $(echo "$out" | sed 's/replay=[^ ]*//' | cut -c1-120 | tr '\n' ' ')"
done
