#!/usr/bin/env python3
"""Rewrite the two defect tables of DESIGN.md §0.3 from known_findings.json."""
import json
import os
import re

V = os.path.dirname(os.path.dirname(os.path.abspath(__file__)))
k = json.load(open(os.path.join(V, 'known_findings.json')))
s = open(os.path.join(V, 'DESIGN.md')).read()
fixed = [f for f in k['findings'] if f['status'] == 'fixed']
opn = [f for f in k['findings'] if f['status'] == 'open']
esc = lambda t: t.replace('|', '\\|')
m = re.search(r'\*\*Repaired \((\d+) `fix:` commits\):\*\*\n\n\| property \| commit \| what failed \|\n\|---\|---\|---\|\n((?:\|.*\n)+)', s)
rows = ''.join('| %s | %s | %s |\n' % (f['property'], f['commit'], esc(re.sub(r'^fixed: property=\S+ \S+ ', '', f['what']))) for f in fixed)
s = s[:m.start()] + '**Repaired (%d `fix:` commits):**\n\n| property | commit | what failed |\n|---|---|---|\n' % len(fixed) + rows + s[m.end():]
m = re.search(r'\| property \| id \| what fails, why it is not repaired \|\n\|---\|---\|---\|\n((?:\|.*\n)+)', s)
rows = ''.join('| %s | %s | %s |\n' % (f['property'], f['id'], esc(f['what'])) for f in opn)
s = s[:m.start()] + '| property | id | what fails, why it is not repaired |\n|---|---|---|\n' + rows + s[m.end():]
open(os.path.join(V, 'DESIGN.md'), 'w').write(s)
print('%d fixed, %d open' % (len(fixed), len(opn)))
