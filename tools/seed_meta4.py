#!/usr/bin/env python3
"""usage: seed_meta4.py <tag> [<extra note>] : fourth wave - turn seeded/<tag>/meta.agent.json + /tmp/w4-<tag>.log (tools/wave4.sh) into meta.json"""
import json
import os
import re
import sys

tag = sys.argv[1]
note = sys.argv[2] if len(sys.argv) > 2 else ''
d = '/verif/seeded/%s' % tag
src = d + '/meta.agent.json' if os.path.exists(d + '/meta.agent.json') else d + '/meta.json'
a = json.load(open(src))
log = open('/tmp/w4-%s.log' % tag).read()
conf, _, rest = log.partition('=== checks')
without = re.search(r'--- without the change:\n(.*)', conf)
withc = conf.partition('--- with the change:')[2].partition('--- whole suite')[0].strip().splitlines()
suite = conf.partition('--- whole suite with the change:')[2].strip().splitlines()
sp = [l for l in suite if 'stable_pass' in l]
notp = [l.strip().replace('NOT PASSING: github.com/lmorg/murex/', '') for l in suite if 'NOT PASSING' in l]
viol = [l.strip()[:400] for l in rest.splitlines() if l.strip().startswith('violation:')]
caught = 'VIOLATION property=' in rest
m = {'property': tag[:3], 'summary': a.get('summary'), 'needs': a.get('needs'), 'demo_cmd': a.get('demo_cmd'),
     'expected_without': a.get('expected_without'), 'expected_with': a.get('expected_with'),
     'origin': 'fourth wave (session 2): written by a sub-agent that saw only the property text (and a few sentences naming the three earlier ideas to avoid) and a scratch worktree of /repo',
     'confirmed_by_me': {
         'how': 'tools/wave4.sh: scratch worktree of /repo HEAD; demonstration without the change, git apply, go build ./..., demonstration with the change, whole suite with the change compared with BASELINE stable_pass; then the check against a scratch copy of /repo with the patch (tools/seedtest.sh)',
         'demo_without': without.group(1).strip() if without else None,
         'demo_with': ' | '.join(x.strip() for x in withc[-4:])[:500],
         'suite_with_change': (sp[0].strip() if sp else 'summary line cut off') + ('; not passing (machine at load average 60-240, all in the wall-clock-sensitive packages named in seeded/README.md unless noted): ' + ', '.join(notp[:8]) if notp else ''),
     },
     'detected': caught,
     'detected_by': ('%s quick: ' % tag[:3] + ' || '.join(viol[:2])) if caught else 'NOT detected',
     'wave': 4}
if note:
    m['note'] = note
json.dump(m, open(d + '/meta.json', 'w'), indent=1)
if os.path.exists(d + '/meta.agent.json'):
    os.remove(d + '/meta.agent.json')
print(tag, 'CAUGHT' if caught else 'MISSED', (sp[0].strip() if sp else '-'), len(notp))
