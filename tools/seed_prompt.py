#!/usr/bin/env python3
"""Prompt for a seeded-change sub-agent: sees the property text only (nothing from /verif).
usage: seed_prompt.py <property id> <tag> [<idea to avoid>]"""
import json
import sys

pid, tag = sys.argv[1], sys.argv[2]
avoid = sys.argv[3] if len(sys.argv) > 3 else ''
d = [json.loads(l) for l in open('/verif/properties.jsonl') if json.loads(l)['id'] == pid][0]
print(f"""You are working in /tmp/seed-{tag}, a scratch git worktree (detached HEAD) of the Go project lmorg/murex, a shell and scripting language. Work only inside /tmp/seed-{tag}. Never touch /repo, /verif or any other directory under /tmp. Never run `git stash`, `pkill`, `killall` or `git worktree` commands, and never run the whole test suite (`go test ./...`): other people share this machine.

Environment for every shell call: `export GOFLAGS=-mod=mod GOPROXY=off GOTOOLCHAIN=auto; unset GOSUMDB`. There is no network. Wrap every murex / go test invocation in `timeout`.

The project is supposed to satisfy this property:

  {d['title']}
  {d['statement']}
  (It is meant to hold for: {d['quantifier']['text']})

Your task: make ONE small, realistic change to the non-test Go source (the kind of regression a maintainer could introduce by accident: a refactoring slip, a wrong condition, an off-by-one, a lock released too early, a forgotten case) such that
 1. `go build ./...` still succeeds,
 2. the existing tests of the packages you touched and of ./lang/ still pass (`go test -vet=off -count=1 <those packages>`; if one fails, choose another change),
 3. the property is really broken, but only under specific circumstances (a particular input, nesting, interleaving or history) - not on every run of every program,
 4. you can demonstrate it: a demonstration that fails (or shows the wrong behaviour) with your change and passes without it.
Do not edit test files, do not touch lines that call `verifhook.` functions, do not add build tags, and keep the change under ~15 lines. {('Do NOT use this idea, it has been done already: ' + avoid) if avoid else ''}

Read the code first to find where the property is implemented (grep for the builtins and types it mentions; start from lang/, lang/expressions/, builtins/core/, utils/, config/).

Deliverables, all under /tmp/seed-{tag}/SEED/ (create it):
 - patch.diff : output of `git diff` for your change (only the source change, not the SEED directory or demo files)
 - demo/ : the demonstration - preferably a Go test file `zz_seed_test.go` (say in meta.json into which package directory it must be copied to run) and/or a murex script
 - meta.json : {{"property": "{pid}", "summary": what you changed and why it breaks the property, "needs": what must be true for the break to show, "demo_cmd": exact command(s) run from the worktree root, "expected_without": ..., "expected_with": ..., "tests_run": which existing tests you ran with the change applied and their result}}
Verify the demonstration both ways (save your diff to a file, `git checkout -- <file>` to remove the change, run; `git apply` it again, run). Leave the change APPLIED in the worktree and leave no demo files inside the source tree (only under SEED/).

Your final message: a short report (what, where, needs, demo command, both outcomes, tests run).""")
