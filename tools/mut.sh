#!/bin/bash
# usage: tools_mut.sh <ID> <file> <sed-expr>   : apply a one-off mutation to /repo, run the quick check, restore
id=$1; f=$2; expr=$3
cd /repo && sed -i "$expr" "$f" && git diff --stat | tail -1
cd /verif && ./check $id 2>/dev/null | tail -3; echo "rc=${PIPESTATUS[0]}"
cd /repo && git checkout -- .
