#!/bin/bash
# run every registered check at the quick tier for the given seeds; summary on stdout
ids=$(python3 -c "import json;print(' '.join(c['property_id'] for c in json.load(open('MANIFEST.json'))['checks']))")
for seed in "$@"; do
for c in $ids; do
  s=$(date +%s)
  out=$(VERIF_SEED=$seed ./check $c --tier quick 2>&1 | tail -6)
  e=$(( $(date +%s) - s ))
  echo "== seed $seed $c ${e}s $(echo "$out" | grep -c '^VIOLATION') violation-lines; $(echo "$out" | grep '^VIOLATION\|^INFRA\|^KNOWN' | head -3 | cut -c1-160 | tr '\n' ' ')"
done
done
