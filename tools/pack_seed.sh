#!/bin/bash
# usage: tools/pack_seed.sh <tag> <property> : rebase /tmp/seed-<tag>/SEED/patch.diff onto /repo HEAD and store it in /verif/seeded/<tag>/
tag=$1; prop=$2
src=/tmp/seed-$tag/SEED
dst=/verif/seeded/$tag
mkdir -p $dst/demo
wt=/tmp/pack-$tag
git -C /repo worktree add -q --detach $wt HEAD || exit 2
if [ -f $dst/patch.diff ] && git -C $wt apply --check $dst/patch.diff 2>/dev/null; then
  echo "existing patch applies"
else
  (cd $wt && git apply --3way $src/patch.diff 2>&1 | tail -2; git diff HEAD > $dst/patch.diff; git status --short | head -5)
fi
cp -r $src/demo/* $dst/demo/ 2>/dev/null
cp $src/meta.json $dst/meta.agent.json
git -C /repo worktree remove --force $wt
git -C /repo apply --check $dst/patch.diff && echo "$tag: patch applies to /repo HEAD ($(grep -c '^[+-]' $dst/patch.diff) changed lines)"
