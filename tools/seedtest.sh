#!/bin/bash
# usage: tools/seedtest.sh <seed-dir> <check-id>... : run checks against a scratch copy of /repo with the seeded patch applied
# (equivalent to `git -C /repo apply`, run, `git -C /repo checkout -- .`, but does not disturb other users of /repo)
d=$1; shift
scratch=$(mktemp -d /tmp/repo-seed-XXXX)
rsync -a --exclude .git /repo/ $scratch/
(cd $scratch && patch -p1 -s < $d/patch.diff) || { echo "patch failed"; rm -rf $scratch; exit 2; }
for id in "$@"; do
  out=$(cd /verif && VERIF_REPO=$scratch ./check $id 2>&1 | tail -4)
  rc=$(echo "$out" | grep -c "^VIOLATION")
  echo "== $id: $(echo "$out" | grep '^VIOLATION\|^INFRA\|KNOWN' | head -2) [violation_lines=$rc]"
  echo "$out" | grep "violation:" | head -2 | cut -c1-300
  rp=$(echo "$out" | sed -n 's/^VIOLATION .*replay=//p' | head -1)
  [ -n "$rp" ] && python3 -c "
import json,sys,collections
d=json.load(open('$rp'))
print('  violation keys by prefix:', dict(collections.Counter(v['key'].split(':')[0] for v in d['violations'])))"
done
rm -rf $scratch /verif/.alt/$(python3 -c "import hashlib;print(hashlib.md5(b'$scratch').hexdigest()[:10])")
