#!/bin/bash
# usage: tools/wave4.sh <tag> <property> <demo package dir> <test regex> [checks...] : pack + confirm (whole suite) + run the checks
# against a scratch copy with the change; log in /tmp/w4-<tag>.log
tag=$1; prop=$2; pkg=$3; rx=$4; shift 4
checks="$@"; [ -z "$checks" ] && checks=$prop
cd /verif
{
  tools/pack_seed.sh $tag $prop
  echo "=== confirm"
  SEEDSRC=/verif/seeded/$tag tools/confirm_seed.sh $tag $pkg "$rx" ${FULL:-full}
  echo "=== checks"
  tools/seedtest.sh /verif/seeded/$tag $checks
  echo "=== done"
} > /tmp/w4-$tag.log 2>&1
