#!/bin/bash
# run every registered check at the thorough tier, one after the other; summary on stdout
ids=$(python3 -c "import json;print(' '.join(c['property_id'] for c in json.load(open('MANIFEST.json'))['checks']))")
[ -n "$1" ] && ids="$@"
for c in $ids; do
  s=$(date +%s)
  out=$(nice -n 10 ./check $c --tier thorough 2>&1 | tail -5)
  rc=$?
  e=$(( $(date +%s) - s ))
  echo "== $c ${e}s $(echo "$out" | grep -c '^VIOLATION') violation-lines; $(echo "$out" | grep '^VIOLATION\|^INFRA\|^KNOWN' | head -3 | cut -c1-200)"
done
