#!/usr/bin/env python3
"""Compare a `go test -json` output with BASELINE.json's stable_pass list."""
import json, sys
base = json.load(open('/root/.vp/BASELINE.json'))
stable = set(base['stable_pass'])
res = {}
for line in open(sys.argv[1]):
    try:
        e = json.loads(line)
    except ValueError:
        continue
    if e.get('Test') and e.get('Action') in ('pass', 'fail', 'skip'):
        res[e['Package'] + '::' + e['Test']] = e['Action']
missing = [t for t in stable if res.get(t) != 'pass']
print('stable_pass:', len(stable), 'passing now:', len(stable) - len(missing))
for t in sorted(missing)[:40]:
    print('  NOT PASSING:', t, res.get(t))
sys.exit(1 if missing else 0)
