#!/usr/bin/env python3
"""Regenerate MANIFEST.json from the table below (single place to edit)."""
import json, subprocess

NA = {
 'C13': 'numeric encode/decode fidelity of strconv over ±2^53 and all finite float64: TLC has 32-bit integers and no floats; a TLA+ oracle would be the identity function (DESIGN §7)',
 'C14': 'codec fidelity of third-party JSON/YAML/TOML/CSV marshallers: no murex state machine to specify, the only TLA+ oracle would be x = x (DESIGN §7)',
 'C20': 'termination/no-panic of the parsers over all rune strings: decided by coverage-guided fuzzing, a specification has no abstract state or expected output to offer (DESIGN §7)',
 'C35': 'byte-level codec identity of strconv.Quote/html.EscapeString/url.PathEscape wrappers including invalid UTF-8: no transition system to model (DESIGN §7)',
 'C37': 'highlighter codec identity over all rune strings for a hand-written 1000-line tokenizer: decided by fuzzing; a TLA+ model would merely enumerate short strings (DESIGN §7)',
}

# id -> (level, technique, text, note, design_ref)
CHECKS = {}

def add(pid, level, technique, text, note, ref):
    CHECKS[pid] = (level, technique, text, note, ref)

add('C01', 'model_checking',
    'TLA+ spec Stream.tla model-checked by TLC (safety+liveness); every state of the TLC state graph replayed on real goroutines through gate hooks (scheduled replay); recorded concurrent executions validated by TLC trace spec StreamTrace.tla',
    'TLC explores every interleaving of the lock regions of Write/Read/ReadAll/Open/Close for 2 writers x 1-2 readers and checks conservation, per-writer order, no early EOF, counters and writer progress; each reachable state is then reached on the real streams.Stdin under the same forced schedule with results and Stats() compared after every step, and random real executions are checked to be behaviours of the spec. Small scope, but every modelled defect class needs at most two actors and three operations.',
    'gate hooks sit at every lock region of streams.Stdin (build tag verif); byte limit 2-4 stands for 1 MiB; protocol assumption that writers are opened before the reader starts', 'DESIGN §6 C01')
add('C02', 'model_checking',
    'TLA+ spec Stream.tla (SetDataType/GetDataType actions) model-checked by TLC; state-graph paths replayed on real goroutines through gate hooks; recorded executions validated by StreamTrace.tla',
    'All interleavings of 2 setters (types "", null, a, b), 1-2 getters, Open/Close and ForceClose are explored by TLC (type set once, first wins, * only after all writers closed, getter returns); every reachable state is reproduced on the real pipe under the forced schedule and GetDataType results compared.',
    'same hooks as C01; the lock-free read in the cancelled branch of GetDataType is modelled as reading the value before or after a concurrent set', 'DESIGN §6 C02')
add('C26', 'model_checking',
    'TLA+ spec NamedPipes.tla (registry + asynchronous close timers) model-checked by TLC (safety+liveness); state-graph paths replayed on a real pipes.Named with client goroutines and the real close-timer goroutines scheduled through gate hooks; recorded concurrent executions validated against NamedPipesTrace.tla; ungated look-up storm',
    'TLC explores every interleaving of create/close/delete/get/dump by 2 clients over 2 names with up to 2 pending close timers (no crash, unique live names, stream never closed twice, closed pipe eventually gone, Get returns); every reachable state is then reproduced on the real registry: each step is one lock region of the real code, the real 2 s timers are held at a gate and fired where the behaviour says, and error results, Get results and the registry contents are compared after every step. A nil dereference or fatal map error kills the harness process and is attributed to the behaviour that caused it by re-running it alone.',
    'gate hooks at every lock region of lang/pipes/namedpipes.go and after the timer sleep; std pipes only', 'DESIGN §6 C26')
add('C27', 'model_checking',
    'TLA+ spec Jobs.tla model-checked by TLC (ID stability as an action property, reuse rule, lookups by ID / latest / command line); state-graph paths replayed on a real lang.NewJobs() table with lookups and listing compared after each step; recorded concurrent executions of the table validated by TLC trace spec JobsTrace.tla',
    'All histories of add/terminate/garbage-collect/Get/GetLatest/GetFromCommandLine over up to 5 jobs are explored by TLC; each reachable state is reproduced on the real table and the listing (job ID -> process) and every lookup result are compared with the specification after every step.',
    'sequential object (every operation is one mutex region); processes are bare lang.Process values whose terminated flag and command line (a, b, ab) the harness sets', 'DESIGN §6 C27')
add('C04', 'model_checking',
    'TLA+ spec RunModes.tla: TLC checks the transcribed runModeNormal loop against the declarative chain rule for every program up to the bound and exports the case table; every program is executed by the real interpreter and compared with the table',
    'All programs of <=4 (thorough <=5) commands over exit numbers {0,1,3} and the operators ; newline && || | are enumerated by TLC; operational scheduler model = declarative rule is an invariant; each program is rendered to murex source (top level and function body) and run in-process; commands that ran (stdout order, stderr set) and the exit number must equal the table.',
    'commands are exit-code functions ignoring stdin; rows whose reading is ambiguous in the property (conditional operator on the head of a longer pipeline) are executed but not judged', 'DESIGN §6 C04')
add('C05', 'model_checking',
    'TLA+ spec RunModes.tla: TLC checks the transcribed runModeTry/runModeTryPipe loops against the declarative pipeline rule for every block up to the bound and exports the case table; every block is executed by the real interpreter (try{}, trypipe{}, runmode ... function) and compared',
    'All blocks of <=4 (thorough <=5) commands x {try, trypipe} are enumerated by TLC with the invariant operational = declarative; each is run as a `try`/`trypipe` block and as a function with a `runmode` directive; commands that ran and the exit number must equal the table.',
    'as C04; tryerr variants excluded (not in the property)', 'DESIGN §6 C05')
add('C03', 'model_checking',
    'TLA+ spec Pipeline.tla: TLC explores all interleavings of the stage processes of every pipeline in the bound (termination under fairness, no deadlock, output = Seq(P)); the exported program table is executed many times under seeded schedule perturbation at the hook points and every run compared with Seq(P); Lifecycle.tla (scheduler/process/waiter goroutines) model-checked and bound by gate logs validated against LifecycleTrace.tla; StreamUse.tla validated on the pipes\' own open/close/append logs of whole programs',
    'The concurrent model (one process per stage, bounded channels, back-pressure, EOF after close, aggregating stages) is checked exhaustively against the sequential meaning for every pipeline of <=3 stages; the same programs (plus the C04/C05 chain programs) run 6 (thorough 40) times each on the real interpreter with random yields/sleeps injected at every process life-cycle step and pipe lock region; any run whose stdout, stderr or exit number differs from the TLC value, or that hangs, is a violation.',
    'perturbation explores schedules randomly, not exhaustively, on the real code; vocabulary limited to a/foreach/out/err/mtac/cast/if/switch/variables/functions, try and trypipe blocks inside stages, and the chain operators', 'DESIGN §6 C03')
add('C28', 'model_checking',
    'RunModes.tla invariant Released (every process registered by compile is released exactly once in every scheduler branch) checked by TLC; FID register/deregister event logs recorded under the real table mutex while programs run concurrently are validated by TLC against FidTrace.tla (FidUnique, QuietEmpty)',
    'TLC proves the release accounting of the three schedulers for all blocks <=4 commands; the real interpreter then runs thousands of those blocks plus structured programs (failing casts, break/continue/return, nested functions, aborted try) 8 at a time per process under schedule perturbation; each process logs FID events in mutex order and TLC checks on the log that no FID is handed out twice and that nothing rooted in a finished program is still registered.',
    'quiet = program returned + up to 2 s for asynchronous deregistration; programs are attributed through parent links logged at registration', 'DESIGN §6 C28')
add('C33', 'exploration',
    'TLA+ spec Redirect.tla: routing rule (stdout/stderr tokens x position x context) and file-sink rule evaluated and sanity-asserted by TLC, exported as a case table; each row executed by the real interpreter with three payloads and compared per sink',
    'The complete finite table of redirection combinations (36 routing rows, 16 file rows) is enumerated; what arrives on block stdout, block stderr, the next command\'s stdin and in the file must equal the TLC table for every row and payload. Exploration level: the specification is a pure function, TLC checks its conservation assertion and enumerates it.',
    'writer is a murex function; multiset comparison per sink', 'DESIGN §6 C33')
add('C21', 'exploration',
    'TLA+ spec External.tla composed with the chain rules of RunModes.tla: expected exit number and whether the command after && / || / inside try runs, for each exit code and signal; each row executed with a real child process through the real interpreter',
    'Exit codes (15 spread values; thorough 0-255) and signals 1-15 of a helper process x {alone, && marker, || marker, try{...; marker}}: exit number and marker execution must equal the TLC table. The helper\'s real wait status is verified independently before a row is judged.',
    'rows whose helper does not die the intended way on this kernel are discarded', 'DESIGN §6 C21')
add('C39', 'exploration',
    'TLA+ spec Control.tla: structured meaning with completion records evaluated by TLC for three program families (nested foreach/while/for loops with break/continue/return aimed at any enclosing block by name; a function called from a loop that ends itself; a block ended from one stage of a pipeline while the producer stage is still running), exported as a table; every program run by the real interpreter and compared',
    'About 3900 nest programs (outer loop kind x optional inner loop kind x control statement kind and position in each x loop last or followed) + 162 call programs + 20 stage programs, x 2 call contexts: printed tags and function exit number (after return n or a normal end) must equal the structured meaning computed by TLC; stage family: the number of items the producer stage started must lie in the range the meaning gives.',
    'loops over 1..3 / 1..2; block names foreach/while/for/if/function name; the exit number of a function whose last statement is a loop left by break is not judged; stage family depends on timing (1 s per item, re-run alone twice at 5 s per item before a disagreement counts)', 'DESIGN §6 C39')
add('C22', 'exploration',
    'TLA+ spec Resolve.tla: resolution order with single alias expansion evaluated by TLC over all definition subsets and alias targets, exported as a table; each row set up and run in the real interpreter',
    'All 176 relevant combinations of {private, alias, function, builtin, external} x alias target {builtin, itself, another name} x definitions of the other name are enumerated by TLC; the definition that actually answers in murex (including self-referential aliases and alias-to-alias, which must not loop) is compared with the table.',
    'caller inside the private\'s module only; builtin case uses the name `escape`', 'DESIGN §6 C22')
add('C16', 'model_checking',
    'TLA+ spec Arrays.tla: TLC checks the transcribed key loop of itoIndexArray and isValidElementIndex against the rule "element k (0-based, negative from the end) iff -n <= k < n, else error" for every input in the bound and exports the case table; every row is run through the real `[`, `[[`, `![` builtins on json, yaml and jsonl documents and compared',
    'All array lengths 0..5 (thorough 0..8) with 1-2 keys in -8..8 (-12..12), every single key in -30..30 on lengths 0..20 and all map lookups over key sets of <=3 of 4 keys are enumerated by TLC with the invariant operational = declarative; each row is rendered with seeded random distinct element values and executed in-process; ok rows must print exactly the element(s), err rows must give an error message and a non-zero exit number, and no row may report a panic, crash or hang.',
    '`![` content, absent map keys, `[[` and multi-key lookups on maps are executed but not judged (the property does not define them)', 'DESIGN §6 C16')
add('C17', 'model_checking',
    'TLA+ spec Arrays.tla: TLC checks the transcribed streaming range matcher (createRfIndex/newIndex arithmetic, SetLength for negative starts, Start/End counters and exclude branch of the readArray callback, one action per item) against the slice rule of the property and exports the case table; every row is run through the real `[s..e]` filter on str and json lists and compared',
    'All list lengths 0..8 (thorough 0..20) x start/end in -10..12 (-22..24) or absent x {no flag, e} are enumerated by TLC with the invariant operational = declarative on the rows the property defines; each row is executed on a str list and a json array and the items on stdout are compared with the table.',
    'rows outside the forms the property defines (start 0, start > end, negative end, negative start with an end) are executed for panic/crash/hang only', 'DESIGN §6 C17')
add('C18', 'model_checking',
    'TLA+ spec Arrays.tla: TLC checks the transcribed generation loops of rangeToArrayString (direction, padding) and the goto odometer of writeArrayString against "every integer m..n, zero-padded to the width of the zero-padded bound" and "cartesian product, last block fastest" and exports the case table; every expression is run through the real `a` and `ja` and compared',
    'Every pair of spellings (natural, zero-padded to 2 and 3 digits) of integers in -10..10 (thorough -30..30), fixed pairs near +-200 plus seeded random pairs in -200..200, and every parameter of <=3 blocks from a menu of literal lists, ranges and mixed blocks are enumerated by TLC with the invariant operational = declarative; each is executed with `a` and `ja` and the element texts are compared.',
    'padding judged only for unambiguous spellings (none padded; both at the same width; only the numerically lower bound padded); other spellings executed, not judged', 'DESIGN §6 C18')
add('C38', 'exploration',
    'TLA+ relations in Arrays.tla (permutation + sortedness, reverse, prepend/append, complementary subsequences, element-wise left/right/prefix/suffix) evaluated by TLC (ArraysTrace.tla) on recorded (input, parameters, output) of the real list builtins over seeded random hostile lists',
    'Random JSON string arrays and str lists of 0-40 elements over a hostile alphabet plus all lists of <=3 elements over 5 hostile spellings are pushed through the real msort, mtac, prepend, append, match, !match, left, right, prefix, suffix; every record is judged by TLC evaluating the specification relation (msort is checked as permutation and order, not by re-sorting).',
    'no newline or single quote in elements; str elements non-empty and trimmed; left/right on ASCII elements with k != 0', 'DESIGN §6 C38')
add('C15', 'exploration',
    'TLA+ relations in Arrays.tla (round trip identity, foreach activation sequence = list, newline framing model) evaluated by TLC (ArraysTrace.tla) on recordings of the real WriteArray -> bytes -> ReadArray / ReadArrayWithType of every registered array type (mxh arrays-roundtrip) and of real `foreach` runs over those bytes',
    'The types registered with both an array writer and reader are discovered from the real registry; per type all lists of <=2 elements, a seeded sample of triples over 4 spellings of its legal alphabet, seeded random lists of 0-50 elements and lists with elements up to 60 KiB are written, read back and iterated; TLC judges every record; byte-level framing is modelled for str, string, generic, *, jsonl, the other types are identity-checked.',
    'legal alphabets per type are listed in the evidence; toml refuses to write arrays and is excluded; the empty list is not judged for writers that report "no data returned" by design', 'DESIGN §6 C15')
add('C24', 'model_checking',
    'TLA+ spec Flags.tla: TLC checks the transcribed ParseFlags loop (previous/ignoreFlags registers, alias rewrite with a termination measure) against the declarative rule of the property on every input in the bound and exports input + expected result + expected `args` variable; every input is run through the real parameters.ParseFlags and a seeded subset through the real `args` builtin and compared',
    'Exhaustive: every flag table over 2 flags (str/int/num/bool, aliases incl. self-alias, 2-cycle, dangling) x option combinations x every argument list of <=2 (thorough <=3) tokens; plus a VERIF_SEED-seeded sample (12k / 120k) over 4 flags with alias chains <=3 and <=5/6 arguments, evaluated by TLC from a file. Operational = declarative is an invariant and every step decreases a natural-number measure (alias cycles must end in an error). Compared on real code: error or not, each flag with Go type and value, additional parameters; through `args`: variable stored, Error text present iff the rule says error, Flags/Additional as JSON.',
    'only error/no-error is compared, not error wording; inputs the property leaves open (declared flag or `--` directly after a value flag, fraction for an int flag, same flag twice, alias ending at an undeclared name, undeclared flag under IgnoreInvalidFlags) are executed but not judged', 'DESIGN §6 C24')
add('C23', 'model_checking',
    'TLA+ spec FuncSig.tla: TLC checks the transcribed 9-context loop of ParseMxFunctionParameters against a recogniser of the documented grammar (acceptance and all fields) on every class string in the bound plus a seeded sample of long signatures, and the transcribed castParameters loop against the declarative binding rule on every call in the bound; every signature is parsed by the real lang.ParseMxFunctionParameters and every call is run by the real interpreter and compared',
    'Signatures are strings over the 10 character classes the parser distinguishes; exhaustive <=4 (thorough <=5) classes plus 10k/150k sampled well-formed-then-damaged signatures; name, type, optional, default, description compared. Calls: 1-2 parameters exhaustively (types str/int/num/bool x mandatory/optional/optional+default x argument lists) plus sampled 2-3 parameter calls; observed: body ran or not, exit number, printed value of each variable.',
    'a signature is judged only if the narrowest and widest reading of the documented grammar agree; calls missing a mandatory argument (readline prompt) are not executed', 'DESIGN §6 C23')
add('C31', 'model_checking',
    'TLA+ spec UnitTest.tla: TLC checks the transcribed runTest sequence of checks (with its passed flag) against the rule "exit number equal and every assertion present holds" for every (function, plan) in the bound and exports the verdict table; every case is run as function + `test unit function` + `test run-unit` by the real interpreter and compared',
    '6 functions with fixed outcomes (each verified by a calibration run) x 5.2k (thorough 17.4k) plans over StdoutMatch/Regex/Type/IsArray/IsMap/GreaterThan, StderrMatch/Regex/Type/IsArray/IsMap and ExitNum; every emitted row is executed; exit number of `test run-unit` and the PASSED/FAILED report compared with the table.',
    'not judged: a plan without Stderr assertions on a function that writes to stderr (undocumented default), structure/length assertions on `str` streams, type assertions on untyped streams', 'DESIGN §6 C31')
add('C11', 'model_checking',
    'TLA+ spec Scopes.tla (Family "var"): TLC builds every well-nested history of set / unset / global set / global unset / call..return / block..end up to the bound, checks after every operation that the transcribed fork-and-table machine observes exactly what the declarative call-ownership rule of the property says (plus action properties: writes are local, a return restores the caller view) and exports the case table; every history is rendered to a murex program and run by the real interpreter, `$n` and `$GLOBAL.n` of every name compared after every operation',
    'All histories of <=4 operations over two names (thorough: <=5 over two names, <=6 over one name) are enumerated by TLC with operational = declarative as an invariant; each is rendered with one murex function per call and blocks as if / switch / foreach / ${}; the value written at position j is "vj" so every read identifies the write it saw. 12.7k (thorough 206k) programs compared.',
    'environment variables and the exit status of !set/!global on unbound names are outside the property', 'DESIGN §6 C11')
add('C25', 'model_checking',
    'TLA+ spec Scopes.tla (Family "cfg"): TLC builds every well-nested history of `config set` / `config default` on one Global and one non-global option with call..return and block..end, for a session-level and a function-level body, checks that the transcribed config tables (Copy parented to the global table, Set forwarding global options, override-then-global lookup, Default through Set) observe what the declarative rule says, and exports the table; every history is executed by the real interpreter and `config get` of both options compared after every operation',
    'All histories of <=4 (thorough <=5) operations x {session, function} body with operational = declarative as an invariant; rendered with a per-program `config define` pair and, for function-level bodies, with the built-in pair http user-agent / shell max-suggestions. 10.5k (thorough 60k) programs compared.',
    'built-in options are not set at session level (would leak into later programs)', 'DESIGN §6 C25')
add('C12', 'model_checking',
    'TLA+ spec Values.tla: TLC builds every history a = D ; copy / `$v.path = x` / function(json parameter) assigning into it over 4 document shapes, 4 scalars and all path classes, checks that the transcribed implementation (names -> heap objects, copy = marshal+parse, alter loop descending by type, converting at the leaf) yields exactly the value-semantics result of the property and exports expected documents, read-back, frame and leaves per step; every history is run by the real interpreter and compared',
    'After every operation each variable is printed and every leaf is read on its own with `$v.path`; judged: other variables never change; when an assignment reports success every other path keeps its value and, where the property defines the result, read-back and whole document equal the specification.',
    'assignments murex rejects are not judged on the assigned variable; bool<->number/string leaf conversions: only frame/other variables judged', 'DESIGN §6 C12')
add('C06', 'model_checking',
    'TLA+ spec Expr.tla: TLC checks the transcribed parse/fold machine of executeExpr (orderOfOperations groups, leftmost fold, scan restart, branch parser for parentheses) against the declarative precedence rule on every enumerated expression and on seeded random deeper ones (invariant Agree, liveness on a small family) and exports the expected values; every expression is evaluated by the real interpreter and compared',
    'All expressions of <=3 operands x the 10 operators x every parenthesised group, every pair of 20 number spellings under every operator, string comparisons, and 4000/30000 random token sequences (nesting <=6) are evaluated by TLC with exact dyadic arithmetic and IEEE-754 Inf/NaN/signed zero; each is rendered and run as assignment with value+type read-back, bare statement, `expr` and inline `out (...)`; value and primitive type must equal the table.',
    'values whose exact result is not a small dyadic (0.1, 1/3) and operand kinds the property does not combine (bool<num, str+num) are executed but not judged; consequently the grouping of + against - (which differs only through floating-point rounding) is not decided - seeded change C06c', 'DESIGN §6 C06')
add('C07', 'model_checking',
    'TLA+ spec Expr.tla (&& || ?: ??, truthiness table): TLC checks the transcribed fold machine against the rule on every enumerated expression and on random parenthesised trees and exports expected values and the truth table; expressions run on the real interpreter as `v = (E)` with value+type read-back; the truth table is pushed through if{}, ->if, ->!, !if and ?:',
    'All a<op>b over 57 operand forms (true false null, undefined variable, numbers, the 9 false words and other words in three spellings, parenthesised comparisons) x 4 operators, every 3-operand shape over 8 operands x 16 operator pairs, 3000/20000 random trees; 171 (word, exit number) rows x 5 entry points.',
    'expressions where different operator classes meet inside one pair of parentheses are executed, not judged; undefined variable judged only as left operand of ??', 'DESIGN §6 C07')
add('C29', 'model_checking',
    'TLA+ spec History.tla (+HistoryFile/HistoryScan/HistoryEval): TLC checks durability of the abstract history file under writes, crashes at every prefix of an append and reloads, and that the transcribed openHist loader loop equals the cut-at-newlines rule on every byte string in the bound; state-graph paths, byte-offset sweeps and TLC-evaluated random histories are replayed on the real shell/history package with real files',
    'Every reachable state of the session machine (3 entries incl. one longer than 64 KiB, <=4/5 appends, <=2 crashes, <=3 sessions) is reproduced with history.New/History.Write on a real file, a crash being the file cut back to a byte offset inside the interrupted append (sweeps: every offset); the list a new session loads must be one of the lists the specification allows (every completed append in order, cut appends optional). Histories of 1-20 appends are evaluated by TLC (HistoryEval) and replayed the same way.',
    'entries are trimmed valid UTF-8 texts; append-only file, one writer; in-session list not judged', 'DESIGN §6 C29')
add('C30', 'model_checking',
    'TLA+ spec Cache.tla (+CacheEval): TLC checks that the two-layer machine of utils/cache (memory layer, sqlite layer, lazily created namespaces) answers every read as the single-map rule (latest unexpired write of that namespace+key, else nothing); state-graph paths and TLC-evaluated random histories are replayed on the real package with a private sqlite file and the real clock',
    'All histories of <=4/5 writes (TTL past/near/far), reads, trims, clears and clock ticks over 2 namespaces x 2 keys x 2 values are explored by TLC (Agree, NoForeignNoStale, SqlIsMap); every state of the <=3/4-operation graph plus random histories are replayed through cache.Read/Write/Trim/Clear with values of 6 Go types, near TTL = now+5 s and Tick = sleeping past it; every read is compared with the specification.',
    'reads closer than 0.4 s to an expiry second are not judged (timing slop, Infra if >20%); which layer answered is not observable', 'DESIGN §6 C30')
add('C09', 'model_checking',
    'TLA+ spec Lexer.tla (family quote): TLC checks the transcribed lexer (preParser, parseStatement, parseExpression, parseString, parseStringInfix with escape flag and parenthesis depth) against the declarative value of a literal for every string up to the bound under five encoders and two positions, and exports the table; every literal is evaluated by the real interpreter and compared',
    'All strings of <=3 characters over 14 symbols (thorough: 21 symbols, and <=4 over 8) x {single quote, double quote minimal / \\s\\t\\r\\n / backslash-everything, %(..)} x {statement argument, assigned expression} are enumerated by TLC with the invariant operational lexer = declarative value = s; seeded random strings up to 200 characters go through the same specification; each text runs in-process.',
    '$ and ~ are escaped/excluded (no expansions); ANSI {CONST} expansion inside %( ) not exercised', 'DESIGN §6 C09')
add('C10', 'model_checking',
    'TLA+ spec Lexer.tla (family cmdline): escape.CommandLine transcribed as its ordered replacements, ParseBlock/preParser/parseStatement transcribed over every character class; TLC checks escape rule, Unescape.Escape = id and lexer round trip for every argv without an unprotected pattern (each pattern shown to break the round trip in the model), exports the table; every argv is run through the real escaper + block/statement parser, the interpreter, esccli, and a sample through the real `murex --execute` binary',
    'argv = plain command + all 1-2 character arguments over printable ASCII/control characters, 1-2 (thorough 1-3) arguments over a 33-symbol class alphabet, seeded random argv of up to 6 arguments; expected result is the argv itself; routes parse / run / esccli / bin are judged independently.',
    'argvToCmdLineStr reproduced by its two calls (package main), tied to main.go by the binary sample; lines mis-read as other commands are judged from the parse result and never executed; no NUL arguments', 'DESIGN §6 C10')
add('C08', 'model_checking',
    'TLA+ spec Lexer.tla (family vars): the $name / @name branches of parseStatement with getVar/CrLfTrimString and canHaveZeroLenStr transcribed; TLC checks for every value/array up to the bound and eight statement forms that the parameters are in the set the property allows (one statement, value minus at most one line ending, one argument per element) and exports the table; each row runs in the real interpreter with variables set through the Go API',
    'Scalar values: every string of <=3 characters over an 18-symbol hostile alphabet; arrays of <=2 (3) single-line elements incl. empty; seeded random values up to 200 characters; observed by a harness builtin, a function $PARAMS, `out`, and (sample) an external argv echo.',
    'variables of type str / json set with Variables.Set; commands that deliberately do not expand $name (set, export, foreach ...) excluded', 'DESIGN §6 C08')
add('C36', 'exploration',
    'TLA+ spec LexerLit.tla: generator of JSON trees, printer in four JSON layouts, expected value = the tree; table exported by TLC; every text is decoded by encoding/json (must equal the tree) and evaluated as a murex %[ ]/%{ } literal in expression and statement position',
    'Trees over 8 literals, 8 strings, 4 keys, <=2 members, second (thorough third) level over reduced subtrees, x {compact, spaced, pretty, line break after colon}; seeded random documents of depth <=4 printed by the same specification.',
    'generator + identity (no transition system); numbers exactly representable in float64; strings without backslash $ ~ ( )', 'DESIGN §6 C36')
add('C34', 'exploration',
    'TLA+ spec LexerSafe.tla: abstract command lines (safe/unsafe commands, 11 argument forms, assignment, 8 flow tokens) printed by TLC together with the structural predicate MustNotRun; real parser.Parse verdict compared, the real ParseBlock (recursive) confirms what each line contains',
    'All lines of 2 segments over the full syntax and 3 segments over a reduced one (thorough: wider); violation = must-not-run, confirmed by ParseBlock, and Unsafe=false; over-caution is not judged.',
    'the tokeniser is not transcribed (exploration); command words confirmed against parser.GetSafeCmds() of the tree under test', 'DESIGN §6 C34')
add('C19', 'exploration',
    'TLA+ spec Robust.tla enumerates the adversarial input space (builtin from the real registry x 0-2 arguments of 29 hostile shapes x 13 stdin shapes; index family: [ ![ [[ x one or two of 19 row/column/key selectors x 7 tabular stdin shapes, always run completely) and states the outcome rule (ok | error with exit != 0; panic/crash/hang forbidden); a seeded sample (thorough: the whole table) plus hand-written error-path programs run in child processes with per-program deadlines, a subset through the real `murex -c` binary',
    'About 38k table rows (quick: 1500 sampled by VERIF_SEED; the whole table has been run once and triaged) and 40 error-path programs (named-pipe misuse with the real 2 s timers, malformed signatures, bad casts, bad block names, out-of-range indexes, unbalanced quotes, bad flag tables); outcome classification from stderr markers (`panic caught`, `Murex has crashed`), process death and missed deadlines; a missed deadline is believed only after the program, run alone, misses a 4x deadline twice more.',
    'specification-derived adversarial generation, not fuzzing of all programs; deny-listed builtins (exit, kill/signal, exec, network, interactive readers, persistent hooks, never-ending loops, definitions that change later rows) are not in the table', 'DESIGN §6 C19')
add('C32', 'exploration',
    'Go race detector on the real code (harness built with -race) under workloads supplied by the specifications: the concurrent pipe drivers of Stream.tla, concurrent registry operations of NamedPipes.tla with the real timers, and the program tables of RunModes.tla / Pipeline.tla plus structured programs and shared-table stress programs (three pipeline stages of one function scope reading and writing the same table) run 4 at a time under schedule perturbation; every distinct race report (keyed by its two access sites) is a finding',
    'The oracle is the race detector, not TLC; the models contribute the workloads and the list of action pairs that can be enabled concurrently (model_coenabled_pairs in the evidence). Races on state no specification drives are only reached through the murex programs.',
    'reports races that happen in the driven executions, not all possible ones', 'DESIGN §6 C32')


def main():
    props = [json.loads(l)['id'] for l in open('/verif/properties.jsonl')]
    checks = []
    for pid in props:
        if pid in CHECKS:
            level, technique, text, note, ref = CHECKS[pid]
            checks.append({
                'property_id': pid,
                'quick_cmd': './check %s --tier quick' % pid,
                'thorough_cmd': './check %s --tier thorough' % pid,
                'evidence_file': '/verif/evidence/%s.json' % pid,
                'replay_cmd_template': './check %s --replay {path}' % pid,
                'engine': 'tlc+mxh',
                'level_claimed': {'category': level, 'text': text, 'design_ref': ref},
                'level_note': note,
                'technique': technique,
            })
    na = []
    for pid in props:
        if pid in CHECKS:
            continue
        if pid in NA:
            na.append({'property_id': pid, 'reason': NA[pid]})
        else:
            na.append({'property_id': pid, 'reason': 'not claimed yet: specification and conformance harness for this property are not built (planned in DESIGN §6/§11)'})
    hooks = subprocess.run(['git', '-C', '/repo', 'log', '--format=%H %s'], stdout=subprocess.PIPE).stdout.decode().splitlines()
    hook_commits = [l.split()[0] for l in hooks if ' verif hooks' in l]
    m = {
        'version': 1,
        'setup_cmd': 'cd /verif && ./setup.sh',
        'hooks': {
            'guard': 'verif',
            'enable': 'go build -tags verif (the harness in /verif/harness is built with -tags verif against /repo via a replace directive)',
            'baseline_off_cmd': "cd /repo && GOFLAGS=-mod=mod GOPROXY=off go test -json -vet=off -count=1 -timeout 25m ./...",
            'source_commits': hook_commits,
            'add_only': True,
        },
        'engines': [
            {'name': 'tlc+mxh', 'path': '/verif/check', 'serves_properties': sorted(CHECKS),
             'kind_free_text': 'TLA+ specifications in /verif/spec checked by TLC; Go conformance harness /verif/harness (mxh) replays TLC behaviours on the real packages and records traces that TLC validates'},
        ],
        'checks': checks,
        'notes': 'exit codes: 0 held, 1 VIOLATION, 2 infrastructure. Known findings: /verif/known_findings.json. Seeded changes: /verif/seeded/.',
        'not_applicable': na,
    }
    json.dump(m, open('/verif/MANIFEST.json', 'w'), indent=1)
    print('checks:', len(checks), 'not_applicable:', len(na))

main()
