#!/usr/bin/env python3
"""usage: seed_meta.py <tag> <detected_by text> : turn seeded/<tag>/meta.agent.json (written by pack_seed.sh) into meta.json"""
import json
import os
import sys

tag, dby = sys.argv[1], sys.argv[2]
d = '/verif/seeded/%s' % tag
a = json.load(open(d + '/meta.agent.json'))
wave2 = tag.endswith('b') or tag.endswith('c')
m = {'property': tag[:3], 'summary': a.get('summary'), 'needs': a.get('needs'), 'demo_cmd': a.get('demo_cmd'),
     'expected_without': a.get('expected_without'), 'expected_with': a.get('expected_with'),
     'origin': (('second wave' if tag.endswith('b') else 'third wave') + ': written by a sub-agent that saw only the property text (and a few sentences naming the earlier ideas to avoid)'
                if wave2 else 'written by a sub-agent that saw only the property text') + ' and a scratch worktree of /repo',
     'confirmed_by_me': {'builds': 'go build ./... ok', 'demo': 'fails with the change, passes without (tools/confirm_seed.sh)', 'suite': 'see /verif/seeded/README.md'},
     'detected_by': dby}
if wave2:
    m['wave'] = 2 if tag.endswith('b') else 3
json.dump(m, open(d + '/meta.json', 'w'), indent=1)
os.remove(d + '/meta.agent.json')
print('wrote', d + '/meta.json')
