#!/usr/bin/env python3
"""Parse Go race detector logs into coarse keys: the two top non-runtime murex frames."""
import os
REPO = os.environ.get('VERIF_REPO', '/repo').rstrip('/')
import re, sys, glob, collections

def parse(text):
    out = []
    for blk in text.split('WARNING: DATA RACE')[1:]:
        blk = blk.split('==================')[0]
        parts = re.split(r'\n(?=Previous (?:read|write) at|Goroutine \d+ \()', blk)
        tops = []
        for part in parts[:2]:
            m = re.search(r'(?:Read|Write|Previous read|Previous write) at .*?\n((?:  .*\n?)+)', part)
            if not m:
                continue
            frames = re.findall(r'^  (\S+)\(\)\n\s+(\S+?):(\d+)', m.group(1), re.M)
            fr = [f for f in frames if 'lmorg/murex' in f[0] or (REPO + '/') in f[1]]
            if fr:
                fn = fr[0][0].replace('github.com/lmorg/murex/', '')
                tops.append('%s@%s' % (fn, fr[0][1].split(REPO + '/')[-1]))
            elif frames:
                tops.append(frames[0][0])
        if tops:
            out.append(' <-> '.join(sorted(set(tops))))
    return out

if __name__ == '__main__':
    c = collections.Counter()
    for f in sys.argv[1:]:
        for k in parse(open(f, errors='replace').read()):
            c[k] += 1
    for k, n in c.most_common():
        print(n, k)
