#!/bin/bash
# usage: tools/confirm_seed.sh <ID-tag> <test-package> <test-run-regex> [full]
# Confirms a seeded change in a scratch worktree of /repo: compiles, demo fails with / passes without,
# package tests (or with `full` the whole suite compared with BASELINE stable_pass) pass with the change.
tag=$1; pkg=$2; rx=$3; full=$4
src=${SEEDSRC:-/tmp/seed-$tag/SEED}
wt=/tmp/confirm-$tag
export GOFLAGS=-mod=mod GOPROXY=off
git -C /repo worktree add -q --detach $wt HEAD || exit 2
cd $wt
cp $src/demo/zz_seed_test.go $pkg/zz_seed_test.go
echo "--- without the change:"; go test $TAGS -vet=off -count=1 -run "$rx" $pkg 2>&1 | tail -2
git apply $src/patch.diff || { echo "patch does not apply"; }
echo "--- build:"; go build ./... 2>&1 | tail -2
echo "--- with the change:"; go test $TAGS -vet=off -count=1 -run "$rx" $pkg 2>&1 | grep -v "^\s*$" | tail -4
rm -f $pkg/zz_seed_test.go
if [ "$full" = full ]; then
  echo "--- whole suite with the change:"; go test -json -vet=off -count=1 -timeout 25m ./... > /tmp/confirm-$tag.json 2>/dev/null; python3 /verif/tools/baseline_cmp.py /tmp/confirm-$tag.json | tail -8
else
  echo "--- package tests with the change:"; go test -vet=off -count=1 $pkg 2>&1 | tail -2
fi
cd /; git -C /repo worktree remove --force $wt
