"""C33 - redirections route output exactly as written.  spec/Redirect.tla."""
import os
from vlib import common, prog

LEVEL = 'exploration'

PAYLOADS = [(['O1'], ['E1']), (['O1', 'O2'], ['E1', 'E2']), (['o x;|'], ['e $HOME *'])]


def q(s):
    return "'" + s + "'"


def render_route(c, cid, pay):
    o, e = pay
    body = ''.join('out %s; ' % q(x) for x in o) + ''.join('err %s; ' % q(x) for x in e)
    src = 'function wr%d { %s }\n' % (cid, body)
    cmd = 'wr%d %s %s' % (cid, c['ot'], c['et'])
    if c['pos'] == 'piped':
        cmd += ' -> foreach l%d { out "got:$l%d" }' % (cid, cid)
    if c['ctx'] == 'function':
        src += 'function outer%d { %s }\nouter%d' % (cid, cmd, cid)
    else:
        src += cmd
    return src


def expect_route(c, pay):
    o, e = pay
    m = {'O': o, 'E': e}
    out = []
    for k in c['want']['bout']:
        out += m[k]
    for k in c['want']['next']:
        out += ['got:' + x for x in m[k]]
    err = []
    for k in c['want']['berr']:
        err += m[k]
    return sorted(out), sorted(err)


def run(ck, replay=None):
    ck.cov['rule'] = ('TLC evaluates the routing rule of Redirect.tla (stdout token in {none,<err>,<null>} x stderr token in {none,<!out>,<!null>} x '
                      'last-of-pipeline/piped x top-level/inside a function; and the |> / >> file rules incl. two operations in a row) and asserts '
                      'that no byte is duplicated or invented; each row is executed with three payloads (one line, two lines, shell-significant '
                      'characters) by the real interpreter; the lines arriving on the block stdout, the block stderr, the stdin of the next '
                      'command and in the file are compared with the table.  non-trivial = at least one redirection token or file operator; '
                      'distinct = different (row, payload).')
    ck.assumptions += ['the writer is a murex function that writes its stdout lines then its stderr lines',
                       'lines are compared as multisets per sink (two streams merged into one sink have no specified relative order)']
    wd = os.path.join(ck.scratch, 'gen')
    r = common.tlc('Redirect', 'MCRedirect.cfg', wd, workers=1, timeout=300)
    if r.violated:
        raise common.Infra('Redirect.tla: %s\n%s' % (r.violated, r.out[-2000:]))
    cases = common.read_ndjson(os.path.join(wd, 'cases.ndjson'))
    jobs = []
    meta = {}
    cid = 0
    fdir = os.path.join(ck.scratch, 'files')
    os.makedirs(fdir)
    for c in cases:
        if c['kind'] == 'route':
            for pi, pay in enumerate(PAYLOADS):
                cid += 1
                src = render_route(c, cid, pay)
                jobs.append({'id': cid, 'src': src, 'timeout_ms': 20000})
                meta[cid] = (c, pay, src, None)
        elif c['kind'] == 'file':
            cid += 1
            f = os.path.join(fdir, 'f%d.txt' % cid)
            if c['before']:
                open(f, 'w').write(''.join(x + '\n' for x in c['before']))
            w = ('out ' + ' '.join(c['bytes'])) if len(c['bytes']) == 1 else ('a [%s]' % ','.join(c['bytes']) if c['bytes'] else 'tout str ""')
            if len(c['bytes']) == 1:
                w = 'out %s' % c['bytes'][0]
            src = '%s %s %s %s' % (w, c['op'], c.get('flag', ''), f)
            jobs.append({'id': cid, 'src': src, 'timeout_ms': 20000})
            meta[cid] = (c, None, src, f)
        elif c['kind'] == 'self':
            cid += 1
            f = os.path.join(fdir, 'f%d.txt' % cid)
            open(f, 'w').write(''.join(x + '\n' for x in c['before']))
            rx = '|'.join(sorted(c['keep'])) or 'zzz'
            src = "open %s -> regexp 'm/^(%s)$/' %s %s" % (f, rx, c['op'], f)
            jobs.append({'id': cid, 'src': src, 'timeout_ms': 20000})
            meta[cid] = (c, None, src, f)
        else:
            cid += 1
            f = os.path.join(fdir, 'f%d.txt' % cid)
            open(f, 'w').write('p\n')
            src = 'out %s %s %s\nout %s %s %s' % (c['x1'][0], c['op1'], f, c['x2'][0], c['op2'], f)
            jobs.append({'id': cid, 'src': src, 'timeout_ms': 20000})
            meta[cid] = (c, None, src, f)
    res = prog.run_programs(ck, jobs, shards=8, tag='c33')
    nontriv = set()
    for cid, (c, pay, src, f) in meta.items():
        x = res.get(cid)
        ck.cov['evaluations'] += 1
        if x is None or x['status'] != 'done':
            ck.violation('crash-or-hang:' + src, 'program crashed or hung: %s' % (x and x['status']), {'src': src})
            continue
        r = x['runs'][0]
        if r.get('panic'):
            ck.violation('panic:' + src, r['panic'], {'src': src})
            continue
        if c['kind'] == 'route':
            eo, ee = expect_route(c, pay)
            go = sorted(r['out'].decode('utf-8', 'replace').split('\n')[:-1])
            ge = sorted(r['err'].decode('utf-8', 'replace').split('\n')[:-1])
            key = 'route:%s:%s:%s:%s' % (c['ot'] or '-', c['et'] or '-', c['pos'], c['ctx'])
            if go != eo or ge != ee:
                ck.violation(key, '`cmd %s %s` (%s, %s): block stdout got %s, stderr got %s; rule: stdout %s, stderr %s' % (
                    c['ot'], c['et'], c['pos'], c['ctx'], go, ge, eo, ee), {'src': src, 'stdout': go, 'stderr': ge, 'want_stdout': eo, 'want_stderr': ee})
            else:
                ck.cov['traces_validated_against_impl'] += 1
                if c['ot'] or c['et']:
                    nontriv.add(key + str(pay))
                    if len(ck.cov['samples']) < 3 and c['ot'] and c['et']:
                        ck.sample({'src': src, 'stdout': go, 'stderr': ge})
        else:
            want = ''.join(x + '\n' for x in c['after'])
            got = open(f).read() if os.path.exists(f) else None
            if c['kind'] == 'file' and not c['bytes']:
                # an empty stream: the file must hold nothing new
                pass
            key = '%s:%s%s' % (c['kind'], c.get('op') or (c['op1'] + c['op2']), c.get('flag', ''))
            if got != want:
                ck.violation(key + ':' + src.replace(fdir, ''), 'file holds %r; rule: %r' % (got, want), {'src': src, 'file': got, 'want': want})
            else:
                ck.cov['traces_validated_against_impl'] += 1
                nontriv.add(key + str(c))
                if len(ck.cov['samples']) < 5 and c['kind'] == 'file2':
                    ck.sample({'src': src.replace(fdir, '<dir>'), 'file': got})
    ck.cov['distinct_nontrivial'] = len(nontriv)
    ck.cov['exhaustive'] = True
    if not ck.violations and len(nontriv) < 40:
        raise common.Infra('vacuous: %d' % len(nontriv))
