"""C05 - try/trypipe stop on failure and honour ||.  spec/RunModes.tla."""
from vlib import common
from . import runmodeslib as L

LEVEL = 'model_checking'


def run(ck, replay=None):
    quick = ck.tier == 'quick'
    maxlen = 4 if quick else 5
    ck.cov['rule'] = ('TLC enumerates every block of <= %d commands (exit numbers {0,1,3}, joined by ; newline && || |) in modes try and trypipe, '
                      'checks that the transcribed scheduler loops (runModeTry/runModeTryPipe: wait points, || skipping, abort) agree with the '
                      'pipeline rule of the property on all of them, and exports the table; every block is executed by the real interpreter as '
                      '`try {}` / `trypipe {}` and as a function starting with `runmode try|trypipe function`, and as a try (trypipe) block nested in a function whose runmode directive names the other mode; commands that ran and the exit '
                      'number are compared.  A seeded sample runs once more with every pipe logging its own open/close/append events, validated against StreamUse.tla (no pipe closed more often than opened, no write after the last writer left, counters back at 0).  non-trivial = at least one &&/|| and one non-zero exit; distinct = different (mode, block).' % maxlen)
    ck.assumptions += ['blocks where a || alternative heads a longer pipeline are executed but not judged (the property speaks of alternatives as commands)',
                       'tryerr/trypipeerr are not part of the property']
    cases = L.gen_cases(ck, maxlen, ['try', 'trypipe'])
    ck.cov['exhaustive'] = True
    n = L.run_table(ck, cases, ['top', 'fn', 'nest'])
    # StreamUse.tla on the same blocks: abandoned and skipped commands have their streams closed by the scheduler itself
    import random
    from . import streamuselib as SU
    rng = random.Random(ck.seed)
    sample = list(cases)
    rng.shuffle(sample)
    jobs = []
    for k, c in enumerate(sample[:(300 if quick else 2000)]):
        for v in ('top', 'fn', 'nest'):
            jobs.append({'id': len(jobs) + 1, 'src': L.render(c, len(jobs) + 1, v, rng)})
    SU.run_binding(ck, jobs, perturb=ck.seed * 100 + 3, tag='su')
    if not ck.violations and n < 100:
        raise common.Infra('vacuous: %d non-trivial programs' % n)
