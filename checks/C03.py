"""C03 - sequential programs give the same result under any schedule.  spec/Pipeline.tla (+ RunModes.tla)."""
import json
import os
import random
from vlib import common, prog
from . import runmodeslib as L
from . import lifecyclelib as LC
from . import streamuselib as SU

LEVEL = 'model_checking'

# every stage uses its own loop variable: stages of a pipeline run concurrently in one scope, so a
# shared variable name would be a race in the *program* (not "sequential" in the property's sense)
STAGE = {
    'mapx': 'foreach v%d { out "x$v%d" }',
    'dup': 'foreach v%d { out $v%d; out $v%d }',
    'tac': 'mtac',
    'errtee': 'foreach v%d { err "e$v%d"; out $v%d }',
    'cast': 'cast str',
    'ifa': 'foreach v%d { if { $v%d == "a" } then { out A } else { out $v%d } }',
    'sw': 'foreach v%d { switch $v%d { case "b" { out B }; default { out $v%d } } }',
    'var': 'foreach v%d { w%d = "v$(v%d)"; w%d = "$(w%d)v"; out $w%d }',
    'tryf': 'foreach v%d { try { fl; out never }; out "t$v%d" }',
    'trys': 'foreach v%d { try { out "s$v%d" || out never } }',
    'tpf': 'foreach v%d { trypipe { fl | out never; out never2 }; out "p$v%d" }',
    'ffif': 'qff -> if { out T } else { out F }',
    'fsif': 'qfs -> if { out T } else { out F }',
}


def render(case, cid):
    pre = ('function fnst%d { -> foreach fv { out "f$fv" } }\nfunction fl { return 1 }\n'
           'function qff { -> foreach qv { out "q$qv" }; return 1 }\nfunction qfs { -> foreach qv { out "q$qv" }; return 0 }\n') % cid
    parts = []
    n = 0
    for p in case['prog']:
        s = 'a [%s]' % ','.join(p['src'])
        for k in p['stages']:
            n += 1
            t = STAGE.get(k, '')
            s += ' -> ' + (('fnst%d' % cid) if k == 'fn' else (t % tuple([n] * t.count('%d'))))
        parts.append(s)
    return pre + '\n'.join(parts)


def text(lines):
    return ''.join(''.join(l) + '\n' for l in lines)


def run(ck, replay=None):
    quick = ck.tier == 'quick'
    K = 4 if quick else 40
    ck.cov['rule'] = ('TLC explores every interleaving of the stage processes of every pipeline (source of <=2 lines, <=3 stages from '
                      'map / function / duplicate / reverse(aggregating) / stderr-tee, channel capacity 1) and checks termination, no deadlock '
                      'and final output = the sequential meaning Seq(P); the table of programs (every pipeline, plus pairs joined by ;) with '
                      'Seq(P) is exported, each program is rendered to murex and executed %d times under seeded random yields/sleeps at the '
                      'hook points (process start/teardown, every pipe lock region), and stdout, stderr and exit number of every run must equal '
                      'Seq(P); the C04/C05 chain programs (operators ; && || | in normal/try/trypipe mode) are re-run the same way.  Lifecycle.tla (scheduler, '
                      'process and waiter goroutines, WaitForTermination rendezvous) is model-checked for deadlock freedom, termination, sequential start and '
                      'release-once, and bound to the code: the chain programs with true/false commands run with the scheduler / process gates logged in one '
                      'total order and TLC validates every log against LifecycleTrace.tla (gates = actions, the rendezvous and the scheduler bookkeeping silent).  '
                      'StreamUse.tla: the programs run once more with every pipe logging its own open / close / append events; TLC checks on the logs that no pipe '
                      'is closed more often than opened (early end-of-stream for a concurrent reader), nothing is written after the last writer left, and all '
                      'counters are back at 0 at the end.  '
                      'non-trivial = at least two concurrent stages or a conditional operator; distinct = different programs.' % K)
    ck.assumptions += ['vocabulary: a (mkarray), foreach, out, err, mtac, cast, if/else, switch, variables and string expressions, functions, try/trypipe blocks inside a stage body (abandoned after a failure, skipped || alternative), ; newline && || try trypipe - no bg, timers or randomness',
                       'at most one stage of a pipeline writes to the shared stderr (otherwise interleaving there is by design)',
                       'concurrent stages use distinct variable names (blocks share the enclosing function\'s variables, C11)',
                       'a run that does not return within 20 s is a hang']
    mc = {}
    for cfg in (['MCPipelineLiveQ.cfg'] if quick else ['MCPipeline.cfg']):
        r = common.tlc('Pipeline', cfg, os.path.join(ck.scratch, 'mc-' + cfg), timeout=3000)
        if r.violated:
            raise common.Infra('Pipeline.tla violates %s in %s: the specification is wrong\n%s' % (r.violated, cfg, r.out[-3000:]))
        ck.add_tlc(r)
        mc[cfg] = [r.distinct, r.generated]
    # the process life-cycle protocol itself (scheduler, process and waiter goroutines, rendezvous channels)
    r = common.tlc('Lifecycle', 'MCLifecycle.cfg' if quick else 'MCLifecycleT.cfg', os.path.join(ck.scratch, 'mc-life'), timeout=3000)
    if r.violated:
        raise common.Infra('Lifecycle.tla violates %s: the specification is wrong\n%s' % (r.violated, r.out[-3000:]))
    ck.add_tlc(r)
    mc['Lifecycle'] = [r.distinct, r.generated]
    wd = os.path.join(ck.scratch, 'gen')
    r = common.tlc('PipelineGen', 'MCPipelineGen.cfg', wd, timeout=3000)
    if r.violated:
        raise common.Infra('Pipeline.tla violates %s (safety): the specification is wrong\n%s' % (r.violated, r.out[-3000:]))
    ck.add_tlc(r)
    mc['MCPipelineGen.cfg'] = [r.distinct, r.generated]
    ck.cov['model_checking_runs'] = mc
    cases = common.read_ndjson(os.path.join(wd, 'cases.ndjson'))
    # the wider vocabulary (cast, if, switch, variables/expressions) at <=2 stages
    wd2 = os.path.join(ck.scratch, 'gen2')
    r = common.tlc('PipelineGen', 'MCPipelineGen2.cfg', wd2, timeout=3000)
    if r.violated:
        raise common.Infra('Pipeline.tla violates %s (MCPipelineGen2): the specification is wrong\n%s' % (r.violated, r.out[-3000:]))
    ck.add_tlc(r)
    mc['MCPipelineGen2.cfg'] = [r.distinct, r.generated]
    seen = set(json.dumps(c['prog'], sort_keys=True) for c in cases)
    for c in common.read_ndjson(os.path.join(wd2, 'cases.ndjson')):
        k = json.dumps(c['prog'], sort_keys=True)
        if k not in seen:
            seen.add(k)
            cases.append(c)
    rng = random.Random(ck.seed)
    jobs = []
    meta = {}
    cid = 0
    for c in cases:
        cid += 1
        src = render(c, cid)
        jobs.append({'id': cid, 'src': src, 'repeat': K, 'timeout_ms': 20000})
        nstages = max(len(p['stages']) for p in c['prog'])
        meta[cid] = ('pipe', c, src, text(c['out']), text(c['err']), 0, nstages >= 2)
    # chain programs from RunModes.tla under perturbation
    chains = L.gen_cases(ck, 3 if quick else 4, ['normal', 'try', 'trypipe'])
    for c in chains:
        if not c['judged']:
            continue
        cid += 1
        src = L.render(c, cid, 'top', rng)
        eo, ee = L.expected(c)
        # a pipeline followed by another command: the schedule-sensitive shape (who waits for whom at the
        # end of a pipeline) - give it more runs
        ops = [k['op'] for k in c['prog']]
        follow = any(ops[i] == '|' and any(o != '|' for o in ops[i + 1:]) for i in range(len(ops)))
        jobs.append({'id': cid, 'src': src, 'repeat': K * (5 if follow else 1), 'timeout_ms': 20000})
        meta[cid] = ('chain', c, src, ''.join(x + '\n' for x in eo), ee, c['exit'], L.nontrivial(c))
    res = prog.run_programs(ck, jobs, perturb=ck.seed * 1000 + 7, tag='c03')
    nontriv = set()
    ok = 0
    for cid, (kind, c, src, eo, ee, eexit, nt) in meta.items():
        x = res.get(cid)
        ck.cov['evaluations'] += len(x['runs']) if x and x.get('runs') else K
        if x is None:
            raise common.Infra('no result for case %d' % cid)
        if x['status'] == 'crashed':
            ck.violation('crash:' + src, 'interpreter died: ' + x.get('stderr', '')[-300:], {'src': src})
            continue
        if x['status'] == 'hung':
            ck.violation('hang:' + src, 'program did not finish within 20 s under schedule perturbation (run %d of %d)' % (len(x['runs']), K), {'src': src})
            continue
        bad = None
        for k, r in enumerate(x['runs']):
            out = r['out'].decode('utf-8', 'replace')
            err = r['err'].decode('utf-8', 'replace')
            if r.get('panic'):
                bad = 'internal panic: %s' % r['panic']
            elif kind == 'pipe' and (out != eo or err != ee or r['exit'] != 0):
                bad = 'run %d: stdout %r stderr %r exit %d; Seq(P): stdout %r stderr %r exit 0' % (k, out, err, r['exit'], eo, ee)
            elif kind == 'chain' and (out != eo or sorted(err.split('\n')[:-1]) != ee or r['exit'] != eexit
                                      or not L.stderr_in_pipeline_order(c, err.split('\n')[:-1])):
                bad = 'run %d: stdout %r stderr %r exit %d; Seq(P): stdout %r stderr(set) %r exit %d' % (k, out, err, r['exit'], eo, ee, eexit)
            if bad:
                break
        if bad:
            ck.violation('result:' + src, bad, {'src': src, 'runs': [{'out': r['out'].decode('utf-8', 'replace'), 'err': r['err'].decode('utf-8', 'replace'), 'exit': r['exit']} for r in x['runs'][:8]]})
        else:
            ok += len(x["runs"])
            if nt:
                nontriv.add(src)
                if len(ck.cov['samples']) < 4 and kind == 'pipe' and len(c['prog']) == 1 and len(c['prog'][0]['stages']) == 3:
                    ck.sample({'src': src, 'expected_stdout': eo, 'expected_stderr': ee, 'runs': K})
    # StreamUse.tla: how the interpreter uses its own pipes while these programs run (open/close counters, late writes, balance)
    sujobs = [{'id': j['id'], 'src': j['src']} for j in jobs]
    rng.shuffle(sujobs)
    ok += SU.run_binding(ck, sujobs[:(400 if quick else 6000)], perturb=ck.seed * 1000 + 29, tag='su')
    # Lifecycle.tla bound to the real scheduler: gate logs of the chain programs (true/false commands) validated by TLC
    lcases = list(chains)
    if not quick:
        rng.shuffle(lcases)
        lcases = lcases[:6000]
    for rep in range(1 if quick else 3):
        ok += LC.run_binding(ck, lcases, perturb=(ck.seed * 1000 + 13 + 100 * rep) if rep != 1 else 0, tag='lc%d' % rep)
    ck.cov['traces_validated_against_impl'] = ok
    ck.cov['distinct_nontrivial'] = len(nontriv)
    ck.cov['exhaustive'] = False
    if not ck.violations and len(nontriv) < 200:
        raise common.Infra('vacuous: %d non-trivial programs' % len(nontriv))


def selftest(ck):
    """binding demonstration for LifecycleTrace.tla: corrupted gate logs must be rejected"""
    import copy
    cases = [c for c in L.gen_cases(ck, 3, ['normal', 'try', 'trypipe'])]
    traces = LC.record(ck, cases, 0, 'st')
    ok0, rej0 = LC.validate(ck, traces, 'st0')
    common.log('selftest: %d pristine logs -> %d accepted, %d rejected' % (len(traces), ok0, len(rej0)))
    good = not rej0

    def first(pred):
        for i in sorted(traces):
            if pred(cases[i], traces[i]):
                return i
        raise common.Infra('selftest: no suitable trace')

    def pos(lines, ev, k=None):
        for n, x in enumerate(lines):
            if x['ev'] == ev and (k is None or x.get('k') == k):
                return n
        return None

    # 1. normal mode, `a ; b`: the second command is started before the first one was about to signal its end
    i = first(lambda c, t: c['mode'] == 'normal' and len(c['prog']) == 2 and c['prog'][1]['op'] == ';')
    t = copy.deepcopy(traces[i])
    d1 = pos(t, 'proc.destroy', 1)
    spawns = [n for n, x in enumerate(t) if x['ev'] == 'rm.spawn']
    x = t.pop(spawns[1])
    t.insert(d1, x)
    _, r1 = LC.validate(ck, {i: t}, 'st1')
    common.log('selftest: second spawn of `%s` moved before proc.destroy(1) -> %s' % (LC.render(cases[i]), 'rejected' if r1 else 'ACCEPTED'))
    # 2. a pipeline `a | b`: the later stage is about to signal its end before the earlier one is
    i = first(lambda c, t: c['mode'] == 'normal' and len(c['prog']) == 2 and c['prog'][1]['op'] == '|')
    t = copy.deepcopy(traces[i])
    a, b = pos(t, 'proc.destroy', 1), pos(t, 'proc.destroy', 2)
    t[a], t[b] = t[b], t[a]
    _, r2 = LC.validate(ck, {i: t}, 'st2')
    common.log('selftest: proc.destroy(2) before proc.destroy(1) in `%s` -> %s' % (LC.render(cases[i]), 'rejected' if r2 else 'ACCEPTED'))
    # 3. a missing hook: the start of a process goroutine
    t = copy.deepcopy(traces[i])
    del t[pos(t, 'proc.exec', 2)]
    _, r3 = LC.validate(ck, {i: t}, 'st3')
    common.log('selftest: proc.exec(2) removed -> %s' % ('rejected' if r3 else 'ACCEPTED'))
    # 4. try mode, `false ; true`: the block is abandoned after the failure, a spawn of the second command is not explainable
    i = first(lambda c, t: c['mode'] == 'try' and len(c['prog']) == 2 and c['prog'][1]['op'] == ';' and c['prog'][0]['exit'] == 1)
    t = copy.deepcopy(traces[i])
    e = pos(t, 'end')
    t[e:e] = [{'ev': 'rm.spawn'}, {'ev': 'proc.exec', 'k': 2}]
    _, r4 = LC.validate(ck, {i: t}, 'st4')
    common.log('selftest: try { false ; true } with the second command started -> %s' % ('rejected' if r4 else 'ACCEPTED'))
    # StreamUse.tla: a pipe-use log with one `open` event removed / one `close` duplicated must be flagged
    import subprocess
    mxh = common.build_mxh()
    inp, outp, evp = (os.path.join(ck.scratch, 'su-' + x) for x in ('in.ndjson', 'out.ndjson', 'ev.ndjson'))
    common.write_ndjson(inp, [{'id': 1, 'src': 'a [a,b] -> foreach v { out "x$v" } -> cast str'}])
    subprocess.run([mxh, 'run-programs', '-in', inp, '-out', outp, '-suevents', evp], check=True, timeout=300)
    rows = common.read_ndjson(evp)

    def su(rs, label):
        r = common.tlc('StreamUse', 'StreamUse.cfg', os.path.join(ck.scratch, label), workers=1, timeout=600,
                       files={'trace.ndjson': ''.join(json.dumps(x) + '\n' for x in rs)})
        return bool(r.violated)
    s0 = su(rows, 'su0')
    common.log('selftest: pristine pipe-use log (%d events) -> %s' % (len(rows), 'FLAGGED' if s0 else 'accepted'))
    i = [k for k, x in enumerate(rows) if x['ev'] == 'open'][1]
    s1 = su(rows[:i] + rows[i + 1:], 'su1')
    common.log('selftest: one open event removed -> %s' % ('flagged' if s1 else 'ACCEPTED'))
    j = [k for k, x in enumerate(rows) if x['ev'] == 'close'][-1]
    extra = dict(rows[j], n=rows[j]['n'] - 1)
    s2 = su(rows[:j + 1] + [extra] + rows[j + 1:], 'su2')
    common.log('selftest: last close of a pipe repeated (counter -1) -> %s' % ('flagged' if s2 else 'ACCEPTED'))
    return good and bool(r1) and bool(r2) and bool(r3) and bool(r4) and not s0 and s1 and s2
