"""C34 - autocomplete never runs a line containing unsafe commands.  spec/LexerSafe.tla."""
import json
import os

from vlib import common
from . import lexerlib as L

LEVEL = 'exploration'


def run(ck, replay=None):
    quick = ck.tier == 'quick'
    ck.cov['rule'] = ('TLC enumerates command lines over an abstract syntax (segments = safe/unsafe command word, with or without a blank after '
                      'it, one argument form out of: none, plain, quoted, escaped, { block }, {block} without blanks, ${sub-shell}, @{sub-shell}, sub-shells inside quotes, $var, `> f`, `>> f`, '
                      '`|> f`, `x>>f` and `x|>f` without blanks; command words with an escaped character (`zz\\out`, `\\zout`); or an assignment `v = 1` / `out = 1`; joined by | -> ; && || => ? (also tight: `x? y`) newline; the last segment is the safe command being '
                      'completed), prints each line and says from the structure whether the text before the last flow token (what '
                      'dynamic.go executes) must not be run: it runs a command that is not on the safe list (also inside a block or '
                      'sub-shell), or contains an assignment, a redirection to a file or a sub-shell.  On the real code: parser.Parse(line, 0) '
                      'as shell/tab.go calls it gives Unsafe and LastFlowToken; the real ParseBlock on Source[:LastFlowToken], walked '
                      'recursively, must confirm that the text really contains what the abstract line says (otherwise the row is discarded '
                      'and counted).  Violation = must-not-run and confirmed and not Unsafe.  non-trivial = a line that must not run; '
                      'distinct = different lines.')
    ck.assumptions += ['the command words out/true (safe) and kill/vxrm (not on the list) are confirmed against parser.GetSafeCmds() of the code under test',
                       'lines the tokeniser flags although they could run (over-caution) are not violations: the property is one-directional',
                       'the specification is a generator plus a structural predicate (level: exploration); the tokeniser itself is not transcribed']
    cfg = open(os.path.join(common.SPEC, 'MCLexerSafe.cfg')).read()
    if not quick:
        cfg = cfg.replace('Plans <- PlansQ', 'Plans <- PlansT')
    wd = os.path.join(ck.scratch, 'tlc-safe')
    r = common.tlc('LexerSafe', 'Run.cfg', wd, files={'Run.cfg': cfg}, timeout=6000, workers=2)
    if r.violated:
        raise common.Infra('LexerSafe.tla: %s\n%s' % (r.violated, r.out[-3000:]))
    ck.add_tlc(r)
    cases = common.read_ndjson(os.path.join(wd, 'cases.ndjson'))
    names = common.read_ndjson(os.path.join(wd, 'names.ndjson'))[0]
    ck.cov['exhaustive'] = True
    ck.cov['table_rows'] = len(cases)

    rows = [{'id': 0, 'op': 'unsafe', 'text': ''}] + [{'id': i + 1, 'op': 'unsafe', 'text': L.txt(c['text'])} for i, c in enumerate(cases)]
    res = L.run_lexer_confirm(ck, rows, tag='c34')
    safe_list = set((res[0].get('extra') or {}).get('safe_list') or [])
    if not safe_list:
        raise common.Infra('could not read the safe-command list: %s' % res[0])
    for n in names['safe']:
        if L.txt(n) not in safe_list:
            raise common.Infra('LexerSafe.tla: %s is not on the safe list of this tree' % L.txt(n))
    for n in names['unsafe']:
        if L.txt(n) in safe_list:
            raise common.Infra('LexerSafe.tla: %s is on the safe list of this tree' % L.txt(n))

    nontriv = 0
    discarded = 0
    overcautious = 0
    for i, c in enumerate(cases):
        ck.cov['evaluations'] += 1
        text = L.txt(c['text'])
        x = res.get(i + 1)
        if x is None:
            raise common.Infra('no result for row %d' % i)
        where = ','.join(sorted('%s%s' % (w[0], ('-' + w[1]) if w[1] else '') for w in c['where']))
        reasons = ','.join(sorted(c['reasons']))
        def key(outcome, reasons=reasons, where=where, doc=json.dumps(text, ensure_ascii=True)):
            return 'c34:%s:[%s]:[%s]:%s' % (outcome, reasons, where, doc)
        if x['status'] in ('hung', 'crashed') or x.get('panic'):
            ck.violation(key(x['status'] if x['status'] != 'done' else 'panic'), 'tokeniser / block parser %s on %s' % (x['status'], json.dumps(text)), {'line': text})
            continue
        info = x.get('extra') or {}
        if not c['must_not_run']:
            if info.get('unsafe'):
                overcautious += 1
            ck.cov['traces_validated_against_impl'] += 1
            continue
        # confirmation by the real block parser: the executed text really contains what the abstract line says
        confirmed = not info.get('parse_err')
        found = set(info.get('cmds') or [])
        if 'unsafe-command' in c['reasons'] and not (set(L.txt(u) for u in c['unsafe_cmds']) & (found - safe_list)):
            confirmed = False
        if c['reasons'] == ['assignment'] and not info.get('exprs'):
            confirmed = False
        if c['reasons'] == ['sub-shell'] and not info.get('subshells'):
            confirmed = False
        if c['reasons'] == ['file-redirect'] and not (found & {'>', '>>', '|>'}):
            confirmed = False
        if not confirmed:
            discarded += 1
            continue
        nontriv += 1
        if info.get('unsafe'):
            ck.cov['traces_validated_against_impl'] += 1
            if len(ck.cov['samples']) < 4 and c['njoin'] >= 2:
                ck.sample({'line': text, 'would_execute': info.get('prefix'), 'commands_found_by_ParseBlock': sorted(found), 'reasons': c['reasons'], 'Unsafe': True})
            continue
        ck.violation(key('runs'),
                     'typing %s and pressing TAB: the tokeniser says safe, so %s would be executed; ParseBlock finds the commands %s in it (%s)' % (
                         json.dumps(text), json.dumps(info.get('prefix')), sorted(found), reasons),
                     {'line': text, 'executed': info.get('prefix'), 'commands': sorted(found), 'reasons': c['reasons'], 'unsafe_flag': False})
    ck.cov['distinct_nontrivial'] = nontriv
    ck.cov['rows_discarded_not_confirmed_by_ParseBlock'] = discarded
    ck.cov['rows_flagged_unsafe_although_runnable'] = overcautious
    if discarded > len(cases) // 3:
        raise common.Infra('too many rows not confirmed by the real parser: %d of %d' % (discarded, len(cases)))
    if not ck.violations and nontriv < 500:
        raise common.Infra('vacuous: %d must-not-run lines' % nontriv)
