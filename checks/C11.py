"""C11 - variables are scoped per function call; globals are shared.  spec/Scopes.tla."""
from vlib import common
from . import scopeslib as L

LEVEL = 'model_checking'


def run(ck, replay=None):
    quick = ck.tier == 'quick'
    ck.cov['rule'] = ('TLC enumerates every well-nested history of set / unset / global set / global unset on the names and of '
                      'call..return and block..end (bounds in model_checking_runs), checks after every operation that the transcribed '
                      'fork/table machine (lang/fork.go: new table per F_FUNCTION fork, shared table for blocks; lang/variables.go: '
                      'local -> GlobalVariables lookup, Unset on one table) observes exactly what the declarative rule of the property '
                      'says (a read sees the running call\'s own latest binding, else the latest global one, else undefined), and exports '
                      'the table.  Every history is rendered to one murex program (one function per call, blocks as if / switch / '
                      'foreach / ${} - quick: one program per block kind; thorough: two kinds plus one program with a random kind per block, deep plan: the latter only; the value written by operation j is "vj"), executed by the real '
                      'interpreter, and after every operation `$n` and `$GLOBAL.n` of every name are read and compared with the table.  '
                      'A third pass writes integers with typed forms (`set int n=`, `n = 105`, `-> set int n`) and reads in value context (`${ $n + 0 }`, the expression evaluator\'s look-up path).  non-trivial = at least one call or block and at least two writes; distinct = different (history, block kind).')
    ck.assumptions += ['a program that runs into its 20 s limit is run again on its own three times (120 s limit); only a hang that shows again is reported (a stall on a loaded machine is not a hang)']
    ck.assumptions += ['the program body is itself a function call (mxh run-programs forks F_FUNCTION like `source` and scripts do)',
                       'an undefined read must yield no value: the undefined-variable error (default strict-vars) or an empty string are both accepted',
                       'the exit status of `!set`/`!global` on an unbound name is not judged (the property does not state it)',
                       'environment variables are outside the property: generated names never exist in the environment',
                       'set forms (`n = "v"`, `set n=v`, `out v -> set n`, same for global) are chosen at random per write (VERIF_SEED)']
    runner = L.prog_runner(ck, 'c11')
    plans = [('xy', ['x', 'y'], 4, 3, 'all')] if quick else [('xy', ['x', 'y'], 5, 3, 'some'), ('x-deep', ['x'], 6, 4, 'mixed')]
    ck.cov['exhaustive'] = True
    n = 0
    for tag, names, maxlen, maxdepth, kinds in plans:
        cases = L.gen_cases(ck, 'var', 'function', names, [], [], maxlen, maxdepth, tag)
        n += L.run_table(ck, cases, runner, tag=tag, kinds=kinds)
        # the same histories with one constant value for every write (a local write may then repeat the
        # value the global currently holds); reads still tell a binding from no binding
        exh = ck.cov['exhaustive']
        L.VALFN[0] = lambda j: 'vc'
        try:
            L.run_table(ck, cases, runner, tag=tag + '-const', kinds='mixed', limit=(3000 if quick else 20000))
        finally:
            L.VALFN[0] = lambda j: 'v%d' % j
        # ... and with integer values, typed writes and reads in value context (expression evaluator)
        L.VALFN[0] = lambda j: str(100 + j)
        L.NUMERIC[0] = True
        try:
            L.run_table(ck, cases, runner, tag=tag + '-num', kinds='mixed', limit=(3000 if quick else 20000))
        finally:
            L.VALFN[0] = lambda j: 'v%d' % j
            L.NUMERIC[0] = False
        ck.cov['exhaustive'] = exh
    if not ck.violations and n < (1000 if quick else 10000):
        raise common.Infra('vacuous: %d non-trivial histories' % n)
