"""C38 - list builtins preserve their elements.  spec/Arrays.tla section 5, spec/ArraysTrace.tla."""
import hashlib
import itertools
import json
import random
from vlib import common
from . import arrayslib as L

LEVEL = 'exploration'
# hostile but legal: shell, JSON and mkarray metacharacters, multi-byte runes; no newline, no '
ALPHA = list('abzAZ09 "\\$()[]{},:#|><&;*?~!%@=-_./') + ['é', 'ü', '日']
ASCII = list('abcxyzAZ019 "\\$()[],:#|>;*~%@=-_.')
SMALL = ['a', 'b"', 'a b', '$x\\', '日[,']


def word(rng, alpha, lo, hi, strict=False):
    while True:
        w = ''.join(rng.choice(alpha) for _ in range(rng.randint(lo, hi)))
        if not strict or (w == w.strip() and w != ''):
            return w


def src_of(dt, xs, cmd):
    if dt == 'json':
        doc = json.dumps(xs, ensure_ascii=False, separators=(',', ':'))
    else:
        doc = ''.join(x + '\n' for x in xs)
    return 'tout %s %s -> %s' % (dt, L.sq(doc), cmd)


def run(ck, replay=None):
    only = L.replay_begin(ck, replay)
    rng = random.Random(ck.seed)
    quick = ck.tier == 'quick'
    nrand = 110 if quick else 400
    ck.cov['rule'] = ('Random JSON string arrays and str lists of 0-40 elements over a hostile alphabet (shell/JSON/mkarray metacharacters, multi-byte runes, '
                      'empty elements in JSON) plus every list of <=3 elements over 5 hostile spellings are pushed through the real msort, mtac, prepend, append, '
                      'match, !match, left, right, prefix and suffix; (input, parameters, decoded output) are recorded as byte sequences and TLC evaluates the '
                      'relations of Arrays.tla on every record via ArraysTrace.tla: msort = permutation of the input in non-decreasing byte order (checked as '
                      'a relation, not by re-sorting), mtac = reverse, prepend/append = given elements added at the start/end, match/!match = complementary '
                      'subsequences selected by "contains the pattern", left/right/prefix/suffix = element-wise.  non-trivial = list of >=2 elements; '
                      'distinct = (operation, type, input, parameters).')
    ck.assumptions += ['elements contain no newline and no single quote (murex single-quoted literals carry them verbatim); str elements are non-empty without leading/trailing whitespace',
                       'left/right are exercised on ASCII elements only (byte vs. character counting of multi-byte runes is not specified) and with k != 0',
                       'outputs are compared as texts (msort/prepend may re-type numbers as strings); an empty stdout counts as the empty list',
                       'list.case is not part of the property statement and is not exercised']
    lists = []
    for n in range(0, 4):
        for t in itertools.product(SMALL, repeat=n):
            lists.append(('small', list(t)))
    for _ in range(nrand):
        n = rng.choice([0, 1, 2, 3, 5, 8, 13, 21, 34, 40]) if rng.random() < 0.5 else rng.randint(0, 40)
        lists.append(('rand', None, n))
    # a few lists whose total size is far beyond any I/O buffer (40 elements of 100-400 bytes)
    for _ in range(6):
        lists.append(('big', None, 40))
    jobs, plan = [], []
    cid = 0
    for ent in lists:
        for dt in ['json', 'str']:
            ops = ['msort', 'mtac', 'prepend', 'append', 'match', 'left', 'right', 'prefix', 'suffix']
            if ent[0] == 'small':
                ops = rng.sample(ops, 4)      # the exhaustive small lists: 4 operations each, seeded
            for op in ops:
                alpha = ASCII if op in ('left', 'right') else ALPHA
                if ent[0] == 'small':
                    xs = ent[1]
                    if op in ('left', 'right'):
                        xs = [x.replace('日', 'J') for x in xs]
                else:
                    n = ent[2]
                    if ent[0] == 'big':
                        if op not in ('msort', 'mtac', 'append', 'match'):
                            continue
                        xs = [word(rng, alpha, 100, 400, strict=True) for _ in range(n)]
                    elif dt == 'json':
                        xs = [word(rng, alpha, 0, 8) for _ in range(n)]
                    else:
                        xs = [word(rng, alpha, 1, 8, strict=True) for _ in range(n)]
                    if n >= 4 and rng.random() < 0.5:      # repeated elements
                        xs[rng.randrange(n)] = xs[rng.randrange(n)]
                arg, k = [], 0
                if op in ('prepend', 'append'):
                    arg = [word(rng, alpha, 1, 6, strict=True) for _ in range(rng.randint(1, 3))]
                    cmd = '%s %s' % (op, ' '.join(L.sq(a) for a in arg))
                elif op == 'match':
                    cand = [x for x in xs if x]
                    if cand and rng.random() < 0.7:
                        x = rng.choice(cand)
                        i = rng.randrange(len(x))
                        pat = x[i:i + rng.randint(1, 3)]
                    else:
                        pat = word(rng, alpha, 1, 2)
                    if pat.strip() != pat or pat == '':
                        pat = 'a'
                    arg = [pat]
                    cmd = 'match %s' % L.sq(pat)
                elif op in ('left', 'right'):
                    k = rng.choice([1, 2, 3, 5, 9, -1, -2, -4])
                    cmd = '%s %d' % (op, k)
                elif op in ('prefix', 'suffix'):
                    arg = [word(rng, alpha, 1, 4, strict=True)]
                    cmd = '%s %s' % (op, L.sq(arg[0]))
                else:
                    cmd = op
                cid += 1
                main = cid
                jobs.append({'id': cid, 'src': src_of(dt, xs, cmd)})
                neg = None
                if op == 'match':
                    cid += 1
                    neg = cid
                    jobs.append({'id': cid, 'src': src_of(dt, xs, '!' + cmd)})
                plan.append((main, neg, op, dt, xs, arg, k))
    res = L.run(ck, jobs, 'c38')
    src = {j['id']: j['src'] for j in jobs}
    records, info = [], {}
    for main, neg, op, dt, xs, arg, k in plan:
        ck.cov['evaluations'] += 1
        h = hashlib.sha1(src[main].encode('utf-8')).hexdigest()[:10]
        tail = '%s:%s:n%d:%s' % (op, dt, len(xs), h)
        r = L.broken(ck, res.get(main), tail, src[main])
        rn = L.broken(ck, res.get(neg), '!' + tail, src[neg]) if neg else None
        if r is None or (neg and rn is None):
            continue
        outs = []
        bad = False
        for rr, s in ((r, src[main]), (rn, src.get(neg))):
            if rr is None:
                continue
            ys = L.dec_list(rr['out'], dt)
            if rr['exit'] != 0 and rr['out'].strip() == b'' and b'no data returned' in rr['err']:
                ys = []        # the json writer refuses to print an empty array; stdout is what is judged
            elif rr['exit'] != 0 or ys is None:
                ck.violation('error:' + tail, '`%s` failed on a legal list: exit %d, %s' % (s[-60:], rr['exit'], L.first_error_line(rr['err'])),
                             {'src': s, 'stdout': rr['out'].decode('utf-8', 'replace')[:500], 'stderr': rr['err'].decode('utf-8', 'replace')[-400:], 'exit': rr['exit']})
                bad = True
                break
            outs.append(ys)
        if bad:
            continue
        rec = L.trace_record(main, op, xs, outs[0], ns=outs[1] if neg else (), arg=arg, k=k)
        records.append(rec)
        info[main] = (tail, src[main], src.get(neg), xs, outs)
    verdicts = L.validate_trace(ck, records, 'c38')
    nontriv = set()
    for rid, (tail, s, sneg, xs, outs) in info.items():
        if rid not in verdicts:
            raise common.Infra('no verdict for record %d' % rid)
        if verdicts[rid]:
            ck.cov['traces_validated_against_impl'] += 1
            if len(xs) >= 2:
                nontriv.add(tail)
                if len(nontriv) % 400 == 5:
                    ck.sample({'src': s, 'output': outs[0][:10]})
        else:
            ck.violation('value:' + tail, '`%s` on %d elements gave %s which the specification rejects' % (s.split(' -> ')[-1], len(xs), [o[:8] for o in outs]),
                         {'src': s, 'src_not': sneg, 'input': xs, 'output': outs[0], 'output_not': outs[1] if len(outs) > 1 else None})
    ck.cov['distinct_nontrivial'] = len(nontriv)
    if L.replay_end(ck, only):
        return
    if not ck.violations and len(nontriv) < 500:
        raise common.Infra('vacuous: %d non-trivial records' % len(nontriv))
