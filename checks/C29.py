"""C29 - shell history survives restarts and crashes.  spec/History.tla (+ HistoryFile, HistoryScan, HistoryEval)."""
import json
import os
import random
import re
import time
from concurrent.futures import ThreadPoolExecutor
from vlib import common

LEVEL = 'model_checking'
TOKLIMIT = 65536          # bufio.MaxScanTokenSize: only used to describe cases (coverage, violation keys), never to judge

WORDS = 'abcdefghijklmnopqrstuvwxyzABCDEFGHIJKLMNOPQRSTUVWXYZ0123456789'
ASCII = WORDS + '     -_|;{}[]()$"\'\\<>&=/.,:!?*#@%^~`+'
UNI = 'éßøÅñ日本語中文Ωλж🙂🚀\u0301\u200d\u2028\u00a0\t\n\n'


def step_fn(st):
    return dict(st['ret'])


# ---------------------------------------------------------------- texts
def gen_text(rng, tok, nchars, uni, plain=False):
    """text spec {unit, rep, tail} (the harness builds unit*rep + tail): about nchars characters, no
    leading/trailing white space, ending in a suffix unique to the token (entries of one history differ)"""
    alph = (WORDS + ' ') if plain else ASCII + (UNI * 2 if uni else '')
    rand = lambda n: ''.join(rng.choice(alph) for _ in range(n))
    suffix = '%s%d' % (tok, rng.randrange(10))
    body = max(0, nchars - len(suffix))
    if body <= 300:
        return {'unit': '', 'rep': 0, 'tail': (rng.choice(WORDS) + rand(body - 1) if body else '') + suffix}
    ulen = rng.choice([1, 7, 40, 64])
    unit = rng.choice(WORDS) + rand(ulen - 1)
    rep = body // ulen
    return {'unit': unit, 'rep': rep, 'tail': rand(body - rep * ulen) + suffix}


def short_len(rng):
    return rng.choice([1, 2, 3, 5, 12, 40, 80, 200, 1000, rng.randrange(1, 3000)])


def long_len(rng, quick):
    """block lengths whose line is around or beyond the 64 KiB scanner buffer, up to 200 KiB"""
    c = rng.random()
    if c < 0.45:
        return TOKLIMIT - 70 + rng.randrange(0, 90)        # straddles the limit (the line has ~56 bytes besides the block)
    if c < 0.75:
        return rng.randrange(TOKLIMIT, 2 * TOKLIMIT)
    if c < 0.9 or quick:
        return rng.randrange(2 * TOKLIMIT, 204800)
    return 204800


def texts_for(rng, toks, longs, quick, small=False):
    out = {}
    for t in toks:
        if t in longs and not small:
            n = long_len(rng, quick)
            if n < TOKLIMIT + 100:
                out[t] = gen_text(rng, t, n, False, plain=True)      # line length = block length + ~56
            elif rng.random() < 0.5:
                out[t] = gen_text(rng, t, n // 3, True)
            else:
                out[t] = gen_text(rng, t, n, False)
        else:
            n = rng.choice([3, 8, 20, 60]) if small else short_len(rng)
            out[t] = gen_text(rng, t, max(n, 2), uni=rng.random() < 0.6)
    return out


# ---------------------------------------------------------------- rows
def sig(steps):
    out = []
    for s in steps:
        a = s['act']
        if a == 'Open':
            out.append('O')
        elif a == 'Write':
            out.append('W' + s['e'])
        elif a == 'Crash':
            out.append('C%s.%s' % (s['e'], s['at']))
    return ','.join(out)


def trim(steps):
    """drop Init and whatever follows the last Open (nothing looks at it)"""
    steps = [s for s in steps if s['act'] != 'Init']
    while steps and steps[-1]['act'] != 'Open':
        steps.pop()
    return steps


def with_pos(rng, steps, sweep=None):
    """choose the real byte offset of every crash; sweep = (index of the crash step, stride, phase)"""
    out = []
    for i, s in enumerate(steps):
        s = {k: v for k, v in s.items() if k != 'must'}
        if s['act'] == 'Crash':
            if sweep and sweep[0] == i:
                s['pos'] = {'mode': 'sweep', 'stride': sweep[1], 'n': sweep[2]}
            elif s['at'] == 'part':
                c = rng.random()
                if c < 0.6:
                    s['pos'] = {'mode': 'frac', 'n': rng.randrange(0, 1000)}
                elif c < 0.8:
                    s['pos'] = {'mode': 'abs', 'n': rng.randrange(1, 60)}
                else:
                    s['pos'] = {'mode': 'end', 'n': rng.randrange(1, 8)}
        out.append(s)
    return out


def features(fail):
    """Describe a failed load for the violation key (never for the verdict): which completed appends
    are missing and what precedes them on the file - a cut append they were glued to ('torn'), a line
    beyond the scanner buffer ('long') or neither ('plain').  When the loaded list can be matched to
    the appends in several ways, the matching that leaves the fewest unexplained losses is taken."""
    if fail['clause'] != 'load':
        return fail['clause']
    writes = fail['writes']
    obs = fail['observed'] or []
    # what a loss of append i could be put down to: the physical lines of the file
    feat = []
    line_has_torn = False
    line_len = 0
    big_single = False
    big_glued = False
    for w in writes:
        content = (w['len'] - 1) if w['done'] else min(w['off'], w['len'] - 1)
        f = set()
        if content >= TOKLIMIT:
            big_single = True
        line_len += content
        if line_has_torn and line_len >= TOKLIMIT and not big_single:
            big_glued = True
        if line_has_torn or big_glued:
            f.add('torn')
        if big_single:
            f.add('long')
        feat.append(f)
        if w['done']:
            line_has_torn, line_len = False, 0
        elif w['off'] > 0:
            line_has_torn = True
    loadable = lambda w: w['done'] or w['off'] >= w['len'] - 1      # a cut line cannot decode
    INF = 10 ** 9
    n, m = len(obs), len(writes)
    skip = [0 if not w['done'] else (1 if feat[i] else 1000) for i, w in enumerate(writes)]
    # best[i][j]: cheapest way to embed obs[i:] in writes[j:]
    best = [[INF] * (m + 2) for _ in range(n + 2)]
    for j in range(m, -1, -1):
        best[n][j] = sum(skip[j:])
    for i in range(n - 1, -1, -1):
        for j in range(m - 1, -1, -1):
            c = best[i][j + 1] + skip[j] if best[i][j + 1] < INF else INF
            if writes[j]['e'] == obs[i] and loadable(writes[j]) and best[i + 1][j + 1] < c:
                c = best[i + 1][j + 1]
            best[i][j] = c
    if best[0][0] >= INF:
        return 'garbled'                # an entry nobody wrote, or out of order
    lost = []
    i = j = 0
    while j < m:
        if i < n and writes[j]['e'] == obs[i] and loadable(writes[j]) and best[i + 1][j + 1] == best[i][j]:
            i += 1
        elif writes[j]['done']:
            lost.append(j)
        j += 1
    if not lost:
        return 'extra'
    if any(not feat[k] for k in lost):
        return 'plain'
    return '+'.join(sorted(set().union(*[feat[k] for k in lost])))


def replay_rows(ck, rows, meta, tag, stats, fdir):
    """run rows on the real package; report violations; returns number of rows that matched"""
    if not rows:
        return 0
    shards = min(common.NCPU, max(1, len(rows) // 8))
    res, crashed = common.run_shards(ck, 'hist-replay', rows, ['-dir', fdir], shards=shards, tag=tag, timeout=3000)
    for c in crashed:
        if 'goroutine ' in c['stderr'] or 'TIMEOUT' in c['stderr']:
            ids = [r['id'] for r in c['inflight']] or [r['id'] for r in c['unfinished'][:1]]
            ck.violation('crash:%s' % (meta[ids[0]]['sig'] if ids else '?'),
                         'the harness process died or hung while replaying a history: ' + c['stderr'][-400:],
                         {'stderr': c['stderr'], 'rows': [meta[i]['row'] for i in ids[:1]]})
        else:
            raise common.Infra('hist-replay died: ' + c['stderr'][-2000:])
    byid = {x['id']: x for x in res}
    ok = 0
    for row in rows:
        x = byid.get(row['id'])
        if x is None:
            if crashed:
                continue
            raise common.Infra('no result for row %d' % row['id'])
        m = meta[row['id']]
        ck.cov['evaluations'] += 1
        stats['loads'] += x['loads']
        stats['crash_offsets'] += x['conts']
        stats['maxline'] = max(stats['maxline'], x['maxline'])
        stats['ms'][m['kind']] = stats['ms'].get(m['kind'], 0) + x.get('ms', 0)
        if x['status'] == 'infra':
            raise common.Infra('hist-replay: %s (row %s)' % (x.get('infra'), m['sig']))
        if x['status'] == 'ok':
            ok += 1
            m['ok'] = True
            m['maxline'] = x['maxline']
            continue
        f = x['fail']
        cls = features(f)
        stats['by_class'][cls] = stats['by_class'].get(cls, 0) + 1
        if stats['by_class'][cls] > 40:
            continue
        upto = row['steps'][:f['step'] + 1] if f['step'] >= 0 else row['steps']
        prefix = {'load': 'lost'}.get(f['clause'], f['clause'])
        key = '%s:%s:%s' % (prefix, cls, sig(upto)) if f['clause'] == 'load' else '%s:%s' % (f['clause'], sig(upto))
        ck.violation(key, '%s [%s] %s' % (m['kind'], sig(upto), f['detail'][:300]),
                     {'kind': m['kind'], 'history': sig(upto), 'clause': f['clause'], 'detail': f['detail'],
                      'observed_entries': f['observed'], 'appends': f['writes'], 'failing_crash_offsets': x['nfail'],
                      'row': compact_row(row)})
    return ok


def compact_row(row):
    """the row with long texts left in their {unit, rep, tail} form (already compact)"""
    return {'id': row['id'], 'texts': row['texts'], 'steps': row['steps']}


def nontrivial(steps):
    """a load that follows a crash, a consecutive duplicate, or a second session"""
    acts = [s['act'] for s in steps]
    dup = any(a['act'] == 'Write' and b['act'] == 'Write' and a['e'] == b['e'] for a, b in zip(steps, steps[1:]))
    return 'Crash' in acts or dup or acts.count('Open') >= 3


# ---------------------------------------------------------------- random long histories (HistoryEval)
def random_histories(rng, n, toks, longs):
    hs = []
    for i in range(n):
        nw = rng.randrange(1, 21)
        ncr = rng.choice([0, 1, 1, 2, 3])
        crash_at = set(rng.sample(range(nw), min(ncr, nw)))
        use_long = rng.random() < 0.4
        pool = [t for t in toks if use_long or t not in longs]
        ops = [{'act': 'Open'}]
        last = None
        for k in range(nw):
            e = last if (last and rng.random() < 0.2) else rng.choice(pool)
            last = e
            if k in crash_at:
                ops.append({'act': 'Crash', 'e': e, 'at': rng.choice(['nothing', 'part', 'part', 'part', 'allbutnl']), 'p': rng.randrange(1000)})
                ops.append({'act': 'Open'})
            else:
                ops.append({'act': 'Write', 'e': e})
                if rng.random() < 0.2:
                    ops.append({'act': 'Open'})
        if ops[-1]['act'] != 'Open':
            ops.append({'act': 'Open'})
        hs.append({'id': i, 'ops': ops})
    return hs


def fast_dir(ck):
    """a private directory for the files the real code works on: memory-backed when the machine has
    /dev/shm (sqlite syncs every write; on a loaded disk that alone breaks the TTL timing)"""
    import shutil
    import tempfile
    for base in ('/dev/shm', ck.scratch):
        if os.path.isdir(base) and os.access(base, os.W_OK):
            d = tempfile.mkdtemp(prefix='verif-%s-' % ck.pid, dir=base)
            return d, (lambda: shutil.rmtree(d, ignore_errors=True))
    return ck.scratch, (lambda: None)


def run(ck, replay=None):
    quick = ck.tier == 'quick'
    rng = random.Random(ck.seed)
    ck.cov['rule'] = (
        'History.tla: sessions append entries to one file, die at any byte of an append, later sessions load and append. TLC checks on every '
        'behaviour in the bound that a load returns (consecutive duplicates collapsed) every completed append in order, cut appends being '
        'optional, and that the transcribed scanner loop of openHist equals the cut-at-newlines rule (HistoryScan.tla: on every byte string up '
        'to the bound).  Behaviours = paths covering every state of the TLC state graph (distinct action sequences), replayed on the real '
        'shell/history package with real files: Open = history.New + Len/GetLine, Write = History.Write, Crash = History.Write then the file '
        'cut back to a byte offset inside that append; entries are random texts (multi-line, Unicode, 1 B - 200 KiB, lines straddling the '
        '64 KiB scanner buffer); sweeps continue one behaviour from every (thorough: every single; quick: strided for long lines) byte offset '
        'of the cut append; random histories of 1-20 appends are evaluated by TLC (HistoryEval.tla) and replayed the same way.  The loaded '
        'list is compared, duplicates collapsed, with the set of lists the specification allows.  non-trivial = a load after a crash, a '
        'consecutive duplicate or a third session; distinct = different action sequences per kind of row.')
    ck.assumptions += [
        'an entry is its text without surrounding white space (History.Write trims); generated texts have none',
        'entries are valid UTF-8 (encoding/json replaces invalid bytes); empty commands are not recorded',
        'a crash leaves a prefix of the bytes of the interrupted append on the file (append-only file, one writer at a time)',
        'the in-session list (Len/GetLine without reloading) is not judged: the property speaks about later sessions',
        'exhaustive bound: 3 entry texts, <=4 (thorough 5) appends, <=2 crashes, <=3 writing sessions; longer histories are sampled']
    stats = {'loads': 0, 'crash_offsets': 0, 'maxline': 0, 'by_class': {}, 'ms': {}}
    mc = {}

    # ---- 1. the specification itself
    def cfg_with(name, **kv):
        t = open(os.path.join(common.SPEC, name)).read()
        for k, v in kv.items():
            t, n = re.subn(r'\b%s = \S+' % k, '%s = %s' % (k, v), t)
            if n != 1:
                raise common.Infra('cannot set %s in %s' % (k, name))
        return t
    maxw = 4 if quick else 5
    # the three model-checking runs go on in the background while the behaviours are generated
    pool = ThreadPoolExecutor(max_workers=3)
    f_mc = pool.submit(common.tlc, 'History', 'mc.cfg', os.path.join(ck.scratch, 'mc'),
                       files={'mc.cfg': cfg_with('MCHistory.cfg', MaxWrites=maxw)}, timeout=3000)
    f_scan = pool.submit(common.tlc, 'HistoryScan', 'sc.cfg', os.path.join(ck.scratch, 'scan'),
                         files={'sc.cfg': cfg_with('MCHistoryScan.cfg', MaxFileLen=5 if quick else 6)}, timeout=3000)
    # diagnosis: the same machine with the parameters of the present code must NOT satisfy the property
    f_coded = pool.submit(common.tlc, 'History', 'MCHistoryAsCoded.cfg', os.path.join(ck.scratch, 'ascoded'), timeout=900)

    tlc_jobs = {'mc': f_mc, 'scan': f_scan, 'ascoded': f_coded}

    def collect_model_checking():
        r = f_mc.result()
        if r.violated:
            raise common.Infra('History.tla violates %s: the specification is wrong\n%s' % (r.violated, r.out[-3000:]))
        ck.add_tlc(r)
        mc['MCHistory.cfg(MaxWrites=%d)' % maxw] = [r.distinct, r.generated]
        r = f_scan.result()
        if r.violated:
            raise common.Infra('HistoryScan.tla violates %s: scanner loop and rule disagree\n%s' % (r.violated, r.out[-3000:]))
        ck.add_tlc(r)
        mc['MCHistoryScan.cfg'] = [r.distinct, r.generated]
        r = f_coded.result()
        if r.violated != 'Durable':
            raise common.Infra('History.tla with MaxTok=ShortLen, FreshLine=FALSE does not refute Durable (%s): the model cannot tell the designs apart' % r.violated)
        ck.cov['spec_level_diagnosis'] = 'MCHistoryAsCoded.cfg (token limit, no fresh line): TLC refutes Durable, as expected'
        ck.cov['model_checking_runs'] = mc
        common.log('[%s] TLC wall: %s' % (ck.pid, ' '.join('%s=%.0fs' % (k, f.result().wall) for k, f in tlc_jobs.items())))

    # ---- 2. behaviours of the state graph
    gcfg = cfg_with('MCHistory.cfg', MaxWrites=maxw).replace('VIEW view\n', '')
    os.makedirs(os.path.join(ck.scratch, 'gen-gen.cfg'))          # the directory gen_graph_paths runs TLC in
    with open(os.path.join(ck.scratch, 'gen-gen.cfg', 'gen.cfg'), 'w') as f:
        f.write(gcfg)
    r, paths, info = common.gen_graph_paths(ck, 'History', 'gen.cfg', ['ret'], step_fn, 'nodes', ck.seed, timeout=3000)
    if r.violated:
        raise common.Infra('History.tla violates %s' % r.violated)
    ck.add_tlc(r)
    seen = {}
    for p in paths:
        st = trim(p['steps'])
        if st:
            seen.setdefault(sig(st), st)
    behaviours = [seen[k] for k in sorted(seen)]
    ck.cov['replay_configs'] = {'MCHistory(no view)': dict(info, mode='nodes', distinct_action_sequences=len(behaviours))}
    limit = 1600 if quick else 25000
    if len(behaviours) > limit:
        rng.shuffle(behaviours)
        behaviours = behaviours[:limit]
        ck.cov['exhaustive'] = False
    else:
        ck.cov['exhaustive'] = True
    rows = []
    meta = {}
    toks, longs = ['a', 'b', 'L'], {'L'}

    def add(kind, steps, texts):
        rid = len(meta)
        row = {'id': rid, 'texts': texts, 'steps': steps}
        meta[rid] = {'kind': kind, 'sig': sig(steps), 'row': compact_row(row), 'ok': False, 'steps': steps}
        rows.append(row)

    for st in behaviours:
        add('graph', with_pos(rng, st), texts_for(rng, toks, longs, quick))

    # ---- 3. sweeps: one behaviour continued from every byte offset of a cut append
    cand = [st for st in behaviours if any(s['act'] == 'Crash' and s['at'] == 'part' for s in st)]
    follow = [st for st in cand if any(s['act'] == 'Crash' and s['at'] == 'part' and any(t['act'] == 'Write' for t in st[i + 1:])
                                       for i, s in enumerate(st))]
    rng.shuffle(cand)
    rng.shuffle(follow)
    pick = (follow[:150] + cand[:50]) if quick else (follow[:1500] + cand[:500])

    def crash_idx(st, want_long=None):
        ix = [i for i, s in enumerate(st) if s['act'] == 'Crash' and s['at'] == 'part' and (want_long is None or (s['e'] in longs) == want_long)]
        return rng.choice(ix) if ix else None
    for st in pick:
        i = crash_idx(st)
        add('sweep-short', with_pos(rng, st, (i, 1, 0)), texts_for(rng, toks, longs, quick, small=True))
    longc = [st for st in follow if crash_idx(st, True) is not None]
    for st in longc[:(16 if quick else 48)]:
        i = crash_idx(st, True)
        stride = rng.randrange(300, 700) if quick else rng.randrange(40, 90)
        add('sweep-long', with_pos(rng, st, (i, stride, rng.randrange(stride))), texts_for(rng, toks, longs, quick))
    if not quick and longc:
        # every single byte offset of a 200 KiB line: 16 rows, offsets = phase mod 16
        st = longc[0]
        i = crash_idx(st, True)
        tx = texts_for(rng, toks, longs, quick, small=True)
        tx['L'] = gen_text(rng, 'L', 68000, True)
        for ph in range(16):
            add('sweep-every-byte', with_pos(random.Random(ck.seed), st, (i, 16, ph)), tx)

    # ---- 4. random histories of 1-20 appends, expected values evaluated by TLC
    etoks, elongs = ['a', 'b', 'c', 'd', 'L', 'M'], {'L', 'M'}
    hs = random_histories(rng, 150 if quick else 1500, etoks, elongs)
    r = common.tlc('HistoryEval', 'MCHistoryEval.cfg', os.path.join(ck.scratch, 'eval'), timeout=3000,
                   files={'histories.ndjson': ''.join(json.dumps(h) + '\n' for h in hs)})
    if r.violated:
        raise common.Infra('HistoryEval: %s\n%s' % (r.violated, r.out[-2000:]))
    exp = {x['id']: x for x in common.read_ndjson(os.path.join(r.dir, 'expected.ndjson'))}
    if len(exp) != len(hs):
        raise common.Infra('HistoryEval returned %d of %d histories' % (len(exp), len(hs)))
    for h in hs:
        e = exp[h['id']]
        if not e['ok']:
            raise common.Infra('History.tla: the modelled file violates Durable/LoaderAgrees on history %s' % json.dumps(h))
        opens = list(e['opens'])
        st = []
        for op in h['ops']:
            s = dict(op)
            if s['act'] == 'Open':
                s['allowed'] = opens.pop(0)
            elif s['act'] == 'Crash':
                p = s.pop('p')
                if s['at'] == 'part':
                    s['pos'] = {'mode': 'frac', 'n': p}
            st.append(s)
        used = sorted(set(s['e'] for s in st if 'e' in s))
        add('random-long-history', st, texts_for(rng, used, elongs, quick))
    ck.cov['tlc_evaluated_histories'] = len(hs)

    collect_model_checking()

    # ---- run
    common.build_mxh()
    t0 = time.time()
    fdir, cleanup = fast_dir(ck)
    try:
        ok = replay_rows(ck, rows, meta, 'hist', stats, fdir)
    finally:
        cleanup()
    common.log('[C29] %d rows replayed in %.1fs; cpu ms by kind %s' % (len(rows), time.time() - t0, stats['ms']))
    ck.cov['traces_validated_against_impl'] += ok
    nontriv = set()
    kinds = {}
    for rid, m in meta.items():
        kinds.setdefault(m['kind'], [0, 0])[0] += 1
        if m['ok']:
            kinds[m['kind']][1] += 1
            if nontrivial(m['steps']):
                nontriv.add((m['kind'], m['sig']))
                if len(ck.cov['samples']) < 4 and 'Crash' in m['sig'] and m['sig'].count('W') >= 2:
                    ck.sample({'kind': m['kind'], 'history': m['sig'], 'longest_line_bytes': m.get('maxline'),
                               'texts': {k: dict(v, unit=v['unit'][:30]) for k, v in m['row']['texts'].items()}})
    if not ck.cov['samples']:
        for rid, m in meta.items():
            if m['ok'] and nontrivial(m['steps']):
                ck.sample({'kind': m['kind'], 'history': m['sig'], 'longest_line_bytes': m.get('maxline')})
                if len(ck.cov['samples']) >= 2:
                    break
    ck.cov['distinct_nontrivial'] = len(nontriv)
    ck.cov['rows_by_kind(total,matched)'] = kinds
    ck.cov['loads_compared'] = stats['loads']
    ck.cov['crash_offsets_continued'] = stats['crash_offsets']
    ck.cov['longest_line_bytes'] = stats['maxline']
    if stats['by_class']:
        ck.cov['failed_rows_by_class'] = stats['by_class']
    if stats['maxline'] < TOKLIMIT * 2:
        raise common.Infra('vacuous: no line beyond the scanner buffer was written (longest %d bytes)' % stats['maxline'])
    if not ck.violations and not ck.known_hits and len(nontriv) < (300 if quick else 2000):
        raise common.Infra('vacuous: only %d non-trivial behaviours matched' % len(nontriv))
