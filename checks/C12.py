"""C12 - structured variables are values, and nested assignment is precise.  spec/Values.tla."""
import json
import os
import random
import re
from vlib import common, prog

LEVEL = 'model_checking'

CFG_TMPL = '''SPECIFICATION Spec
CONSTANTS
  ShapeIds = {%(shapes)s}
  ScalarIds = {%(scalars)s}
  PathClasses = {%(classes)s}
  MaxOps = %(maxops)d
INVARIANTS Agree AlterPrecise
PROPERTIES NoAlias
POSTCONDITION Emit
CHECK_DEADLOCK FALSE
'''
ALL_SCALARS = ['i7', 's8', 'w1', 'bt']
ALL_CLASSES = ['leaf', 'newkey', 'container', 'inconv', 'unspec', 'range', 'kind', 'thru', 'deepnew']
COPY_FORMS = ['expr', 'setjson', 'pipe']


class AnyScalar:
    def __repr__(self):
        return '<any scalar>'


ANY = AnyScalar()
MISSING = object()


def gen_cases(ck, tag, shapes, scalars, classes, maxops):
    cfg = CFG_TMPL % {'shapes': ', '.join(str(s) for s in shapes), 'scalars': ', '.join('"%s"' % s for s in scalars),
                      'classes': ', '.join('"%s"' % c for c in classes), 'maxops': maxops}
    wd = os.path.join(ck.scratch, 'val-' + tag)
    r = common.tlc('ValuesGen', 'Run.cfg', wd, files={'Run.cfg': cfg}, timeout=3000, workers=4)
    if r.violated:
        raise common.Infra('Values.tla (%s): %s violated: the pointer/alter machine and the value rule disagree\n%s' % (tag, r.violated, r.out[-3000:]))
    ck.add_tlc(r)
    ck.cov.setdefault('model_checking_runs', {})[tag] = {'distinct': r.distinct, 'generated': r.generated, 'wall_s': round(r.wall, 1),
                                                         'bounds': {'shapes': shapes, 'scalars': scalars, 'classes': classes, 'maxops': maxops}}
    return common.read_ndjson(os.path.join(wd, 'cases.ndjson'))


# ------------------------------------------------------------ spec values -> python / murex text
def pyval(n):
    t = n['t']
    if t == 'i':
        return n['n']
    if t == 's':
        return str(n['n'])
    if t == 'w':
        return 'w%d' % n['n']
    if t == 'b':
        return n['n'] == 1
    if t == 'm':
        return {k: pyval(v) for k, v in zip(n['keys'], n['vals'])}
    if t == 'a':
        return [pyval(v) for v in n['vals']]
    if t == 'any':
        return ANY
    if t == 'none':
        return MISSING
    raise common.Infra('unknown node type %r' % t)


def lit(n):
    """murex expression literal of a scalar"""
    v = pyval(n)
    if isinstance(v, bool):
        return 'true' if v else 'false'
    if isinstance(v, int):
        return str(v)
    return '"%s"' % v


def text(v):
    """what `$v.path` prints for a scalar"""
    if isinstance(v, bool):
        return 'true' if v else 'false'
    return str(v)


def pathstr(p):
    return '.'.join(c['s'] if c['i'] == -1 else str(c['i']) for c in p)


def same(exp, act):
    """strict structural equality (bool is not int), ANY matches any scalar"""
    if exp is ANY:
        return not isinstance(act, (dict, list))
    if isinstance(exp, dict):
        return isinstance(act, dict) and set(exp) == set(act) and all(same(exp[k], act[k]) for k in exp)
    if isinstance(exp, list):
        return isinstance(act, list) and len(exp) == len(act) and all(same(a, b) for a, b in zip(exp, act))
    if isinstance(exp, bool) or isinstance(act, bool):
        return isinstance(exp, bool) and isinstance(act, bool) and exp == act
    if isinstance(exp, (int, float)) and isinstance(act, (int, float)):
        return exp == act
    return type(exp) == type(act) and exp == act


def lookup(doc, p):
    for c in p:
        if c['i'] == -1:
            if not isinstance(doc, dict) or c['s'] not in doc:
                return MISSING
            doc = doc[c['s']]
        else:
            if not isinstance(doc, list) or c['i'] >= len(doc):
                return MISSING
            doc = doc[c['i']]
    return doc


def opstr(o):
    if o['k'] == 'init':
        return 'a=' + show(pyval(o['x']))
    if o['k'] == 'copy':
        return 'copy'
    return '%s %s.%s=%s' % (o['k'], o['v'], pathstr(o['p']), lit(o['x']))


def histstr(case):
    return '; '.join(opstr(o) for o in case['ops'])


# ------------------------------------------------------------ rendering
def render(case, cid, rng):
    var = {'a': 'a_%d' % cid, 'b': 'b_%d' % cid}
    funcs = []
    lines = []
    forms = []
    for i, (o, ob) in enumerate(zip(case['ops'], case['obs']), 1):
        k = o['k']
        if k == 'init':
            doc = json.dumps(pyval(o['x']), sort_keys=True)
            lines.append('%s = %%%s' % (var['a'], doc))
        elif k == 'copy':
            f = rng.choice(COPY_FORMS)
            forms.append(f)
            lines.append({'expr': '%s = $%s' % (var['b'], var['a']),
                          'setjson': 'set json %s = $%s' % (var['b'], var['a']),
                          'pipe': '$%s -> set %s' % (var['a'], var['b'])}[f])
        elif k == 'set':
            lines.append('$%s.%s = %s && out "%d:st=ok"' % (var[o['v']], pathstr(o['p']), lit(o['x']), i))
            lines.append('out "%d:rb=$%s.%s" || out "%d:rb=U"' % (i, var[o['v']], pathstr(o['p']), i))
        elif k == 'call':
            fn = 'f%d_%d' % (cid, i)
            funcs.append('function %s (d: json) {\n$d.%s = %s && out "%d:st=ok"\nout "%d:fn=$d"\nout "%d:rb=$d.%s" || out "%d:rb=U"\n}'
                         % (fn, pathstr(o['p']), lit(o['x']), i, i, i, pathstr(o['p']), i))
            lines.append('%s $%s' % (fn, var[o['v']]))
        for u in ('a', 'b'):
            if ob['docs'][u]['t'] != 'none':
                lines.append('out "%d:doc.%s=$%s"' % (i, u, var[u]))                 # the string form
                for j, lf in enumerate(leaves_of(ob, u)):                            # the value form, leaf by leaf
                    lines.append('out "%d:lf.%s.%d=$%s.%s" || out "%d:lf.%s.%d=U"' % (i, u, j, var[u], pathstr(lf['p']), i, u, j))
    return '\n'.join(funcs + lines) + '\n', forms


_line = re.compile(r'^(\d+):(st|rb|fn|doc\.a|doc\.b|lf\.[ab]\.\d+)=(.*)$')


def leaves_of(ob, u):
    return sorted(ob['leaves'][u], key=lambda lf: pathstr(lf['p']))


def leaf_diffs(ob, u, i, got):
    """leaves of $u read one by one (`$u.path`) against the specification's document"""
    out = []
    for j, lf in enumerate(leaves_of(ob, u)):
        e = pyval(lf['v'])
        a = got.get((i, 'lf.%s.%d' % (u, j)))
        if e is not ANY and a != text(e):
            out.append('$%s.%s reads %r, must be %r' % (u, pathstr(lf['p']), a, text(e)))
    return out


def parse_out(s):
    got = {}
    bad = []
    for ln in s.split('\n'):
        if not ln.strip():
            continue
        m = _line.match(ln)
        if not m:
            bad.append(ln)
            continue
        got[(int(m.group(1)), m.group(2))] = m.group(3)
    return got, bad


def parse_doc(s):
    """-> python value, or MISSING when the variable holds no document any more"""
    if s is None or s.strip() in ('', 'null'):
        return MISSING
    try:
        return json.loads(s)
    except ValueError:
        return MISSING


def show(v):
    return '<nothing>' if v is MISSING else json.dumps(v, separators=(',', ':'), sort_keys=True, default=repr)


def judge(ck, case, src, forms, x, stats):
    hs = histstr(case)
    info = {'src': src, 'history': hs, 'copy_forms': forms}
    if x is None:
        raise common.Infra('no result for ' + hs)
    if x['status'] == 'crashed':
        ck.violation('crash:' + hs, 'interpreter process died running the program: ' + x.get('stderr', '')[-300:], info)
        return False, False
    if x['status'] == 'hung':
        ck.violation('hang:' + hs, 'program did not finish', info)
        return False, False
    r = x['runs'][0]
    out = r['out'].decode('utf-8', 'replace')
    info['stdout'] = out[-3000:]
    info['stderr'] = r['err'].decode('utf-8', 'replace')[-1500:]
    if r.get('panic'):
        ck.violation('panic:' + hs, 'internal panic: ' + r['panic'], info)
        return False, False
    got, bad = parse_out(out)
    if bad:
        # a document printed over several lines etc.: treat as infrastructure, never as a verdict
        raise common.Infra('unparsable output %r for [%s]' % (bad[:2], hs))
    taint = set()      # variables whose real content is no longer what the specification assumes
    clean = True
    judged_ok = 0

    def viol(kind, cls, i, what, msg, extra=None):
        # key = <operation>:<assignment class>[@arr when the path goes through an array]:<what deviates>:<history>
        o = case['ops'][i - 1]
        arr = '@arr' if any(c['i'] != -1 for c in o['p']) else ''
        ck.violation('%s:%s%s:%s:%s' % (kind, cls, arr, what, hs), 'step %d of [%s]: %s' % (i, hs, msg), dict(info, step=i, **(extra or {})))

    for i, (o, ob) in enumerate(zip(case['ops'], case['obs']), 1):
        k = o['k']
        tgt = o['v'] if k == 'set' else None
        if k == 'copy' and 'a' in taint:
            taint.add('b')
        # ---- variables that this operation must leave alone / must define
        for u in ('a', 'b'):
            if ob['docs'][u]['t'] == 'none' or u in taint or u == tgt:
                continue
            exp = pyval(ob['docs'][u])
            act = parse_doc(got.get((i, 'doc.' + u)))
            kind = {'init': 'init', 'copy': 'copy', 'set': 'alias', 'call': 'alias'}[k]
            if not same(exp, act):
                clean = False
                viol(kind, ob['cls'], i, 'doc', '$%s is %s after `%s`; must be %s' % (u, show(act), opstr(o), show(exp)),
                     {'variable': u, 'actual': show(act), 'expected': show(exp)})
                taint.add(u)
                continue
            ld = leaf_diffs(ob, u, i, got)
            if ld:
                clean = False
                viol(kind, ob['cls'], i, 'forms', 'after `%s` $%s prints as %s but %s' % (opstr(o), u, show(act), '; '.join(ld[:3])),
                     {'variable': u, 'leaf_reads': ld})
                taint.add(u)
        if k not in ('set', 'call'):
            continue
        # ---- the assigned document: the variable itself, or the function's parameter
        own = tgt if k == 'set' else None
        if k == 'set' and tgt in taint:
            stats['unjudged'] += 1
            continue
        if k == 'call' and o['v'] in taint:
            stats['unjudged'] += 1
            continue
        # `$v.p = x && out "i:st=ok"`: the marker is printed iff the assignment's exit number was 0
        st = 'ok' if got.get((i, 'st')) == 'ok' else 'err'
        if (i, 'fn' if k == 'call' else 'doc.' + tgt) not in got:
            raise common.Infra('program stopped before the end of step %d of [%s]' % (i, hs))
        act = parse_doc(got.get((i, 'doc.' + tgt) if k == 'set' else (i, 'fn')))
        exp = pyval(ob['docs'][tgt]) if k == 'set' else pyval(ob['fn'])
        what = '$%s' % tgt if k == 'set' else 'the parameter'
        if st == 'err':
            # the property speaks about assignments that succeed
            stats['rejected:' + ob['ok']] = stats.get('rejected:' + ob['ok'], 0) + 1
            if ob['ok'] == 'yes' and len(stats.setdefault('rejected_yes_samples', [])) < 5:
                stats['rejected_yes_samples'].append('%s (%s)' % (hs, ob['cls']))
            if not same(exp, act):
                stats['unjudged'] += 1
                if own:
                    taint.add(own)
            continue
        # success reported
        broken = []
        for fr in ob['frame']:
            a = lookup(act, fr['p']) if act is not MISSING else MISSING
            e = pyval(fr['v'])
            if a is MISSING or not same(e, a):
                broken.append('%s was %s, now %s' % (pathstr(fr['p']), show(e), show(a)))
        if broken:
            clean = False
            viol(k, ob['cls'], i, 'frame', '`%s` reported success but other paths of %s changed: %s (now %s)' % (opstr(o), what, '; '.join(broken[:3]), show(act)),
                 {'actual': show(act), 'broken': broken})
            if own:
                taint.add(own)
            continue
        if ob['ok'] == 'no':
            # nothing defined to read back; frame was kept
            stats['unjudged'] += 1
            if not same(exp, act) and own:
                taint.add(own)
            continue
        rbexp = pyval(ob['rb'])
        rb = got.get((i, 'rb'))
        if rbexp is not ANY and rb != text(rbexp):
            clean = False
            viol(k, ob['cls'], i, 'readback', '`%s` reported success but %s.%s reads back %r; must be %r' % (opstr(o), what, pathstr(o['p']), rb, text(rbexp)),
                 {'actual': show(act)})
            if own:
                taint.add(own)
            continue
        if not same(exp, act):
            clean = False
            viol(k, ob['cls'], i, 'doc', '`%s` reported success but %s is %s; must be %s' % (opstr(o), what, show(act), show(exp)),
                 {'actual': show(act), 'expected': show(exp)})
            if own:
                taint.add(own)
            continue
        if own:
            ld = leaf_diffs(ob, own, i, got)
            if ld:
                clean = False
                viol(k, ob['cls'], i, 'forms', '`%s` reported success and $%s prints as %s but %s' % (opstr(o), own, show(act), '; '.join(ld[:3])),
                     {'leaf_reads': ld})
                taint.add(own)
                continue
        judged_ok += 1
    stats['assignments_judged_ok'] += judged_ok
    return clean and judged_ok > 0, clean


def run_cases(ck, cases, tag, stats):
    rng = random.Random(ck.seed)
    jobs = []
    meta = {}
    cid = getattr(ck, '_val_cid', 0)
    for c in cases:
        cid += 1
        src, forms = render(c, cid, rng)
        jobs.append({'id': cid, 'src': src, 'timeout_ms': 20000})
        meta[cid] = (c, src, forms)
    ck._val_cid = cid
    res = prog.run_programs(ck, jobs, tag='c12' + tag)
    # a program that ran into its time limit is run again on its own: a stall on a loaded machine is not a hang
    for j in [j for j in jobs if res.get(j['id'], {}).get('status') == 'hung'][:20]:
        again = [prog.run_programs(ck, [dict(j, timeout_ms=120000)], tag='c12re').get(j['id']) for _ in range(3)]
        if all(a is not None and a['status'] == 'done' for a in again):
            res[j['id']] = again[-1]
            ck.cov['stalls_not_reproduced'] = ck.cov.get('stalls_not_reproduced', 0) + 1
    nontriv = set()
    for cid, (c, src, forms) in meta.items():
        ck.cov['evaluations'] += 1
        good, clean = judge(ck, c, src, forms, res.get(cid), stats)
        if clean:
            ck.cov['traces_validated_against_impl'] += 1
        if good:
            nontriv.add(histstr(c))
            if len(ck.cov['samples']) < 4 and len(c['ops']) >= 3 and rng.random() < 0.05:
                ck.sample({'history': histstr(c), 'src': src})
    ck.cov['distinct_nontrivial'] += len(nontriv)
    return len(nontriv)


def run(ck, replay=None):
    quick = ck.tier == 'quick'
    ck.cov['rule'] = ('TLC enumerates every history  a = D ; then copy (`b = $a`) / `$v.path = x` / a function taking $v as a json parameter '
                      'and assigning into it  (documents, scalars, path classes and length in model_checking_runs; candidate paths = every '
                      'existing node, new keys, indexes past the end, keys into arrays, paths through scalars and below missing keys), checks '
                      'on each that the transcribed implementation (names pointing at heap objects, copy = marshal + parse, utils/alter loop '
                      'descending by type, converting at the leaf, storing in place) yields exactly what the value rule of the property '
                      'describes (read-back = x converted to the old leaf\'s type, every other path unchanged, nothing else, other variables '
                      'untouched), and exports for every step the expected documents, read-back and the list of other paths with their '
                      'values.  Each history is rendered to one murex program and run by the real interpreter; after every operation every '
                      'variable is printed and parsed as JSON, the assigned path is read with `$v.path`, and the assignment\'s own exit '
                      'status is captured.  Judged: other variables never change; when an assignment reports success, every other path '
                      'keeps its value, and (where the property defines the result) the read-back and the whole document equal the '
                      'specification\'s, types included.  non-trivial = at least one assignment accepted by murex and fully compared and no '
                      'deviation; distinct = different histories.')
    ck.assumptions += ['a program that runs into its 20 s limit is run again on its own three times (120 s limit); only a hang that shows again is reported (a stall on a loaded machine is not a hang)']
    ck.assumptions += ['an assignment that murex rejects (non-zero exit) is not judged on the assigned variable (the property speaks of assignments that succeed); other variables are still compared',
                       'conversions the property does not pin down (bool <-> number/string) are executed; only the untouched paths and other variables are judged',
                       'after a reported deviation or an unjudged divergence the variable is no longer compared in the rest of that history',
                       'copy forms (`b = $a`, `set json b = $a`, `$a -> set b`) are chosen at random (VERIF_SEED); the function form is `function f (d: json)`']
    stats = {'unjudged': 0, 'assignments_judged_ok': 0}
    plans = [('single', [1, 2, 3, 4], ALL_SCALARS, ALL_CLASSES, 1)]
    if quick:
        plans.append(('pairs', [1, 2, 3, 4, 5], ['i7', 'w1'], ['leaf', 'newkey', 'container', 'inconv', 'unspec', 'deepnew'], 2))
    else:
        plans.append(('pairs', [1, 2, 3, 4, 5], ALL_SCALARS, ALL_CLASSES, 2))
        plans.append(('triples', [1, 2, 3, 4, 5], ['w1'], ['leaf', 'newkey', 'inconv', 'deepnew'], 3))
    ck.cov['exhaustive'] = True
    n = 0
    for tag, shapes, scalars, classes, maxops in plans:
        cases = gen_cases(ck, tag, shapes, scalars, classes, maxops)
        n += run_cases(ck, cases, tag, stats)
    ck.cov['unjudged_executed'] = stats.pop('unjudged')
    ck.cov['stats'] = stats
    if not ck.violations and n < (300 if quick else 3000):
        raise common.Infra('vacuous: %d non-trivial histories' % n)
