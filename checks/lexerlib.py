"""Shared by C08/C09/C10 (and C36/C34): spec/Lexer.tla case tables -> real murex lexer.

Characters cross the TLC boundary as short tokens (see Lexer.tla); TOK maps them to text."""
import json
import os
import random
import subprocess

from vlib import common, prog

TOK = {'SP': ' ', 'TAB': '\t', 'CR': '\r', 'LF': '\n', 'BS': '\\', 'SQ': "'", 'DQ': '"', 'BT': '`', 'EA': 'é', 'NUL': '\x00',
       # named because TLC's JSON module runs with the platform charset: ordinary characters for the lexer
       'U1': '日', 'U2': '😀', 'U3': 'ß', 'U4': '\u200b', 'NBSP': '\xa0', 'ESC': '\x1b', 'DEL': '\x7f', 'BEL': '\x07',
       'FF': '\x0c', 'VT': '\x0b'}
ASCII_PUNCT = list('!#$%&()*+,-./:;<=>?@[]^_{|}~')
# tokens for seeded random long strings: every printable ASCII character, the control characters the
# lexer knows, and a few non-ASCII / exotic ones
RICH = (list('abcdefghijklmnopqrstuvwxyzABCXYZ0123456789') + ASCII_PUNCT +
        ['SP', 'TAB', 'CR', 'LF', 'BS', 'SQ', 'DQ', 'BT', 'EA', 'U1', 'U2', 'U3', 'U4', 'NBSP', 'ESC', 'DEL', 'BEL', 'FF', 'VT'])
HOSTILE = ['SP', 'TAB', 'CR', 'LF', 'BS', 'SQ', 'DQ', 'BT'] + ASCII_PUNCT


def rand_tokens(rng, lo, hi, hostile=0.5):
    n = rng.randint(lo, hi)
    return [rng.choice(HOSTILE) if rng.random() < hostile else rng.choice(RICH) for _ in range(n)]


def txt(tokens):
    return ''.join(TOK.get(t, t) for t in tokens)


def toks(tokens):
    """compact, unambiguous rendering of a token sequence for violation keys"""
    return json.dumps(txt(tokens), ensure_ascii=True)


def gen_cases(ck, cfg_name, subst, tag, extra_inputs=(), timeout=3000):
    """Run TLC on LexerGen with spec/<cfg_name> (after textual substitutions): checks that the operational
    lexer agrees with the declarative rules on every input of the bound (invariant Agree + the design
    checks evaluated when the table is emitted) and returns the case table.
    extra_inputs: inputs chosen by the driver (seeded random), written to sample.ndjson and added to the
    enumerated ones by the specification (InputsPlus); their texts and expected values also come out of TLC."""
    cfg = open(os.path.join(common.SPEC, cfg_name)).read()
    for a, b in subst:
        if a not in cfg:
            raise common.Infra('%s: cannot substitute %r' % (cfg_name, a))
        cfg = cfg.replace(a, b)
    wd = os.path.join(ck.scratch, 'tlc-' + tag)
    body = ''.join(json.dumps(r, separators=(',', ':')) + '\n' for r in extra_inputs)
    # the enumeration of the inputs is single-threaded; few workers keep TLC usable on a busy machine
    r = common.tlc('LexerGen', 'Run.cfg', wd, files={'Run.cfg': cfg, 'sample.ndjson': body}, timeout=timeout,
                   workers=4 if ck.tier == 'quick' else 8)
    if r.violated:
        raise common.Infra('Lexer.tla (%s): %s violated: the operational lexer and the declarative rule disagree, '
                           'the specification is wrong\n%s' % (tag, r.violated, r.out[-4000:]))
    ck.add_tlc(r)
    ck.cov.setdefault('model_checking_runs', {})[tag] = [r.distinct, r.generated]
    path = os.path.join(wd, 'cases.ndjson')
    if not os.path.exists(path):
        raise common.Infra('Lexer.tla (%s): no case table emitted\n%s' % (tag, r.out[-2000:]))
    return common.read_ndjson(path)


def sample(rows, limit, rng, keep=None):
    """all rows if they fit, else every row satisfying keep() plus a seeded sample of the others"""
    if limit is None or len(rows) <= limit:
        return rows, True
    kept = [r for r in rows if keep and keep(r)]
    rest = [r for r in rows if not (keep and keep(r))]
    rng.shuffle(rest)
    return kept + rest[:max(0, limit - len(kept))], False


class confined:
    """Programs rendered from hostile strings may, when the real lexer mis-reads them, run something else than the
    harness builtins.  While they run: the working directory is an empty scratch directory and PATH holds no
    external command, so such an accident cannot touch anything outside the scratch area."""

    def __init__(self, ck):
        self.cwd = os.path.join(ck.scratch, 'cwd')
        self.nopath = os.path.join(ck.scratch, 'nopath')
        os.makedirs(self.cwd, exist_ok=True)
        os.makedirs(self.nopath, exist_ok=True)

    def __enter__(self):
        self.old_cwd = os.getcwd()
        self.old_path = os.environ.get('PATH')
        common.build_mxh()            # (needs the real PATH for the Go toolchain)
        os.chdir(self.cwd)
        os.environ['PATH'] = self.nopath
        return self

    def __exit__(self, *a):
        os.chdir(self.old_cwd)
        if self.old_path is None:
            os.environ.pop('PATH', None)
        else:
            os.environ['PATH'] = self.old_path
        return False


def run_lexer_rows(ck, rows, tag='lex', hang_ms=3000):
    """`mxh lexer` over rows (dicts with id, op, ...) in parallel shards.  A row on which the real
    parser spins is reported with status 'hung' (the worker is restarted for the remaining rows); a dead
    worker gives status 'crashed' for the row in flight."""
    mxh = common.build_mxh()
    shards = min(common.NCPU, max(1, len(rows) // 200))
    pending = [rows[s::shards] for s in range(shards)]
    pending = [p for p in pending if p]
    results = {}
    rnd = 0
    while pending:
        rnd += 1
        if rnd > 60:
            raise common.Infra('lexer: too many restarts')
        procs = []
        for s, part in enumerate(pending):
            inp = os.path.join(ck.scratch, '%s-in-%d-%d.ndjson' % (tag, rnd, s))
            outp = os.path.join(ck.scratch, '%s-out-%d-%d.ndjson' % (tag, rnd, s))
            common.write_ndjson(inp, part)
            procs.append((subprocess.Popen([mxh, 'lexer', '-in', inp, '-out', outp, '-hang-ms', str(hang_ms)],
                                           stdout=subprocess.PIPE, stderr=subprocess.PIPE, stdin=subprocess.DEVNULL), outp, part))
        nxt = []
        for p, outp, part in procs:
            try:
                _, err = p.communicate(timeout=1800)
            except subprocess.TimeoutExpired:
                for q, _, _ in procs:
                    q.kill()
                raise common.Infra('mxh lexer shard did not finish within 1800 s (machine overloaded?)')
            started = None
            fin = set()
            if os.path.exists(outp):
                for line in open(outp):
                    line = line.strip()
                    if not line:
                        continue
                    try:
                        x = json.loads(line)
                    except ValueError:
                        continue
                    if 'start' in x:
                        started = x['start']
                    elif 'id' in x:
                        if x.get('status') == 'infra':
                            raise common.Infra('lexer harness: %s' % x)
                        results[x['id']] = x
                        fin.add(x['id'])
            if p.returncode == 0:
                continue
            rest = [c for c in part if c['id'] not in fin]
            if p.returncode != 3:
                if started is None:
                    raise common.Infra('mxh lexer failed before the first row: ' + err.decode('utf-8', 'replace')[-2000:])
                if started not in fin:
                    results[started] = {'id': started, 'status': 'crashed', 'stderr': err.decode('utf-8', 'replace')[-2000:]}
                    rest = [c for c in rest if c['id'] != started]
            if rest:
                nxt.append(rest)
        pending = nxt
    return results


CONFIRM_MAX = 24


def _confirm(again, rerun, res):
    """again: rows reported as hung.  A prefix of at most CONFIRM_MAX of them is run again with ten times the
    budget; if every one of those hangs again the others stand as reported (same verdict, same cause), otherwise
    (a slow machine, not a hang) all of them are run again."""
    if not again:
        return
    first = again[:CONFIRM_MAX]
    r1 = rerun(first)
    res.update(r1)
    rest = again[CONFIRM_MAX:]
    if rest and any(r1.get(j['id'], {}).get('status') != 'hung' for j in first):
        res.update(rerun(rest))


def run_lexer_confirm(ck, rows, tag='lex'):
    """run_lexer_rows; a row reported as hung is run again with ten times the budget before it counts"""
    res = run_lexer_rows(ck, rows, tag=tag, hang_ms=2000)
    again = [r for r in rows if res.get(r['id'], {}).get('status') == 'hung']
    _confirm(again, lambda part: run_lexer_rows(ck, part, tag=tag + 'x', hang_ms=20000), res)
    return res


def run_programs_confirm(ck, jobs, tag='prog', chunk=20000):
    """prog.run_programs in chunks (its restart budget is per call; every hang costs a restart); a program reported
    as hung is run again with ten times the budget before it counts"""
    res = {}
    with confined(ck):
        for k in range(0, len(jobs), chunk):
            res.update(prog.run_programs(ck, jobs[k:k + chunk], tag='%s%d' % (tag, k // chunk)))
        again = [dict(j, timeout_ms=10 * j.get('timeout_ms', 4000)) for j in jobs if res.get(j['id'], {}).get('status') == 'hung']
        _confirm(again, lambda part: prog.run_programs(ck, part, tag=tag + 'x', shards=min(common.NCPU, len(part))), res)
    return res


def classify_run(x):
    """-> (status, run) for a run-programs result: status in ok|hung|crashed|panic"""
    if x is None:
        raise common.Infra('no result for a program')
    if x['status'] == 'crashed':
        return 'crashed', None
    if x['status'] == 'hung':
        return 'hung', None
    r = x['runs'][0]
    if r.get('panic'):
        return 'panic', r
    return 'ok', r


def json_lines(b):
    """stdout of vx/vxget calls: one JSON document per line; None if it is not that"""
    out = []
    try:
        s = b.decode('utf-8')
    except UnicodeDecodeError:
        return None
    if s and not s.endswith('\n'):
        return None
    for line in s.split('\n')[:-1]:
        try:
            out.append(json.loads(line))
        except ValueError:
            return None
    return out
