"""C25 - config values are scoped like variables.  spec/Scopes.tla (Family = "cfg")."""
from vlib import common, prog
from . import scopeslib as L

LEVEL = 'model_checking'

DEFINE = 'config define %s %s %%{Description: "verif", DataType: str, Default: "d0", Global: %s}'


def custom_map(cid):
    """the harness's own pair of options (free string values): G declared Global: true, L Global: false"""
    app = 'verif%d' % cid
    return {'G': {'app': app, 'key': 'g', 'val': lambda j: 'v%d' % j},
            'L': {'app': app, 'key': 'l', 'val': lambda j: 'v%d' % j}}


def custom_prelude(cid, cm):
    return [DEFINE % (cm['G']['app'], 'g', 'true'), DEFINE % (cm['L']['app'], 'l', 'false')]


CUSTOM_TEXT = {'G': lambda v: 'd0' if v == 0 else 'v%d' % v, 'L': lambda v: 'd0' if v == 0 else 'v%d' % v}


def builtin_defaults(ck):
    """declared defaults and Global flags of the two built-in options, read from the running interpreter"""
    src = ('config -> [[/http/user-agent/Default]] -> set d1; config -> [[/shell/max-suggestions/Default]] -> set d2\n'
           'config -> [[/http/user-agent/Global]] -> set g1; config -> [[/shell/max-suggestions/Global]] -> set g2\n'
           'out "$g1|$g2|$d2|$d1"\n')
    r = prog.run_programs(ck, [{'id': 1, 'src': src, 'timeout_ms': 20000}], tag='c25-def')[1]
    if r['status'] != 'done':
        raise common.Infra('cannot read built-in config declarations: %r' % (r,))
    parts = r['runs'][0]['out'].decode('utf-8', 'replace').rstrip('\n').split('|', 3)
    if len(parts) != 4 or parts[0] != 'false' or parts[1] != 'true':
        raise common.Infra('built-in options are not declared as assumed (http user-agent non-global, shell max-suggestions global): %r' % (parts,))
    return parts[3], parts[2]


def run(ck, replay=None):
    quick = ck.tier == 'quick'
    ck.cov['rule'] = ('TLC enumerates every well-nested history of `config set` / `config default` on one option declared Global and one '
                      'non-global option and of call..return and block..end (bounds in model_checking_runs), with the program body at session '
                      'level and as a function call; after every operation it checks that the transcribed tables (config/config.go: Copy() per '
                      'F_FUNCTION fork parented to the global table, Set forwarding global options, GetFileRef override-then-global, Default '
                      'writing the declared default through Set) observe exactly what the declarative rule of the property says, and exports '
                      'the table.  Every history is rendered to one murex program (one function per call, blocks as if / switch / foreach / '
                      '${} - one program per block kind; `config set` at position j writes "vj"), executed by the real interpreter, and after '
                      'every operation `config get` of both options is compared with the table.  Options: a pair defined per program with '
                      '`config define` (free strings; session-level and function-level bodies), a pair of non-global options under two different apps, and the built-in pair http user-agent '
                      '(non-global) / shell max-suggestions (global).  non-trivial = at least one call or block and at least two settings; '
                      'distinct = different (body level, option pair, history, block kind).')
    ck.assumptions += ['a program that runs into its 20 s limit is run again on its own three times (120 s limit); only a hang that shows again is reported (a stall on a loaded machine is not a hang)']
    ck.assumptions += ['session level = a fork of the shell process without F_FUNCTION, exactly as shell/shell.go runs a command line (mxh scopes-run)',
                       '"the declared default" of a built-in option is read from the `config` listing of the running interpreter',
                       'settings forms (`config set a k v`, `(v) -> config set a k`, `config default a k`, `!config a k`) are chosen at random per operation (VERIF_SEED)']
    runner = L.scopes_runner(ck, 'c25')
    maxlen = 4 if quick else 5
    ck.cov['exhaustive'] = True
    n = 0
    for top in ('session', 'function'):
        cases = L.gen_cases(ck, 'cfg', top, [], ['G', 'L'], ['G'], maxlen, 3, 'custom-' + top)
        n += L.run_table(ck, cases, runner, cfgmap_fn=custom_map, valtext=CUSTOM_TEXT, prelude_fn=custom_prelude, tag='cu' + top[0],
                         kinds='all' if quick else 'some')
    # two non-global options that live under different apps (the scope's override table is keyed by app first)
    def two_apps(cid):
        return {'L': {'app': 'verif%d' % cid, 'key': 'l', 'val': lambda j: 'v%d' % j},
                'M': {'app': 'verifm%d' % cid, 'key': 'm', 'val': lambda j: 'v%d' % j}}
    cases = L.gen_cases(ck, 'cfg', 'function', [], ['L', 'M'], [], maxlen, 3, 'twoapps-function')
    n += L.run_table(ck, cases, runner, cfgmap_fn=two_apps, valtext={'L': CUSTOM_TEXT['L'], 'M': CUSTOM_TEXT['L']},
                     prelude_fn=lambda cid, cm: [DEFINE % (cm['L']['app'], 'l', 'false'), DEFINE % (cm['M']['app'], 'm', 'false')],
                     tag='cu2', kinds='all' if quick else 'some')
    # built-in options: function-level bodies only (a session-level setting would leak into every later program)
    ua, ms = builtin_defaults(ck)
    bmap = {'G': {'app': 'shell', 'key': 'max-suggestions', 'val': lambda j: str(100 + j)},
            'L': {'app': 'http', 'key': 'user-agent', 'val': lambda j: 'v%d' % j}}
    btext = {'G': lambda v: ms if v == 0 else str(100 + v), 'L': lambda v: ua if v == 0 else 'v%d' % v}
    cases = L.gen_cases(ck, 'cfg', 'function', [], ['G', 'L'], ['G'], maxlen - 1, 3, 'builtin-function')
    reset = ['!config shell max-suggestions']
    n += L.run_table(ck, cases, runner, cfgmap_fn=lambda cid: bmap, valtext=btext, prelude_fn=lambda cid, cm: reset, postlude=reset, tag='bi')
    if not ck.violations and n < (500 if quick else 5000):
        raise common.Infra('vacuous: %d non-trivial histories' % n)
