"""C39 - break, continue and return affect only the named block.  spec/Control.tla."""
import os
from vlib import common, prog

LEVEL = 'exploration'


def render_stmts(ss, cid, ind='  ', quoted=False, sleep=1, defs=None):
    """defs: list collecting the definitions of called functions (rendered once per program)"""
    out = []
    for s in ss:
        if s['t'] == 'out':
            out.append(ind + 'out "%s"' % ''.join(s['tag']))
        elif s['t'] == 'ctl':
            if s['k'] == 'return':
                out.append(ind + 'return %d' % s['n'])
            else:
                name = {'fn': 'fn%d' % cid, 'inner': 'inner%d' % cid}.get(s['name'], s['name'])
                out.append(ind + '%s %s' % (s['k'], name))
        elif s['t'] == 'if':
            # items that arrive through a pipe are strings
            out.append(ind + ('if { $%s == "%d" } then {' if quoted else 'if { $%s == %d } then {') % (s['var'], s['val']))
            out.append(render_stmts(s['body'], cid, ind + '  ', quoted, sleep, defs))
            out.append(ind + '}')
        elif s['t'] == 'loop':
            n = len(s['items'])
            assert s['items'] == list(range(1, n + 1))
            if s['kind'] == 'foreach':
                out.append(ind + '%%[%s] -> foreach %s {' % (','.join(str(x) for x in s['items']), s['var']))
            elif s['kind'] == 'while':
                out.append(ind + '%s = 0' % s['var'])
                out.append(ind + 'while { $%s < %d } {' % (s['var'], n))
                out.append(ind + '  %s = $%s + 1' % (s['var'], s['var']))
            elif s['kind'] == 'for':
                out.append(ind + 'for { %s = 1; $%s <= %d; %s = $%s + 1 } {' % (s['var'], s['var'], n, s['var'], s['var']))
            out.append(render_stmts(s['body'], cid, ind + '  ', quoted, sleep, defs))
            out.append(ind + '}')
        elif s['t'] == 'call':
            # the callee gets the caller's loop variable as a typed parameter (functions do not see their caller's variables)
            if defs is not None and not defs:
                defs.append('function %s%d (i: int) {\n%s\n}' % (s['fname'], cid, render_stmts(s['body'], cid, '  ', quoted, sleep)))
            out.append(ind + '%s%d $i' % (s['fname'], cid))
        elif s['t'] == 'staged':
            # the producer: a stage of the same pipeline that prints one item per `sleep` seconds and reports on stderr
            out.append(ind + '%%[%s] -> foreach p {' % ','.join(str(x) for x in s['items']))
            out.append(ind + '  out <err> "tick $p"')
            out.append(ind + '  out $p')
            out.append(ind + '  sleep %d' % sleep)
            out.append(ind + '} -> foreach %s {' % s['var'])
            out.append(render_stmts(s['body'], cid, ind + '  ', True, sleep, defs))
            out.append(ind + '}')
    return '\n'.join(out)


def tick_groups(err):
    """stderr -> list of tick sequences, one per run of the producer (each starts at tick 1)"""
    groups = []
    for line in err.decode('utf-8', 'replace').split('\n'):
        if line.startswith('tick '):
            if line == 'tick 1' or not groups:
                groups.append([])
            groups[-1].append(line[5:])
    return groups


def judge(c, tail, runs):
    want = [''.join(t) for t in c['out']] + (['after'] if tail == 'after' else [])
    wexit = c['exit'] if tail == 'none' else 0
    exit_judged = tail != 'none' or c.get('exit_judged', True)
    for r in runs:
        if r.get('panic'):
            return 'internal panic: ' + r['panic']
        got = r['out'].decode('utf-8', 'replace').split('\n')[:-1]
        if got != want or (exit_judged and r['exit'] != wexit):
            return 'printed %s exit %d; structured meaning: %s exit %d' % (got, r['exit'], want, wexit)
        if c['family'] == 'stage':
            groups = tick_groups(r['err'])
            if len(groups) != len(c['tk']):
                return 'the producer stage ran %d times (%s), structured meaning: %d times' % (len(groups), groups, len(c['tk']))
            for g, rng in zip(groups, c['tk']):
                if g != [str(k) for k in range(1, len(g) + 1)] or not rng['lo'] <= len(g) <= rng['hi']:
                    return ('the producer stage of the pipeline started items %s; structured meaning: between %d and %d items '
                            '(the block it runs in was ended by the consumer stage)' % (g, rng['lo'], rng['hi']))
    return None


def run(ck, replay=None):
    ck.cov['rule'] = ('TLC evaluates the structured meaning (completion records normal/break name/continue name/return n) of every program of three '
                      'families in Control.tla.  call: a function called from a loop of the main function ends itself with return / break <its name> / break if at a chosen item - the caller\'s loop and the caller carry on.  nest: a function whose body has an outer loop (foreach, while or for) over 3 items, optionally an '
                      'inner loop (any of the three kinds) over 2 items, and in each loop body optionally `if {var == k} then { out; CTRL; out }` with '
                      'CTRL in {break <loop name>, continue <loop name>, return 3, return 0, break if, break <function>} where the loop name is that of any '
                      'enclosing loop (so with loops of different kinds the outer one can be named from the inner one); the outer loop is followed by another statement or is the function\'s last one (then the function\'s exit number is the loop\'s: judged after return n and after a normal end, not after break).  stage: the consumer '
                      'foreach of a pipeline `producer -> foreach` (optionally inside a while loop) ends its own loop / the while loop / the '
                      'function while the producer stage (one item per second, reported on stderr) is still running; the meaning gives the range '
                      'of items the producer may have started: all of them unless a block around the pipeline was ended, then at least the item '
                      'the consumer was at and not the last one.  Each program is rendered and run by the real interpreter (function call last: '
                      'exit number observed; followed by another command: caller carries on); printed tags, exit number and producer items are '
                      'compared.  A seeded sample of the nest / call programs runs once more with every pipe logging its own open/close/append events, validated against StreamUse.tla.  A stage program that disagrees is run twice more alone with 5 s per item and counts only if both disagree as well.  '
                      'non-trivial = at least one control statement; distinct = different programs.')
    ck.assumptions += ['blocks are named as murex names them: foreach, while, for, if, and the function name',
                       'loops are foreach over a JSON array literal, while with a counter incremented at the top of the body, for { i = 1; $i <= n; i = $i + 1 }',
                       'stage family: the consumer receives an item and reaches its control statement within (6 - item - 1) seconds of the producer printing it']
    wd = os.path.join(ck.scratch, 'gen')
    r = common.tlc('Control', 'MCControl.cfg', wd, workers=1, timeout=900)
    if r.violated:
        raise common.Infra('Control.tla: %s\n%s' % (r.violated, r.out[-2000:]))
    cases = common.read_ndjson(os.path.join(wd, 'cases.ndjson'))
    jobs = {'nest': [], 'stage': []}
    meta = {}
    cid = 0
    for c in cases:
        for tail in ('none', 'after'):
            cid += 1
            defs = []
            main = render_stmts(c['body'], cid, defs=defs)
            src = ''.join(d + '\n' for d in defs) + 'function fn%d {\n%s\n}\nfn%d' % (cid, main, cid)
            if tail == 'after':
                src += '\nout after'
            jobs['nest' if c['family'] == 'call' else c['family']].append({'id': cid, 'src': src, 'timeout_ms': 60000, 'repeat': 1})
            meta[cid] = (c, tail, src)
    res = prog.run_programs(ck, jobs['nest'], shards=8, tag='c39')
    res.update(prog.run_programs(ck, jobs['stage'], shards=min(len(jobs['stage']), 2 * common.NCPU), tag='c39s'))
    nontriv = set()
    fam = {'nest': 0, 'stage': 0, 'call': 0}
    for cid, (c, tail, src) in meta.items():
        x = res.get(cid)
        ck.cov['evaluations'] += 1
        p = c['params']
        if c['family'] == 'call':
            key = 'call k1=%s c1=%s@%d c2=%s@%d tail=%s' % (p['k1'], p['c1'], p['w1'], p['c2'], p['w2'], tail)
            triv = False
        elif c['family'] == 'nest':
            key = 'k1=%s c1=%s@%d inner=%s c2=%s@%d last=%s tail=%s' % (p['k1'], p['c1'], p['w1'], p['inner'], p['c2'], p['w2'], p['last'], tail)
            triv = p['c1'] == 'none' and p['c2'] == 'none'
        else:
            key = 'stage wrap=%s c=%s@%d tail=%s' % (p['wrap'], p['c'], p['w'], tail)
            triv = p['c'] == 'none'
        if x is None or x['status'] != 'done':
            ck.violation('crash-or-hang:' + key, 'program crashed or hung: %s' % (x and x['status']), {'src': src})
            continue
        bad = judge(c, tail, x['runs'])
        if bad and c['family'] == 'stage':
            # timing is involved: twice more, alone, with five seconds per item; it counts only if both runs disagree as well
            src3 = 'function fn%d {\n%s\n}\nfn%d' % (cid, render_stmts(c['body'], cid, sleep=5), cid) + ('\nout after' if tail == 'after' else '')
            for attempt in range(2):
                y = prog.run_programs(ck, [{'id': cid, 'src': src3, 'timeout_ms': 240000, 'repeat': 1}], shards=1, tag='c39c').get(cid)
                if y is None or y['status'] != 'done':
                    bad = 'program crashed or hung: %s' % (y and y['status'])
                    continue
                bad = judge(c, tail, y['runs'])
                x, src = y, src3
                if not bad:
                    ck.cov['stage_slow_not_wrong'] = ck.cov.get('stage_slow_not_wrong', 0) + 1
                    break
        if bad:
            ck.violation(key, bad, {'src': src, 'stderr': x['runs'][0]['err'].decode('utf-8', 'replace')[:500]})
        else:
            ck.cov['traces_validated_against_impl'] += 1
            fam[c['family']] += 1
            if not triv:
                nontriv.add(key)
                if len(ck.cov['samples']) < 4 and (c['family'] == 'stage' and p['c'] in ('return', 'break-while')
                                                   or c['family'] == 'nest' and p['inner'] not in ('none', p['k1']) and p['c2'] == 'break-' + p['k1']) \
                        and sum(1 for s_ in ck.cov['samples'] if s_.get('family') == c['family']) < 2:
                    ck.sample({'family': c['family'], 'src': src, 'stdout': [''.join(t) for t in c['out']], 'exit': c['exit'], 'producer_items': c['tk']})
    # StreamUse.tla on the nest / call programs: break, continue and return end blocks by cancelling them (KillForks, Done)
    from . import streamuselib as SU
    import random
    rng = random.Random(ck.seed)
    sujobs = [{'id': j['id'], 'src': j['src']} for j in jobs['nest']]
    rng.shuffle(sujobs)
    SU.run_binding(ck, sujobs[:(500 if ck.tier == 'quick' else 8000)], perturb=ck.seed * 100 + 7, tag='su')
    ck.cov['programs_agreeing_by_family'] = fam
    ck.cov['distinct_nontrivial'] = len(nontriv)
    ck.cov['exhaustive'] = True
    if not ck.violations and len(nontriv) < 1000:
        raise common.Infra('vacuous: %d' % len(nontriv))
