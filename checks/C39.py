"""C39 - break, continue and return affect only the named block.  spec/Control.tla."""
import os
from vlib import common, prog

LEVEL = 'exploration'


def render_stmts(ss, cid, ind='  '):
    out = []
    for s in ss:
        if s['t'] == 'out':
            out.append(ind + 'out "%s"' % ''.join(s['tag']))
        elif s['t'] == 'ctl':
            if s['k'] == 'return':
                out.append(ind + 'return %d' % s['n'])
            else:
                name = s['name'] if s['name'] != 'fn' else 'fn%d' % cid
                out.append(ind + '%s %s' % (s['k'], name))
        elif s['t'] == 'if':
            out.append(ind + 'if { $%s == %d } then {' % (s['var'], s['val']))
            out.append(render_stmts(s['body'], cid, ind + '  '))
            out.append(ind + '}')
        elif s['t'] == 'foreach':
            out.append(ind + '%%[%s] -> foreach %s {' % (','.join(str(x) for x in s['items']), s['var']))
            out.append(render_stmts(s['body'], cid, ind + '  '))
            out.append(ind + '}')
    return '\n'.join(out)


def run(ck, replay=None):
    ck.cov['rule'] = ('TLC evaluates the structured meaning (completion records normal/break name/continue name/return n) of every program of the '
                      'family in Control.tla: a function whose body has an outer foreach over 3 items, optionally an inner foreach over 2 items, and '
                      'in each loop body optionally `if {var == k} then { out; CTRL; out }` with CTRL in {break foreach, continue foreach, return 3, '
                      'break if, break <function>}; each program is rendered and run by the real interpreter twice (function call last: exit number '
                      'observed; followed by another command: caller carries on); the printed tags and the exit number are compared.  '
                      'non-trivial = at least one control statement; distinct = different programs.')
    ck.assumptions += ['blocks are named as murex names them: foreach, if, and the function name', 'loops are foreach over a JSON array literal']
    wd = os.path.join(ck.scratch, 'gen')
    r = common.tlc('Control', 'MCControl.cfg', wd, workers=1, timeout=600)
    if r.violated:
        raise common.Infra('Control.tla: %s\n%s' % (r.violated, r.out[-2000:]))
    cases = common.read_ndjson(os.path.join(wd, 'cases.ndjson'))
    jobs = []
    meta = {}
    cid = 0
    for c in cases:
        for tail in ('none', 'after'):
            cid += 1
            src = 'function fn%d {\n%s\n}\nfn%d' % (cid, render_stmts(c['body'], cid), cid)
            if tail == 'after':
                src += '\nout after'
            jobs.append({'id': cid, 'src': src, 'timeout_ms': 20000, 'repeat': 2})
            meta[cid] = (c, tail, src)
    res = prog.run_programs(ck, jobs, shards=8, tag='c39')
    nontriv = set()
    for cid, (c, tail, src) in meta.items():
        x = res.get(cid)
        ck.cov['evaluations'] += 1
        p = c['params']
        key = 'c1=%s@%d inner=%s c2=%s@%d tail=%s' % (p['c1'], p['w1'], p['inner'], p['c2'], p['w2'], tail)
        if x is None or x['status'] != 'done':
            ck.violation('crash-or-hang:' + key, 'program crashed or hung: %s' % (x and x['status']), {'src': src})
            continue
        want = [''.join(t) for t in c['out']] + (['after'] if tail == 'after' else [])
        wexit = c['exit'] if tail == 'none' else 0
        bad = None
        for r in x['runs']:
            if r.get('panic'):
                bad = 'internal panic: ' + r['panic']
                break
            got = r['out'].decode('utf-8', 'replace').split('\n')[:-1]
            if got != want or r['exit'] != wexit:
                bad = 'printed %s exit %d; structured meaning: %s exit %d' % (got, r['exit'], want, wexit)
                break
        if bad:
            ck.violation(key, bad, {'src': src, 'stderr': x['runs'][0]['err'].decode('utf-8', 'replace')[:500]})
        else:
            ck.cov['traces_validated_against_impl'] += 1
            if p['c1'] != 'none' or p['c2'] != 'none':
                nontriv.add(key)
                if len(ck.cov['samples']) < 3 and p['inner'] and p['c2'] != 'none':
                    ck.sample({'src': src, 'stdout': want, 'exit': wexit})
    ck.cov['distinct_nontrivial'] = len(nontriv)
    ck.cov['exhaustive'] = True
    if not ck.violations and len(nontriv) < 100:
        raise common.Infra('vacuous: %d' % len(nontriv))
