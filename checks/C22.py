"""C22 - commands resolve in precedence order; aliases expand once.  spec/Resolve.tla."""
import os
import stat
from vlib import common, prog

LEVEL = 'exploration'

BUILTIN = 'escape'      # a builtin whose output is recognisable: `escape a` prints "a" (with the quotes)


def script(path, text):
    with open(path, 'w') as f:
        f.write('#!/bin/sh\necho %s\n' % text)
    os.chmod(path, os.stat(path).st_mode | stat.S_IXUSR | stat.S_IXGRP | stat.S_IXOTH)


def run(ck, replay=None):
    ck.cov['rule'] = ('TLC evaluates Resolve.tla for every subset of {private, alias, function, builtin, external} defined for a name, every alias target '
                      '(a builtin with arguments, the name itself, another name) and every subset of {private, alias, function, external} defined for that other '
                      'name; each row is set up in the real interpreter (private/function/alias definitions, an executable on $PATH, the builtin '
                      '`escape` as the builtin case), the name is run and the definition that answered is compared with the table.  '
                      'non-trivial = at least two definitions or an alias; distinct = different rows.')
    ck.assumptions += ['the caller is inside the module that defined the private (each program is its own module); a caller in another module is not exercised',
                       'the builtin case uses the name `escape`; other rows use fresh names']
    wd = os.path.join(ck.scratch, 'gen')
    r = common.tlc('Resolve', 'MCResolve.cfg', wd, workers=1, timeout=600)
    if r.violated:
        raise common.Infra('Resolve.tla: %s\n%s' % (r.violated, r.out[-2000:]))
    cases = common.read_ndjson(os.path.join(wd, 'cases.ndjson'))
    bindir = os.path.join(ck.scratch, 'bin')
    os.makedirs(bindir)
    jobs = []
    meta = {}
    cid = 0
    builtin_rows = []
    for c in cases:
        cid += 1
        defs = set(c['defs'])
        odefs = set(c['odefs'])
        name = BUILTIN if 'builtin' in defs else 'cmdr%d' % cid
        other = 'othr%d' % cid
        src = []
        clean = []
        if 'private' in defs:
            src.append('private %s { out priv }' % name)
        if 'function' in defs:
            src.append('function %s { out fn }' % name)
            clean.append('!function %s' % name)
        if 'alias' in defs:
            tgt = {'out': 'out alias', 'self': name, 'other': other}[c['target']]
            src.append('alias %s=%s' % (name, tgt))
            clean.append('!alias %s' % name)
        if 'external' in defs:
            if name == BUILTIN:
                builtin_rows.append(cid)
            script(os.path.join(bindir, name if name != BUILTIN else BUILTIN + '.ext%d' % cid), 'ext')
        if 'private' in odefs:
            src.append('private %s { out opriv }' % other)
        if 'alias' in odefs:
            src.append('alias %s=out oalias' % other)
            clean.append('!alias %s' % other)
        if 'function' in odefs:
            src.append('function %s { out ofn }' % other)
            clean.append('!function %s' % other)
        if 'external' in odefs:
            script(os.path.join(bindir, other), 'oext')
        src.append('%s a' % name)
        src.append('out')          # newline after builtins that print none
        src.append('out rc-marker')
        src += clean
        jobs.append({'id': cid, 'src': '\n'.join(src), 'timeout_ms': 20000})
        meta[cid] = (c, name, '\n'.join(src))
    # rows with builtin+external both defined need an executable called `escape`: one shared file, harmless for
    # rows where external is not in defs because those rows never reach the external case unless the table says "error"
    script(os.path.join(bindir, BUILTIN), 'ext')
    os.environ['PATH'] = bindir + ':' + os.environ.get('PATH', '')
    res = prog.run_programs(ck, jobs, shards=8, tag='c22')
    want_tag = {'private': 'priv', 'alias': 'alias a', 'function': 'fn', 'builtin': '"a"', 'external': 'ext',
                'other-function': 'ofn', 'other-external': 'oext', 'other-private': 'opriv'}
    nontriv = set()
    unjudged = 0
    for cid, (c, name, src) in meta.items():
        x = res.get(cid)
        ck.cov['evaluations'] += 1
        key = 'defs=%s target=%s odefs=%s' % ('+'.join(sorted(c['defs'])) or '-', c['target'], '+'.join(sorted(c['odefs'])) or '-')
        if x is None or x['status'] != 'done':
            ck.violation('crash-or-hang:' + key, 'program crashed or hung (alias loop?): %s' % (x and x['status']), {'src': src})
            continue
        r = x['runs'][0]
        if r.get('panic'):
            ck.violation('panic:' + key, r['panic'], {'src': src})
            continue
        if name == BUILTIN and 'external' not in c['defs'] and c['runs'] == 'error':
            unjudged += 1       # our shared `escape` executable exists although the row says no external
            continue
        first = r['out'].decode('utf-8', 'replace').split('\n')[0]
        err = r['err'].decode('utf-8', 'replace')
        if c['runs'] == 'error':
            ok = first == '' and err != ''
            got = first or 'error'
        else:
            ok = first == want_tag[c['runs']]
            got = first
        if not ok:
            ck.violation(key, '`%s a` answered %r; rule: %s (%r)' % (name, got, c['runs'], want_tag.get(c['runs'], 'an error')), {'src': src, 'stderr': err[:400]})
        else:
            ck.cov['traces_validated_against_impl'] += 1
            if len(c['defs']) >= 2 or 'alias' in c['defs']:
                nontriv.add(key)
                if len(ck.cov['samples']) < 3 and c['target'] != 'out':
                    ck.sample({'src': src, 'answered': got, 'rule': c['runs']})
    ck.cov['unjudged_executed'] = unjudged
    ck.cov['distinct_nontrivial'] = len(nontriv)
    ck.cov['exhaustive'] = True
    if not ck.violations and len(nontriv) < 40:
        raise common.Infra('vacuous: %d' % len(nontriv))
