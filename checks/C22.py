"""C22 - commands resolve in precedence order; aliases expand once.  spec/Resolve.tla."""
import os
import stat
from vlib import common, prog

LEVEL = 'exploration'

BUILTIN = 'escape'      # a builtin whose output is recognisable: `escape a` prints "a" (with the quotes)


def script(path, text):
    with open(path, 'w') as f:
        f.write('#!/bin/sh\necho %s\n' % text)
    os.chmod(path, os.stat(path).st_mode | stat.S_IXUSR | stat.S_IXGRP | stat.S_IXOTH)


def run(ck, replay=None):
    ck.cov['rule'] = ('TLC evaluates Resolve.tla for every subset of {private, alias, function, builtin, external} defined for a name, every alias target '
                      '(a builtin with arguments, the name itself, another name) and every subset of {private, alias, function, external} defined for that other '
                      'name; each row is set up in the real interpreter (private/function/alias definitions, an executable on $PATH, the builtin '
                      '`escape` as the builtin case), the name is run and the definition that answered is compared with the table.  Across modules: a public function '
                      'of module A runs the name while the caller is a program of another module B with or without a private of that name: the private of A, else alias, '
                      'function, external answers - never the private of B.  '
                      'non-trivial = at least two definitions or an alias; distinct = different rows.')
    ck.assumptions += ['each program is a module of its own; the cross-module rows define module A by a program run before the calling program (mxh run-programs `pre`)',
                       'the builtin case uses the name `escape`; other rows use fresh names']
    wd = os.path.join(ck.scratch, 'gen')
    r = common.tlc('Resolve', 'MCResolve.cfg', wd, workers=1, timeout=600)
    if r.violated:
        raise common.Infra('Resolve.tla: %s\n%s' % (r.violated, r.out[-2000:]))
    cases = common.read_ndjson(os.path.join(wd, 'cases.ndjson'))
    bindir = os.path.join(ck.scratch, 'bin')
    os.makedirs(bindir)
    jobs = []
    meta = {}
    cid = 0
    builtin_rows = []
    for c in cases:
        cid += 1
        defs = set(c['defs'])
        odefs = set(c['odefs'])
        name = BUILTIN if 'builtin' in defs else 'cmdr%d' % cid
        other = 'othr%d' % cid
        src = []
        clean = []
        if 'private' in defs:
            src.append('private %s { out priv }' % name)
        if 'function' in defs:
            src.append('function %s { out fn }' % name)
            clean.append('!function %s' % name)
        if 'alias' in defs:
            tgt = {'out': 'out alias', 'self': name, 'other': other}[c['target']]
            src.append('alias %s=%s' % (name, tgt))
            clean.append('!alias %s' % name)
        if 'external' in defs:
            if name == BUILTIN:
                builtin_rows.append(cid)
            script(os.path.join(bindir, name if name != BUILTIN else BUILTIN + '.ext%d' % cid), 'ext')
        if 'private' in odefs:
            src.append('private %s { out opriv }' % other)
        if 'alias' in odefs:
            src.append('alias %s=out oalias' % other)
            clean.append('!alias %s' % other)
        if 'function' in odefs:
            src.append('function %s { out ofn }' % other)
            clean.append('!function %s' % other)
        if 'external' in odefs:
            script(os.path.join(bindir, other), 'oext')
        src.append('%s a' % name)
        src.append('out')          # newline after builtins that print none
        src.append('out rc-marker')
        src += clean
        jobs.append({'id': cid, 'src': '\n'.join(src), 'timeout_ms': 20000})
        meta[cid] = (c, name, '\n'.join(src))
    # rows with builtin+external both defined need an executable called `escape`: one shared file, harmless for
    # rows where external is not in defs because those rows never reach the external case unless the table says "error"
    script(os.path.join(bindir, BUILTIN), 'ext')
    os.environ['PATH'] = bindir + ':' + os.environ.get('PATH', '')
    res = prog.run_programs(ck, jobs, shards=8, tag='c22')
    want_tag = {'private': 'priv', 'alias': 'alias a', 'function': 'fn', 'builtin': '"a"', 'external': 'ext',
                'other-function': 'ofn', 'other-external': 'oext', 'other-private': 'opriv'}
    nontriv = set()
    unjudged = 0
    for cid, (c, name, src) in meta.items():
        x = res.get(cid)
        ck.cov['evaluations'] += 1
        key = 'defs=%s target=%s odefs=%s' % ('+'.join(sorted(c['defs'])) or '-', c['target'], '+'.join(sorted(c['odefs'])) or '-')
        if x is None or x['status'] != 'done':
            ck.violation('crash-or-hang:' + key, 'program crashed or hung (alias loop?): %s' % (x and x['status']), {'src': src})
            continue
        r = x['runs'][0]
        if r.get('panic'):
            ck.violation('panic:' + key, r['panic'], {'src': src})
            continue
        if name == BUILTIN and 'external' not in c['defs'] and c['runs'] == 'error':
            unjudged += 1       # our shared `escape` executable exists although the row says no external
            continue
        first = r['out'].decode('utf-8', 'replace').split('\n')[0]
        err = r['err'].decode('utf-8', 'replace')
        if c['runs'] == 'error':
            ok = first == '' and err != ''
            got = first or 'error'
        else:
            ok = first == want_tag[c['runs']]
            got = first
        if not ok:
            ck.violation(key, '`%s a` answered %r; rule: %s (%r)' % (name, got, c['runs'], want_tag.get(c['runs'], 'an error')), {'src': src, 'stderr': err[:400]})
        else:
            ck.cov['traces_validated_against_impl'] += 1
            if len(c['defs']) >= 2 or 'alias' in c['defs']:
                nontriv.add(key)
                if len(ck.cov['samples']) < 3 and c['target'] != 'out':
                    ck.sample({'src': src, 'answered': got, 'rule': c['runs']})
    # ---- across modules (xcases.ndjson): module A (a program of its own) defines the public function pubN whose body runs
    # the name, plus A's private of that name; the calling program is another module, with or without its own private
    xcases = common.read_ndjson(os.path.join(wd, 'xcases.ndjson'))
    xjobs = []
    xmeta = {}
    for c in xcases:
        cid += 1
        defs = set(c['defs'])
        name = 'xcmd%d' % cid
        mod_a = ['function pub%d { %s a; out }' % (cid, name)]
        clean = ['!function pub%d' % cid]
        if 'private' in defs:
            mod_a.append('private %s { out privA }' % name)
        main = []
        if 'function' in defs:
            main.append('function %s { out fn }' % name)
            clean.append('!function %s' % name)
        if 'alias' in defs:
            main.append('alias %s=out alias' % name)
            clean.append('!alias %s' % name)
        if 'external' in defs:
            script(os.path.join(bindir, name), 'ext')
        if c['privB']:
            main.append('private %s { out privB }' % name)
        main += ['pub%d' % cid, 'out rc-marker'] + clean
        xjobs.append({'id': cid, 'pre': ['\n'.join(mod_a)], 'src': '\n'.join(main), 'timeout_ms': 20000})
        xmeta[cid] = (c, '# module A\n' + '\n'.join(mod_a) + '\n# module B\n' + '\n'.join(main))
    xres = prog.run_programs(ck, xjobs, shards=4, tag='c22x')
    xwant = {'private': 'privA', 'alias': 'alias a', 'function': 'fn', 'external': 'ext'}
    for cid_, (c, src) in xmeta.items():
        x = xres.get(cid_)
        ck.cov['evaluations'] += 1
        key = 'xmod defs=%s privB=%s' % ('+'.join(sorted(c['defs'])) or '-', c['privB'])
        if x is None or x['status'] != 'done':
            ck.violation('crash-or-hang:' + key, 'program crashed or hung: %s' % (x and x['status']), {'src': src})
            continue
        r = x['runs'][0]
        first = r['out'].decode('utf-8', 'replace').split('\n')[0]
        err = r['err'].decode('utf-8', 'replace')
        ok = (first == '' and err != '') if c['runs'] == 'error' else first == xwant[c['runs']]
        if not ok:
            ck.violation(key, 'a public function of module A runs the name, called from module B: answered %r; rule: %s' % (first or 'error', c['runs']),
                         {'src': src, 'stderr': err[:400]})
        else:
            ck.cov['traces_validated_against_impl'] += 1
            nontriv.add(key)
            if c['privB'] and 'private' in c['defs'] and sum(1 for s_ in ck.cov['samples'] if 'module A' in s_.get('src', '')) < 1:
                ck.sample({'src': src, 'answered': first, 'rule': c['runs']})
    ck.cov['unjudged_executed'] = unjudged
    ck.cov['distinct_nontrivial'] = len(nontriv)
    ck.cov['exhaustive'] = True
    if not ck.violations and len(nontriv) < 40:
        raise common.Infra('vacuous: %d' % len(nontriv))
