"""Shared by C11/C25: Scopes.tla case table -> murex programs -> real interpreter.

A case is a history of operations (spec/Scopes.tla) with, after every operation, what the rule
says the program observes.  The renderer only turns the history into murex source (nested
function definitions / blocks, one observation group after each operation) and the table's
numbers into the tokens the program prints; it decides nothing about expected values."""
import os
import random
import re
from vlib import common, prog

KINDS = ['if', 'switch', 'foreach', 'subshell']
SET_FORMS = ['expr', 'set', 'pipe']

CFG_TMPL = '''SPECIFICATION Spec
CONSTANTS
  Names = {%(names)s}
  Opts = {%(opts)s}
  GlobalOpts = {%(gopts)s}
  MaxLen = %(maxlen)d
  MaxDepth = %(maxdepth)d
  Family = "%(family)s"
  TopLevel = "%(top)s"
INVARIANT Agree
PROPERTIES WriteIsLocal ReturnRestores
POSTCONDITION Emit
CHECK_DEADLOCK FALSE
'''


def _set(xs):
    return ', '.join('"%s"' % x for x in xs)


def gen_cases(ck, family, top, names, opts, gopts, maxlen, maxdepth, tag):
    """TLC: operational fork/table machine = declarative rule on every history; export the table."""
    cfg = CFG_TMPL % {'names': _set(names), 'opts': _set(opts), 'gopts': _set(gopts), 'maxlen': maxlen,
                      'maxdepth': maxdepth, 'family': family, 'top': top}
    wd = os.path.join(ck.scratch, 'sc-' + tag)
    r = common.tlc('ScopesGen', 'Run.cfg', wd, files={'Run.cfg': cfg}, timeout=3000, workers=4)
    if r.violated:
        raise common.Infra('Scopes.tla (%s): %s violated: the fork/table machine and the declarative scoping rule disagree\n%s'
                           % (tag, r.violated, r.out[-3000:]))
    ck.add_tlc(r)
    ck.cov.setdefault('model_checking_runs', {})[tag] = {'distinct': r.distinct, 'generated': r.generated, 'wall_s': round(r.wall, 1),
                                                         'bounds': {'names': names, 'opts': opts, 'maxlen': maxlen, 'maxdepth': maxdepth, 'top': top}}
    cases = common.read_ndjson(os.path.join(wd, 'cases.ndjson'))
    for c in cases:
        c['top'] = top
        c['family'] = family
    return cases


def opstr(case):
    return ' '.join(o['k'] if o['n'] == '-' else '%s.%s' % (o['k'], o['n']) for o in case['ops'])


# ------------------------------------------------------------------ rendering
# how the value written at history position j is spelled ("v<j>": every read identifies the write it saw;
# C11 also runs the histories with one constant value for every write: then a write that repeats the value
# the global currently has is exercised, and reads still tell defined from undefined)
VALFN = [lambda j: 'v%d' % j]
# C11, third pass (after seeded change C11d): integer values, typed writes (`set int n=`, `n = 105`, `-> set int n`) and
# reads in value context (`${ $n + 0 }`): the expression evaluator reads variables through Variables.GetValue, a
# different look-up path from the string interpolation of `out "$n"`
NUMERIC = [False]


class Renderer:
    """history -> murex source.  All names carry the case id: interpreter state (functions,
    globals, config options) is process-wide and shared by the programs of a shard."""

    def __init__(self, case, cid, kind, rng, cfgmap=None):
        self.case = case
        self.ops = case['ops']
        self.cid = cid
        self.kind = kind            # block kind for every blk, or 'mixed'
        self.rng = rng
        self.funcs = []
        self.forms = []
        self.cfgmap = cfgmap        # C25: option -> dict(app, key, val(j)->text)
        ob = case['obs'][0]
        self.names = sorted(ob['rd'].keys()) if isinstance(ob['rd'], dict) else []
        self.opts = sorted(ob['cf'].keys()) if isinstance(ob['cf'], dict) else []

    def var(self, n):
        return '%s_%d' % (n, self.cid)

    # -- one operation
    def stmt(self, o, i):
        k, n = o['k'], o['n']
        v = VALFN[0](i)
        if k in ('set', 'gset'):
            form = self.rng.choice(SET_FORMS)
            self.forms.append(form)
            if NUMERIC[0]:
                if k == 'set':
                    return {'expr': '%s = %s' % (self.var(n), v),
                            'set': 'set int %s=%s' % (self.var(n), v),
                            'pipe': 'out %s -> set int %s' % (v, self.var(n))}[form]
                return {'expr': '$GLOBAL.%s = %s' % (self.var(n), v),
                        'set': 'global int %s=%s' % (self.var(n), v),
                        'pipe': 'out %s -> global int %s' % (v, self.var(n))}[form]
            if k == 'set':
                return {'expr': '%s = "%s"' % (self.var(n), v),
                        'set': 'set %s=%s' % (self.var(n), v),
                        'pipe': 'out %s -> set %s' % (v, self.var(n))}[form]
            return {'expr': '$GLOBAL.%s = "%s"' % (self.var(n), v),
                    'set': 'global %s=%s' % (self.var(n), v),
                    'pipe': 'out %s -> global %s' % (v, self.var(n))}[form]
        if k == 'unset':
            return '!set %s' % self.var(n)
        if k == 'gunset':
            return '!global %s' % self.var(n)
        m = self.cfgmap[n]
        if k == 'cset':
            form = self.rng.choice(['param', 'pipe'])
            self.forms.append(form)
            if form == 'param':
                return 'config set %s %s %s' % (m['app'], m['key'], m['val'](i))
            return '(%s) -> config set %s %s' % (m['val'](i), m['app'], m['key'])
        if k == 'cdef':
            form = self.rng.choice(['default', 'bang'])
            self.forms.append(form)
            return ('config default %s %s' if form == 'default' else '!config %s %s') % (m['app'], m['key'])
        raise common.Infra('unknown op %r' % (o,))

    # -- the observation group after operation i
    def observe(self, i):
        out = []
        for n in (self.names if NUMERIC[0] else []):
            out.append('out "%d:r.%s=${ $%s + 0 }" || out "%d:r.%s=U"' % (i, n, self.var(n), i, n))
            out.append('out "%d:g.%s=${ $GLOBAL.%s + 0 }" || out "%d:g.%s=U"' % (i, n, self.var(n), i, n))
        for n in ([] if NUMERIC[0] else self.names):
            out.append('out "%d:r.%s=$%s" || out "%d:r.%s=U"' % (i, n, self.var(n), i, n))
            out.append('out "%d:g.%s=$GLOBAL.%s" || out "%d:g.%s=U"' % (i, n, self.var(n), i, n))
        for o in self.opts:
            m = self.cfgmap[o]
            out.append('out "%d:c.%s=${config get %s %s}" || out "%d:c.%s=U"' % (i, o, m['app'], m['key'], i, o))
        return out

    def wrap(self, inner, i):
        kind = self.kind if self.kind != 'mixed' else self.rng.choice(KINDS)
        b = '\n'.join(inner)
        if kind == 'if':
            return 'if { true } then {\n%s\n}' % b
        if kind == 'switch':
            return 'switch {\ncase { true } then {\n%s\n}\n}' % b
        if kind == 'foreach':
            return '%%[1] -> foreach it%d_%d {\n%s\n}' % (i, self.cid, b)
        if kind == 'subshell':
            return 'out ${\n%s\n}' % b
        raise common.Infra('unknown block kind ' + kind)

    def parse(self, i):
        """ops[i..] (1-based) up to the closer of the enclosing construct -> (lines, index of closer or n+1)"""
        n = len(self.ops)
        lines = []
        while i <= n:
            o = self.ops[i - 1]
            k = o['k']
            if k in ('ret', 'end'):
                return lines, i
            if k == 'call':
                inner, j = self.parse(i + 1)
                fname = 'f%d_%d' % (self.cid, i)
                self.funcs.append('function %s {\n%s\n}' % (fname, '\n'.join(self.observe(i) + inner)))
                lines.append(fname)
            elif k == 'blk':
                inner, j = self.parse(i + 1)
                lines.append(self.wrap(self.observe(i) + inner, i))
            else:
                lines.append(self.stmt(o, i))
                lines += self.observe(i)
                i += 1
                continue
            if j <= n:
                lines += self.observe(j)
                i = j + 1
            else:
                i = j
        return lines, i

    def source(self, prelude=(), postlude=()):
        lines, _ = self.parse(1)
        return '\n'.join(list(prelude) + self.funcs + lines + list(postlude)) + '\n'


_line = re.compile(r'^(\d+):([rgc])\.(\w+)=(.*)$')


def expected(case, valtext=None):
    """table -> {(step, field, name): token}; 0 in rd/gl = undefined -> 'U'"""
    exp = {}
    for i, ob in enumerate(case['obs'], 1):
        if isinstance(ob['rd'], dict):
            for n, v in ob['rd'].items():
                exp[(i, 'r', n)] = 'U' if v == 0 else VALFN[0](v)
            for n, v in ob['gl'].items():
                exp[(i, 'g', n)] = 'U' if v == 0 else VALFN[0](v)
        if isinstance(ob['cf'], dict):
            for o, v in ob['cf'].items():
                exp[(i, 'c', o)] = valtext[o](v)
    return exp


def parse_out(text):
    got = {}
    bad = []
    for ln in text.split('\n'):
        if not ln.strip():
            continue
        m = _line.match(ln)
        if not m:
            bad.append(ln)
            continue
        key = (int(m.group(1)), m.group(2), m.group(3))
        if key in got:
            bad.append('duplicate ' + ln)
        got[key] = m.group(4)
    return got, bad


def nontrivial(case):
    ks = [o['k'] for o in case['ops']]
    data = [k for k in ks if k not in ('call', 'ret', 'blk', 'end')]
    return len(data) >= 2 and any(k in ('call', 'blk') for k in ks)


def variants(case, mode, rng):
    """block kinds a history is rendered with: 'all' = one program per kind, 'some' = two kinds chosen at random plus
    one program with a random kind per block, 'mixed' = only the latter"""
    if not any(o['k'] == 'blk' for o in case['ops']):
        return ['plain']
    if mode == 'all':
        return list(KINDS)
    if mode == 'some':
        return rng.sample(KINDS, 2) + ['mixed']
    return ['mixed']


def compare(ck, case, variant, src, forms, x, valtext=None, tag='', undef_ok=('U', '')):
    """x = result of the real interpreter for one rendered case.  Returns 'ok' / 'viol'."""
    pk = '%s:%s:%s' % (tag, variant, opstr(case))
    info = {'src': src, 'ops': opstr(case), 'variant': variant, 'forms': forms, 'top': case['top']}
    if x is None:
        raise common.Infra('no result for case ' + pk)
    if x['status'] == 'crashed':
        ck.violation('crash:' + pk, 'interpreter process died running the program: ' + x.get('stderr', '')[-300:], info)
        return 'viol'
    if x['status'] == 'hung':
        ck.violation('hang:' + pk, 'program did not finish', info)
        return 'viol'
    r = x['runs'][0]
    if r.get('panic'):
        ck.violation('panic:' + pk, 'internal panic: ' + r['panic'], dict(info, stderr=r['err'].decode('utf-8', 'replace')[-2000:]))
        return 'viol'
    exp = expected(case, valtext)
    got, bad = parse_out(r['out'].decode('utf-8', 'replace'))
    diffs = []
    for key in sorted(exp):
        e = exp[key]
        g = got.get(key)
        if g is None:
            diffs.append('%d:%s.%s missing (rule: %s)' % (key + (e,)))
        elif e == 'U':
            if g not in undef_ok:
                diffs.append('%d:%s.%s=%s (rule: undefined)' % (key + (g,)))
        elif g != e:
            diffs.append('%d:%s.%s=%s (rule: %s)' % (key + (g, e)))
    for key in got:
        if key not in exp:
            diffs.append('unexpected observation %s' % (key,))
    diffs += ['unparsable output line %r' % b for b in bad[:3]]
    if diffs:
        ck.violation('case:' + pk, 'history [%s] (%s): %s' % (opstr(case), variant, '; '.join(diffs[:4])),
                     dict(info, diffs=diffs[:20], stdout=r['out'].decode('utf-8', 'replace')[-3000:],
                          stderr=r['err'].decode('utf-8', 'replace')[-1500:],
                          expected={'%d:%s.%s' % k: v for k, v in sorted(exp.items())}))
        return 'viol'
    return 'ok'


def run_table(ck, cases, runner, cfgmap_fn=None, valtext=None, prelude_fn=None, postlude=(), limit=None, tag='sc', kinds='all'):
    """render every case (x block-kind variants), execute, compare.  runner(jobs) -> {id: result}."""
    rng = random.Random(ck.seed)
    if limit and len(cases) > limit:
        mx = max(len(c['ops']) for c in cases)
        short = [c for c in cases if len(c['ops']) < mx]
        long_ = [c for c in cases if len(c['ops']) == mx]
        rng.shuffle(long_)
        cases = short + long_[:max(0, limit - len(short))]
        ck.cov['exhaustive'] = False
    jobs = []
    meta = {}
    cid = getattr(ck, '_sc_cid', 0)
    for c in cases:
        for v in variants(c, kinds, rng):
            cid += 1
            cm = cfgmap_fn(cid) if cfgmap_fn else None
            rd = Renderer(c, cid, v, rng, cm)
            src = rd.source(prelude_fn(cid, cm) if prelude_fn else (), postlude)
            jobs.append({'id': cid, 'src': src, 'timeout_ms': 20000, 'level': c['top']})
            meta[cid] = (c, v, src, rd.forms)
    ck._sc_cid = cid
    res = runner(jobs)
    recheck_hangs(ck, jobs, res, runner)
    nontriv = set()
    for cid, (c, v, src, forms) in meta.items():
        ck.cov['evaluations'] += 1
        if compare(ck, c, v, src, forms, res.get(cid), valtext, tag) == 'ok':
            ck.cov['traces_validated_against_impl'] += 1
            if nontrivial(c):
                nontriv.add((tag, v, opstr(c)))
                if len(ck.cov['samples']) < 4 and len(c['ops']) >= 4 and rng.random() < 0.02:
                    ck.sample({'history': opstr(c), 'variant': v, 'src': src,
                               'expected': {'%d:%s.%s' % k: t for k, t in sorted(expected(c, valtext).items())}})
    ck.cov['distinct_nontrivial'] += len(nontriv)
    return len(nontriv)


def recheck_hangs(ck, jobs, res, runner, tries=3):
    """A program that ran into its time limit is run again on its own (three times, 120 s limit): on a heavily
    loaded machine a stall is not a hang.  Only a hang that shows again stays a finding."""
    hung = [j for j in jobs if res.get(j['id'], {}).get('status') == 'hung']
    for j in hung[:20]:
        again = []
        for t in range(tries):
            jj = dict(j, id=j['id'], timeout_ms=120000)
            again.append(runner([jj]).get(j['id']))
        if all(a is not None and a['status'] == 'done' for a in again):
            res[j['id']] = again[-1]
            ck.cov['stalls_not_reproduced'] = ck.cov.get('stalls_not_reproduced', 0) + 1


def prog_runner(ck, tag):
    def run(jobs):
        return prog.run_programs(ck, jobs, tag=tag)
    return run


def scopes_runner(ck, tag):
    """mxh scopes-run (harness/cmd/mxh/scopes.go): like run-programs, but a job with level='session'
    runs the way the interactive shell runs a command line (no F_FUNCTION fork around the body)."""
    import base64

    def run(jobs):
        results = {}
        pending = list(jobs)
        rnd = 0
        while pending:
            rnd += 1
            if rnd > 40:
                raise common.Infra('scopes-run: too many restarts')
            res, crashed = common.run_shards(ck, 'scopes-run', pending, shards=min(common.NCPU, max(1, len(pending) // 100)),
                                             tag='%s-%d' % (tag, rnd))
            for x in res:
                for r in x.get('runs', []):
                    r['out'] = base64.b64decode(r.get('out', ''))
                    r['err'] = base64.b64decode(r.get('err', ''))
                results[x['id']] = x
            pending = []
            for c in crashed:
                rest = [j for j in c['unfinished'] if j['id'] not in results]
                infl = [j for j in c['inflight'] if j['id'] not in results]
                if not infl and len(rest) == len(c['unfinished']) and rest and not res:
                    raise common.Infra('scopes-run failed before the first case: ' + c['stderr'][-2000:])
                for j in infl[-1:]:
                    # the process died while running this program
                    results[j['id']] = {'id': j['id'], 'status': 'crashed', 'runs': [], 'stderr': c['stderr']}
                pending += [j for j in rest if j['id'] not in results]
        return results
    return run
