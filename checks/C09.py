"""C09 - quoted string literals evaluate to exactly their contents.  spec/Lexer.tla (family "quote")."""
import json
import random

from vlib import common, prog
from . import lexerlib as L

LEVEL = 'model_checking'

SPECIAL = {'SP', 'TAB', 'CR', 'LF', 'BS', 'SQ', 'DQ', 'BT', 'EA', '(', ')', '#', ';', '|', '$', '~', '{', '}', '[', '%',
           'U1', 'U2', 'U3', 'U4', 'NBSP', 'ESC', 'DEL', 'BEL', 'FF', 'VT', '&', '<', '>', '*', '?', '@'}


def program(c):
    t = L.txt(c['text'])
    # a second statement guards the end of the literal: a lexer that runs past the closing quote eats it
    return t + '\nvx END\n' if c['pos'] == 'stmt' else t + '\nvxget v\n'


def balanced(s):
    d = 0
    for c in s:
        if c == '(':
            d += 1
        elif c == ')':
            d -= 1
            if d < 0:
                return False
    return d == 0


def sample_inputs(rng, n):
    rows = []
    while len(rows) < n:
        s = L.rand_tokens(rng, 4, 200 if rng.random() < 0.1 else 40)
        enc = rng.choice(['sq', 'dqmin', 'dqsp', 'dqall', 'dqbs', 'bq'])
        if enc == 'sq':
            s = [c for c in s if c != 'SQ']
        if enc == 'bq':
            # no expansions, and no `^`: {^A}-style names inside %(..) are ANSI constants (out of scope, see assumptions)
            s = [c for c in s if c not in ('$', '~', '^')]
            if not balanced(s):
                s = [c for c in s if c not in ('(', ')')]
        rows.append({'fam': 'quote', 's': s, 'enc': enc, 'pos': rng.choice(['stmt', 'expr'])})
    return rows


def run(ck, replay=None):
    quick = ck.tier == 'quick'
    rng = random.Random(ck.seed)
    ck.cov['rule'] = ('TLC enumerates every string s of <= 3 characters over a 14-symbol alphabet (quotes, backslash, parentheses, #, ;, |, '
                      'blank, tab, CR, LF, non-ASCII; thorough: 21 symbols with $ ~ { } [ %, and <= 4 characters over 8 symbols), encodes it with the spec\'s six encoders (single quote; double quote '
                      'minimal / with \\s\\t\\r\\n / backslash before every other character / backslash before every character itself, raw blanks and line feeds included; %(..)), places the literal as a statement argument and '
                      'as an assigned expression value, and checks that the transcribed lexer (preParser expression-first, parseStatement, '
                      'parseExpression, parseString, parseStringInfix with escape flag and parenthesis depth) yields exactly s in one '
                      'statement; the exported table (text, expected value) is executed by the real interpreter: `vx <literal>` prints the '
                      'parameters the command received, `v = <literal>` is read back through the variable API; a sentinel statement after '
                      'the literal detects over-run.  Seeded random strings of up to 200 characters over all of printable ASCII, control '
                      'and non-ASCII characters go through the same specification (inputs read from a file).  non-trivial = s contains a '
                      'character that is special in some lexer mode; distinct = different (s, encoder, position).')
    ck.assumptions += ['programs run in an empty scratch directory with an empty PATH (a mis-read line cannot reach anything outside it)',
                       '$ and ~ inside double quotes are written \\$ \\~ by the encoders and excluded from %(..) values: expansions are not part of this check',
                       'the value of an assigned literal is observed with Variables.GetString, a statement argument with Parameters.StringArray (harness builtins vx / vxget)',
                       'ANSI constant expansion ({RED}..) inside %(..) is not exercised: the alphabet has no constant name']
    n = 300 if quick else 3000
    cases = L.gen_cases(ck, 'MCLexerQuote.cfg', [] if quick else [('Plans <- QuotePlansQ', 'Plans <- QuotePlansT')], 'quote',
                        extra_inputs=sample_inputs(rng, n), timeout=6000)
    exhaustive = True
    # strings with an escaped double quote all fail for one known reason (and many of them make the parser spin):
    # beyond length 3 a seeded sample of them is enough
    dq_long = [c for c in cases if 'escaped-dq' in c['tags'] and len(c['s']) > 3]
    if len(dq_long) > 3000:
        keep = set(id(c) for c in rng.sample(dq_long, 3000))
        drop = set(id(c) for c in dq_long) - keep
        cases = [c for c in cases if id(c) not in drop]
        ck.cov['escaped_dq_rows_sampled'] = '%d of %d' % (3000, len(dq_long))
        exhaustive = False
    ck.cov['exhaustive'] = exhaustive
    ck.cov['table_rows'] = len(cases)

    jobs = [{'id': i, 'src': program(c), 'timeout_ms': 3000} for i, c in enumerate(cases)]
    res = L.run_programs_confirm(ck, jobs, tag='c09')
    nontriv = set()
    for i, c in enumerate(cases):
        ck.cov['evaluations'] += 1
        want = L.txt(c['value'])
        ident = '%s:%s' % (c['enc'], c['pos'])
        tags = '[%s]' % ','.join(sorted(c['tags']))
        st, r = L.classify_run(res.get(i))
        src = jobs[i]['src']
        if st != 'ok':
            ck.violation('c09:%s:%s:%s:%s' % (ident, st, tags, L.toks(c['s'])),
                         'literal %s as %s: interpreter %s' % (json.dumps(L.txt(c['text'])), c['pos'], st), {'src': src, 'expected': want})
            continue
        lines = L.json_lines(r['out'])
        if c['pos'] == 'stmt':
            good = lines == [[want], ['END']]
            got = lines
        else:
            good = lines is not None and len(lines) == 1 and isinstance(lines[0], dict) and lines[0].get('value') == want
            got = lines
        if good and r['exit'] == 0:
            ck.cov['traces_validated_against_impl'] += 1
            if set(c['s']) & SPECIAL:
                nontriv.add((c['enc'], c['pos'], tuple(c['s'])))
                if len(ck.cov['samples']) < 4 and len(c['s']) >= 3 and len(set(c['s']) & SPECIAL) >= 2:
                    ck.sample({'program': src, 'expected_value': want, 'stdout': r['out'].decode('utf-8', 'replace')})
            continue
        outcome = 'error' if r['exit'] != 0 or lines is None else 'mismatch'
        ck.violation('c09:%s:%s:%s:%s' % (ident, outcome, tags, L.toks(c['s'])),
                     '%s literal %s in %s position should evaluate to %s; real lexer: %s (exit %d)' % (
                         c['enc'], json.dumps(L.txt(c['text'])), c['pos'], json.dumps(want),
                         json.dumps(got) if got is not None else 'stdout ' + repr(r['out'][:120]), r['exit']),
                     {'src': src, 'expected': want, 'stdout': r['out'].decode('utf-8', 'replace'),
                      'stderr': r['err'].decode('utf-8', 'replace')[:600], 'exit': r['exit']})
    ck.cov['distinct_nontrivial'] = len(nontriv)
    if not ck.violations and len(nontriv) < 1000:
        raise common.Infra('vacuous: %d non-trivial literals' % len(nontriv))
