"""C18 - mkarray ranges produce the exact sequence.  spec/Arrays.tla section 3."""
import os
import random
from vlib import common
from . import arrayslib as L

LEVEL = 'model_checking'
WORDS = ['a', 'b', 'c', 'bb', 'C', 'Zed', 'k9', 'w_', 'mm', 'Q', 'r-s', 'v:1']
GLUE = ['x', 'y-', '_', 'pre', '=', 'z/', 'T']


def sp(v, pad):
    return str(v) if pad == 0 else ('-' if v < 0 else '') + str(abs(v)).zfill(pad)


def run(ck, replay=None):
    only = L.replay_begin(ck, replay)
    rng = random.Random(ck.seed)
    P = L.PARAMS[ck.tier]
    npairs = 12 if ck.tier == 'quick' else 60
    ck.cov['rule'] = ('TLC checks the transcribed generation loops of rangeToArrayString (ascending/descending/equal, padding taken from the lower bound) '
                      'and the goto odometer of writeArrayString (counter[], carry) against "every integer from m to n inclusive, zero-padded to the width of '
                      'the zero-padded bound" and "cartesian product, last block fastest" for every pair of spellings (natural and zero-padded to %s digits) '
                      'of integers in %d..%d, %d fixed pairs near +-200 plus %d seeded random pairs in -200..200, and every parameter of <=%d blocks drawn from a '
                      'menu of literal lists, ranges and mixed blocks of <=%d alternatives with literal text before/after, and exports the table.  Every row '
                      'is run through the real `a` and `ja` and the elements on stdout are compared with the table.  non-trivial = descending, zero-padded, '
                      'sign-crossing or multi-block; distinct = expression.'
                      % (P['PMkPads'], P['PMkVals'][0], P['PMkVals'][1], len(L.MK_FIXED), npairs, P['PMkMaxBlocks'], P['PMkMaxAlts']))
    ck.assumptions += ['padding is judged only for unambiguous spellings (no leading zeros; both bounds at the same width; only the numerically lower bound padded); '
                       'other spellings (only the higher bound padded, different widths, signed padded bounds, equal bounds spelled differently) are executed, not judged',
                       '`ja` elements are compared by their text (ja prints plain non-negative ranges as JSON numbers, everything else as strings)',
                       'literal texts are drawn from letters, digits and _ - : / = (no mkarray or shell metacharacters)']
    wd = L.gen_table(ck, 'mk', rng=rng, npairs=npairs)
    rows = common.read_ndjson(os.path.join(wd, 'mk.ndjson'))
    if len(rows) < 3000:
        raise common.Infra('vacuous: table has %d rows' % len(rows))
    ck.cov['exhaustive'] = True
    jobs, meta = [], {}
    cid = 0
    for row in rows:
        if not row['blocks'] and row['pre'] == 0:
            continue        # `a` without a parameter
        words = rng.sample(WORDS, 6)
        glue = rng.sample(GLUE, 2)
        lit = {0: ''}
        lit.update({1: glue[0], 2: glue[1]})
        lit.update({10 + j: words[j] for j in range(6)})
        expr = lit[row['pre']]
        nontriv = len(row['blocks']) > 1
        for b in row['blocks']:
            items = []
            for it in b['items']:
                if it[0] == 0:
                    items.append(lit[it[1]])
                else:
                    items.append('%s..%s' % (sp(it[1], it[2]), sp(it[3], it[4])))
                    if it[1] > it[3] or it[2] or it[4] or (it[1] < 0) != (it[3] < 0):
                        nontriv = True
            expr += '[%s]%s' % (','.join(items), lit[b['post']])
        want = [''.join(lit[p[1]] if p[0] == 0 else (str(p[1]) if p[2] == 0 else '%0*d' % (p[2], p[1])) for p in el) for el in row['elems']]
        for cmd in ['a', 'ja']:
            cid += 1
            src = '%s %s' % (cmd, expr)
            jobs.append({'id': cid, 'src': src, 'timeout_ms': 30000})
            meta[cid] = (row, cmd, expr, want, nontriv, src)
    res = L.run(ck, jobs, 'c18')
    nt = set()
    unjudged = 0
    for cid, (row, cmd, expr, want, nontriv, src) in meta.items():
        ck.cov['evaluations'] += 1
        tail = '%s:%s' % (cmd, expr)
        r = L.broken(ck, res.get(cid), tail, src)
        if r is None:
            continue
        if not row['judged']:
            unjudged += 1
            continue
        got = L.dec_list(r['out'], 'str' if cmd == 'a' else 'json')
        if got != want or r['exit'] != 0:
            def short(x):
                return x if x is None or len(x) <= 12 else x[:6] + ['...'] + x[-5:]
            ck.violation('value:' + tail, '`%s` output %s (exit %d); the rule gives %s' % (src, short(got), r['exit'], short(want)),
                         {'src': src, 'stdout': r['out'].decode('utf-8', 'replace')[:2000], 'stderr': r['err'].decode('utf-8', 'replace')[-400:], 'exit': r['exit'],
                          'expected': want})
            continue
        ck.cov['traces_validated_against_impl'] += 1
        if nontriv:
            nt.add(tail)
            if len(nt) % 3000 == 11:
                ck.sample({'src': src, 'expected': want[:12], 'stdout': r['out'].decode('utf-8', 'replace')[:120]})
    ck.cov['distinct_nontrivial'] = len(nt)
    ck.cov['unjudged_executed'] = unjudged
    if L.replay_end(ck, only):
        return
    if not ck.violations and len(nt) < 2000:
        raise common.Infra('vacuous: %d non-trivial expressions' % len(nt))
