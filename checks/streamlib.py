"""Shared by C01/C02: Stream.tla model checking, S-replay of state-graph paths, V trace validation."""
import json
import os
import random
import time
from vlib import common, graph


def fn_get(f, i):
    if isinstance(f, list):
        return f[i - 1] if 1 <= i <= len(f) else None
    if isinstance(f, dict):
        return f.get(i)
    return None


def node_step(st):
    ret = dict(st['ret'])
    act = ret['act']
    i = ret['id']
    nxt = ''
    if act[0] == 'W':
        nxt = fn_get(st['wpc'], i)
    elif act[0] == 'R':
        nxt = fn_get(st['rpc'], i)
    elif act[0] == 'T':
        nxt = fn_get(st['tpc'], i)
    elif act[0] == 'G':
        nxt = fn_get(st['gpc'], i)
    ret['next'] = nxt or ''
    ret['bW'] = st['bW']
    ret['bR'] = st['bR']
    return ret


def gen_paths(ck, cfg, mode, seed, limit=None, timeout=900):
    """Run TLC with a dot dump on the Gen config and derive replay paths."""
    wd = os.path.join(ck.scratch, 'gen-' + cfg)
    r = common.tlc('Stream', cfg, wd, extra=['-dump', 'dot,actionlabels', 'g.dot'], timeout=timeout)
    if r.violated:
        return r, None, None
    t0 = time.time()
    g = graph.load_dot(os.path.join(wd, 'g.dot'), ['ret', 'bW', 'bR', 'wpc', 'rpc', 'tpc', 'gpc'])
    os.remove(os.path.join(wd, 'g.dot'))
    rng = random.Random(seed)
    if mode == 'edges':
        paths = graph.edge_cover_paths(g, rng=rng)
    else:
        paths = graph.node_cover_paths(g, extend_to_terminal=True, rng=rng)
    total = len(paths)
    if limit and len(paths) > limit:
        paths = graph.sample(paths, limit, seed)
    rows = []
    for k, p in enumerate(paths):
        rows.append({'id': k, 'steps': [node_step(g.nodes[n]) for n in p]})
    common.log('[gen] %s: %d nodes %d edges -> %d paths (%d used) in %.1fs' % (
        cfg, len(g.nodes), g.nedges, total, len(rows), time.time() - t0))
    return r, rows, {'nodes': len(g.nodes), 'edges': g.nedges, 'paths_total': total}


def blocked_confirmed(ck, row, maxbuf):
    """a behaviour on which the real code stopped making progress (status blocked: 30 s without reaching the next lock
    region while every other actor is parked) counts only if it blocks again twice when replayed alone"""
    n = ck.cov.get('blocked_confirmations', 0)
    if n >= 3:
        return True        # the same cause has been confirmed three times in this run
    for _ in range(2):
        r = replay(ck, [row], maxbuf, shards=1)
        if not r or r[0].get('status') != 'blocked':
            ck.cov['slow_not_blocked'] = ck.cov.get('slow_not_blocked', 0) + 1
            return False
    ck.cov['blocked_confirmations'] = n + 1
    return True


def replay(ck, rows, maxbuf, shards=None):
    """Run mxh stream-replay over rows in parallel shards; returns list of results."""
    mxh = common.build_mxh()
    shards = shards or min(common.NCPU, max(1, len(rows) // 50))
    import subprocess
    procs = []
    for s in range(shards):
        part = rows[s::shards]
        if not part:
            continue
        inp = os.path.join(ck.scratch, 'paths-%d.ndjson' % s)
        outp = os.path.join(ck.scratch, 'res-%d.ndjson' % s)
        common.write_ndjson(inp, part)
        procs.append((subprocess.Popen([mxh, 'stream-replay', '-in', inp, '-out', outp, '-maxbuf', str(maxbuf)],
                                       stdout=subprocess.PIPE, stderr=subprocess.PIPE), outp))
    res = []
    for p, outp in procs:
        try:
            _, err = p.communicate(timeout=1800)
        except subprocess.TimeoutExpired:
            p.kill()
            raise common.Infra('stream-replay timed out')
        if p.returncode != 0:
            raise common.Infra('stream-replay failed: ' + err.decode('utf-8', 'replace')[-3000:])
        res += common.read_ndjson(outp)
    return res


def nontrivial_path(row):
    """>=2 actors and some actor's multi-region operation is interrupted by another actor."""
    steps = row['steps']
    ids = set(s['id'] for s in steps if s['act'] != 'Init')
    if len(ids) < 2:
        return False
    inprog = {}
    for s in steps:
        i = s['id']
        for j in list(inprog):
            if j != i:
                inprog[j] = True   # someone else moved while j is inside an operation
        if s.get('k') == 'none':
            inprog.setdefault(i, False)
        else:
            if inprog.pop(i, False):
                return True
    return False


def path_key(row):
    return '|'.join('%s%d' % (s['act'], s['id']) for s in row['steps'])


def drive_and_validate(ck, seed, n, flags, maxbuf, label):
    """V: record n random concurrent traces from the real code and validate with TLC."""
    import subprocess
    mxh = common.build_mxh()
    tr = os.path.join(ck.scratch, 'trace-%s.ndjson' % label)
    p = common.run([mxh, 'stream-drive', '-out', tr, '-seed', str(seed), '-n', str(n),
                    '-maxbuf', str(maxbuf)] + flags, timeout=600)
    if p.returncode != 0:
        raise common.Infra('stream-drive failed: ' + p.stderr.decode('utf-8', 'replace')[-2000:])
    lines = open(tr).read()
    nlines = lines.count('\n')
    hung = b'HUNG' in p.stdout
    cfg = open(os.path.join(common.SPEC, 'StreamTrace.cfg')).read().replace('@MAXBUF@', str(maxbuf))
    wd = os.path.join(ck.scratch, 'tv-' + label)
    r = common.tlc('StreamTrace', 'StreamTraceRun.cfg', wd, workers=1, timeout=900,
                   files={'StreamTraceRun.cfg': cfg, 'trace.ndjson': lines})
    if hung and not r.violated:
        # the recorded prefix is a legal behaviour, and the specification (liveness checked under
        # fairness) says every operation returns: the real code stopped making progress
        rows = common.read_ndjson(tr)
        t = rows[-1]['t']
        seg = [x for x in rows if x['t'] == t]
        ck.violation('hang:' + label, 'no goroutine made progress for 10 s in a state where the specification guarantees progress',
                     {'mode': label, 'trace': seg[-80:]})
    return r, tr, nlines


def rejected_trace(r, tr):
    """Extract the single trace (between resets) containing the rejected line."""
    import re
    m = re.search(r'"REJECTED_AT", (\d+)', r.out)
    rows = common.read_ndjson(tr)
    if not m:
        return None, None
    k = int(m.group(1))
    if k < 1 or k > len(rows):
        return k, rows[-40:]
    t = rows[k - 1]['t']
    seg = [x for x in rows if x['t'] == t]
    return k, {'rejected_line': k, 'rejected_event': rows[k - 1], 'trace': seg}
