"""C06 - arithmetic and comparison expressions follow C precedence.  spec/Expr.tla, spec/ExprGen.tla."""
import random
from vlib import common
from . import exprlib as L

LEVEL = 'model_checking'


def run(ck, replay=None):
    quick = ck.tier == 'quick'
    ck.cov['rule'] = (
        'TLC enumerates every expression of <= 3 operands (thorough: also 4 operands over 2 literals) over %d literal spellings x the 10 '
        'operators * / + - < <= > >= == != x every parenthesised group, every pair of 20 number spellings under every operator, string comparisons; checks on each that the transcribed '
        'parse/fold machine of executeExpression (orderOfOperations groups, leftmost fold, restart) yields the value of the precedence '
        'rule (invariant Agree), and exports the table of expected values (exact dyadic arithmetic with IEEE-754 infinities, NaN and '
        'signed zero).  Random deeper token sequences (nesting <= 6, up to 45 tokens, VERIF_SEED) are pushed through the same TLC model.  '
        'Every expression is rendered to murex text (spaced / compact / random spacing) and evaluated by the real interpreter as an '
        'assignment with read-back of value and type, as a bare statement, through `expr` and inlined `out (...)`; printed value (parsed '
        'back to a float64, sign of zero included) and primitive type are compared.  non-trivial = judged, >= 2 operators, matched; '
        'distinct = different token sequences; discriminating = the C reading differs from the no-precedence or the right-associative '
        'reading.' % (4 if quick else 7))
    ck.assumptions += [
        'expected numbers are exact dyadic rationals (mantissa < 2^30): on that domain float64 arithmetic is exact, so TLC integers are a valid oracle; '
        'expressions whose exact value leaves the domain (0.1, 1/3, ...) are executed but not judged (rounding is Go float64, not murex logic)',
        'operand kinds the property does not combine (boolean < number, string + number, (1<2)+1 ...) are executed (crash/hang/panic still reported) but not judged',
        'inline `out (E)` is not judged when the value is +-Inf/NaN (the inline form marshals through JSON)']
    base = 'MCExprGenQ.cfg' if quick else 'MCExprGen.cfg'
    rng = random.Random(ck.seed)
    rnd = L.random_c06(rng, 4000 if quick else 30000)
    cases, exp, _ = L.run_models(ck, L.enum_jobs(base, 'arith', L.C06_OPS, 4 if quick else 5), L.file_jobs(rnd, 2 if quick else 6))
    rcases = []
    for r in rnd:
        e = exp.get(r['id'])
        if e is None:
            raise common.Infra('TLC returned no row for random input %d' % r['id'])
        rcases.append({'toks': r['toks'], 'exp': e['exp'], 'flat': e['flat'], 'right': e['right']})
    ck.cov['exhaustive'] = True
    ck.cov['enumerated_expressions'] = len(cases)
    ck.cov['random_expressions'] = len(rcases)

    def variants_enum(c, rng):
        # value + type by assignment for every case; one more entry point and spacing drawn per case
        if quick:
            return [('assign', 'sp'), (rng.choice(['stmt', 'expr', 'sub']), rng.choice(['cp', 'mix']))]
        return [('assign', 'sp'), ('assign', 'cp'), (rng.choice(['stmt', 'expr', 'sub']), 'mix')]

    def variants_rnd(c, rng):
        return [('assign', rng.choice(['sp', 'mix'])), (rng.choice(['stmt', 'expr', 'sub']), rng.choice(['sp', 'cp', 'mix']))]

    s1 = L.run_c06(ck, cases, variants_enum)
    s2 = L.run_c06(ck, rcases, variants_rnd, sample=0.01)
    nontriv = s1['nontrivial'] | s2['nontrivial']
    disc = s1['disc'] | s2['disc']
    ck.cov['distinct_nontrivial'] = len(nontriv)
    ck.cov['discriminating'] = len(disc)
    ck.cov['judged_evaluations'] = s1['judged'] + s2['judged']
    ck.cov['unjudged_executed'] = s1['unjudged'] + s2['unjudged']
    ck.cov['random_deep_matched'] = s2['matched']
    ck.cov['max_nesting_random'] = max(L.nest_depth(c['toks']) for c in rcases)
    if not ck.violations:
        if len(nontriv) < 5000 or len(disc) < 1000 or s2['matched'] < 1500:
            raise common.Infra('vacuous: %d non-trivial, %d discriminating, %d deep random matched' % (len(nontriv), len(disc), s2['matched']))
