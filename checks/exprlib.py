"""Shared by C06/C07: Expr.tla / ExprGen.tla case tables -> murex expressions -> real interpreter.

The expected value of every expression comes out of TLC (Eval in spec/Expr.tla, exported as
ndjson by spec/ExprGen.tla).  This module only (a) draws random token sequences (syntax, no
evaluation), (b) turns token sequences into murex source text, (c) decodes what murex printed
and compares it with the value TLC gave."""
import json
import math
import os
import re
import random
import time
from concurrent.futures import ThreadPoolExecutor
from vlib import common, prog

C06_OPS = ['*', '/', '+', '-', '<', '<=', '>', '>=', '==', '!=']
ARITH = ['*', '/', '+', '-']
REL = ['<', '<=', '>', '>=']
EQ = ['==', '!=']


# ------------------------------------------------------------------ TLC
def _cfg(base, **kw):
    cfg = open(os.path.join(common.SPEC, base)).read()
    for k, v in kw.items():
        cfg, n = re.subn(r'(?m)^(\s*%s\s*=\s*).*$' % re.escape(k), lambda m: m.group(1) + v, cfg)
        if n != 1:
            raise common.Infra('%s: constant %s not found' % (base, k))
    return cfg


def _tla_set(xs):
    return '{' + ', '.join('"%s"' % x if isinstance(x, str) else str(x) for x in xs) + '}'


def _run_tlc_jobs(ck, jobs, timeout):
    """jobs: list of (name, cfg_text, files).  Runs them side by side, returns rows of all
    cases.ndjson files (in job order)."""
    nproc = max(1, min(len(jobs), common.NCPU))
    workers = max(2, common.NCPU // nproc)

    def one(job):
        name, cfg, files = job
        wd = os.path.join(ck.scratch, name)
        f = {'Run.cfg': cfg}
        f.update(files or {})
        r = common.tlc('ExprGen', 'Run.cfg', wd, files=f, timeout=timeout, workers=workers)
        if r.violated:
            raise common.Infra('Expr.tla: %s violated: the transcribed fold machine and the precedence rule disagree '
                               '(or an input is not well-formed)\n%s' % (r.violated, r.out[-3000:]))
        rows = common.read_ndjson(os.path.join(wd, 'cases.ndjson'))
        if name == 'live':
            for x in rows:
                x['_live'] = True
        return r, rows

    t0 = time.time()
    with ThreadPoolExecutor(max_workers=nproc) as ex:
        res = list(ex.map(one, jobs))
    rows = []
    for r, rw in res:
        ck.add_tlc(r)
        rows += rw
    common.log('[tlc] %s...: %d processes, %d rows, %d states, slowest %.1fs, wall %.1fs' % (
        jobs[0][0], len(jobs), len(rows), sum(r.distinct for r, _ in res), max(r.wall for r, _ in res), time.time() - t0))
    _run_tlc_jobs.dirs = [r.dir for r, _ in res]
    return rows


def enum_jobs(base_cfg, family, split_ops, nshards, **consts):
    """Enumerated families of ExprGen.tla.  The operators in split_ops are dealt to nshards TLC
    processes (constant Ops1); the first one also takes the unsplit families (Base)."""
    jobs = []
    for k in range(nshards):
        ops = split_ops[k::nshards]
        cfg = _cfg(base_cfg, Family='"%s"' % family, Ops1=_tla_set(ops), Base='TRUE' if k == 0 else 'FALSE', **consts)
        jobs.append(('gen-%s-%d' % (family, k), cfg, None))
    return jobs


def file_jobs(rows, nshards, tag='file'):
    """rows: [{'id': int, 'toks': [...]}]: TLC checks Agree + WellFormed on them"""
    cfg = open(os.path.join(common.SPEC, 'MCExprFile.cfg')).read()
    jobs = []
    for k in range(nshards):
        part = rows[k::nshards]
        if part:
            jobs.append(('%s-%d' % (tag, k), cfg, {'inputs.ndjson': ''.join(json.dumps(r, separators=(',', ':')) + '\n' for r in part)}))
    return jobs


def live_job():
    """small family with the liveness property (the restart-scan loop of executeExpression ends)"""
    return ('live', open(os.path.join(common.SPEC, 'MCExprLive.cfg')).read(), None)


def run_models(ck, ejobs, fjobs, timeout=3000):
    """All TLC processes side by side.  -> (rows of the enumerated families, id -> row of the file inputs,
    work directory of the first enumerated process)"""
    jobs = ejobs + fjobs + [live_job()]
    rows = _run_tlc_jobs(ck, jobs, timeout)
    enum = [r for r in rows if 'toks' in r and not r.get('_live')]
    byid = {r['id']: r for r in rows if 'id' in r}
    return enum, byid, _run_tlc_jobs.dirs[0]


# ------------------------------------------------------------------ tokens
def T_num(neg, d, k):
    return {'t': 'num', 'neg': neg, 'd': d, 'k': k}


def T_str(b):
    return {'t': 'str', 'b': list(b)}


def T_op(o):
    return {'t': 'op', 'o': o}


LP = {'t': '('}
RP = {'t': ')'}


def num_text(t):
    s = str(t['d'])
    k = t['k']
    if k > 0:
        s = s.rjust(k + 1, '0')
        s = s[:-k] + '.' + s[-k:]
    return ('-' if t['neg'] else '') + s


SAFE_STR = re.compile(rb'^[A-Za-z0-9 _.:,+\-\xc2-\xf4\x80-\xbf]*$')


def str_text(t, rng):
    b = bytes(t['b'])
    if not SAFE_STR.match(b):
        raise common.Infra('string literal with bytes the renderer does not quote: %r' % b)
    q = "'" if rng.random() < 0.5 else '"'
    return q + b.decode('utf-8') + q


def tok_text(t, rng, cid):
    k = t['t']
    if k == 'num':
        return num_text(t)
    if k == 'str':
        return str_text(t, rng)
    if k == 'bool':
        return 'true' if t['b'] else 'false'
    if k == 'null':
        return 'null'
    if k == 'var':
        return '$nonesuch%d' % cid
    if k == 'op':
        return t['o']
    return k


def render(toks, style, rng, cid=0):
    """style 'sp': one space around every operator; 'cp': no spaces (except where two minus signs
    would meet); 'mix': seeded random spacing."""
    out = ''
    prev = None
    for t in toks:
        x = tok_text(t, rng, cid)
        if prev is not None:
            glue_paren = prev['t'] == '(' or t['t'] == ')'
            if style == 'sp':
                sep = '' if glue_paren else ' '
            elif style == 'cp':
                sep = ''
            else:
                sep = ' ' * rng.choice([0, 0, 1, 1, 2])
            # a binary minus directly followed by a negative literal: keep them apart ("3 - -2")
            if prev['t'] == 'op' and prev['o'] == '-' and x.startswith('-'):
                sep = ' '
            # a word (true/false/null) needs a boundary in front of a following word or digit
            if sep == '' and out and (out[-1].isalnum() or out[-1] == '_') and (x[0].isalnum() or x[0] in '_.$'):
                sep = ' '
            out += sep
        out += x
        prev = t
    return out


def key_of(toks):
    """stable, readable key of a token sequence (canonical spelling)."""
    return render(toks, 'sp', _FixedRng(), 0)


class _FixedRng:
    def random(self):
        return 0.0

    def choice(self, xs):
        return xs[0]


# ------------------------------------------------------------------ random deeper expressions
NUM_POOL = ([T_num(False, d, 0) for d in (0, 1, 2, 3, 4, 5, 6, 7, 8, 9, 10, 12, 16, 100)] +
            [T_num(True, d, 0) for d in (1, 2, 3, 5, 8)] +
            [T_num(False, 5, 1), T_num(False, 25, 2), T_num(False, 75, 2), T_num(False, 15, 1), T_num(False, 125, 3),
             T_num(True, 5, 1), T_num(True, 25, 1), T_num(False, 10, 1), T_num(False, 20, 1), T_num(False, 150, 2),
             T_num(False, 0, 1), T_num(True, 0, 0), T_num(False, 1, 1), T_num(False, 3, 1), T_num(False, 1000, 3)])
DIV_POOL = [T_num(False, 2, 0), T_num(False, 4, 0), T_num(False, 8, 0), T_num(False, 5, 1), T_num(False, 25, 2),
            T_num(True, 2, 0), T_num(False, 1, 0), T_num(False, 0, 0), T_num(False, 3, 0), T_num(False, 16, 0)]
STR_POOL = [b'', b'a', b'b', b'ab', b'abc', b'B', b'A', b'a ', b'10', b'9', b'1.0', b'1', b'z', b'Z', b'\xc3\xa9', b'e', b'-1', b'aa']


def rnd_num_chain(rng, depth, maxn):
    """operand (arith operand)*  where operand = literal | ( chain )"""
    n = rng.choice([1, 2, 2, 3, 3, 4][:max(1, maxn + 2)]) if depth > 0 else rng.choice([1, 2, 3])
    n = min(n, maxn)
    toks = []
    prev_op = None
    for i in range(n):
        if i:
            prev_op = rng.choice(ARITH)
            toks.append(T_op(prev_op))
        if depth > 0 and rng.random() < 0.35:
            toks += [LP] + rnd_num_chain(rng, depth - 1, 3) + [RP]
        elif prev_op == '/' and rng.random() < 0.85:
            toks.append(dict(rng.choice(DIV_POOL)))
        else:
            toks.append(dict(rng.choice(NUM_POOL)))
    return toks


def rnd_bool(rng, depth):
    c = rng.random()
    if c < 0.15:
        a, b = rng.choice(STR_POOL), rng.choice(STR_POOL)
        return [T_str(a), T_op(rng.choice(REL + EQ)), T_str(b)]
    if c < 0.55 or depth <= 0:
        return rnd_num_chain(rng, depth - 1, 3) + [T_op(rng.choice(REL + EQ))] + rnd_num_chain(rng, depth - 1, 3)

    def term():
        if rng.random() < 0.4:
            return [LP] + rnd_bool(rng, depth - 1) + [RP]
        if rng.random() < 0.2:
            return [T_str(rng.choice(STR_POOL)), T_op(rng.choice(REL)), T_str(rng.choice(STR_POOL))]
        return rnd_num_chain(rng, depth - 2, 2) + [T_op(rng.choice(REL))] + rnd_num_chain(rng, depth - 2, 2)
    toks = term()
    for _ in range(rng.choice([1, 1, 2])):
        toks += [T_op(rng.choice(EQ))] + term()
    return toks


def rnd_wild(rng, depth):
    """any operator anywhere: mostly outside what the property defines - executed, rarely judged"""
    n = rng.choice([2, 3, 4, 5])
    toks = []
    for i in range(n):
        if i:
            toks.append(T_op(rng.choice(C06_OPS)))
        if depth > 0 and rng.random() < 0.3:
            toks += [LP] + rnd_wild(rng, depth - 1) + [RP]
        elif rng.random() < 0.15:
            toks.append(T_str(rng.choice(STR_POOL)))
        else:
            toks.append(dict(rng.choice(NUM_POOL)))
    return toks


def nest_depth(toks):
    d = m = 0
    for t in toks:
        if t['t'] == '(':
            d += 1
            m = max(m, d)
        elif t['t'] == ')':
            d -= 1
    return m


def random_c06(rng, n, maxdepth=6, maxtoks=45):
    rows = []
    seen = set()
    while len(rows) < n:
        depth = rng.choice([1, 2, 3, 4, 5, maxdepth])
        c = rng.random()
        if c < 0.45:
            toks = rnd_num_chain(rng, depth, 4)
        elif c < 0.9:
            toks = rnd_bool(rng, depth)
        else:
            toks = rnd_wild(rng, min(depth, 3))
        if len(toks) < 3 or len(toks) > maxtoks:
            continue
        k = json.dumps(toks, sort_keys=True)
        if k in seen:
            continue
        seen.add(k)
        rows.append({'id': len(rows) + 1, 'toks': toks})
    return rows


# ------------------------------------------------------------------ decoding what murex printed
NUM_RE = re.compile(r'^-?[0-9]+(\.[0-9]+)?$')


def decode(text):
    """text printed for a value -> ('bool', b) | ('fin', float) | ('inf', sign) | ('nan',) | ('other', text)"""
    if text == 'true':
        return ('bool', True)
    if text == 'false':
        return ('bool', False)
    if text in ('+Inf', 'Inf'):
        return ('inf', 1)
    if text == '-Inf':
        return ('inf', -1)
    if text == 'NaN':
        return ('nan',)
    if NUM_RE.match(text):
        return ('fin', float(text))
    return ('other', text)


def expected_of(exp):
    """TLC value record -> same shape as decode(); None if the property does not define it"""
    k = exp['k']
    if k == 'bool':
        return ('bool', bool(exp['b']))
    if k == 'fin':
        v = math.ldexp(exp['m'], exp['e'])          # exact: m < 2^30
        return ('fin', math.copysign(v, exp['s']))
    if k == 'inf':
        return ('inf', exp['s'])
    if k == 'nan':
        return ('nan',)
    return None


def same(a, b):
    if a[0] != b[0]:
        return False
    if a[0] == 'fin':
        return a[1] == b[1] and math.copysign(1, a[1]) == math.copysign(1, b[1])
    return a == b


def show(v):
    if v is None:
        return 'undefined-by-property'
    if v[0] == 'fin':
        return repr(v[1])
    if v[0] == 'inf':
        return '+Inf' if v[1] > 0 else '-Inf'
    if v[0] == 'nan':
        return 'NaN'
    if v[0] == 'bool':
        return 'true' if v[1] else 'false'
    return repr(v)


def type_of(v):
    return 'bool' if v[0] == 'bool' else 'num'


# ------------------------------------------------------------------ programs
VARIANTS = ('assign', 'stmt', 'expr', 'sub')


def program(text, variant, cid):
    if variant == 'assign':
        return 'v%d = %s; out "[$v%d]"; get-type \\$v%d' % (cid, text, cid, cid)
    if variant == 'stmt':
        return text
    if variant == 'expr':
        return 'expr ' + text
    if variant == 'sub':
        return 'out (%s)' % text
    raise ValueError(variant)


ASSIGN_RE = re.compile(r'^\[(.*)\]\n([a-z*]+)$', re.S)


def observed(variant, r):
    """-> (value text or None, type or None)"""
    out = r['out'].decode('utf-8', 'replace')
    if variant == 'assign':
        m = ASSIGN_RE.match(out)
        if not m:
            return None, None
        return m.group(1), m.group(2)
    if variant == 'sub':
        if not out.endswith('\n'):
            return None, None
        return out[:-1], None
    return out, None


def run_c06(ck, cases, variants_of, keyprefix='', sample=0.0):
    """cases: list of dict(toks, exp, flat, right).  variants_of(case, rng) -> list of (variant, style).
    Returns counters."""
    rng = random.Random(ck.seed * 7919 + len(cases))
    jobs = []
    meta = {}
    cid = 0
    for c in cases:
        for variant, style in variants_of(c, rng):
            if c['toks'][0]['t'] == '(' and variant in ('stmt', 'expr'):
                # a statement that starts with "(" is murex's (deprecated) `(` string command
                variant = 'sub'
            cid += 1
            text = render(c['toks'], style, rng, cid)
            src = program(text, variant, cid)
            jobs.append({'id': cid, 'src': src, 'timeout_ms': 20000})
            meta[cid] = (c, variant, text, src)
    t0 = time.time()
    res = prog.run_programs(ck, jobs, tag='ex' + keyprefix)
    common.log('[run] %d programs in %.1fs' % (len(jobs), time.time() - t0))
    stats = {'judged': 0, 'unjudged': 0, 'nontrivial': set(), 'disc': set(), 'matched': 0}
    for cid, (c, variant, text, src) in meta.items():
        x = res.get(cid)
        ck.cov['evaluations'] += 1
        ckey = key_of(c['toks'])
        if x is None:
            raise common.Infra('no result for case %d' % cid)
        if x['status'] == 'crashed':
            ck.violation('crash:%s:%s' % (variant, ckey), 'interpreter process died evaluating the expression: ' + x.get('stderr', '')[-300:], {'src': src})
            continue
        if x['status'] == 'hung':
            ck.violation('hang:%s:%s' % (variant, ckey), 'expression did not finish within 20 s', {'src': src})
            continue
        r = x['runs'][0]
        if r.get('panic'):
            ck.violation('panic:%s:%s' % (variant, ckey), 'internal panic: ' + r['panic'], {'src': src, 'stderr': r['err'].decode('utf-8', 'replace')[-600:]})
            continue
        want = expected_of(c['exp'])
        if want is None:
            stats['unjudged'] += 1
            continue
        if variant == 'sub' and want[0] in ('inf', 'nan'):
            # `out (1/0)`: the inline form serialises through JSON, which has no Inf/NaN; the
            # property speaks about the value of the expression, observed by assignment / expr
            stats['unjudged'] += 1
            continue
        stats['judged'] += 1
        text_v, typ = observed(variant, r)
        got = decode(text_v) if text_v is not None else ('other', r['out'].decode('utf-8', 'replace')[:200])
        ok = same(got, want)
        tdesc = ''
        if ok and variant == 'assign' and typ != type_of(want):
            ok = False
            tdesc = ' (type %s, expected %s)' % (typ, type_of(want))
        if not ok:
            cls = 'value' if not tdesc else 'type'
            ck.violation('%s%s:%s:%s' % (keyprefix, cls, variant, ckey),
                         'expression [%s] as %s: murex gave %s%s; the rule gives %s' % (
                             text, variant, show(got) if got[0] != 'other' else 'output %r' % (got[1],), tdesc, show(want)),
                         {'src': src, 'expression': text, 'variant': variant, 'expected': show(want), 'expected_type': type_of(want),
                          'stdout': r['out'].decode('utf-8', 'replace')[:400], 'stderr': r['err'].decode('utf-8', 'replace')[:600],
                          'exit': r['exit'], 'spec_value': c['exp']})
            continue
        stats['matched'] += 1
        ck.cov['traces_validated_against_impl'] += 1
        nops = sum(1 for t in c['toks'] if t['t'] == 'op')
        if nops >= 2:
            stats['nontrivial'].add(ckey)
            if c['exp'] != c['flat'] or c['exp'] != c['right']:
                stats['disc'].add(ckey)
                if len(ck.cov['samples']) < 5 and nops >= 3 and rng.random() < sample:
                    ck.sample({'src': src, 'expected': show(want), 'stdout': r['out'].decode('utf-8', 'replace')})
    return stats


# ================================================================== C07
C07_OPS = ['&&', '||', '?:', '??']
OP_NAMES = {'&&': 'and', '||': 'or', '?:': 'elvis', '??': 'nullc'}
FALSE_WORDS = [b'', b'0', b'null', b'false', b'no', b'off', b'fail', b'failed', b'disabled']
TRUE_WORDS = [b'x', b'yes', b'on', b'1', b'00', b'0.0', b'nul', b'offf', b'n o', b'true', b'nope', b'-1', b'disable', b'fails']


def spellings(w):
    return [w, w.upper(), b' ' + w[:1].upper() + w[1:] + b' ', b'  ' + w + b' ']


def T_bool(b):
    return {'t': 'bool', 'b': b}


T_NULL = {'t': 'null'}
T_VAR = {'t': 'var'}


def rnd_operand(rng, depth, left_of_nullc=False):
    c = rng.random()
    if depth > 0 and c < 0.35:
        return [LP] + rnd_logic(rng, depth - 1) + [RP]
    if c < 0.45:
        return [T_bool(rng.random() < 0.5)]
    if c < 0.55:
        return [dict(rng.choice([T_num(False, 0, 0), T_num(False, 1, 0), T_num(False, 2, 0), T_num(False, 0, 1), T_num(False, 5, 1), T_num(True, 3, 0)]))]
    if c < 0.62:
        return [T_NULL]
    if c < 0.66 and left_of_nullc:
        return [T_VAR]
    if c < 0.75:
        # a comparison in parentheses
        if rng.random() < 0.3:
            return [LP, T_str(rng.choice(STR_POOL)), T_op(rng.choice(REL + EQ)), T_str(rng.choice(STR_POOL)), RP]
        return [LP] + rnd_num_chain(rng, 1, 2) + [T_op(rng.choice(REL + EQ))] + rnd_num_chain(rng, 1, 2) + [RP]
    words = FALSE_WORDS if rng.random() < 0.6 else TRUE_WORDS
    return [T_str(rng.choice(spellings(rng.choice(words))))]


def rnd_logic(rng, depth):
    """operand (op operand)+ with one and the same logical operator (so the property ranks nothing)"""
    o = rng.choice(C07_OPS)
    n = rng.choice([2, 2, 2, 3, 4])
    toks = []
    for i in range(n):
        if i:
            toks.append(T_op(o))
        toks += rnd_operand(rng, depth, left_of_nullc=(o == '??' and i < n - 1))
    return toks


def random_c07(rng, n, maxtoks=41):
    rows = []
    seen = set()
    while len(rows) < n:
        toks = rnd_logic(rng, rng.choice([1, 2, 2, 3, 4]))
        if len(toks) > maxtoks:
            continue
        k = json.dumps(toks, sort_keys=True)
        if k in seen:
            continue
        seen.add(k)
        rows.append({'id': len(rows) + 1, 'toks': toks})
    return rows


def expected_c07(row):
    """-> ('bool', b) | ('fin', f) | ('inf', s) | ('nan',) | ('str', text) | ('null',) | None (not judged)"""
    if row.get('mix'):
        return None
    e = row['exp']
    if e['k'] == 'str':
        return ('str', bytes(e['b']).decode('utf-8'))
    if e['k'] == 'null':
        return ('null',)
    return expected_of(e)


C07_TYPES = {'bool': 'bool', 'fin': 'num', 'inf': 'num', 'nan': 'num', 'str': 'str'}


def run_c07(ck, cases, styles=('sp',), sample=0.0):
    rng = random.Random(ck.seed * 104729 + len(cases))
    jobs = []
    meta = {}
    cid = 0
    for c in cases:
        for style in styles:
            cid += 1
            text = render(c['toks'], style, rng, cid)
            src = 'v%d = (%s); out "[$v%d]"; get-type \\$v%d' % (cid, text, cid, cid)
            jobs.append({'id': cid, 'src': src, 'timeout_ms': 20000})
            meta[cid] = (c, text, src)
    t0 = time.time()
    res = prog.run_programs(ck, jobs, tag='lg')
    common.log('[run] %d programs in %.1fs' % (len(jobs), time.time() - t0))
    stats = {'judged': 0, 'unjudged': 0, 'nontrivial': set(), 'matched': 0, 'byop': {}}
    for cid, (c, text, src) in meta.items():
        x = res.get(cid)
        ck.cov['evaluations'] += 1
        ckey = key_of(c['toks'])
        if x is None:
            raise common.Infra('no result for case %d' % cid)
        if x['status'] == 'crashed':
            ck.violation('crash:%s' % ckey, 'interpreter process died evaluating the expression: ' + x.get('stderr', '')[-300:], {'src': src})
            continue
        if x['status'] == 'hung':
            ck.violation('hang:%s' % ckey, 'expression did not finish within 20 s', {'src': src})
            continue
        r = x['runs'][0]
        if r.get('panic'):
            ck.violation('panic:%s' % ckey, 'internal panic: ' + r['panic'], {'src': src, 'stderr': r['err'].decode('utf-8', 'replace')[-600:]})
            continue
        want = expected_c07(c)
        if want is None:
            stats['unjudged'] += 1
            continue
        stats['judged'] += 1
        out = r['out'].decode('utf-8', 'replace')
        m = ASSIGN_RE.match(out)
        if m:
            vtext, typ = m.group(1), m.group(2)
        elif want[0] == 'null' and out == '[]\n':
            vtext, typ = '', None       # a variable holding null has no type to report
        else:
            vtext, typ = None, None
        if vtext is None:
            ok, got = False, 'output %r' % out[:200]
        elif want[0] == 'str':
            ok, got = (vtext == want[1] and typ == 'str'), '%r (type %s)' % (vtext, typ)
        elif want[0] == 'null':
            ok, got = (vtext == ''), '%r' % vtext
        else:
            g = decode(vtext)
            ok, got = (same(g, want) and typ == C07_TYPES[want[0]]), '%s (type %s)' % (show(g) if g[0] != 'other' else repr(vtext), typ)
        ops = sorted(set(OP_NAMES[t['o']] for t in c['toks'] if t['t'] == 'op' and t['o'] in C07_OPS))
        if not ok:
            wshow = repr(want[1]) if want[0] == 'str' else ('null' if want[0] == 'null' else show(want))
            ck.violation('value:%s:%s' % ('+'.join(ops), ckey),
                         'expression [(%s)]: murex gave %s; the property gives %s' % (text, got, wshow),
                         {'src': src, 'expression': '(%s)' % text, 'expected': wshow, 'stdout': out[:400],
                          'stderr': r['err'].decode('utf-8', 'replace')[:600], 'exit': r['exit'], 'spec_value': c['exp']})
            continue
        stats['matched'] += 1
        ck.cov['traces_validated_against_impl'] += 1
        for o in ops:
            stats['byop'][o] = stats['byop'].get(o, 0) + 1
        if ops:
            stats['nontrivial'].add(ckey)
            if len(ck.cov['samples']) < 4 and rng.random() < sample:
                ck.sample({'src': src, 'expected': want[1] if len(want) > 1 else 'null', 'stdout': out})
    return stats


def word_text(b):
    if not SAFE_STR.match(bytes(b)):
        raise common.Infra('word with bytes the renderer does not quote: %r' % bytes(b))
    return bytes(b).decode('utf-8')


TRUTH_FORMS = ('if', 'ifm', 'not', 'notif', 'elvis')


def run_truth(ck, rows):
    """rows: TruthRows of ExprGen.tla: a command printing word b and returning exit number e is
    truthy or not.  Entry points: if {cmd}, cmd -> if, cmd -> !, !if {cmd}, ("word" ?: ...)."""
    jobs = []
    meta = {}
    cid = 0
    for row in rows:
        w = word_text(row['b'])
        for form in TRUTH_FORMS:
            if form == 'elvis' and row['exit'] != 0:
                continue
            cid += 1
            fn = 'function tf%d { out "%s"; return %d }\n' % (cid, w, row['exit'])
            if form == 'if':
                src = fn + 'if { tf%d } then { out T } else { out F }' % cid
            elif form == 'ifm':
                src = fn + 'tf%d -> if { out T } else { out F }' % cid
            elif form == 'not':
                src = fn + 'tf%d -> !' % cid
            elif form == 'notif':
                src = fn + '!if { tf%d } then { out F } else { out T }' % cid
            else:
                src = 'v%d = ("%s" ?: "E-L-S-E"); if { $v%d == "E-L-S-E" } then { out F } else { out T }' % (cid, w, cid)
            jobs.append({'id': cid, 'src': src, 'timeout_ms': 20000})
            meta[cid] = (row, form, src)
    res = prog.run_programs(ck, jobs, tag='tr')
    matched = 0
    for cid, (row, form, src) in meta.items():
        x = res.get(cid)
        ck.cov['evaluations'] += 1
        key = 'truth:%s:%r:exit%d' % (form, word_text(row['b']), row['exit'])
        if x is None:
            raise common.Infra('no result for case %d' % cid)
        if x['status'] != 'done' or x['runs'][0].get('panic'):
            ck.violation('crash:' + key, 'interpreter %s' % x['status'], {'src': src})
            continue
        out = x['runs'][0]['out'].decode('utf-8', 'replace').strip()
        if form == 'not':
            got = {'true': False, 'false': True}.get(out)
        else:
            got = {'T': True, 'F': False}.get(out)
        if got is None or got != bool(row['truthy']):
            ck.violation(key, 'word %r with exit %d through `%s`: murex treats it as %s; the table says %s' % (
                word_text(row['b']), row['exit'], form, got if got is not None else 'output %r' % out, bool(row['truthy'])),
                {'src': src, 'stdout': out, 'stderr': x['runs'][0]['err'].decode('utf-8', 'replace')[:400], 'expected_truthy': bool(row['truthy'])})
            continue
        matched += 1
        ck.cov['traces_validated_against_impl'] += 1
    return matched
