"""StreamUse.tla bound to the real interpreter (binding V): whole programs run with the pipes' own open / close / append
events logged (mxh run-programs -suevents); TLC evaluates CounterExact, NeverNegative, NoLateWrite and Balanced on every
log.  Used by C03 (and C01)."""
import json
import os
import re
import subprocess
from concurrent.futures import ThreadPoolExecutor

from vlib import common, tlaval


def run_binding(ck, jobs, perturb, tag='su', shards=None):
    """jobs: [{'id', 'src'}].  -> number of programs whose use of its pipes was validated"""
    mxh = common.build_mxh()
    shards = shards or min(common.NCPU, max(1, len(jobs) // 40))
    procs = []
    for s in range(shards):
        part = [dict(j, timeout_ms=20000, repeat=1) for j in jobs[s::shards]]
        if not part:
            continue
        inp = os.path.join(ck.scratch, '%s-in-%d.ndjson' % (tag, s))
        outp = os.path.join(ck.scratch, '%s-out-%d.ndjson' % (tag, s))
        evp = os.path.join(ck.scratch, '%s-ev-%d.ndjson' % (tag, s))
        common.write_ndjson(inp, part)
        cmd = [mxh, 'run-programs', '-in', inp, '-out', outp, '-suevents', evp]
        if perturb:
            cmd += ['-perturb', str(perturb + s)]
        procs.append((subprocess.Popen(cmd, stdout=subprocess.DEVNULL, stderr=subprocess.PIPE, stdin=subprocess.DEVNULL), evp, part))
    src = {j['id']: j['src'] for j in jobs}
    pool = ThreadPoolExecutor(max_workers=8)
    futs = []
    for p, evp, part in procs:
        try:
            _, err = p.communicate(timeout=1800)
        except subprocess.TimeoutExpired:
            for q, _, _ in procs:
                q.kill()
            raise common.Infra('stream-use recording did not finish within 1800 s')
        if p.returncode == 3:
            continue        # a program hung: the log of this shard is incomplete (hangs are judged by the main pass)
        if p.returncode != 0 or not os.path.exists(evp):
            raise common.Infra('stream-use recording failed (%s): %s' % (p.returncode, err.decode('utf-8', 'replace')[-1500:]))
        body = open(evp).read()
        futs.append((pool.submit(common.tlc, 'StreamUse', 'StreamUse.cfg', os.path.join(ck.scratch, 'tlc-' + os.path.basename(evp)),
                                 1, None, 1800, {'trace.ndjson': body}), body, len(part)))
    ok = 0
    events = 0
    for fut, body, nprog in futs:
        r = fut.result()
        ck.add_tlc(r)
        lines = [json.loads(x) for x in body.split('\n') if x.strip()]
        events += len(lines)
        if not r.violated:
            ok += nprog
            continue
        if 'REJECTED_AT' in r.out:
            raise common.Infra('stream-use log not consumed by StreamUse.tla:\n' + r.out[-1500:])
        m = re.search(r'<<\s*"BAD",\s*(.*?)>>\s*\n(?:Error|\d|Finished|The )', r.out, re.S)
        if not m:
            raise common.Infra('StreamUse.tla reports a violation that the driver cannot read:\n' + r.out[-2000:])
        try:
            bad, unbalanced = tlaval.parse(m.group(1).strip())
        except Exception as ex:
            raise common.Infra('cannot parse the BAD record of StreamUse.tla (%s):\n%s' % (ex, m.group(1)[:1000]))
        # which program was running at a log line / which program opened a pipe first
        case_at = []
        cur = None
        first_case = {}
        for e in lines:
            if e['ev'] == 'begin':
                cur = e['case']
            case_at.append(cur)
            if 'o' in e and e['o'] not in first_case:
                first_case[e['o']] = cur
        for b in bad:
            c = case_at[b['line'] - 1]
            ck.violation('stream-use:%s:%s' % (b['why'], src.get(c, '?')),
                         'pipe #%d of the program: %s (counter %d) - the interpreter broke the protocol of its own pipe' % (b['o'], b['why'], b['n']),
                         {'src': src.get(c), 'log_line': b['line'], 'events_before': lines[max(0, b['line'] - 12):b['line']]})
        for o in sorted(unbalanced):
            c = first_case.get(o)
            ck.violation('stream-use:unbalanced:%s' % src.get(c, '?'),
                         'pipe #%d, first used by this program, still has registered writers at the end of the session: a reader of it never sees end-of-stream' % o,
                         {'src': src.get(c), 'events': [e for e in lines if e.get('o') == o][:40]})
    ck.cov['stream_use_programs_validated'] = ck.cov.get('stream_use_programs_validated', 0) + ok
    ck.cov['stream_use_events'] = ck.cov.get('stream_use_events', 0) + events
    return ok
