"""C21 - external commands report their real exit status.  spec/External.tla (composed with RunModes.tla)."""
import os
import subprocess
from vlib import common, prog

LEVEL = 'exploration'


def run(ck, replay=None):
    quick = ck.tier == 'quick'
    ck.cov['rule'] = ('TLC evaluates External.tla: for every outcome of a helper process (exit codes %s, death by signals 1-15, and exit 0/3 while a descendant keeps the inherited stdout/stderr open for 3 s) the exit number murex '
                      'must report, and - through the chain rules of RunModes.tla - whether a marker command joined by ; && || or following it inside '
                      '`try` runs; each row is executed by the real interpreter with a real child process whose actual wait status is checked '
                      'independently first.  non-trivial = non-zero status or signal; distinct = different (outcome, context).' % (
                          'a spread of 15 values' if quick else '0-255'))
    ck.assumptions += ['a row whose helper did not really end the intended way on this kernel (checked by running it directly) is discarded, not judged',
                       'for a signal death the property only asks for a non-zero exit number']
    helper = common.build_tool('exithelper')
    wd = os.path.join(ck.scratch, 'gen')
    r = common.tlc('External', 'MCExternal.cfg' if quick else 'MCExternalAll.cfg', wd, workers=1, timeout=600)
    if r.violated:
        raise common.Infra('External.tla: %s\n%s' % (r.violated, r.out[-2000:]))
    ck.add_tlc(r)
    cases = common.read_ndjson(os.path.join(wd, 'cases.ndjson'))
    # what does the helper really do here?
    real = {}
    for c in cases:
        k = (c['how'], c['n'])
        if k not in real:
            p = subprocess.run([helper, c['how'], str(c['n'])], stdout=subprocess.PIPE, stderr=subprocess.PIPE, timeout=20)
            real[k] = p.returncode
    jobs = []
    meta = {}
    cid = 0
    discarded = 0
    for c in cases:
        k = (c['how'], c['n'])
        want_rc = c['n'] if c['how'] in ('exit', 'linger') else -c['n']
        if real[k] != want_rc:
            discarded += 1
            continue
        cid += 1
        cmd = '%s %s %d' % (helper, c['how'], c['n'])
        src = {'alone': cmd,
               'and': cmd + ' && out marker',
               'or': cmd + ' || out marker',
               'try': 'try { %s; out marker }' % cmd}[c['ctx']]
        jobs.append({'id': cid, 'src': src, 'timeout_ms': 20000})
        meta[cid] = (c, src)
    res = prog.run_programs(ck, jobs, shards=12, tag='c21')
    nontriv = set()
    for cid, (c, src) in meta.items():
        x = res.get(cid)
        ck.cov['evaluations'] += 1
        key = '%s:%d:%s' % (c['how'], c['n'], c['ctx'])
        if x is None or x['status'] != 'done':
            ck.violation('crash-or-hang:' + key, 'program crashed or hung', {'src': src})
            continue
        r = x['runs'][0]
        out = r['out'].decode('utf-8', 'replace')
        marker = 'marker' in out.split('\n')
        bad = None
        if 'ran' not in out.split('\n'):
            raise common.Infra('helper did not run inside murex: %r %r' % (out, r['err']))
        if c['ctx'] != 'alone' and marker != c['marker']:
            bad = 'marker command %s; rule: %s' % ('ran' if marker else 'did not run', 'runs' if c['marker'] else 'does not run')
        if c['ctx'] in ('alone', 'try') and not (c['ctx'] == 'try' and c['marker']):
            # the external command's exit number is the program's
            if c['report'] >= 0 and r['exit'] != c['report']:
                bad = 'exit number %d; rule: %d' % (r['exit'], c['report'])
            if c['report'] < 0 and r['exit'] == 0:
                bad = 'exit number 0 for a command ended by signal %d; rule: non-zero' % c['n']
        if bad:
            ck.violation(key, '%s (%s): %s' % (src.replace(os.path.dirname(helper) + '/', ''), key, bad), {'src': src, 'stdout': out, 'exit': r['exit']})
        else:
            ck.cov['traces_validated_against_impl'] += 1
            if c['how'] == 'signal' or c['n'] != 0:
                nontriv.add(key)
            if len(ck.cov['samples']) < 4 and c['how'] == 'signal':
                ck.sample({'src': src.replace(os.path.dirname(helper) + '/', ''), 'stdout': out, 'exit': r['exit']})
    ck.cov['discarded_rows'] = discarded
    ck.cov['distinct_nontrivial'] = len(nontriv)
    ck.cov['exhaustive'] = not quick
    if not ck.violations and len(nontriv) < 40:
        raise common.Infra('vacuous: %d' % len(nontriv))
