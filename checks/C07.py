"""C07 - logical operators inside expressions follow truthiness.  spec/Expr.tla, spec/ExprGen.tla."""
import os
import random
from vlib import common
from . import exprlib as L

LEVEL = 'model_checking'


def run(ck, replay=None):
    quick = ck.tier == 'quick'
    ck.cov['rule'] = (
        'TLC enumerates every expression a <op> b over the operand table (true false null, an undefined variable, 0 1 2 0.0 0.5, the nine '
        'false words and %d other words each spelled lower case / UPPER CASE / " Padded ", four parenthesised comparisons) x && || ?: ??, and '
        'every three-operand expression ((a o b) o c, a o (b o c), a o b o c) over 8 operands x 16 operator pairs; checks on each that the '
        'transcribed fold machine of executeExpression (groups LogicalAnd, LogicalOr, Elvis/NullCoalescing) yields the value of the rule, and '
        'exports the expected values.  Random deeper parenthesised trees (VERIF_SEED) go through the same model.  Each expression is evaluated by '
        'the real interpreter as `v = (E)` with read-back of value and type.  The truthiness table (every word x exit number 0/1/3) is also '
        'exported and pushed through `if {cmd}`, `cmd -> if`, `cmd -> !`, `!if {cmd}` and `("word" ?: ...)`.  non-trivial = judged expression '
        'with at least one logical operator that matched; distinct = different token sequences.' % (6 if quick else 12))
    ck.assumptions += [
        'the property defines && || ?: ?? one by one and does not rank them against each other or against comparisons: expressions in which different '
        'operator classes meet inside the same pair of parentheses are executed but not judged',
        'an undefined variable is judged only as the left operand of ?? (the only place the property mentions it); IEEE -0 is not judged for truthiness',
        'sub-shell operands (${cmd} with an exit number) are outside the operand kinds the property lists; exit numbers are tested through if and !']
    base = 'MCExprLogicQ.cfg' if quick else 'MCExprLogic.cfg'
    rng = random.Random(ck.seed)
    rnd = L.random_c07(rng, 3000 if quick else 20000)
    cases, exp, dir0 = L.run_models(ck, L.enum_jobs(base, 'logic', L.C07_OPS, 4), L.file_jobs(rnd, 2 if quick else 6))
    truth = common.read_ndjson(os.path.join(dir0, 'truth.ndjson'))
    rcases = []
    for r in rnd:
        e = exp.get(r['id'])
        if e is None:
            raise common.Infra('TLC returned no row for random input %d' % r['id'])
        rcases.append({'toks': r['toks'], 'exp': e['exp'], 'mix': e['mix']})
    ck.cov['exhaustive'] = True
    ck.cov['enumerated_expressions'] = len(cases)
    ck.cov['random_expressions'] = len(rcases)
    ck.cov['truth_rows'] = len(truth)
    s1 = L.run_c07(ck, cases, styles=('sp',) if quick else ('sp', 'mix'))
    s2 = L.run_c07(ck, rcases, styles=('sp', 'mix'), sample=0.01)
    tm = L.run_truth(ck, truth)
    nontriv = s1['nontrivial'] | s2['nontrivial']
    ck.cov['distinct_nontrivial'] = len(nontriv)
    ck.cov['judged_evaluations'] = s1['judged'] + s2['judged']
    ck.cov['unjudged_executed'] = s1['unjudged'] + s2['unjudged']
    ck.cov['matched_by_operator'] = {o: s1['byop'].get(L.OP_NAMES[o], 0) + s2['byop'].get(L.OP_NAMES[o], 0) for o in L.C07_OPS}
    ck.cov['truth_table_matched'] = tm
    if not ck.violations and not ck.known_hits:
        if len(nontriv) < 5000 or tm < 500:
            raise common.Infra('vacuous: %d non-trivial expressions, %d truth-table probes matched' % (len(nontriv), tm))
    elif s1['judged'] + s2['judged'] < 10000 or len(truth) < 150:
        raise common.Infra('vacuous: %d judged expressions, %d truth rows' % (s1['judged'] + s2['judged'], len(truth)))
