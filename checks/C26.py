"""C26 - named pipes can be used in any order without crashing the shell.  spec/NamedPipes.tla."""
import json
import os
from vlib import common

LEVEL = 'model_checking'


def step_fn(st):
    r = dict(st['ret'])
    if 'live' in r:
        r['live'] = sorted(r['live'])
    return r


def nontrivial(row):
    """an operation or a timer firing between a successful Close and the firing of its timer"""
    pending = 0
    for s in row['steps']:
        if s['act'] == 'Close' and s.get('k') == 'ok':
            pending += 1
        elif s['act'] == 'TimerFire':
            pending -= 1
        elif pending > 0 and s['act'] in ('Create', 'Delete', 'Close', 'GetTry', 'GetBegin'):
            return True
    return False


def key(row):
    return '|'.join('%s%s%s' % (s['act'], s['id'], s.get('name', '')) for s in row['steps'])


def storm(ck, quick):
    """the schedule that gates cannot force (nothing sits between the registry's unlock and the caller's use of the result):
    one goroutine creates and deletes names as fast as it can while six others look them up.  A look-up must return a
    pipe or an error, and the process must survive."""
    import json
    import subprocess
    mxh = common.build_mxh()
    rounds = 2 if quick else 8
    total = 0
    for k in range(rounds):
        p = subprocess.run([mxh, 'named-storm', '-ms', '1500' if quick else '4000', '-n', '4'], stdout=subprocess.PIPE, stderr=subprocess.PIPE, timeout=600)
        e = p.stderr.decode('utf-8', 'replace')
        if p.returncode != 0:
            first = [l for l in e.split('\n') if l.startswith('panic:') or l.startswith('fatal error:')]
            if first:
                ck.violation('crash:storm:' + first[0], 'look-ups concurrent with create/delete killed the process: ' + first[0], {'stderr': e[-2500:]})
                return total
            raise common.Infra('named-storm failed: ' + e[-1500:])
        r = json.loads(p.stdout.decode().strip().split('\n')[-1])
        ck.cov['evaluations'] += 1
        ck.cov['storm_lookups'] = ck.cov.get('storm_lookups', 0) + r['lookups']
        if r['nilnil']:
            ck.violation('storm:nil-without-error', '%d of %d look-ups concurrent with create/delete returned neither a pipe nor an error' % (r['nilnil'], r['lookups']), r)
        else:
            total += 1
    return total


def concurrent_traces(ck, quick):
    """V: 4 goroutines per registry issue random create/close/delete/get/dump on 3 names without any gating while
    the real close timers fire; every registry logs its events under its mutex; TLC validates each log against
    NamedPipes.tla (a second successful create of a live name, a delete/close that succeeds on a missing name,
    a timer closing a pipe twice ... are not behaviours of the specification)."""
    import re
    import subprocess
    mxh = common.build_mxh()
    regs = 24 if quick else 96
    procs = []
    for k in range(2 if quick else 6):
        tr = os.path.join(ck.scratch, 'npt%d.ndjson' % k)
        procs.append((tr, subprocess.Popen([mxh, 'named-drive', '-seed', str(ck.seed * 11 + k), '-n', str(regs), '-ops', '250', '-out', tr],
                                           stdout=subprocess.PIPE, stderr=subprocess.PIPE)))
    good = 0
    for k, (tr, p) in enumerate(procs):
        try:
            _, err = p.communicate(timeout=900)
        except subprocess.TimeoutExpired:
            p.kill()
            raise common.Infra('named-drive timed out')
        if p.returncode != 0:
            e = err.decode('utf-8', 'replace')
            first = [l for l in e.split('\n') if l.startswith('panic:') or l.startswith('fatal error:')]
            if first:
                ck.violation('crash:concurrent:' + first[0], 'random concurrent named-pipe operations killed the process: ' + first[0], {'stderr': e[-2000:]})
                continue
            raise common.Infra('named-drive failed: ' + e[-1500:])
        r = common.tlc('NamedPipesTrace', 'NamedPipesTrace.cfg', os.path.join(ck.scratch, 'nptv%d' % k), workers=1, timeout=1800,
                       files={'trace.ndjson': open(tr).read()})
        ck.add_tlc(r)
        ck.cov['evaluations'] += regs
        if r.violated:
            rows = common.read_ndjson(tr)
            m = re.search(r'"REJECTED_AT", (\d+)', r.out)
            line = int(m.group(1)) if m else 0
            ev = rows[line - 1] if 0 < line <= len(rows) else None
            start = max([i for i in range(0, max(1, line)) if rows[i]['ev'] == 'reset'] or [0])
            ck.violation('trace:%s:%s' % (r.violated, ev and '%s:%s' % (ev['ev'], ev['ok'])),
                         'a recorded concurrent execution of a named-pipe registry is not a behaviour of NamedPipes.tla (%s at event %s)' % (r.violated, ev),
                         {'tlc': r.violated, 'rejected_event': ev, 'trace': rows[max(start, line - 40):line + 1]})
        else:
            good += regs
            if k == 0:
                ck.sample({'kind': 'validated registry log prefix', 'events': common.read_ndjson(tr)[:20]})
    good += storm(ck, quick)
    good += murex_level(ck, quick)
    return good


def murex_level(ck, quick):
    """The builtins: murex programs issue `pipe n`, `!pipe n`, `out x -> <n>` on the names a, b, c of the one global
    registry, 8 programs at a time per interpreter process; the registry's event log is validated by TLC against
    NamedPipes.tla; a panic or the death of a process is a crash."""
    import random
    import re
    import subprocess
    mxh = common.build_mxh()
    rng = random.Random(ck.seed)
    shards = 4 if quick else 12
    procs = []
    nprog = 0
    for s in range(shards):
        jobs = []
        for k in range(40):
            ops = []
            for _ in range(rng.randint(3, 7)):
                n = rng.choice('abc')
                ops.append(rng.choice(['pipe %s' % n, 'pipe %s' % n, '!pipe %s' % n, '!pipe %s' % n, 'out x%d -> <%s>' % (k, n)]))
            jobs.append({'id': s * 1000 + k, 'src': '\n'.join(ops), 'timeout_ms': 60000})
        nprog += len(jobs)
        inp = os.path.join(ck.scratch, 'mnp-in%d.ndjson' % s)
        common.write_ndjson(inp, jobs)
        ev = os.path.join(ck.scratch, 'mnp-ev%d.ndjson' % s)
        procs.append((ev, jobs, subprocess.Popen([mxh, 'run-programs', '-in', inp, '-out', os.path.join(ck.scratch, 'mnp-out%d.ndjson' % s),
                                                  '-conc', '8', '-npevents', ev, '-perturb', str(ck.seed * 7 + s + 1)],
                                                 stdout=subprocess.PIPE, stderr=subprocess.PIPE, stdin=subprocess.DEVNULL)))
    good = 0
    for k, (ev, jobs, p) in enumerate(procs):
        try:
            _, err = p.communicate(timeout=900)
        except subprocess.TimeoutExpired:
            p.kill()
            raise common.Infra('murex-level named pipe programs timed out')
        e = err.decode('utf-8', 'replace')
        if p.returncode != 0:
            first = [l for l in e.split('\n') if l.startswith('panic:') or l.startswith('fatal error:') or 'SIGSEGV' in l]
            if first:
                ck.violation('crash:murex-level:' + first[0], 'concurrent `pipe`/`!pipe` programs killed the interpreter: ' + first[0], {'stderr': e[-2000:], 'programs': [j['src'] for j in jobs[:10]]})
                continue
            raise common.Infra('run-programs failed (%d): %s' % (p.returncode, e[-1500:]))
        ck.cov['evaluations'] += len(jobs)
        r = common.tlc('NamedPipesTrace', 'NamedPipesTrace.cfg', os.path.join(ck.scratch, 'mnptv%d' % k), workers=1, timeout=1800,
                       files={'trace.ndjson': open(ev).read()})
        ck.add_tlc(r)
        if r.violated:
            rows = common.read_ndjson(ev)
            m = re.search(r'"REJECTED_AT", (\d+)', r.out)
            line = int(m.group(1)) if m else 0
            evt = rows[line - 1] if 0 < line <= len(rows) else None
            ck.violation('trace:murex-level:%s:%s' % (r.violated, evt and '%s:%s' % (evt['ev'], evt['ok'])),
                         'the global registry log of concurrent `pipe`/`!pipe` programs is not a behaviour of NamedPipes.tla (%s at event %s)' % (r.violated, evt),
                         {'tlc': r.violated, 'rejected_event': evt, 'trace': rows[max(0, line - 40):line + 1]})
        else:
            good += len(jobs)
            if k == 0:
                ck.sample({'kind': 'murex-level program', 'src': jobs[0]['src'], 'registry_log_prefix': common.read_ndjson(ev)[:12]})
    return good


def run(ck, replay=None):
    quick = ck.tier == 'quick'
    ck.cov['rule'] = ('behaviours = paths covering every reachable state (thorough: every transition) of NamedPipes.tla '
                      '(2 names, 2 clients, create/close/delete/get/dump, asynchronous close timers), replayed on a real '
                      'pipes.Named registry: clients are goroutines stepped one lock region at a time through gate hooks and each '
                      'close timer goroutine is held at a gate after its real 2 s sleep and released where the behaviour fires it; '
                      'error results, Get results and the registry contents (Dump) are compared after every step; a panic or the '
                      'death of the process is a crash.  non-trivial = another operation on the registry between a successful Close '
                      'and the firing of its timer; distinct = different action sequences.  Storm: look-ups racing a create/delete loop (ungated) must return a pipe or an error and must not kill the process.')
    ck.assumptions += ['the grace period is the code\'s real time.Sleep(2s); the timer is gated after the sleep (hooks are add-only)',
                       'pipes are of type std; reads/writes on the pipes themselves are covered by C01']
    r = common.tlc('NamedPipes', 'MCNamedPipes.cfg', os.path.join(ck.scratch, 'mc'), timeout=900)
    if r.violated:
        raise common.Infra('NamedPipes.tla violates %s: the specification is wrong\n%s' % (r.violated, r.out[-3000:]))
    ck.add_tlc(r)
    mc = {'MCNamedPipes.cfg': [r.distinct, r.generated]}
    r = common.tlc('NamedPipes', 'MCNamedPipesLive.cfg', os.path.join(ck.scratch, 'live'), timeout=900)
    if r.violated:
        raise common.Infra('NamedPipes.tla violates liveness %s\n%s' % (r.violated, r.out[-3000:]))
    ck.add_tlc(r)
    mc['MCNamedPipesLive.cfg'] = [r.distinct, r.generated]
    ck.cov['model_checking_runs'] = mc
    plans = [('MCNamedPipesGenQ.cfg', 'nodes')] if quick else [('MCNamedPipesGen.cfg', 'edges')]
    nontriv = set()
    ok = 0
    deviations = {}
    for cfg, mode in plans:
        r, rows, info = common.gen_graph_paths(ck, 'NamedPipes', cfg, ['ret'], step_fn, mode, ck.seed, timeout=3000)
        if r.violated:
            raise common.Infra('NamedPipes.tla violates %s in %s' % (r.violated, cfg))
        ck.add_tlc(r)
        res, crashed = common.run_shards(ck, 'named-replay', rows, ['-par', '512'], shards=8, tag='np')
        if crashed:
            # a crash of the process: find the behaviour by re-running the in-flight ones alone
            cand = []
            for c in crashed:
                cand += c['inflight'] or c['unfinished'][:64]
            common.log('[C26] harness process died (%s); re-running %d in-flight behaviours one per process' %
                       (crashed[0]['stderr'].strip().split('\n')[0][:120], len(cand)))
            found = 0
            for i in range(0, min(len(cand), 256), 16):
                batch = cand[i:i + 16]
                rr, cc = common.run_shards(ck, 'named-replay', batch, ['-par', '1'], shards=len(batch), tag='np1')
                res += rr
                for c in cc:
                    for row in c['unfinished']:
                        # confirm once more
                        rr2, cc2 = common.run_shards(ck, 'named-replay', [row], ['-par', '1'], shards=1, tag='np2')
                        if cc2:
                            first = cc2[0]['stderr'].strip().split('\n')
                            msg = next((l for l in first if l.startswith('panic:') or l.startswith('fatal error:')), first[0] if first else '')
                            ck.violation('crash:' + key(row), 'replaying this behaviour kills the process: ' + msg,
                                         {'cfg': cfg, 'steps': row['steps'], 'stderr': cc2[0]['stderr'][-1500:]})
                            found += 1
                if found:
                    break
            if not found:
                raise common.Infra('harness process died and no single behaviour reproduces it:\n' + crashed[0]['stderr'])
        byid = {x['id']: x for x in res}
        for row in rows:
            x = byid.get(row['id'])
            if x is None:
                continue
            ck.cov['evaluations'] += 1
            if x['status'] == 'ok':
                ok += 1
                if nontrivial(row):
                    nontriv.add(key(row))
                    if len(ck.cov['samples']) < 3:
                        ck.sample({'kind': 'replayed behaviour (%s)' % cfg, 'steps': row['steps']})
            elif x['status'] == 'mismatch':
                ck.violation('replay:%s:%s' % (x['clause'], x['detail']), x['detail'],
                             {'cfg': cfg, 'clause': x['clause'], 'detail': x['detail'], 'steps': row['steps'][:x['step'] + 1]})
            elif x['status'] == 'deviation':
                deviations[x['clause']] = deviations.get(x['clause'], 0) + 1
            elif x['status'] == 'blocked':
                # 30 s without progress while every other actor is parked: believed if it blocks again, twice, replayed alone
                n = ck.cov.get('blocked_confirmations', 0)
                again = n >= 3
                if not again:
                    again = True
                    for _ in range(2):
                        rr, cc = common.run_shards(ck, 'named-replay', [row], ['-par', '1'], shards=1, tag='npb')
                        if cc or not rr or rr[0].get('status') != 'blocked':
                            again = False
                            ck.cov['slow_not_blocked'] = ck.cov.get('slow_not_blocked', 0) + 1
                            break
                    if again:
                        ck.cov['blocked_confirmations'] = n + 1
                if again:
                    ck.violation('blocked:' + x['detail'], 'the real registry deadlocks on a behaviour of the specification: ' + x['detail'],
                                 {'cfg': cfg, 'detail': x['detail'], 'steps': row['steps'][:x['step'] + 1]})
            else:
                raise common.Infra('replay infrastructure error: %s' % x)
        ck.cov.setdefault('replay_configs', {})[cfg] = dict(info, mode=mode, replayed=len(rows))
    ck.cov['replay_deviations'] = deviations
    ok += concurrent_traces(ck, quick)
    ck.cov['traces_validated_against_impl'] = ok
    ck.cov['distinct_nontrivial'] = len(nontriv)
    ck.cov['exhaustive'] = not quick
    if not ck.violations and len(nontriv) < 50:
        raise common.Infra('vacuous: only %d non-trivial behaviours' % len(nontriv))


def selftest(ck):
    """binding demonstration: a corrupted registry log must be rejected by NamedPipesTrace.tla"""
    import copy
    import json
    mxh = common.build_mxh()
    tr = os.path.join(ck.scratch, 'st.ndjson')
    common.run([mxh, 'named-drive', '-seed', '5', '-n', '4', '-ops', '150', '-out', tr], timeout=600, check=True)
    rows = common.read_ndjson(tr)

    def validate(rs, label):
        return common.tlc('NamedPipesTrace', 'NamedPipesTrace.cfg', os.path.join(ck.scratch, label), workers=1, timeout=900,
                          files={'trace.ndjson': ''.join(json.dumps(x) + '\n' for x in rs)})
    ok = not validate(rows, 's0').violated
    common.log('selftest: pristine log -> %s' % ('accepted' if ok else 'REJECTED'))
    i = [k for k, x in enumerate(rows) if x['ev'] == 'np.create' and x['ok'] == 0][0]
    bad = copy.deepcopy(rows)
    bad[i]['ok'] = 1                        # a create of a live name that "succeeds"
    r1 = validate(bad, 's1')
    common.log('selftest: turned a refused create into a success -> %s' % ('rejected' if r1.violated else 'ACCEPTED'))
    i = [k for k, x in enumerate(rows) if x['ev'] == 'np.close' and x['ok'] == 1][0]
    bad = rows[:i] + rows[i + 1:]           # a hook that is missing: the close that started a timer
    r2 = validate(bad, 's2')
    common.log('selftest: removed a successful close event -> %s' % ('rejected' if r2.violated else 'ACCEPTED (a later timer event has no timer)'))
    return ok and bool(r1.violated)
