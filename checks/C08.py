"""C08 - variable arguments are passed verbatim, with no re-splitting.  spec/Lexer.tla (family "vars")."""
import binascii
import json
import os
import random
import stat

from vlib import common
from . import lexerlib as L

LEVEL = 'model_checking'

HOSTILE = {'SP', 'TAB', 'CR', 'LF', 'BS', 'SQ', 'DQ', 'BT', '$', '@', '~', '*', '?', ';', '|', '&', '{', '}', '(', ')', '[', ']',
           '<', '>', '#', '%', '=', ':', '-', 'EA', 'U1', 'U2', 'U3', 'U4', 'NBSP', 'ESC', 'DEL', 'BEL', 'FF', 'VT', '!', ','}
SCALAR_FORMS = ['$v', 'p$v', '$v q', 'p $v q']
ARRAY_FORMS = ['@w', 'p @w', '@w q', '$v @w']


def hx(s):
    return binascii.hexlify(s.encode('utf-8')).decode('ascii')


def sample_inputs(rng, n):
    rows = []
    while len(rows) < n:
        if rng.random() < 0.5:
            v = L.rand_tokens(rng, 1, 200 if rng.random() < 0.15 else 30)
            if rng.random() < 0.3:
                v += rng.choice([['LF'], ['CR', 'LF'], ['CR'], ['LF', 'LF'], ['LF', 'CR']])
            rows.append({'fam': 'vars', 'form': rng.choice(SCALAR_FORMS), 'val': v, 'arr': []})
        else:
            arr = []
            for _ in range(rng.randint(1, 6)):
                e = [] if rng.random() < 0.05 else [t for t in L.rand_tokens(rng, 1, 12) if t not in ('LF', 'CR')]
                arr.append(e)
            rows.append({'fam': 'vars', 'form': rng.choice(ARRAY_FORMS), 'val': ['k'], 'arr': arr})
    return rows


def prelude(c):
    p = 'vxset v str %s\n' % hx(L.txt(c['val']))
    if c['arr']:
        p += 'vxset w json %s\n' % hx(json.dumps([L.txt(e) for e in c['arr']], ensure_ascii=False))
    return p


def run(ck, replay=None):
    quick = ck.tier == 'quick'
    rng = random.Random(ck.seed)
    ck.cov['rule'] = ('TLC enumerates scalar values (every string of <= 3 characters over an 18-symbol hostile alphabet: space, quotes, $ @ ~ * ; | & { } # '
                      'backslash, CR, LF, non-ASCII; thorough: also <= 4 over 9 symbols) and arrays of <= 2 (thorough 3) single-line elements '
                      '(including empty ones) in eight statement forms '
                      '(`vx $v`, `vx p$v`, `vx $v q`, `vx p $v q`, `vx @w`, `vx p @w`, `vx @w q`, `vx $v @w`), checks that the transcribed '
                      'parseStatement ($/@ branches, getVar with CrLfTrimString, one parameter per element, canHaveZeroLenStr) produces a '
                      'parameter list the property allows (value minus at most one line ending; one argument per element; exactly one '
                      'statement), and exports the table.  The variables are set through the Go API (never lexed); each row runs in the '
                      'real interpreter and the parameters are observed (a) by a harness builtin, (b) as $PARAMS of a murex function, '
                      '(c) through `out` for the single-argument forms, (d) for a seeded sample, as the argv of an external process.  '
                      'Seeded random values up to 200 characters / arrays up to 6 elements over a rich alphabet go through the same '
                      'specification.  non-trivial = the value or an element contains a character that is special to the lexer; '
                      'distinct = different (form, value, array).')
    ck.assumptions += ['programs run in an empty scratch directory with an empty PATH (a mis-read line cannot reach anything outside it)',
                       'scalar variables are of type str, arrays of type json (a JSON array of strings), set with Variables.Set',
                       'array elements are single-line, as the property\'s quantifier says',
                       'the command is not one of the few (set, global, export, unset, foreach, formap, is-null) for which the lexer deliberately does not expand $name']
    n = 300 if quick else 3000
    cases = L.gen_cases(ck, 'MCLexerVars.cfg', [] if quick else [('Plans <- VarPlansQ', 'Plans <- VarPlansT')], 'vars',
                        extra_inputs=sample_inputs(rng, n), timeout=6000)
    cases, allrows = L.sample(cases, 250000, rng, keep=lambda r: len(r['val']) <= 3)
    ck.cov['exhaustive'] = allrows
    ck.cov['table_rows'] = len(cases)

    helper_dir = os.path.join(ck.scratch, 'bin')
    os.makedirs(helper_dir, exist_ok=True)
    helper = os.path.join(helper_dir, 'vxe')
    with open(helper, 'w') as f:
        f.write('#!/bin/sh\nexec %s argv-echo "$@"\n' % common.build_mxh())
    os.chmod(helper, os.stat(helper).st_mode | stat.S_IEXEC | stat.S_IXGRP | stat.S_IXOTH)

    ext_budget = 250 if quick else 1500
    order = list(range(len(cases)))
    rng.shuffle(order)
    ext_rows = set()
    for i in order:
        if len(ext_rows) >= ext_budget:
            break
        c = cases[i]
        if '\x00' not in L.txt(c['val']) and all('\x00' not in L.txt(e) for e in c['arr']):
            ext_rows.add(i)

    jobs = []
    meta = {}

    def add(i, variant, src):
        jid = len(jobs)
        jobs.append({'id': jid, 'src': src, 'timeout_ms': 6000})
        meta[jid] = (i, variant)
    for i, c in enumerate(cases):
        t = L.txt(c['text'])
        assert t.startswith('vx ')
        pre = prelude(c)
        add(i, 'builtin', pre + t + '\nvx END\n')
        add(i, 'params', pre + 'function pf%d { vxget PARAMS }\npf%d %s\nvx END\n' % (i, i, t[3:]))
        # `out` expands {NAME} ANSI constants itself: only values that cannot hold one are observed through it
        if c['form'] in ('$v', '@w') and not ('{' in c['val'] and '}' in c['val']) and not any('{' in e and '}' in e for e in c['arr']):
            add(i, 'out', pre + 'out %s\nvx END\n' % t[3:])
        if i in ext_rows:
            add(i, 'extern', pre + '%s %s\nvx END\n' % (helper, t[3:]))
    res = L.run_programs_confirm(ck, jobs, tag='c08')

    okrows = {}
    for jid, (i, variant) in meta.items():
        c = cases[i]
        ck.cov['evaluations'] += 1
        allowed = [[L.txt(p) for p in al] for al in c['allowed']]
        ident = '%s:%s' % (c['form'], variant)
        tags = '[%s]' % ','.join(sorted(c['tags']))
        kv = json.dumps({'v': L.txt(c['val']), 'w': [L.txt(e) for e in c['arr']]}, ensure_ascii=True, sort_keys=True)
        src = jobs[jid]['src']
        st, r = L.classify_run(res.get(jid))
        if st != 'ok':
            ck.violation('c08:%s:%s:%s:%s' % (ident, st, tags, kv), 'form `%s` observed by %s: interpreter %s' % (c['form'], variant, st), {'src': src})
            continue
        got = None
        good = False
        if variant == 'out':
            out = r['out'].decode('utf-8', 'replace')
            tail = '["END"]\n'
            if out.endswith(tail):
                body = out[:-len(tail)]
                good = any(body == ' '.join(al) + '\n' for al in allowed)
                got = body
        else:
            lines = L.json_lines(r['out'])
            if lines is not None and len(lines) == 2 and lines[1] == ['END']:
                got = lines[0]
                if variant == 'params':
                    # the function's PARAMS variable: a JSON array held as a string
                    try:
                        got = json.loads(got['value']) if isinstance(got, dict) else None
                    except ValueError:
                        got = None
                good = got in allowed
            else:
                got = lines
        if good and r['exit'] == 0:
            okrows.setdefault(i, set()).add(variant)
            continue
        outcome = 'error' if r['exit'] != 0 or got is None else 'mismatch'
        ck.violation('c08:%s:%s:%s:%s' % (ident, outcome, tags, kv),
                     'v=%s w=%s, `%s` observed by %s: got %s, allowed %s (exit %d)' % (
                         json.dumps(L.txt(c['val'])), json.dumps([L.txt(e) for e in c['arr']]), L.txt(c['text']), variant,
                         json.dumps(got), json.dumps(allowed), r['exit']),
                     {'src': src, 'stdout': r['out'].decode('utf-8', 'replace'), 'stderr': r['err'].decode('utf-8', 'replace')[:600],
                      'exit': r['exit'], 'allowed': allowed})
    full = [i for i, vs in okrows.items() if {'builtin', 'params'} <= vs]
    ck.cov['traces_validated_against_impl'] = len(full)
    nontriv = [i for i in full if (set(cases[i]['val']) | set(t for e in cases[i]['arr'] for t in e)) & HOSTILE]
    ck.cov['distinct_nontrivial'] = len(nontriv)
    ck.cov['rows_external_argv'] = len([i for i in ext_rows if 'extern' in okrows.get(i, ())])
    for i in nontriv:
        c = cases[i]
        if len(ck.cov['samples']) < 4 and (len(c['val']) >= 3 or len(c['arr']) >= 2):
            ck.sample({'form': c['form'], 'v': L.txt(c['val']), 'w': [L.txt(e) for e in c['arr']], 'allowed_parameters': [[L.txt(p) for p in al] for al in c['allowed']]})
    if not ck.violations and len(nontriv) < 1000:
        raise common.Infra('vacuous: %d non-trivial rows' % len(nontriv))
