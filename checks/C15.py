"""C15 - array streams round-trip and foreach visits each element once.
spec/Arrays.tla section 4, spec/ArraysTrace.tla; harness/cmd/mxh/arrays.go."""
import hashlib
import itertools
import json
import os
import random
import subprocess
from vlib import common
from . import arrayslib as L

LEVEL = 'exploration'
HOSTILE = list('abzAZ09 "\\$()[]{},:#|><&;*?~!%@=-_./') + ['é', 'ü', '日']
LINE_TYPES = ('str', 'string', 'jsonl')           # newline framing, reader trims white space (jsonl: one JSON value per line)
RAW_LINE_TYPES = ('generic', '*')                  # newline framing, elements verbatim
YAML_RESERVED = {'true', 'false', 'null', 'yes', 'no', 'on', 'off', 'y', 'n'}
SMALL = {'hostile': ['a', '', 'b"c', '$x\\ [1,{'], 'jsonval': ['"a"', '""', '{"b":"x y"}', '[1,"$x\\\\"]'], 'word': ['a', 'bc', 'B 2', 'x-y_z'], 'jsondoc': ['{"a":1}', '[1,2]', '{"b":"x y"}', '[]']}


def alphabet_of(t):
    if t == 'jsonl':
        return 'jsonval'
    if t in LINE_TYPES or t in RAW_LINE_TYPES or t == 'json':
        return 'hostile'
    if t == 'jsonc':
        return 'jsondoc'
    return 'word'       # yaml, path, paths, xml and anything registered later: plain words only


def element(rng, t, maxlen):
    kind = alphabet_of(t)
    if kind == 'jsonval' and rng.random() < 0.6:
        return json.dumps(''.join(rng.choice(HOSTILE) for _ in range(rng.randint(0, maxlen))), ensure_ascii=False)
    if kind in ('jsondoc', 'jsonval'):
        c = rng.randrange(3)
        if c == 0:
            return '{"k%d":%d}' % (rng.randint(0, 9), rng.randint(0, 999))
        if c == 1:
            return '[%s]' % ','.join(str(rng.randint(0, 99)) for _ in range(rng.randint(0, 4)))
        return '{"s":"%s"}' % ''.join(rng.choice('abc xyz') for _ in range(rng.randint(0, 6)))
    if kind == 'word':
        while True:
            w = rng.choice('abcdefgxyzABCXYZ') + ''.join(rng.choice('abcxyzABC0189 _-') for _ in range(rng.randint(0, min(maxlen, 10)))).rstrip(' ')
            if w.lower() not in YAML_RESERVED:
                return w
    alpha = HOSTILE + (['\t'] if t == 'json' else [])
    n = rng.randint(0, maxlen)
    w = ''.join(rng.choice(alpha) for _ in range(n))
    if t in LINE_TYPES:
        w = w.strip()
    return w


def run(ck, replay=None):
    only = L.replay_begin(ck, replay)
    rng = random.Random(ck.seed)
    quick = ck.tier == 'quick'
    mxh = common.build_mxh()
    tfile = os.path.join(ck.scratch, 'types.ndjson')
    p = subprocess.run([mxh, 'arrays-roundtrip', '-types', '-out', tfile], stdout=subprocess.PIPE, stderr=subprocess.PIPE, timeout=120)
    if p.returncode != 0:
        raise common.Infra('arrays-roundtrip -types failed: ' + p.stderr.decode('utf-8', 'replace')[-500:])
    types = [x['type'] for x in common.read_ndjson(tfile)]
    if len(types) < 5:
        raise common.Infra('only %d array types discovered' % len(types))
    nrand = 20 if quick else 120
    nbig = 1 if quick else 4
    cases = []
    cid = 0
    for t in types:
        small = SMALL[alphabet_of(t)]
        lists = [list(x) for n in range(0, 3) for x in itertools.product(small, repeat=n)]
        triples = [list(x) for x in itertools.product(small, repeat=3)]
        lists += triples if not quick else rng.sample(triples, 24)
        for _ in range(nrand):
            n = rng.choice([0, 1, 2, 3, 7, 20, 50]) if rng.random() < 0.4 else rng.randint(0, 50)
            lists.append([element(rng, t, 12) for _ in range(n)])
        for _ in range(nbig):      # long elements: up to 60 KiB
            n = rng.randint(1, 2 if quick else 5)
            if alphabet_of(t) in ('jsondoc', 'jsonval'):
                lists.append(['[%s]' % ','.join(str(rng.randint(0, 99999)) for _ in range(rng.randint(100, 9000))) for _ in range(n)])
            else:
                lists.append([(element(rng, t, 12) or 'q') * rng.randint(100, 5000) for _ in range(n)])
        for xs in lists:
            xs = [x if len(x) < 15000 else x.encode('utf-8')[:60 * 1024].decode('utf-8', 'ignore').strip() for x in xs]
            cid += 1
            cases.append({'id': cid, 'type': t, 'elems': [L.to_bytes(x) for x in xs], 'xs': xs})
    rows = [{'id': c['id'], 'type': c['type'], 'elems': c['elems']} for c in cases]
    res, crashed = common.run_shards(ck, 'arrays-roundtrip', rows, shards=min(common.NCPU, 8), timeout=900, tag='c15')
    byid = {r['id']: r for r in res}
    for cr in crashed:
        for row in cr['inflight'][:1]:
            ck.violation('crash:%s:n%d' % (row['type'], len(row['elems'])), 'harness process died in the array writer/reader: ' + cr['stderr'][-300:], {'type': row['type'], 'elems': row['elems'][:5]})
        rest = [r for r in cr['unfinished'] if r not in cr['inflight'][:1]]
        if rest and not cr['inflight']:
            raise common.Infra('arrays-roundtrip died outside a case: ' + cr['stderr'][-500:])
    ck.cov['rule'] = ('The data types registered with both an array writer and an array reader are discovered from the real registry (%s).  For each, every list of '
                      '<=2 elements (and a seeded sample of / thorough: all triples) over 4 spellings of its legal alphabet plus seeded random lists of 0-50 elements and lists with elements of up to 60 KiB are '
                      'written with the real WriteArray(type), the bytes are captured and read back with the real ReadArray and ReadArrayWithType; the bytes are then '
                      'fed as a document to a real `foreach v { out "<$v>" }` and the activation log is decoded.  TLC evaluates on every record (ArraysTrace.tla): '
                      'read-back list = written list, activation sequence = written list, and for the newline-framed types (str, string, generic, *, jsonl) bytes = '
                      'FrameLines(list) and UnframeLines(bytes) = list.  non-trivial = list of >=2 elements or containing an empty element; distinct = (type, list, operation).'
                      % ', '.join(types))
    ck.assumptions += ['legal alphabets: str/string/jsonl hostile characters without newline and without leading/trailing white space; generic/* the same without tabs; json the same plus tab; '
                       'jsonl compact JSON values (strings over the hostile alphabet, objects, arrays), one per line; jsonc compact JSON objects/arrays; yaml, path, paths, xml and any other registered type plain words (letters, digits, inner space _ -), i.e. identity-checked only',
                       'elements never contain a single quote (the bytes are passed to foreach inside a murex single-quoted literal)',
                       'a type whose WriteArray constructor refuses to write arrays (toml: "naked arrays") cannot write arrays and is outside the property; listed in not_writable',
                       'the byte-level framing model is evaluated only for records of < 3000 bytes (TLC recursion depth); long elements are identity-checked']
    not_writable = set()
    records, info = [], {}
    fjobs = []
    rid = 0
    for c in cases:
        t, xs = c['type'], c['xs']
        r = byid.get(c['id'])
        if r is None:
            continue
        ck.cov['evaluations'] += 1
        tags = 'n0' if not xs else ('hasempty' if any(x == '' for x in xs) else 'plain')
        h = hashlib.sha1(json.dumps([t, xs]).encode('utf-8')).hexdigest()[:10]
        tail = '%s:n%d:%s:%s' % (t, len(xs), tags, h)
        if r['status'] == 'error' and r.get('detail', '').startswith('WriteArray:'):
            not_writable.add(t)
            continue
        if r['status'] != 'ok' and not xs and 'no data' in (r.get('detail') or ''):
            # murex deliberately reports an empty array result as the error "no data returned"
            # (its own tests expect that), so the empty list is outside what this writer can write
            ck.cov['unjudged_empty_list_no_data'] = ck.cov.get('unjudged_empty_list_no_data', 0) + 1
            continue
        if r['status'] != 'ok':
            ck.violation('%s:roundtrip:%s' % ('panic' if r['status'] == 'panic' else 'hang' if r['status'] == 'hung' else 'error', tail),
                         'writing %d elements as %s and reading them back failed: %s' % (len(xs), t, r.get('detail', '')[:200]),
                         {'type': t, 'list': xs[:20], 'raw': bytes(r['raw'][:300]).decode('utf-8', 'replace'), 'detail': r.get('detail')})
            continue
        raw = bytes(r['raw'])
        for op, ys in (('readarray', r['back']), ('withtype', r['typed'])):
            rid += 1
            records.append({'id': rid, 'op': 'roundtrip', 'xs': c['elems'], 'ys': ys, 'ns': [], 'arg': [], 'k': 0, 'raw': []})
            info[rid] = (op, tail, t, xs, ys, raw)
        if (t in LINE_TYPES or t in RAW_LINE_TYPES) and len(raw) < 3000:
            rid += 1
            records.append({'id': rid, 'op': 'lines', 'xs': c['elems'], 'ys': [], 'ns': [], 'arg': [], 'k': 0, 'raw': r['raw']})
            info[rid] = ('lines', tail, t, xs, None, raw)
        if b"'" not in raw:
            rid += 1
            try:
                doc = raw.decode('utf-8')
            except UnicodeDecodeError:
                continue
            src = "tout %s %s -> foreach v { out \"<$v>\" }" % (L.sq(t), L.sq(doc))
            fjobs.append({'id': rid, 'src': src, 'timeout_ms': 60000})
            info[rid] = ('foreach', tail, t, xs, src, raw)
    common.log('[c15] %d round trips done, %d foreach programs' % (len(cases), len(fjobs)))
    fres = L.run(ck, fjobs, 'c15f') if fjobs else {}
    common.log('[c15] foreach done')
    for j in fjobs:
        op, tail, t, xs, src, raw = info[j['id']]
        ck.cov['evaluations'] += 1
        r = L.broken(ck, fres.get(j['id']), 'foreach:' + tail, src[:3000])
        if r is None:
            del info[j['id']]
            continue
        out = r['out'].decode('utf-8', 'replace')
        lines = [] if out == '' else (out.split('\n')[:-1] if out.endswith('\n') else None)
        if r['exit'] != 0 or lines is None or any(not (l.startswith('<') and l.endswith('>')) for l in lines):
            ck.violation('error:foreach:' + tail, 'foreach over %d %s elements: exit %d, output %r, %s' % (len(xs), t, r['exit'], out[:80], L.first_error_line(r['err'])),
                         {'src': src[:3000], 'stdout': out[:1000], 'stderr': r['err'].decode('utf-8', 'replace')[-400:], 'exit': r['exit'], 'list': xs[:20]})
            del info[j['id']]
            continue
        ys = [l[1:-1] for l in lines]
        records.append(L.trace_record(j['id'], 'foreach', xs, ys))
        info[j['id']] = ('foreach', tail, t, xs, ys, src)
    verdicts = L.validate_trace(ck, records, 'c15')
    nontriv = set()
    for rec in records:
        rid = rec['id']
        op, tail, t, xs, ys, extra = info[rid]
        if rid not in verdicts:
            raise common.Infra('no verdict for record %d' % rid)
        if verdicts[rid]:
            ck.cov['traces_validated_against_impl'] += 1
            if len(xs) >= 2 or '' in xs:
                nontriv.add('%s:%s' % (op, tail))
                if len(nontriv) % 700 == 3:
                    ck.sample({'type': t, 'operation': op, 'list': xs[:6], 'bytes': (extra if isinstance(extra, bytes) else b'')[:80].decode('utf-8', 'replace')})
            continue
        if op == 'foreach':
            ck.violation('value:foreach:' + tail, 'foreach over the %s list %s ran its body for %s' % (t, [x[:20] for x in xs[:8]], [y[:20] for y in ys[:8]]),
                         {'src': extra[:3000], 'list': xs[:50], 'activations': ys[:50]})
        elif op == 'lines':
            ck.violation('value:lines:' + tail, 'the %s writer framed %s as %r' % (t, [x[:20] for x in xs[:8]], extra[:80]), {'type': t, 'list': xs[:50], 'raw': extra[:500].decode('utf-8', 'replace')})
        else:
            back = [bytes(y).decode('utf-8', 'replace') for y in ys]
            ck.violation('value:%s:%s' % (op, tail), 'the %s list %s was written as %r and read back as %s' % (t, [x[:20] for x in xs[:8]], extra[:80], [y[:20] for y in back[:8]]),
                         {'type': t, 'list': xs[:50], 'raw': extra[:500].decode('utf-8', 'replace'), 'read_back': back[:50]})
    ck.cov['distinct_nontrivial'] = len(nontriv)
    ck.cov['types'] = types
    ck.cov['not_writable'] = sorted(not_writable)
    ck.cov['framing_model'] = [t for t in types if t in LINE_TYPES or t in RAW_LINE_TYPES]
    ck.cov['identity_checked_only'] = [t for t in types if t not in LINE_TYPES and t not in RAW_LINE_TYPES and t not in not_writable]
    if L.replay_end(ck, only):
        return
    if not ck.violations and len(nontriv) < 500:
        raise common.Infra('vacuous: %d non-trivial records' % len(nontriv))
