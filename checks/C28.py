"""C28 - function IDs are unique and released when programs finish.
spec/RunModes.tla (Released: every process a scheduler registers is released exactly once in every
branch) + spec/FidTrace.tla (FidUnique, QuietEmpty evaluated by TLC on event logs of the real table)."""
import json
import os
import random
import re
import subprocess
from vlib import common, tlaval
from . import runmodeslib as L

LEVEL = 'model_checking'

SPECIAL = [
    # (name, source template; %d = case number for unique names)
    ('castfail', 'function fca%d (n: int) { out $n }\nfca%d notanumber\nout after'),
    ('castok', 'function fcb%d (n: int) { out $n }\nfcb%d 5'),
    ('nested-fn', 'function fna%d { out a; fnb%d }\nfunction fnb%d { out b | cat }\nfna%d; fna%d'),
    ('foreach-break', '%%[1,2,3] -> foreach i { if { $i == 2 } then { break foreach }; out $i }'),
    ('foreach-continue', '%%[1,2,3] -> foreach i { if { $i == 2 } then { continue foreach }; out $i }'),
    ('fn-return', 'function fr%d { out a; return 3; out b }\nfr%d\nout done'),
    ('try-in-fn', 'function ft%d { try { out a; false; out b } }\nft%d; out after'),
    ('pipeline', 'out a | cat | cat; tout json [1,2,3] -> foreach i { out $i } | cat'),
    ('subshell', 'out ${ out x } @{ tout json [1,2] }'),
    ('if-else', 'if { false } then { out t } else { out e | cat }'),
    ('switch', 'switch { case { false } then { out a }; case { true } then { out b }; default { out c } }'),
    ('unknown-cmd', 'thiscommanddoesnotexist%d arg\nout after'),
    ('trypipe-abort', 'trypipe { out a | cat; false | cat; out never }'),
    ('error-in-pipe', 'out a | [ 99 ] | cat'),
    ('while', 'i = 0; while { $i < 3 } { i = $i + 1; out $i }'),
]


def special_cases(start):
    out = []
    cid = start
    for name, tmpl in SPECIAL:
        cid += 1
        n = tmpl.count('%d')
        src = tmpl % tuple([cid] * n) if n else tmpl.replace('%%', '%')
        out.append((cid, name, src))
    return out


def run(ck, replay=None):
    quick = ck.tier == 'quick'
    ck.cov['rule'] = ('programs = the RunModes.tla table (all blocks of <=4 commands x normal/try/trypipe; a seeded sample in the quick tier) '
                      'plus a fixed list of structured programs (failing parameter cast, nested functions, break/continue/return, '
                      'pipelines, sub-shells, unknown commands, aborted trypipe ...), executed 8 at a time concurrently in each of '
                      'several interpreter processes; the real FID table logs register/deregister events under its mutex and the driver '
                      'logs quiet(root) after each program; TLC evaluates FidUnique and QuietEmpty (FidTrace.tla) on every log.  '
                      'non-trivial = program with a skipped/aborted command or one of the structured kinds; distinct = different programs.')
    ck.assumptions += ['"the session is quiet" = the program returned and up to 2 s have been allowed for the asynchronous deregistration goroutines',
                       'a FID belongs to the program whose top-level fork is its root ancestor (parent links logged at registration)']
    # model: every scheduler branch releases what compile registered
    cases = L.gen_cases(ck, 4, ['normal', 'try', 'trypipe'])
    rng = random.Random(ck.seed)
    if quick:
        rng.shuffle(cases)
        cases = cases[:3000]
    jobs = []
    meta = {}
    cid = 0
    for c in cases:
        cid += 1
        v = 'fn' if rng.random() < 0.3 else 'top'
        src = L.render(c, cid, v, rng)
        jobs.append({'id': cid, 'src': src, 'timeout_ms': 20000, 'fids': True})
        nt = (not all(c['ran'])) and any(k['op'] in ('&&', '||') for k in c['prog'])
        meta[cid] = ('table:%s:%s' % (c['mode'], ' '.join('%s%d' % (k['op'] if k['op'] != 'first' else '', k['exit']) for k in c['prog'])), src, nt)
    reps = 3 if quick else 12
    for rep in range(reps):
        for scid, name, src in special_cases(cid):
            jobs.append({'id': scid, 'src': src, 'timeout_ms': 20000, 'fids': True})
            meta[scid] = ('special:' + name, src, True)
            cid = scid
    rng.shuffle(jobs)
    mxh = common.build_mxh()
    shards = 8
    procs = []
    for s in range(shards):
        part = jobs[s::shards]
        inp = os.path.join(ck.scratch, 'f-in-%d.ndjson' % s)
        outp = os.path.join(ck.scratch, 'f-out-%d.ndjson' % s)
        evp = os.path.join(ck.scratch, 'f-ev-%d.ndjson' % s)
        common.write_ndjson(inp, part)
        procs.append((subprocess.Popen([mxh, 'run-programs', '-in', inp, '-out', outp, '-events', evp, '-conc', '8',
                                        '-perturb', str(ck.seed * 17 + s + 1)],
                                       stdout=subprocess.PIPE, stderr=subprocess.PIPE, stdin=subprocess.DEVNULL), outp, evp, part))
    nontriv = set()
    validated = 0
    from concurrent.futures import ThreadPoolExecutor
    pool = ThreadPoolExecutor(max_workers=8)
    futs = {}
    for p, outp, evp, part in procs:
        try:
            _, err = p.communicate(timeout=1500)
        except subprocess.TimeoutExpired:
            p.kill()
            raise common.Infra('run-programs timed out')
        if p.returncode != 0:
            raise common.Infra('run-programs failed (%d): %s' % (p.returncode, err.decode('utf-8', 'replace')[-2000:]))
        res = [x for x in common.read_ndjson(outp) if 'runs' in x]
        evs = common.read_ndjson(evp)
        ck.cov['evaluations'] += len(res)
        # which case does a root FID belong to?  match through fids_left is not enough: use order of quiet events
        futs[evp] = (pool.submit(common.tlc, 'FidTrace', 'FidTrace.cfg', os.path.join(ck.scratch, 'tv-%s' % os.path.basename(evp)),
                                 1, None, 900, {'trace.ndjson': open(evp).read()}), res, evs)
    for evp, (fut, res, evs) in futs.items():
        r = fut.result()
        ck.add_tlc(r)
        leftover = {x['id']: x['runs'][0].get('fids_left') for x in res if x['runs'] and x['runs'][0].get('fids_left')}
        hung = [x['id'] for x in res if x['status'] != 'done']
        for h in hung:
            ck.violation('hang:' + meta[h][0], 'program did not finish', {'src': meta[h][1]})
        if r.violated:
            m = re.search(r'<<\s*"BAD",\s*(.*?)>>\s*\n(?:Error|\d)', r.out, re.S)
            bad = []
            if m:
                try:
                    bad = tlaval.parse(m.group(1).strip().rstrip(',') if False else m.group(1).strip())
                except Exception:
                    bad = []
            if 'REJECTED_AT' in r.out:
                raise common.Infra('FID event log not consumed by FidTrace.tla:\n' + r.out[-1500:])
            dup = [b for b in bad if b.get('why') == 'fid handed out twice']
            for b in dup:
                ck.violation('fid-reused', 'FID %s was handed out twice in one session' % b.get('fid'), {'event_line': b.get('line'), 'events': evs[max(0, b['line'] - 10):b['line'] + 2]})
            if leftover:
                for cid_, left in leftover.items():
                    k, src, _ = meta[cid_]
                    ck.violation('leak:' + k.split(':')[0] + ':' + (k.split(':')[1] if k.startswith('special') else k), 'FIDs %s still registered after the program finished and the session was quiet (TLC: QuietEmpty violated)' % left,
                                 {'src': src, 'fids_left': left})
            elif not dup:
                raise common.Infra('FidTrace reports a violation that the driver cannot attribute:\n' + r.out[-2000:])
        else:
            validated += len(res)
            for x in res:
                k, src, nt = meta[x['id']]
                if nt:
                    nontriv.add(k)
            if len(ck.cov['samples']) < 3:
                ck.sample({'kind': 'FID event log prefix (validated by FidTrace.tla)', 'events': evs[:20]})
    ck.cov['traces_validated_against_impl'] = validated
    ck.cov['distinct_nontrivial'] = len(nontriv)
    ck.cov['exhaustive'] = False
    if not ck.violations and len(nontriv) < 50:
        raise common.Infra('vacuous: %d non-trivial programs' % len(nontriv))
