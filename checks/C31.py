"""C31 - the test framework passes a unit test only if every assertion of the plan holds.
spec/UnitTest.tla (+ UnitTestGen.tla)."""
import json
import os
import random
import re
import time
from vlib import common, prog

LEVEL = 'model_checking'


def body_of(f):
    """murex function body that produces the outcome the specification tabulates for function f
    (verified by a calibration run before any case is judged)"""
    lines = []
    for text, ty, stream in ((f['stdout'], f['otype'], 'out'), (f['stderr'], f['etype'], 'err')):
        if text == '':
            continue
        if ty in ('str', '*') and text.endswith('\n') and '\n' not in text[:-1]:
            lines.append('%s (%s)' % (stream, text[:-1]))      # `out` types its output str, `err` leaves stderr untyped
        else:
            lines.append('tout %s%s (%s)' % ('<err> ' if stream == 'err' else '', ty, text))
    lines.append('return %d' % f['exit'])
    return '\n'.join('    ' + x for x in lines)


def plan_json(plan):
    d = {}
    for k, v in plan.items():
        if v == '' or v is False or (v == 0 and k != 'ExitNum'):
            continue
        d[k] = v
    return json.dumps(d, sort_keys=True)


def check_facts(facts):
    """the text facts tabulated in UnitTest.tla against the literal texts"""
    true = set((a, b) for a, b in facts['rxTrue'])
    for rx in facts['regexes']:
        for t in facts['texts']:
            if bool(re.search(rx, t)) != ((rx, t) in true):
                raise common.Infra('UnitTest.tla: RxTrue is wrong for regex %r on text %r' % (rx, t))
    lens = dict((a, b) for a, b in facts['jsonLen'])
    for t in facts['texts']:
        try:
            v = json.loads(t)
        except ValueError:
            v = None
        if isinstance(v, list) != (t in facts['jsonArrays']) or isinstance(v, dict) != (t in facts['jsonMaps']):
            raise common.Infra('UnitTest.tla: JsonArrays/JsonMaps wrong for %r' % t)
        if isinstance(v, (list, dict)) and lens.get(t) != len(v):
            raise common.Infra('UnitTest.tla: JsonLen wrong for %r' % t)


def run(ck, replay=None):
    quick = ck.tier == 'quick'
    rng = random.Random(ck.seed)
    t0 = time.time()

    def phase(msg):
        common.log('[C31] %6.1fs %s' % (time.time() - t0, msg))

    cfg = 'MCUnitTestQ.cfg' if quick else 'MCUnitTest.cfg'
    ck.cov['rule'] = (
        'TLC enumerates every case = one of 6 functions with a fixed outcome (1 text on stdout; 2 JSON array; 3 JSON map; 4 text on stdout and stderr, '
        'exit 3; 5 stderr only, exit 1; 6 JSON map on stderr) x every plan of the configured space (a union of products pairing the functions with '
        'the assertions meaningful for them: StdoutMatch / StdoutRegex / StdoutType / StdoutIsArray / StdoutIsMap / StdoutGreaterThan / StderrMatch / '
        'StderrRegex / StderrType / StderrIsArray / StderrIsMap / ExitNum, each absent or with values that hold for some functions and fail for '
        'others), checks that the transcribed runTest sequence of checks with its `passed` flag gives the verdict of the rule "exit number equal '
        'and every assertion present holds" (and that a failed check is never undone), and exports the table.  Every case is rendered to '
        '`function`, `test unit function ... {plan}`, `test run-unit` and run by the real interpreter; the exit number of `test run-unit` (0 = '
        'UnitTests.Run returned true) and the PASSED/FAILED report are compared with the table.  non-trivial = judged case with at least two '
        'assertions besides the exit number, or exactly one assertion failing; distinct = different (function, plan).')
    ck.assumptions += [
        'the outcome tabulated for each function is verified first by running the function alone (stdout, stderr, exit number)',
        'cases the property leaves open are executed but not judged: a plan without StderrMatch/StderrRegex on a function that writes to stderr (the code fails such a test); IsArray/IsMap/GreaterThan on a `str` stream (murex reads it as a list of lines); a data type assertion on a stream nobody typed (reports `*`)',
        'regular expressions are a fixed set whose truth on the fixed texts is tabulated in the spec and verified with Python re (same result in RE2 for these patterns)',
    ]
    wd = os.path.join(ck.scratch, 'ut')
    r = common.tlc('UnitTestGen', cfg, wd, timeout=3000)
    if r.violated:
        raise common.Infra('UnitTest.tla: %s violated - the transcribed runTest and the rule disagree: the specification is wrong\n%s' % (r.violated, r.out[-3000:]))
    ck.add_tlc(r)
    cases = common.read_ndjson(os.path.join(wd, 'cases.ndjson'))
    funcs = {f['fn']: f for f in common.read_ndjson(os.path.join(wd, 'funcs.ndjson'))}
    check_facts(common.read_ndjson(os.path.join(wd, 'facts.ndjson'))[0])
    phase('case table from TLC: %d cases' % len(cases))

    def key(c):
        return 'f%d|%s' % (c['fn'], plan_json(c['plan']))

    if replay:
        want = set(v.get('case', {}).get('key') for v in json.load(open(replay)).get('violations', []))
        cases = [c for c in cases if key(c) in want]
        if not cases:
            raise common.Infra('nothing to replay in %s (cases must be in the %s table)' % (replay, cfg))

    # ---- calibration: each function alone
    cal = prog.run_programs(ck, [{'id': f, 'src': 'function cal%d {\n%s\n}\ncal%d\n' % (f, body_of(funcs[f]), f), 'timeout_ms': 10000} for f in funcs], tag='cal', shards=1)
    for f, row in funcs.items():
        x = cal[f]
        if x['status'] != 'done':
            raise common.Infra('calibration of function %d did not finish' % f)
        rr = x['runs'][0]
        got = (rr['out'].decode('utf-8', 'replace'), rr['err'].decode('utf-8', 'replace'), rr['exit'])
        if got != (row['stdout'], row['stderr'], row['exit']):
            raise common.Infra('function %d does not behave as tabulated in UnitTest.tla: %r, expected %r' % (f, got, (row['stdout'], row['stderr'], row['exit'])))

    # ---- the cases
    cases.sort(key=key)
    jobs = []
    srcs = {}
    for n, c in enumerate(cases):
        srcs[n] = 'function ut%d {\n%s\n}\ntest unit function ut%d %s\ntest run-unit ut%d\n' % (n, body_of(funcs[c['fn']]), n, plan_json(c['plan']), n)
        jobs.append({'id': n, 'src': srcs[n], 'timeout_ms': 10000})
    res = prog.run_programs(ck, jobs, tag='ut')
    phase('%d cases executed' % len(jobs))
    unj = 0
    nontriv = 0
    for n, c in enumerate(cases):
        x = res.get(n)
        if x is None:
            raise common.Infra('no result for case %d' % n)
        ck.cov['evaluations'] += 1
        k = key(c)
        f = funcs[c['fn']]
        case = {'key': k, 'src': srcs[n], 'function_outcome': f, 'plan': c['plan'], 'judged': c['judged'],
                'expected': {'pass': c['pass'], 'failing_assertions': c['failing']}}
        if x['status'] != 'done':
            ck.violation('unit:%s:%s' % ('crash' if x['status'] == 'crashed' else 'hang', k), 'the interpreter %s running the unit test' % ('died' if x['status'] == 'crashed' else 'did not finish within 10 s'), case)
            continue
        rr = x['runs'][0]
        out = rr['out'].decode('utf-8', 'replace')
        case['report'] = re.sub(r'\x1b\[[0-9;]*m', '', out)
        case['exit'] = rr['exit']
        if rr.get('panic'):
            ck.violation('unit:panic:%s' % k, 'internal panic: %s' % rr['panic'], case)
            continue
        if not c['judged']:
            unj += 1
            continue
        passed = rr['exit'] == 0
        reported = 'PASSED' in case['report'] and 'FAILED' not in case['report'] and 'ERROR' not in case['report']
        if passed != c['pass']:
            ck.violation('unit:%s:%s' % ('passed-but-fails' if passed else 'failed-but-holds', k),
                         'function %d, plan %s: the framework reports %s; rule: %s%s' % (c['fn'], plan_json(c['plan']), 'passed' if passed else 'failed',
                                                                                       'passes' if c['pass'] else 'fails', '' if c['pass'] else ' (%s)' % ', '.join(c['failing'])), case)
        elif reported != passed:
            ck.violation('unit:report:%s' % k, 'exit number of `test run-unit` is %d but the report says %r' % (rr['exit'], case['report'][:200]), case)
        else:
            ck.cov['traces_validated_against_impl'] += 1
            if len(c['asserted']) >= 3 or len(c['failing']) == 1:
                nontriv += 1
                if len(ck.cov['samples']) < 4 and len(c['asserted']) >= 4 and (len(ck.cov['samples']) % 2 == 0) == c['pass']:
                    ck.sample({'src': srcs[n], 'expected_pass': c['pass'], 'failing_assertions': c['failing'], 'exit': rr['exit'], 'report': case['report'][:300]})
    phase('cases compared')
    ck.cov['distinct_nontrivial'] = nontriv
    ck.cov['unjudged_executed'] = unj
    ck.cov['exhaustive'] = not replay
    if not replay and not ck.violations and nontriv < 2000:
        raise common.Infra('vacuous: %d non-trivial cases' % nontriv)
