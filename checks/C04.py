"""C04 - &&, || and ; behave as documented in normal mode.  spec/RunModes.tla."""
from vlib import common
from . import runmodeslib as L

LEVEL = 'model_checking'


def run(ck, replay=None):
    quick = ck.tier == 'quick'
    maxlen = 4 if quick else 5
    ck.cov['rule'] = ('TLC enumerates every program of <= %d commands (exit numbers {0,1,3}, joined by ; newline && || |), checks that the '
                      'transcribed scheduler loop (runModeNormal: skip flag, exit inheritance) agrees with the chain rule of the property on all '
                      'of them, and exports the table; every program is rendered with an exit-code function (prints its tag to stdout and '
                      'stderr, returns the chosen exit number), executed by the real interpreter at top level and inside a function body, and '
                      'the set/order of commands that ran and the block exit number are compared with the table.  non-trivial = at least one '
                      '&&/|| and one non-zero exit; distinct = different programs.' % maxlen)
    ck.assumptions += ['programs where a skipped &&/|| command heads a longer pipeline are executed (crash/hang classification) but not judged: the property text does not say whether the piped successor runs',
                       'commands are murex functions that ignore stdin; stdout of a piped command is consumed by its successor']
    cases = L.gen_cases(ck, maxlen, ['normal'])
    ck.cov['exhaustive'] = True
    n = L.run_table(ck, cases, ['top', 'fn'] if quick else ['top', 'fn'])
    if not ck.violations and n < 100:
        raise common.Infra('vacuous: %d non-trivial programs' % n)
