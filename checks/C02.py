"""C02 - a pipe's data type is set once and never changes; GetDataType waits for a type or
for all writers to close (then `*`).  spec/Stream.tla (SetDataType/GetDataType actions)."""
import json
import os
from vlib import common
from . import streamlib

LEVEL = 'model_checking'


def nontrivial(row):
    acts = [s['act'] for s in row['steps']]
    ids = set(s['id'] for s in row['steps'] if s['act'] in ('TSet', 'GPoll', 'TBegin'))
    return len(ids) >= 2 and 'GPoll' in acts and ('TSet' in acts or 'Close' in acts)


def run(ck, replay=None):
    quick = ck.tier == 'quick'
    ck.cov['rule'] = ('behaviours = paths covering every reachable state (thorough: every transition) of Stream.tla restricted to '
                      'Open/Close/ForceClose/SetDataType/GetDataType with 2 setters offering {"", null, a, b} and 1-2 getters, '
                      'forced onto real goroutines through the gates of streams.Stdin, GetDataType results compared; plus recorded '
                      'random concurrent executions validated by StreamTrace.tla.  non-trivial = a getter polling while a '
                      'setter or a closing writer acts, at least two actors; distinct = different action sequences.')
    ck.assumptions += [
        'a getter starts after the pipe has been opened by at least one writer (murex wiring)',
        "GetDataType reads the type under the mutex in both branches (since fix a6796cf); the trace specification demands the exact current type",
    ]
    mc = {}
    for cfg in ('MCStreamTypes.cfg', 'MCStreamTypesLive.cfg'):
        r = common.tlc('Stream', cfg, os.path.join(ck.scratch, 'mc-' + cfg), timeout=900)
        if r.violated:
            raise common.Infra('Stream.tla violates %s in %s: the specification is wrong\n%s' % (r.violated, cfg, r.out[-3000:]))
        ck.add_tlc(r)
        mc[cfg] = [r.distinct, r.generated]
    ck.cov['model_checking_runs'] = mc
    plans = [('MCStreamTypesGenQ.cfg', 'nodes')] if quick else [('MCStreamTypesGenQ.cfg', 'edges'), ('MCStreamTypesGen.cfg', 'nodes')]
    nontriv = set()
    ok = 0
    deviations = {}
    for cfg, mode in plans:
        r, rows, info = streamlib.gen_paths(ck, cfg, mode, ck.seed, timeout=3000)
        if r.violated:
            raise common.Infra('Stream.tla violates %s in %s' % (r.violated, cfg))
        ck.add_tlc(r)
        res = streamlib.replay(ck, rows, 2)
        byid = {x['id']: x for x in res}
        for row in rows:
            x = byid[row['id']]
            ck.cov['evaluations'] += 1
            if x['status'] == 'ok':
                ok += 1
                if nontrivial(row):
                    nontriv.add(streamlib.path_key(row))
                    if len(ck.cov['samples']) < 2:
                        ck.sample({'kind': 'replayed behaviour (%s)' % cfg, 'steps': row['steps'][:40]})
            elif x['status'] == 'mismatch':
                ck.violation('replay:%s:%s' % (x['clause'], x['detail']), x['detail'],
                             {'cfg': cfg, 'clause': x['clause'], 'detail': x['detail'], 'steps': row['steps'][:x['step'] + 1]})
            elif x['status'] == 'deviation':
                deviations[x['clause']] = deviations.get(x['clause'], 0) + 1
            elif x['status'] == 'blocked':
                if streamlib.blocked_confirmed(ck, row, 2):
                    ck.violation('blocked:' + x['detail'], 'the real pipe deadlocks on a behaviour of the specification: ' + x['detail'],
                                 {'cfg': cfg, 'detail': x['detail'], 'steps': row['steps'][:x['step'] + 1]})
            else:
                raise common.Infra('replay infrastructure error: %s' % x)
        ck.cov.setdefault('replay_configs', {})[cfg] = dict(info, mode=mode, replayed=len(rows))
    ck.cov['replay_deviations'] = deviations
    if sum(deviations.values()) > 0.5 * max(1, ck.cov['evaluations']):
        raise common.Infra('more than half of the behaviours could not be aligned with the code: %s' % deviations)
    nt = 300 if quick else 3000
    validated = 0
    for label, flags, cnt in (('types', ['-types'], nt), ('typesfc', ['-types', '-forceclose'], nt), ('storm', ['-types', '-storm'], nt * 5)):
        for k in range(1 if quick else 4):
            r, tr, nlines = streamlib.drive_and_validate(ck, ck.seed * 131 + k, cnt, flags, 64, '%s%d' % (label, k))
            ck.add_tlc(r)
            if r.violated:
                line, seg = streamlib.rejected_trace(r, tr)
                ck.violation('trace:%s:%s' % (r.violated, json.dumps(seg.get('rejected_event') if isinstance(seg, dict) else None)),
                             'recorded execution of streams.Stdin is not a behaviour of Stream.tla (%s, line %s)' % (r.violated, line),
                             {'mode': label, 'tlc': r.violated, 'segment': seg})
            else:
                validated += cnt
                ck.cov['evaluations'] += cnt
                if k == 0:
                    ck.sample({'kind': 'validated trace prefix (%s)' % label, 'events': common.read_ndjson(tr)[:25]})
    ck.cov['traces_validated_against_impl'] = ok + validated
    ck.cov['behaviours_replayed_ok'] = ok
    ck.cov['recorded_traces_validated'] = validated
    ck.cov['distinct_nontrivial'] = len(nontriv)
    ck.cov['exhaustive'] = not quick
    if len(nontriv) < 50:
        raise common.Infra('vacuous: only %d non-trivial behaviours' % len(nontriv))
