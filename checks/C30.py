"""C30 - the cache never returns stale or foreign values.  spec/Cache.tla (+ CacheEval)."""
import base64
import json
import os
import random
import re
import subprocess
import time
from concurrent.futures import ThreadPoolExecutor
from vlib import common

LEVEL = 'model_checking'
NEAR = 5.0        # seconds of a "near" TTL
MARGIN = 0.4      # slack around an expiry second inside which a read is not judged


def step_fn(st):
    r = dict(st['ret'])
    if 'known' in r:
        r['known'] = sorted(r['known'])
    return r


def sig(steps):
    out = []
    for s in steps:
        a = s['act']
        if a == 'Init':
            out.append('I{%s}' % ''.join(s['known']))
        elif a == 'Write':
            out.append('W(%s,%s,%s,%s)' % (s['ns'], s['k'], s['v'], s['ttl']))
        elif a == 'Read':
            out.append('R(%s,%s)' % (s['ns'], s['k']))
        else:
            out.append(a)
    return ';'.join(out)


def trim(steps):
    """drop whatever follows the last Read (nothing looks at it)"""
    steps = list(steps)
    while steps and steps[-1]['act'] != 'Read':
        steps.pop()
    return steps


def nontrivial(steps):
    """a read of a cell that was written before (alive or expired), compared with the specification"""
    return any(s['act'] == 'Read' and s['entry'] != 'absent' for s in steps)


# ---------------------------------------------------------------- real names and values
UNI = 'éß日本語Ω🙂 \t"\'\\%_;-- '


def real_key(rng, tok):
    c = rng.random()
    if c < 0.3:
        return tok
    if c < 0.6:
        return ''.join(rng.choice(UNI + 'abcxyz0189') for _ in range(rng.randrange(1, 12))) + tok
    if c < 0.8:
        return '/usr/share/man/man1/%s.1.gz' % tok
    return ('k' * rng.choice([64, 300, 2000])) + tok


def real_values(rng, toks):
    vtype = rng.choice(['string', 'string', 'bytes', 'strings', 'map', 'int', 'struct'])
    out = {}
    for i, t in enumerate(toks):
        tag = '%s-%d' % (t, rng.randrange(1000))
        if vtype == 'string':
            v = rng.choice(['', 'x', 'summary of ', 'line1\nline2 ', '日本語 "quoted" \\ ']) + tag
        elif vtype == 'bytes':
            v = base64.b64encode(bytes([i, 0, 255, 10]) + tag.encode() + bytes(rng.randrange(256) for _ in range(rng.randrange(0, 40)))).decode()
        elif vtype == 'strings':
            v = [tag] + [rng.choice(['-a', '--long', 'é', '']) for _ in range(rng.randrange(0, 4))]
        elif vtype == 'map':
            v = {'name': tag, 'n': i, 'nested': {'list': [1, 2, i], 'ok': True}}
        elif vtype == 'int':
            v = (i + 1) * 1000 + rng.randrange(1000)
        else:
            v = {'Name': tag, 'N': i, 'Tags': [tag, 'x'][:rng.randrange(1, 3)]}
        out[t] = v
    return vtype, out


def make_row(rng, rid, kind, steps):
    nss = sorted(set(s['ns'] for s in steps if 'ns' in s) | set(n for s in steps if s['act'] == 'Init' for n in s['known']))
    keys = sorted(set(s['k'] for s in steps if 'k' in s))
    vals = sorted(set(s['v'] for s in steps if 'v' in s) | {'v1'})
    vtype, values = real_values(rng, vals)
    kmap = {}
    for k in keys:
        rk = real_key(rng, k)
        while rk in kmap.values():
            rk += '+'
        kmap[k] = rk
    style = rng.choice(['%s_r%d', 'preview_event:%s-%d', 'ns %s.%d'])
    return {'id': rid, 'vtype': vtype, 'values': values, 'keys': kmap,
            'ns': {n: style % (n, rid) for n in nss},
            'steps': [{k: v for k, v in s.items() if k != 'got'} for s in steps]}


# ---------------------------------------------------------------- random histories (CacheEval)
def random_histories(rng, n, maxticks):
    NS, KS, VS = ['A', 'B', 'C'], ['k1', 'k2', 'k3'], ['v1', 'v2', 'v3', 'v4']
    hs = []
    for i in range(n):
        nss = rng.sample(NS, rng.choice([1, 2, 2, 3]))
        known = nss if rng.random() < 0.6 else [x for x in nss if rng.random() < 0.5]
        ops = []
        written = []
        ticks = 0
        for _ in range(rng.randrange(3, 13)):
            c = rng.random()
            if c < 0.45:
                cell = rng.choice(written) if written and rng.random() < 0.5 else (rng.choice(nss), rng.choice(KS))
                written.append(cell)
                ops.append({'act': 'Write', 'ns': cell[0], 'k': cell[1], 'v': rng.choice(VS), 'ttl': rng.choice(['past', 'near', 'near', 'far', 'far'])})
            elif c < 0.80:
                cell = rng.choice(written) if written and rng.random() < 0.8 else (rng.choice(nss), rng.choice(KS))
                ops.append({'act': 'Read', 'ns': cell[0], 'k': cell[1]})
            elif c < 0.87:
                ops.append({'act': 'Trim'})
            elif c < 0.92:
                ops.append({'act': 'Clear'})
            elif ticks < maxticks:
                ticks += 1
                ops.append({'act': 'Tick'})
        hs.append({'id': i, 'known': sorted(known), 'ops': ops})
    return hs


# ---------------------------------------------------------------- classification (for the key only)
def classify(row_steps, res):
    i = res['step']
    st = row_steps[i]
    clause = res['clause']
    known = set(row_steps[0]['known'])

    def created(ns, upto):
        """the namespace exists in the code as written: known at start-up or read before"""
        return ns in known or any(s['act'] == 'Read' and s['ns'] == ns for s in row_steps[1:upto])
    if clause == 'panic':
        if st['act'] == 'Write' and not created(st['ns'], i):
            return 'panic', 'uninit'
        return 'panic', st['act']
    cell = (st.get('ns'), st.get('k'))
    last = None
    cleared = False
    earlier = set()
    for j in range(1, i):
        s = row_steps[j]
        if s['act'] == 'Write' and (s['ns'], s['k']) == cell:
            last, cleared = j, False
            earlier.add(s['v'])
        elif s['act'] == 'Clear':
            cleared = True
    if clause == 'lost':
        if last is not None and not created(cell[0], last):
            return 'lost', 'uninit'
        return 'lost', 'plain'
    if clause == 'wrong-value':
        got = res.get('got', '')
        return 'wrong-value', ('stale' if got in earlier else 'foreign')
    if clause.startswith('phantom'):
        return clause.replace(':', '-'), ('after-clear' if cleared else 'plain')
    return clause, 'plain'


# ---------------------------------------------------------------- running
def run_batches(ck, mxh, batches, workers, dbdir):
    """batches: list of (lockstep, rows).  Returns {row id: result}, list of summaries."""
    def one(arg):
        n, (lockstep, rows) = arg
        inp = os.path.join(ck.scratch, 'cb-in-%d.ndjson' % n)
        outp = os.path.join(ck.scratch, 'cb-out-%d.ndjson' % n)
        common.write_ndjson(inp, rows)
        cmd = [mxh, 'cache-replay', '-in', inp, '-out', outp, '-dir', dbdir, '-lockstep=%s' % ('true' if lockstep else 'false'),
               '-near', str(NEAR), '-margin', str(MARGIN)]
        try:
            p = subprocess.run(cmd, stdout=subprocess.PIPE, stderr=subprocess.PIPE, timeout=900, stdin=subprocess.DEVNULL)
            rc, err = p.returncode, p.stderr.decode('utf-8', 'replace')
        except subprocess.TimeoutExpired:
            rc, err = -9, 'TIMEOUT'
        out = common.read_ndjson(outp) if os.path.exists(outp) else []
        return rc, err, out, rows
    results, summaries, died = {}, [], []
    with ThreadPoolExecutor(max_workers=workers) as ex:
        for rc, err, out, rows in ex.map(one, enumerate(batches)):
            for x in out:
                if x['status'] == 'summary':
                    summaries.append(x['summary'])
                else:
                    results[x['id']] = x
            if rc != 0:
                died.append((rc, err, rows))
    return results, summaries, died


def fast_dir(ck):
    """a private directory for the files the real code works on: memory-backed when the machine has
    /dev/shm (sqlite syncs every write; on a loaded disk that alone breaks the TTL timing)"""
    import shutil
    import tempfile
    for base in ('/dev/shm', ck.scratch):
        if os.path.isdir(base) and os.access(base, os.W_OK):
            d = tempfile.mkdtemp(prefix='verif-%s-' % ck.pid, dir=base)
            return d, (lambda: shutil.rmtree(d, ignore_errors=True))
    return ck.scratch, (lambda: None)


def run(ck, replay=None):
    quick = ck.tier == 'quick'
    rng = random.Random(ck.seed)
    ck.cov['rule'] = (
        'Cache.tla: the rule (one map cell -> value+expiry; write replaces, read returns the value iff unexpired, trim drops expired, clear '
        'drops all) and the machine of the code (memory layer asked first, sqlite layer as fall-back, namespaces created at start-up or on '
        'first use); TLC checks on every state in the bound that every possible read of the machine equals the rule (Agree), is never a value '
        'of another key/namespace nor an expired one (NoForeignNoStale).  Behaviours = paths covering every state of the TLC graph + random '
        'histories of 3-12 operations over 3 namespaces x 3 keys x 4 values evaluated by TLC (CacheEval.tla); each is replayed on the real '
        'utils/cache package (cache.Read/Write/Trim/Clear, private sqlite file, namespaces of its own, values of 6 Go types, odd keys) with the '
        'real clock: past = now-10 s, near = now+%g s, far = now+2 h, Tick = sleep until the near entries have expired.  Every read is compared '
        '(hit/miss and decoded value) with the specification.  non-trivial = a matched behaviour with a read of a cell written before; '
        'distinct = different operation sequences.' % NEAR)
    ck.assumptions += [
        'a process owns one database file; behaviours use disjoint namespaces; those containing Clear run one at a time',
        'a read closer than %.1f s to the expiry second of the entry it depends on is not judged (the behaviour is counted as timing slop)' % MARGIN,
        'the cache is enabled as main.go does at start-up (a namespace is created before the first behaviour)',
        'errors returned by Trim/Clear are counted, not judged (the property speaks about reads)',
        'which layer answered a read is not observable through cache.Read; what the layers hold at the end (cache.Dump) is recorded']
    mc = {}

    def cfg_with(name, **kv):
        t = open(os.path.join(common.SPEC, name)).read()
        for k, v in kv.items():
            t, n = re.subn(r'\b%s = .*' % k, '%s = %s' % (k, v), t)
            if n != 1:
                raise common.Infra('cannot set %s in %s' % (k, name))
        return t

    # ---- 1. the specification
    bounds = dict(MaxOps=4, MaxTicks=1) if quick else dict(MaxOps=5, MaxTicks=2)
    # the model-checking runs go on in the background while the behaviours are generated
    pool = ThreadPoolExecutor(max_workers=3)
    f_mc = pool.submit(common.tlc, 'Cache', 'mc.cfg', os.path.join(ck.scratch, 'mc'), files={'mc.cfg': cfg_with('MCCache.cfg', **bounds)}, timeout=3000)
    diags = (('MCCacheMemLive.cfg', 'memory layer repaired naively (MemLive)'), ('MCCacheAsCoded.cfg', 'no namespace creation on write (as coded)'))
    f_diag = [pool.submit(common.tlc, 'Cache', cfg, os.path.join(ck.scratch, cfg), timeout=900) for cfg, _ in diags]

    tlc_jobs = {'mc': f_mc, 'memlive': f_diag[0], 'ascoded': f_diag[1]}

    def collect_model_checking():
        r = f_mc.result()
        if r.violated:
            raise common.Infra('Cache.tla violates %s: the specification is wrong\n%s' % (r.violated, r.out[-3000:]))
        ck.add_tlc(r)
        mc['MCCache.cfg %s' % bounds] = [r.distinct, r.generated]
        diag = {}
        for (cfg, what), f in zip(diags, f_diag):
            r = f.result()
            if r.violated != 'Agree':
                raise common.Infra('Cache.tla with %s does not refute Agree (%s): the model cannot tell the designs apart' % (cfg, r.violated))
            diag[cfg] = what + ': TLC refutes Agree, as expected'
        ck.cov['spec_level_diagnosis'] = diag
        ck.cov['model_checking_runs'] = mc
        common.log('[%s] TLC wall: %s' % (ck.pid, ' '.join('%s=%.0fs' % (k, f.result().wall) for k, f in tlc_jobs.items())))

    # ---- 2. behaviours of the state graph
    gb = dict(MaxOps=3, MaxTicks=1) if quick else dict(MaxOps=4, MaxTicks=1)
    def graph_behaviours(name, **kv):
        gcfg = cfg_with('MCCache.cfg', **dict(gb, **kv)).replace('VIEW view\n', '')
        os.makedirs(os.path.join(ck.scratch, 'gen-' + name))          # the directory gen_graph_paths runs TLC in
        with open(os.path.join(ck.scratch, 'gen-' + name, name), 'w') as f:
            f.write(gcfg)
        r, paths, info = common.gen_graph_paths(ck, 'Cache', name, ['ret'], step_fn, 'nodes', ck.seed, timeout=3000)
        if r.violated:
            raise common.Infra('Cache.tla violates %s' % r.violated)
        ck.add_tlc(r)
        seen = {}
        for p in paths:
            st = trim(p['steps'])
            if len(st) > 1:
                seen.setdefault(sig(st), st)
        out = [seen[k] for k in sorted(seen)]
        ck.cov.setdefault('replay_configs', {})['MCCache(no view) %s %s' % (gb, kv or 'any start-up set')] = dict(
            info, mode='nodes', distinct_observed_sequences=len(out))
        return out
    has = lambda st, a: any(s['act'] == a for s in st)
    nplain, nexcl = (800, 40) if quick else (4000, 160)
    ck.cov['exhaustive'] = True

    def choose(pool, n_plain, n_excl):
        """behaviours whose reads depend on writes first; those with Clear and Tick need a process of their own"""
        plain = [b for b in pool if not (has(b, 'Clear') and has(b, 'Tick'))]
        excl = [b for b in pool if has(b, 'Clear') and has(b, 'Tick')]
        out = []
        for part, n in ((plain, n_plain), (excl, n_excl)):
            rng.shuffle(part)
            part.sort(key=lambda b: not nontrivial(b))
            if len(part) > n:
                ck.cov['exhaustive'] = False
            out += part[:n]
        return out
    # 70% with every namespace existing at start-up (the way the shell uses the package: cache.InitCache),
    # 30% from the graph with any start-up set (namespaces created by the first read or write)
    chosen = [('graph-all-namespaces-exist', b) for b in choose(graph_behaviours('genall.cfg', Boots='{{"A", "B"}}'), int(nplain * 0.7), int(nexcl * 0.7))]
    chosen += [('graph', b) for b in choose(graph_behaviours('gen.cfg'), nplain - int(nplain * 0.7), nexcl - int(nexcl * 0.7))]

    # ---- 3. random longer histories, expected values evaluated by TLC
    hs = random_histories(rng, 220 if quick else 1200, 1 if quick else 2)
    r = common.tlc('CacheEval', 'MCCacheEval.cfg', os.path.join(ck.scratch, 'eval'), timeout=3000,
                   files={'cachehist.ndjson': ''.join(json.dumps(h) + '\n' for h in hs)})
    if r.violated:
        raise common.Infra('CacheEval: %s\n%s' % (r.violated, r.out[-2000:]))
    exp = {x['id']: x for x in common.read_ndjson(os.path.join(r.dir, 'cacheexp.ndjson'))}
    if len(exp) != len(hs):
        raise common.Infra('CacheEval returned %d of %d histories' % (len(exp), len(hs)))
    nx = 0
    for h in hs:
        e = exp[h['id']]
        if not e['ok']:
            raise common.Infra('Cache.tla: Agree/NoForeignNoStale fail on history %s' % json.dumps(h))
        st = trim(e['steps'])
        if len(st) <= 1:
            continue
        if has(st, 'Clear') and has(st, 'Tick'):
            nx += 1
            if nx > (16 if quick else 150):
                continue
        chosen.append(('random-history', st))
    ck.cov['tlc_evaluated_histories'] = len(hs)

    collect_model_checking()

    # ---- rows and batches
    rows, meta = [], {}
    for kind, st in chosen:
        rid = len(rows)
        row = make_row(rng, rid, kind, st)
        rows.append(row)
        meta[rid] = {'kind': kind, 'steps': st, 'sig': sig(st), 'row': row}
    # Trim/Clear walk every namespace of the process, one sqlite connection each: few rows per process
    groups = {}
    for r in rows:
        c, t, tr = has(r['steps'], 'Clear'), has(r['steps'], 'Tick'), has(r['steps'], 'Trim')
        g = ('seq', 2) if c and t else ('seq', 6) if c else ('lock', 6) if tr else ('lock', 25)
        groups.setdefault(g, []).append(r)
    batches = []
    for (mode, size), rs in sorted(groups.items(), key=lambda kv: (kv[0][0] != 'seq', kv[0][1])):
        for i in range(0, len(rs), size):
            batches.append((mode == 'lock', rs[i:i + size]))
    mxh = common.build_mxh()
    t0 = time.time()
    dbdir, cleanup = fast_dir(ck)
    try:
        results, summaries, died = run_batches(ck, mxh, batches, 40, dbdir)
    finally:
        cleanup()
    common.log('[C30] %d rows in %d processes replayed in %.1fs' % (len(rows), len(batches), time.time() - t0))
    for rc, err, brow in died:
        unfinished = [r for r in brow if r['id'] not in results]
        if 'goroutine ' in err or err == 'TIMEOUT':
            m = meta[unfinished[0]['id']] if unfinished else None
            ck.violation('crash:%s' % (m['sig'] if m else '?'), 'the harness process died or hung replaying cache behaviours: ' + err[-400:],
                         {'stderr': err[-3000:], 'rows': [r for r in unfinished[:3]]})
        else:
            raise common.Infra('cache-replay failed (%s): %s' % (rc, err[-2000:]))

    # ---- compare
    nontriv = set()
    stats = {'ok': 0, 'slop': 0, 'reads': 0, 'hits': 0, 'op_errs': 0, 'by_class': {}}
    kinds = {}
    for rid, m in meta.items():
        x = results.get(rid)
        if x is None:
            if died:
                continue
            raise common.Infra('no result for row %d' % rid)
        ck.cov['evaluations'] += 1
        kinds.setdefault(m['kind'], [0, 0])[0] += 1
        stats['reads'] += x['reads']
        stats['hits'] += x['hits']
        stats['op_errs'] += x['op_errs']
        if x['status'] == 'infra':
            raise common.Infra('cache-replay: %s (row %s)' % (x.get('detail'), m['sig']))
        if x['status'] == 'slop':
            stats['slop'] += 1
            continue
        if x['status'] == 'ok':
            stats['ok'] += 1
            kinds[m['kind']][1] += 1
            if nontrivial(m['steps']):
                nontriv.add(m['sig'])
                if len(ck.cov['samples']) < 4 and has(m['steps'], 'Tick') and len(m['steps']) >= 5:
                    ck.sample({'kind': m['kind'], 'behaviour': m['sig'], 'value_type': m['row']['vtype'], 'keys': m['row']['keys'],
                               'namespaces': m['row']['ns'], 'reads_compared': x['reads']})
            continue
        clause, cls = classify(m['steps'], x)
        c = '%s:%s' % (clause, cls)
        stats['by_class'][c] = stats['by_class'].get(c, 0) + 1
        if stats['by_class'][c] > 40:
            continue
        upto = m['steps'][:x['step'] + 1]
        ck.violation('%s:%s' % (c, sig(upto)), '%s [%s] %s' % (m['kind'], sig(upto), x['detail'][:300]),
                     {'kind': m['kind'], 'behaviour': sig(upto), 'clause': x['clause'], 'detail': x['detail'], 'got': x.get('got'),
                      'row': dict(m['row'], steps=m['row']['steps'][:x['step'] + 1])})
    ck.cov['traces_validated_against_impl'] = stats['ok']
    ck.cov['distinct_nontrivial'] = len(nontriv)
    ck.cov['rows_by_kind(total,matched)'] = kinds
    ck.cov['reads_compared'] = stats['reads']
    ck.cov['reads_returning_a_value'] = stats['hits']
    ck.cov['unjudged_timing_slop_rows'] = stats['slop']
    ck.cov['trim_clear_errors_unjudged'] = stats['op_errs']
    ck.cov['layers_at_end'] = {'memory_layer_entries': sum(s['internal_entries'] for s in summaries),
                               'sqlite_layer_entries': sum(s['db_entries'] for s in summaries), 'processes': len(summaries)}
    if stats['by_class']:
        ck.cov['failed_rows_by_class'] = stats['by_class']
    if stats['slop'] > 0.2 * max(1, len(rows)):
        raise common.Infra('%d of %d behaviours hit timing slop: the machine is too slow for %.0f s TTLs' % (stats['slop'], len(rows), NEAR))
    if not ck.violations and not ck.known_hits and len(nontriv) < (300 if quick else 2000):
        raise common.Infra('vacuous: only %d non-trivial behaviours matched' % len(nontriv))
