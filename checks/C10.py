"""C10 - escaped command lines parse back to the original argv.  spec/Lexer.tla (family "cmdline")."""
import binascii
import json
import os
import random
import stat
import subprocess
from concurrent.futures import ThreadPoolExecutor

from vlib import common, prog
from . import lexerlib as L

LEVEL = 'model_checking'

PLAIN = set('abcdefghijklmnopqrstuvwxyzABCDEFGHIJKLMNOPQRSTUVWXYZ0123456789_.,+^]')


def sample_inputs(rng, n):
    rows = []
    while len(rows) < n:
        k = rng.randint(1, 6)
        args = []
        for _ in range(k):
            r = rng.random()
            if r < 0.04:
                args.append([])
            elif r < 0.5:
                # mostly harmless text with one or two hostile characters
                a = [rng.choice(list('abcxyz019_-.,/')) for _ in range(rng.randint(1, 8))]
                for _ in range(rng.randint(0, 2)):
                    a.insert(rng.randint(0, len(a)), rng.choice(L.HOSTILE + ['EA', 'U1', 'U2']))
                args.append(a)
            else:
                args.append(L.rand_tokens(rng, 1, 12))
        rows.append({'fam': 'cmdline', 'argv': [['v', 'x']] + args})
    return rows


def hz(c):
    return 'h[%s]' % ','.join(sorted(c['hazards']))


def key(route, outcome, c):
    return 'c10:%s:%s:%s:%s' % (route, outcome, hz(c), json.dumps([L.txt(a) for a in c['argv'][1:]], ensure_ascii=True))


def run(ck, replay=None):
    quick = ck.tier == 'quick'
    rng = random.Random(ck.seed)
    ck.cov['rule'] = ('TLC enumerates argv vectors (a plain command name + arguments: every string of <= 2 characters over all printable ASCII and '
                      'the usual control characters; 1-2 arguments (thorough: 1-3, up to 3 characters) over one representative of every character '
                      'class the lexer distinguishes), transcribes escape.CommandLine (17 ordered replacements) and strings.Join, and checks that the '
                      'transcribed lexer (ParseBlock splitting, preParser expression-first, parseStatement with every branch those '
                      'characters reach) reads the escaped line back as ONE statement with the same argv unless the argv contains one of the '
                      'patterns the spec lists as unprotected (each shown to break the round trip in the model).  Every row is then run on '
                      'the real code and judged against the argv itself: [parse] escape.CommandLine+Join (the two calls of '
                      'main.go:argvToCmdLineStr) -> ParseBlock -> ParseStatementParameters; [run] the escaped line executed by the '
                      'interpreter, the command prints the parameters it received; [esccli] the array piped into `esccli`, its output used '
                      'as the parameters of a command; [bin] a seeded sample through the real binary `murex --execute vx args...` with an '
                      'external argv echo.  Seeded random argv of up to 6 arguments (<= 12 characters, rich alphabet) go through the same '
                      'specification.  non-trivial = some argument has a character outside [A-Za-z0-9_.,+^]]; distinct = different argv.')
    ck.assumptions += ['the command name is the plain word `vx` (a harness builtin in-process, an external script for the real binary)',
                       'argvToCmdLineStr is reproduced by its two calls in the harness (package main cannot be imported); the [bin] sample ties it to main.go',
                       'arguments containing NUL are not generated (they cannot be passed through execve)',
                       'a line that the real parser reads as anything else than `vx` statements (the violation itself) is judged from the parse result and never executed; executed programs run in an empty scratch directory with an empty PATH',
                       'the escaped text produced by the real escaper is compared with the spec\'s transcription for information only (count in evidence): the property is about the round trip']
    n = 300 if quick else 3000
    cases = L.gen_cases(ck, 'MCLexerCmd.cfg', [] if quick else [('Plans <- CmdPlansQ', 'Plans <- CmdPlansT')], 'cmdline',
                        extra_inputs=sample_inputs(rng, n), timeout=6000)
    exhaustive = True
    if len(cases) > 150000:
        cases, exhaustive = L.sample(cases, 150000, rng, keep=lambda r: len(r['argv']) <= 2)
    ck.cov['exhaustive'] = exhaustive
    ck.cov['table_rows'] = len(cases)
    argvs = [[L.txt(a) for a in c['argv']] for c in cases]

    # ---- route parse: the two calls of argvToCmdLineStr, then the real block and statement parser
    pres = L.run_lexer_confirm(ck, [{'id': i, 'op': 'cmdline', 'argv': argvs[i]} for i in range(len(cases))], tag='c10p')
    ok = {'parse': set(), 'run': set(), 'esccli': set()}
    texts = {}
    differs = 0
    for i, c in enumerate(cases):
        ck.cov['evaluations'] += 1
        x = pres.get(i)
        if x is None:
            raise common.Infra('no parse result for row %d' % i)
        if x['status'] in ('hung', 'crashed'):
            ck.violation(key('parse', x['status'], c), 'argv %s: escaped and handed to ParseBlock: parser %s' % (json.dumps(argvs[i][1:]), x['status']),
                         {'argv': argvs[i], 'text': L.txt(c['text'])})
            continue
        texts[i] = x.get('text', '')
        if texts[i] != L.txt(c['text']):
            differs += 1
        if x.get('panic'):
            ck.violation(key('parse', 'panic', c), 'argv %s: parser panicked: %s' % (json.dumps(argvs[i][1:]), x['panic'][:200]),
                         {'argv': argvs[i], 'text': texts[i]})
            continue
        st = x.get('stmts') or []
        want = c['expected'][0]
        good = (not x.get('err') and len(st) == 1 and not st[0].get('err') and st[0]['cmd'] == L.txt(want['cmd'])
                and (st[0].get('params') or []) == [L.txt(p) for p in want['params']])
        if good:
            ok['parse'].add(i)
            continue
        outcome = 'error' if x.get('err') or any(s.get('err') for s in st) else 'mismatch'
        got = x.get('err', '').split('\n')[0] if x.get('err') else [[s['cmd']] + (s.get('params') or []) if not s.get('err') else s['err'].split('\n')[0] for s in st]
        ck.violation(key('parse', outcome, c),
                     '--execute %s becomes %s which parses as %s' % (json.dumps(argvs[i]), json.dumps(texts[i]), json.dumps(got)),
                     {'argv': argvs[i], 'text': texts[i], 'parsed': got})
    ck.cov['escaped_text_differs_from_spec_transcription'] = differs

    # Execution is limited to lines that the real parser reads as nothing but `vx` statements (or rejects): an argv
    # that is mis-read as `vx a ; other-command` is already a violation above and must not be *run* by a check.
    def runnable(i):
        x = pres.get(i) or {}
        if i not in texts or x.get('panic'):
            return False
        return bool(x.get('err')) or all(s_.get('cmd') == 'vx' for s_ in (x.get('stmts') or []))
    ck.cov['rows_parsed_only_not_executed'] = len([i for i in range(len(cases)) if i in texts and not runnable(i)])

    # ---- route run: the escaped line (as produced by the real escaper) executed by the interpreter
    jobs = [{'id': i, 'src': texts[i], 'timeout_ms': 3000} for i in range(len(cases)) if runnable(i)]
    rres = L.run_programs_confirm(ck, jobs, tag='c10r')
    for j in jobs:
        i = j['id']
        c = cases[i]
        ck.cov['evaluations'] += 1
        st, r = L.classify_run(rres.get(i))
        if st != 'ok':
            ck.violation(key('run', st, c), 'executing %s: interpreter %s' % (json.dumps(texts[i]), st), {'argv': argvs[i], 'src': texts[i]})
            continue
        lines = L.json_lines(r['out'])
        if lines == [argvs[i][1:]] and r['exit'] == 0:
            ok['run'].add(i)
            continue
        outcome = 'error' if r['exit'] != 0 or lines is None else 'mismatch'
        ck.violation(key('run', outcome, c),
                     'executing %s: the command(s) received %s, exit %d; expected one command with %s' % (
                         json.dumps(texts[i]), json.dumps(lines) if lines is not None else repr(r['out'][:100]), r['exit'], json.dumps(argvs[i][1:])),
                     {'argv': argvs[i], 'src': texts[i], 'stdout': r['out'].decode('utf-8', 'replace'), 'stderr': r['err'].decode('utf-8', 'replace')[:500], 'exit': r['exit']})

    # ---- route esccli: array -> esccli -> its output as the parameters of a command
    def hexjson(args):
        return binascii.hexlify(json.dumps(args, ensure_ascii=False).encode('utf-8')).decode('ascii')
    jobs1 = [{'id': i, 'src': 'vxset w json %s\nvxgetdt w -> esccli\n' % hexjson(argvs[i][1:]), 'timeout_ms': 4000} for i in range(len(cases))]
    e1 = L.run_programs_confirm(ck, jobs1, tag='c10e1')
    jobs2 = []
    reparse = []
    for i, c in enumerate(cases):
        ck.cov['evaluations'] += 1
        st, r = L.classify_run(e1.get(i))
        if st != 'ok' or r['exit'] != 0 or not r['out'].endswith(b'\n'):
            ck.violation(key('esccli-run', st if st != 'ok' else 'error', c), 'esccli on %s: %s' % (json.dumps(argvs[i][1:]), st if st != 'ok' else 'exit %d, stderr %r' % (r['exit'], r['err'][:200])),
                         {'argv': argvs[i], 'src': jobs1[i]['src']})
            continue
        try:
            line = r['out'][:-1].decode('utf-8')
        except UnicodeDecodeError:
            ck.violation(key('esccli-run', 'error', c), 'esccli output is not UTF-8', {'argv': argvs[i]})
            continue
        line_text = 'vx ' + line
        if line_text == texts.get(i):
            # the same line as in the parse route
            if runnable(i):
                jobs2.append({'id': i, 'src': line_text, 'timeout_ms': 3000})
            else:
                # mis-read as more than `vx` statements: judged from the parse result, never executed
                ck.violation(key('esccli', 'mismatch', c),
                             'esccli %s printed %s; as parameters of a command that line is read as other statements too (see the parse route)' % (
                                 json.dumps(argvs[i][1:]), json.dumps(line)),
                             {'argv': argvs[i], 'text': line_text, 'parsed': (pres.get(i) or {}).get('stmts')})
        elif pres.get(i, {}).get('status') == 'hung' and line_text == L.txt(c['text']):
            # the same text on which the parser already spins (reported by the parse route): not run again
            ck.cov['esccli_rows_skipped_parser_spins'] = ck.cov.get('esccli_rows_skipped_parser_spins', 0) + 1
        else:
            # esccli escapes differently from escape.CommandLine+Join: its line is parsed, not executed
            reparse.append((i, line_text))
    if reparse:
        pr = L.run_lexer_confirm(ck, [{'id': i, 'op': 'parse', 'text': t} for i, t in reparse], tag='c10ep')
        for i, t in reparse:
            c = cases[i]
            x = pr.get(i) or {}
            st = x.get('stmts') or []
            want = c['expected'][0]
            if (x.get('status') == 'done' and not x.get('err') and not x.get('panic') and len(st) == 1 and not st[0].get('err')
                    and st[0]['cmd'] == 'vx' and (st[0].get('params') or []) == [L.txt(p) for p in want['params']]):
                ok['esccli'].add(i)
            else:
                ck.violation(key('esccli', 'hung' if x.get('status') == 'hung' else 'mismatch', c),
                             'esccli %s printed %s which does not parse back to the array' % (json.dumps(argvs[i][1:]), json.dumps(t[3:])),
                             {'argv': argvs[i], 'text': t, 'parsed': st, 'err': x.get('err')})
    e2 = L.run_programs_confirm(ck, jobs2, tag='c10e2')
    for j in jobs2:
        i = j['id']
        c = cases[i]
        st, r = L.classify_run(e2.get(i))
        if st != 'ok':
            ck.violation(key('esccli', st, c), 'esccli output used as parameters, %s: interpreter %s' % (json.dumps(j['src']), st), {'argv': argvs[i], 'src': j['src']})
            continue
        lines = L.json_lines(r['out'])
        if lines == [argvs[i][1:]] and r['exit'] == 0:
            ok['esccli'].add(i)
            continue
        outcome = 'error' if r['exit'] != 0 or lines is None else 'mismatch'
        ck.violation(key('esccli', outcome, c),
                     'esccli %s printed %s; as parameters that is %s (exit %d)' % (json.dumps(argvs[i][1:]), json.dumps(j['src'][3:]),
                                                                                 json.dumps(lines) if lines is not None else repr(r['out'][:100]), r['exit']),
                     {'argv': argvs[i], 'src': j['src'], 'stdout': r['out'].decode('utf-8', 'replace'), 'stderr': r['err'].decode('utf-8', 'replace')[:500]})

    # ---- route bin: the real binary, `murex --execute vx args...`
    murex = common.build_murex()
    bindir = os.path.join(ck.scratch, 'bin')
    os.makedirs(bindir, exist_ok=True)
    helper = os.path.join(bindir, 'vx')
    with open(helper, 'w') as f:
        f.write('#!/bin/sh\nexec %s argv-echo "$@"\n' % common.build_mxh())
    os.chmod(helper, os.stat(helper).st_mode | stat.S_IEXEC | stat.S_IXGRP | stat.S_IXOTH)
    idx = [i for i in range(len(cases)) if all('\x00' not in a for a in argvs[i])]
    rng.shuffle(idx)
    nbin = 96 if quick else 800
    # half of the sample from rows that passed in-process, half from the others (if any)
    good_rows = [i for i in idx if i in ok['run']][:(3 * nbin) // 4]
    # rows on which the parser spins are already reported in-process; one of them goes through the binary in the thorough tier
    hung_rows = [i for i in idx if pres.get(i, {}).get('status') == 'hung'][:0 if quick else 1]
    bad_rows = [i for i in idx if i not in ok['run'] and runnable(i)][:nbin - len(good_rows) - len(hung_rows)] + hung_rows
    env = dict(os.environ)
    env['PATH'] = bindir
    home = os.path.join(ck.scratch, 'home')
    os.makedirs(home, exist_ok=True)
    env['HOME'] = home

    def one(i):
        # a start of murex costs ~1 CPU-s; on a loaded machine a slow start must not look like a hang
        for budget in (20, 90):
            try:
                p = subprocess.run([murex, '--execute'] + argvs[i], env=env, cwd=home, stdin=subprocess.DEVNULL,
                                   stdout=subprocess.PIPE, stderr=subprocess.PIPE, timeout=budget)
                return i, p.returncode, p.stdout, p.stderr
            except subprocess.TimeoutExpired:
                continue
        return i, None, b'', b''
    agree = 0
    nb = 0
    with ThreadPoolExecutor(max_workers=common.NCPU) as ex:
        for i, rc, out, err in ex.map(one, good_rows + bad_rows):
            c = cases[i]
            nb += 1
            ck.cov['evaluations'] += 1
            lines = L.json_lines(out) if rc is not None else None
            good = rc == 0 and lines == [argvs[i][1:]]
            if good == (i in ok['run']):
                agree += 1
            if good:
                continue
            outcome = 'hung' if rc is None else ('error' if rc != 0 or lines is None else 'mismatch')
            ck.violation(key('bin', outcome, c),
                         'murex --execute %s: %s' % (' '.join(json.dumps(a) for a in argvs[i]),
                                                     'no exit within 90 s' if rc is None else 'the command(s) received %s, exit %d' % (json.dumps(lines) if lines is not None else repr(out[:100]), rc)),
                         {'argv': argvs[i], 'stdout': out.decode('utf-8', 'replace')[:500], 'stderr': err.decode('utf-8', 'replace')[:500], 'exit': rc})
    ck.cov['bin_rows'] = nb
    ck.cov['bin_rows_agreeing_with_in_process'] = agree
    if nb and agree < nb:
        ck.assumptions.append('%d of %d sampled rows gave a different verdict through the real binary than in-process (each judged on its own)' % (nb - agree, nb))

    allok = ok['parse'] & ok['run'] & ok['esccli']
    ck.cov['traces_validated_against_impl'] = len(allok)
    nontriv = [i for i in allok if any(set(a) - PLAIN for a in argvs[i][1:])]
    ck.cov['distinct_nontrivial'] = len(nontriv)
    ck.cov['rows_ok_by_route'] = {k: len(v) for k, v in ok.items()}
    for i in nontriv[:400]:
        if len(ck.cov['samples']) < 4 and len(argvs[i]) >= 3 and sum(len(set(a) - PLAIN) for a in argvs[i]) >= 3:
            ck.sample({'argv': argvs[i], 'escaped_line': texts[i], 'parsed_back': argvs[i]})
    for i in sorted(nontriv, key=lambda i: -sum(len(set(a) - PLAIN) for a in argvs[i]))[:2]:
        if len(ck.cov['samples']) < 2:
            ck.sample({'argv': argvs[i], 'escaped_line': texts[i], 'parsed_back': argvs[i]})
    if not ck.violations and len(nontriv) < 1000:
        raise common.Infra('vacuous: %d non-trivial argv round-tripped' % len(nontriv))
