"""C23: spec/FuncSig.tla + spec/FuncSigGen.tla case tables -> real lang.ParseMxFunctionParameters
(mxh funcsig-parse) and real function calls (murex programs).  Expected values come from TLC's export only."""
import json
import os
import random
import re
from vlib import common, prog

CLASSES = 'LSNCQOBMXU'
LETTERS = 'abcxyzABZ019_-'
OTHERS = '?$./@#~*=+;%é世'       # class U: anything the parser has no case for (incl. non-ASCII)
FIXED = {'S': ' ', 'N': '\n', 'C': ':', 'Q': '"', 'O': '[', 'B': ']', 'M': ',', 'X': '!'}


def classify(ch):
    """class of a character as ParseMxFunctionParameters distinguishes them (binding sanity check)"""
    for k, v in FIXED.items():
        if ch == v:
            return k
    if ('a' <= ch <= 'z') or ('A' <= ch <= 'Z') or ('0' <= ch <= '9') or ch in '_-':
        return 'L'
    return 'U'


def render_sig(classes, rng):
    out = []
    for c in classes:
        if c == 'L':
            out.append(rng.choice(LETTERS))
        elif c == 'U':
            out.append(rng.choice(OTHERS))
        else:
            out.append(FIXED[c])
    text = ''.join(out)
    if [classify(ch) for ch in text] != list(classes):
        raise common.Infra('rendering of class string %s is wrong' % ''.join(classes))
    return text


# ------------------------------------------------------------------ sampling of inputs
def random_sigs(n, seed, maxparams=4):
    """Seeded sample of signature class strings: well-formed signatures built from the documented shape (optional
    marker, name, type, default and description with punctuation classes, white space variants) of which about
    half are then damaged by 1-2 random edits (insert / delete / replace a class)."""
    rng = random.Random(seed * 7919 + 1)
    seen = set()
    out = []

    def chars(exclude, k):
        pool = [c for c in 'LLLSSUCMXQOB' if c not in exclude]
        return ''.join(rng.choice(pool) for _ in range(k))

    def param(optional):
        s = rng.choice(['', '', 'S', 'N', 'NS', 'NSS'])
        if optional:
            s += 'X'
        s += 'L' * rng.randint(1, 3)
        if rng.random() < 0.8:
            s += 'C' + rng.choice(['', 'S', 'S', 'SS']) + 'L' * rng.randint(1, 3)
            r = rng.random()
            fields = []
            dflt = 'O' + chars('BN', rng.randint(0, 4)) + 'B'
            desc = 'Q' + chars('QN', rng.randint(0, 5)) + 'Q'
            if r < 0.25:
                fields = []
            elif r < 0.45:
                fields = [dflt]
            elif r < 0.6:
                fields = [desc]
            elif r < 0.85:
                fields = [dflt, desc]
            elif r < 0.93:
                fields = [desc, dflt]
            else:
                fields = [dflt, desc, dflt]
            for j, f in enumerate(fields):
                gap = rng.choice(['S', 'S', 'S', 'SS', '', 'N']) if j else rng.choice(['S', 'S', 'S', 'SS', ''])
                s += gap + f
            if fields:
                s += rng.choice(['', '', 'S', 'N', 'NS'])
            else:
                s += rng.choice(['', '', '', 'S'])
        return s

    guard = 0
    while len(out) < n and guard < n * 30:
        guard += 1
        k = rng.choice([1, 1, 2, 2, 3, maxparams])
        nopt = rng.choice([0, 0, 1, 2])
        ps = []
        for j in range(k):
            optional = j >= k - nopt
            if rng.random() < 0.05:
                optional = not optional
            ps.append(param(optional))
        s = 'M'.join(ps)
        if rng.random() < 0.5:
            for _ in range(rng.choice([1, 1, 2])):
                pos = rng.randint(0, len(s))
                op = rng.random()
                if op < 0.4:
                    s = s[:pos] + rng.choice(CLASSES) + s[pos:]
                elif op < 0.7 and s:
                    pos = min(pos, len(s) - 1)
                    s = s[:pos] + s[pos + 1:]
                elif s:
                    pos = min(pos, len(s) - 1)
                    s = s[:pos] + rng.choice(CLASSES) + s[pos + 1:]
        if len(s) > 40 or s in seen:
            continue
        seen.add(s)
        out.append(s)
    return out


def random_calls(n, seed, argvals, nparams=3):
    rng = random.Random(seed * 104729 + 2)
    seen = set()
    out = []
    guard = 0
    while len(out) < n and guard < n * 30:
        guard += 1
        k = rng.choice([nparams, nparams, nparams, 2])
        nopt = rng.randint(0, k)
        ps = []
        for j in range(k):
            optional = j >= k - nopt
            hasd = optional and rng.random() < 0.6
            ty = rng.choice(['str', 'int', 'num', 'bool'])
            d = ''
            if hasd:
                good = [v for v in argvals if (ty == 'str') or (ty == 'bool' and v in ('true', 'false')) or (ty in ('int', 'num') and re.match(r'^-?\d', v))]
                d = rng.choice(good if rng.random() < 0.7 and good else argvals)
                if rng.random() < 0.12:
                    d = ''          # the explicit empty default `[]`
            ps.append({'type': ty, 'optional': optional, 'hasDefault': hasd, 'default': d})
        mand = k - nopt
        m = rng.randint(mand, k) if rng.random() < 0.9 else rng.randint(0, k)
        args = []
        for j in range(m):
            ty = ps[j]['type']
            good = [v for v in argvals if (ty == 'str') or (ty == 'bool' and v in ('true', 'false')) or (ty in ('int', 'num') and re.match(r'^-?\d', v))]
            args.append(rng.choice(good if rng.random() < 0.75 and good else argvals))
        key = json.dumps([ps, args], sort_keys=True)
        if key in seen:
            continue
        seen.add(key)
        out.append({'ps': ps, 'args': args})
    return out


# ------------------------------------------------------------------ TLC
def cfg_constants(cfgname):
    text = open(os.path.join(common.SPEC, cfgname)).read()
    u = {}
    for k in ('ArgVals', 'IntToks', 'FracToks'):
        m = re.search(r'^\s*%s\s*=\s*\{([^}]*)\}' % k, text, re.M)
        if not m:
            raise common.Infra('%s: constant %s not found' % (cfgname, k))
        u[k] = re.findall(r'"([^"]*)"', m.group(1))
    # the conversion tables of the specification against the literal text of the tokens
    for v in u['ArgVals']:
        if not re.match(r'^[-A-Za-z0-9.]+$', v):
            raise common.Infra('%s: value %r cannot be written as a bare murex word' % (cfgname, v))
        is_int = bool(re.match(r'^(0|-?[1-9][0-9]*)$', v))
        is_frac = bool(re.match(r'^-?(0|[1-9][0-9]*)\.[0-9]*[1-9]$', v))
        if is_int != (v in u['IntToks']) or is_frac != (v in u['FracToks']):
            raise common.Infra('%s: IntToks/FracToks table wrong for %r' % (cfgname, v))
        if not is_int and not is_frac:
            try:
                float(v)
                raise common.Infra('%s: value %r parses as a number' % (cfgname, v))
            except ValueError:
                pass
    for v in u['FracToks']:
        if v not in ('1.5', '-1.5'):
            raise common.Infra('%s: Trunc() in FuncSig.tla does not cover %r' % (cfgname, v))
    return u


def _check_tlc(r, what):
    if r.violated:
        raise common.Infra('FuncSig.tla (%s): %s violated - the transcribed parser/binding loop and the documented rule disagree: '
                           'the specification is wrong\n%s' % (what, r.violated, r.out[-3000:]))


def _collect(ck, r, wd, what, nsig=None, ncall=None):
    _check_tlc(r, what)
    ck.add_tlc(r)
    sigs = common.read_ndjson(os.path.join(wd, 'cases.ndjson'))
    calls = common.read_ndjson(os.path.join(wd, 'calls.ndjson'))
    if nsig is not None and (len(sigs) != nsig or len(calls) != ncall):
        raise common.Infra('TLC returned %d/%d cases for %d/%d inputs' % (len(sigs), len(calls), nsig, ncall))
    ck.cov.setdefault('tlc_runs', {})[what] = {'distinct_states': r.distinct, 'generated': r.generated, 'signatures': len(sigs),
                                               'calls': len(calls), 'wall_s': round(r.wall, 1)}
    return sigs, calls


def gen_exhaustive(ck, cfgname):
    wd = os.path.join(ck.scratch, 'ex-' + cfgname)
    r = common.tlc('FuncSigGen', cfgname, wd, timeout=3000)
    return _collect(ck, r, wd, cfgname)


def gen_from_inputs(ck, sigs, calls, tag):
    wd = os.path.join(ck.scratch, 'in-' + tag)
    f1 = ''.join(json.dumps({'s': list(s)}, separators=(',', ':')) + '\n' for s in sigs)
    f2 = ''.join(json.dumps(c, separators=(',', ':')) + '\n' for c in calls)
    r = common.tlc('FuncSigGen', 'MCFuncSigSample.cfg', wd, timeout=3000, workers=1, heap='4g',
                   files={'sigs.ndjson': f1, 'callsin.ndjson': f2})
    return _collect(ck, r, wd, 'MCFuncSigSample.cfg/' + tag, len(sigs), len(calls))


# ------------------------------------------------------------------ part 1: the real signature parser
def field(text, idx):
    return ''.join(text[i - 1] for i in idx)


def compare_sig(c, text, x):
    """-> None or (what, description).  c: spec case; x: report of the real parser on `text`."""
    if x['accept'] != c['ok']:
        if x['accept']:
            return ('accepts:stray-bracket' if c['strayBracket'] else 'accepts:other'), \
                'the parser accepts %r (-> %s); the documented grammar does not' % (text, json.dumps(x['params'], ensure_ascii=False))
        return 'rejects', 'the parser rejects %r (%s); the documented grammar accepts it' % (text, x['err_text'])
    if not c['ok']:
        return None
    exp = [{'name': field(text, p['name']), 'type': 'str' if p['typeStr'] else field(text, p['type']),
            'desc': field(text, p['desc']), 'default': field(text, p['default']),
            'hasDefault': p['hasDefault'], 'optional': p['optional']} for p in c['params']]
    if exp != x['params']:
        return 'fields', 'signature %r parsed to %s; rule: %s' % (text, json.dumps(x['params'], ensure_ascii=False), json.dumps(exp, ensure_ascii=False))
    return None


def sig_nontrivial(c):
    if not c['judged']:
        return False
    if not c['ok']:
        return len(c['s']) >= 3
    return len(c['params']) > 1 or any(p['optional'] or p['hasDefault'] or p['desc'] or not p['typeStr'] for p in c['params'])


# ------------------------------------------------------------------ part 2: real calls
NAMES = ['a', 'b1', 'c_x', 'd']
PUNCT = ['the, first: one!', 'a [b] c?', 'x = y; z.', 'pick: 1, 2, or 3', '']


def render_call(c, cid, rng):
    parts = []
    for j, p in enumerate(c['ps']):
        s = ('!' if p['optional'] else '') + NAMES[j]
        if not (p['type'] == 'str' and not p['hasDefault'] and rng.random() < 0.2):
            s += ':' + rng.choice(['', ' ']) + p['type']
            if p['hasDefault']:
                s += ' [%s]' % p['default']
            if rng.random() < 0.5:
                s += ' "%s"' % rng.choice(PUNCT)
        parts.append(s)
    sig = rng.choice([', ', ',', ',\n    ']).join(parts)
    body = '    out BODY\n' + ''.join('    out "%s=[$%s]"\n' % (NAMES[j], NAMES[j]) for j in range(len(c['ps'])))
    return 'function fs%d (%s) {\n%s}\nfs%d %s\n' % (cid, sig, body, cid, ' '.join(c['args']))


def compare_call(c, run):
    out = run['out'].decode('utf-8', 'replace').split('\n')
    err = run['err'].decode('utf-8', 'replace')
    lines = [x for x in out if x]
    if c['status'] == 'fail':
        if 'BODY' in lines:
            return 'body-ran', 'the body ran (stdout %r); rule: the call fails before the body' % lines
        if run['exit'] == 0 or not err.strip():
            return 'no-failure', 'exit number %d, stderr %r; rule: the call fails' % (run['exit'], err[:200])
        return None
    exp = ['BODY']
    unset = []
    for j, v in enumerate(c['vars']):
        if v['set']:
            exp.append('%s=[%s]' % (NAMES[j], v['text']))
        else:
            unset.append(NAMES[j])
    if lines != exp:
        return 'values', 'stdout %r; rule: %r' % (lines, exp)
    for nm in unset:
        # the line printing an unset variable fails (stdout was compared above); the error has to name the variable - its
        # wording is not part of the property
        if not re.search(r"\b%s\b" % re.escape(nm), err):
            return 'unset', 'no error naming $%s (stderr %r); rule: the parameter stays unset' % (nm, err[:300])
    if not unset and (run['exit'] != 0 or err.strip()):
        return 'failed', 'exit number %d, stderr %r on a call that binds every parameter' % (run['exit'], err[:300])
    return None


def call_key(c):
    sig = ','.join('%s%s%s' % ('!' if p['optional'] else '', p['type'], '[%s]' % p['default'] if p['hasDefault'] else '') for p in c['ps'])
    return '%s|%s' % (sig, ' '.join(c['args']))


def call_nontrivial(c):
    if not c['judged'] or c['status'] == 'prompt':
        return False
    n = len(c['args'])
    return c['status'] == 'fail' or n < len(c['ps']) or any(p['type'] in ('int', 'num') for p in c['ps'])
