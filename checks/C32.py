"""C32 - running murex code causes no data races.  Oracle: the Go race detector on the real code;
the specifications (Stream, NamedPipes, Pipeline, RunModes) supply the concurrent workloads."""
import glob
import os
import random
import subprocess
import sys
from vlib import common, graph
from . import runmodeslib as L

LEVEL = 'exploration'
sys.path.insert(0, os.path.join(common.VERIF, 'tools'))
import racekeys  # noqa: E402


def coenabled_pairs(ck, module, cfg):
    """pairs of action kinds of different actors enabled in the same reachable state of the model"""
    wd = os.path.join(ck.scratch, 'co-' + cfg)
    r = common.tlc(module, cfg, wd, extra=['-dump', 'dot,actionlabels', 'g.dot'], timeout=1800)
    if r.violated:
        raise common.Infra('%s violated in %s' % (r.violated, cfg))
    ck.add_tlc(r)
    g = graph.load_dot(os.path.join(wd, 'g.dot'), [])
    os.remove(os.path.join(wd, 'g.dot'))
    pairs = set()
    for n, outs in g.succ.items():
        labs = set(l for l, _ in outs)
        acts = set()
        for l in labs:
            name, _, arg = l.partition('(')
            actor = arg.rstrip(')').split(',')[0]
            acts.add((name, actor))
        for a in acts:
            for b in acts:
                if a[1] != b[1] and a[0] <= b[0]:
                    pairs.add((a[0], b[0]))
    return pairs


# shared interpreter state touched from the stages of one pipeline inside one function scope: (name, set-up in the scope,
# write, read).  No murex variables in the concurrent part unless the variable table is the state under test.
SHARED = [
    ('config-scoped', 'config set proc strict-arrays false', 'config set proc strict-types false', 'config get proc strict-arrays -> null'),
    ('config-scoped-same-key', 'config set proc strict-arrays false', 'config set proc strict-arrays true', 'config get proc strict-arrays -> null'),
    ('config-global', '', 'config set shell max-suggestions 6', 'config get shell max-suggestions -> null'),
    ('config-dump', 'config set proc strict-arrays false', 'config set proc strict-types false', 'runtime --config -> null'),
    ('global-var', 'global sg%d = 0', 'global sg%d = 1', 'out $sg%d -> null'),
    ('env-var', 'export SE%d=0', 'export SE%d=1', 'out $SE%d -> null'),
    ('function-table', '', 'function sf%d { out x }', 'runtime --functions -> null'),
    ('alias-table', '', 'alias sa%d=out x', 'alias -> null'),
]


def stress_programs(cid, k):
    """-> [(id, name, src)]: function { set-up; unsafe { (write; read) x k } | unsafe { ... } | unsafe { ... } }"""
    out = []
    for name, pre, w, r in SHARED:
        cid += 1
        def f(t):
            return t % tuple([cid] * t.count('%d')) if '%d' in t else t
        stage = 'unsafe {\n\tout go\n' + ('\t%s\n\t%s\n' % (f(w), f(r))) * k + '}'
        src = 'function stress%d {\n%s\n%s | %s | %s\nout done\n}\nstress%d' % (cid, f(pre), stage, stage, stage, cid)
        out.append((cid, name, src))
    return out


def run(ck, replay=None):
    quick = ck.tier == 'quick'
    ck.cov['rule'] = ('workloads: (1) the random concurrent pipe drivers of C01/C02 (writers, readers, SetDataType/GetDataType, ForceClose), (2) random '
                      'concurrent create/close/delete/get/dump on named-pipe registries with their real close timers, (3) the program tables of '
                      'RunModes.tla and Pipeline.tla plus structured programs (functions, loops, sub-shells, named pipes, bg, parallel foreach, '
                      'config and global variables) and stress programs in which the three stages of one pipeline inside a function read and write the same '
                      'shared table (scoped / global config, global and environment variables, function and alias tables) a few hundred times, executed 4 '
                      'at a time per interpreter process under schedule perturbation - all in a harness '
                      'built with -race.  Every distinct race report (keyed by the two access sites) is a finding.  The models contribute the list '
                      'of action pairs that can be enabled concurrently (reported as model_coenabled_pairs).  non-trivial = a workload unit with at '
                      'least two goroutines touching one object; distinct = different units.')
    ck.assumptions += ['the Go race detector is the oracle: it reports races that happen in the executions driven here, not all possible ones',
                       'state that no specification models is exercised only through the murex programs']
    mxh = common.build_mxh(race=True)
    logdir = os.path.join(ck.scratch, 'race')
    os.makedirs(logdir)
    procs = []
    units = 0

    def spawn(tag, args):
        env = dict(os.environ)
        env['GORACE'] = 'halt_on_error=0 log_path=%s/%s' % (logdir, tag)
        procs.append((tag, subprocess.Popen([mxh] + args, env=env, stdout=subprocess.DEVNULL, stderr=subprocess.PIPE, stdin=subprocess.DEVNULL)))

    nt = 100 if quick else 1500
    for i, flags in enumerate(([], ['-forceclose'], ['-types'], ['-types', '-forceclose'])):
        spawn('stream%d' % i, ['stream-drive', '-out', os.path.join(ck.scratch, 's%d.ndjson' % i), '-seed', str(ck.seed * 7 + i), '-n', str(nt)] + flags)
        units += nt
    spawn('named', ['named-drive', '-seed', str(ck.seed), '-n', '8' if quick else '32', '-ops', '300'])
    units += 8 if quick else 32
    # programs
    rng = random.Random(ck.seed)
    from . import C28, C03
    cases = L.gen_cases(ck, 3, ['normal', 'try', 'trypipe'])
    rng.shuffle(cases)
    jobs = []
    cid = 0
    for c in cases[:(200 if quick else 3000)]:
        cid += 1
        jobs.append({'id': cid, 'src': L.render(c, cid, 'top', rng), 'timeout_ms': 60000})
    wd = os.path.join(ck.scratch, 'pgen')
    r = common.tlc('PipelineGen', 'MCPipelineGen.cfg', wd, timeout=3000)
    ck.add_tlc(r)
    pc = common.read_ndjson(os.path.join(wd, 'cases.ndjson'))
    rng.shuffle(pc)
    for c in pc[:(100 if quick else 1500)]:
        cid += 1
        jobs.append({'id': cid, 'src': C03.render(c, cid), 'timeout_ms': 60000})
    extra = ['pipe rp%d; bg { <rp%d> -> cat }; out hello -> <rp%d>; !pipe rp%d', 'a [1..10] -> foreach --parallel 4 i { out $i }',
             'a [1..40] -> foreach --parallel 8 i { out $i }', 'a [1..40] -> foreach --parallel 0 i { if { $i == 7 } then { out seven }; out $i }',
             'bg { sleep 0.05; out x }; out y; sleep 0.1',
             'config set proc strict-vars false; function fcfg%d { config set proc strict-vars true; out ok }\nfcfg%d',
             'global gv%d = 1; function fg%d { global gv%d = 2 }\nfg%d | cat; out $gv%d',
             'function fa%d { args flags%d %%{ AllowAdditional: true, Flags: { --x: str } }; out ok }\nfa%d --x 1 y']
    for rep in range(5 if quick else 40):
        for scid, name, src in C28.special_cases(cid):
            jobs.append({'id': scid, 'src': src, 'timeout_ms': 60000})
            cid = scid
        for t in extra:
            cid += 1
            n = t.count('%d')
            jobs.append({'id': cid, 'src': (t % tuple([cid] * n)) if n else t, 'timeout_ms': 60000})
    for rep in range(3 if quick else 8):
        for scid, name, src in stress_programs(cid, 160 if quick else 300):
            jobs.append({'id': scid, 'src': src, 'timeout_ms': 240000})
            cid = scid
    rng.shuffle(jobs)
    shards = 6
    for s in range(shards):
        part = jobs[s::shards]
        inp = os.path.join(ck.scratch, 'rin%d.ndjson' % s)
        common.write_ndjson(inp, part)
        spawn('prog%d' % s, ['run-programs', '-in', inp, '-out', os.path.join(ck.scratch, 'rout%d.ndjson' % s), '-conc', '4', '-perturb', str(ck.seed * 31 + s + 1)])
    units += len(jobs)
    pairs = coenabled_pairs(ck, 'Stream', 'MCStreamGenQ.cfg') | coenabled_pairs(ck, 'NamedPipes', 'MCNamedPipesGenQ.cfg')
    ck.cov['model_coenabled_pairs'] = sorted('%s||%s' % p for p in pairs)
    for tag, p in procs:
        try:
            _, err = p.communicate(timeout=2400)
        except subprocess.TimeoutExpired:
            p.kill()
            raise common.Infra('race workload %s timed out' % tag)
        if p.returncode not in (0, 66):
            e = err.decode('utf-8', 'replace')
            if 'fatal error: concurrent map' in e:
                ck.violation('fatal:' + tag + ':' + e.split('fatal error:')[1].split('\n')[0].strip(), 'the Go runtime aborted the process: unsynchronised map access', {'stderr': e[-2000:]})
            else:
                raise common.Infra('race workload %s failed (%d): %s' % (tag, p.returncode, e[-1500:]))
    ck.cov['evaluations'] = units
    keys = {}
    for f in glob.glob(os.path.join(logdir, '*')):
        text = open(f, errors='replace').read()
        for k, blk in zip(racekeys.parse(text), text.split('WARNING: DATA RACE')[1:]):
            keys.setdefault(k, blk[:3000])
    for k, blk in keys.items():
        ck.violation('race:' + k, 'data race between ' + k, {'report': blk})
    ck.cov['race_reports_distinct'] = len(keys)
    ck.cov['traces_validated_against_impl'] = units
    ck.cov['distinct_nontrivial'] = units
    ck.sample({'workload': 'stream-drive -n %d x4 modes; named-drive; %d murex programs 4 at a time' % (nt, len(jobs)), 'race_keys_seen': sorted(keys)})
    ck.cov['exhaustive'] = False
