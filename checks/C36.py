"""C36 - %[ ] and %{ } literals build the same value as JSON.  spec/LexerLit.tla."""
import json
import os
import random

from vlib import common
from . import lexerlib as L

LEVEL = 'exploration'

STR_ALPHA = list('abcxyzABC019') + ['SP', 'EA', 'U1', 'U2', '#', '/', '[', ']', '{', '}', ':', ',', 'SQ', '%', '@', '-', '.', '_', ';', '|', '&', '*', '?', '<', '>', '=', '!']
NUMS = ['0', '7', '-12', '1.5', '2e3', '-0.25', '100', '3.125']


def tree_value(t):
    """the JSON value a spec tree denotes (format conversion of the spec's expected value)"""
    k = t['t']
    if k == 'lit':
        return json.loads(L.txt(t['s']))
    if k == 'str':
        return L.txt(t['s'])
    if k == 'arr':
        return [tree_value(e) for e in t['e']]
    d = {}
    for key, v in t['e']:
        d[L.txt(key)] = tree_value(v)          # a repeated key: the last one wins, as in JSON decoders
    return d


def same(a, b):
    """strict equality of JSON values: booleans are not numbers, numbers compare numerically"""
    if isinstance(a, bool) or isinstance(b, bool):
        return isinstance(a, bool) and isinstance(b, bool) and a == b
    if isinstance(a, (int, float)) and isinstance(b, (int, float)):
        return float(a) == float(b)
    if type(a) is not type(b):
        return False
    if isinstance(a, list):
        return len(a) == len(b) and all(same(x, y) for x, y in zip(a, b))
    if isinstance(a, dict):
        return set(a) == set(b) and all(same(a[k], b[k]) for k in a)
    return a == b


def rand_tree(rng, depth):
    def node(t, s=(), e=()):
        return {'t': t, 's': list(s), 'e': list(e)}

    def scalar():
        r = rng.random()
        if r < 0.35:
            return node('lit', list(rng.choice(NUMS)))
        if r < 0.5:
            return node('lit', list(rng.choice(['true', 'false', 'null'])))
        return node('str', [rng.choice(STR_ALPHA) for _ in range(rng.randint(0, 10))])

    def inner(d):
        n = rng.randint(0, 5)
        if rng.random() < 0.5:
            return node('arr', e=[any_(d - 1) for _ in range(n)])
        return node('obj', e=[[[rng.choice(STR_ALPHA) for _ in range(rng.randint(0, 6))], any_(d - 1)] for _ in range(n)])

    def any_(d):
        return scalar() if d <= 0 or rng.random() < 0.45 else inner(d)
    return inner(depth)


def run(ck, replay=None):
    quick = ck.tier == 'quick'
    rng = random.Random(ck.seed)
    ck.cov['rule'] = ('TLC enumerates JSON trees (8 number/boolean/null spellings, 8 strings without backslash $ ~ ( ), 4 keys; every array/object of '
                      '<= 2 members over them; a second and (thorough) third level over a reduced set of subtrees), prints each as JSON text in four '
                      'layouts that are all JSON syntax (compact, ", "/": ", indented one member per line, line break after the colon) and exports '
                      '(text, tree).  Seeded random documents (depth <= 4, <= 5 members, richer strings) are printed by the same specification.  '
                      'Each text is decoded by encoding/json (must equal the tree, else the specification is wrong) and written as a murex literal '
                      '`%` + text in an assigned expression (`v = %[..]`, value read back through the variable API) and as a statement argument '
                      '(`vx %{..}`); the murex value must equal the tree.  non-trivial = the document has a nested array/object or a string with '
                      'a JSON/murex punctuation character; distinct = different (document, layout).')
    ck.assumptions += ['programs run in an empty scratch directory with an empty PATH (a mis-read line cannot reach anything outside it)',
                       'numbers are spellings that float64 represents exactly; strings have no backslash, $, ~ or parentheses (the property\'s restriction)',
                       'the specification is a generator plus the identity the property states (level: exploration)']
    cfg = open(os.path.join(common.SPEC, 'MCLexerLit.cfg')).read()
    if not quick:
        cfg = cfg.replace('Width2 = 1', 'Width2 = 2').replace('Deep = FALSE', 'Deep = TRUE')
    n = 300 if quick else 3000
    body = ''.join(json.dumps(rand_tree(rng, rng.randint(1, 4)), separators=(',', ':')) + '\n' for _ in range(n))
    wd = os.path.join(ck.scratch, 'tlc-lit')
    r = common.tlc('LexerLit', 'Run.cfg', wd, files={'Run.cfg': cfg, 'sample.ndjson': body}, timeout=6000, workers=2)
    if r.violated:
        raise common.Infra('LexerLit.tla: %s\n%s' % (r.violated, r.out[-3000:]))
    ck.add_tlc(r)
    cases = common.read_ndjson(os.path.join(wd, 'cases.ndjson'))
    ck.cov['exhaustive'] = True
    ck.cov['table_rows'] = len(cases)

    # encoding/json on the same text: ties the printer of the specification to JSON
    gres = L.run_lexer_confirm(ck, [{'id': i, 'op': 'json', 'text': L.txt(c['json'])} for i, c in enumerate(cases)], tag='c36j')
    expected = []
    for i, c in enumerate(cases):
        x = gres.get(i)
        want = tree_value(c['tree'])
        if x is None or x.get('status') != 'done' or x.get('err'):
            raise common.Infra('LexerLit.tla prints text that encoding/json rejects: %r: %s' % (L.txt(c['json']), x))
        if not same(json.loads(x['json']), want):
            raise common.Infra('LexerLit.tla: text %r decodes to %s, the tree says %s' % (L.txt(c['json']), x['json'], json.dumps(want)))
        expected.append(want)

    jobs = []
    for i, c in enumerate(cases):
        t = L.txt(c['text'])
        jobs.append({'id': 2 * i, 'src': 'v = %s\nvxget v\n' % t, 'timeout_ms': 6000})
        jobs.append({'id': 2 * i + 1, 'src': 'vx %s\nvx END\n' % t, 'timeout_ms': 6000})
    res = L.run_programs_confirm(ck, jobs, tag='c36')
    nontriv = set()

    def interesting(t, top=True):
        if t['t'] == 'str':
            return bool(set(t['s']) & {'[', ']', '{', '}', ':', ',', '#', '/', 'SQ', '%', '@', 'SP', ';', '|', '&', '*', '?', '<', '>', '='})
        if t['t'] in ('arr', 'obj'):
            kids = [e if t['t'] == 'arr' else e[1] for e in t['e']]
            return (not top) or any(interesting(k, False) for k in kids)
        return False
    for i, c in enumerate(cases):
        want = expected[i]
        kind = 'array' if c['tree']['t'] == 'arr' else 'object'
        allok = True
        for pos, jid in (('expr', 2 * i), ('stmt', 2 * i + 1)):
            ck.cov['evaluations'] += 1
            src = jobs[jid]['src']
            st, r = L.classify_run(res.get(jid))
            def key(outcome, kind=kind, layout=c['layout'], pos=pos, doc=json.dumps(L.txt(c['json']), ensure_ascii=True)):
                return 'c36:%s:%s:%s:%s:%s' % (kind, layout, pos, outcome, doc)
            if st != 'ok':
                allok = False
                ck.violation(key(st), 'literal %s: interpreter %s' % (json.dumps(L.txt(c['text'])), st), {'src': src})
                continue
            lines = L.json_lines(r['out'])
            got = None
            try:
                if pos == 'expr' and lines and len(lines) == 1 and isinstance(lines[0], dict):
                    got = ('v', json.loads(lines[0]['value']))
                elif pos == 'stmt' and lines and len(lines) == 2 and lines[1] == ['END'] and len(lines[0]) == 1:
                    got = ('v', json.loads(lines[0][0]))
            except (ValueError, KeyError, TypeError):
                got = None
            if got is not None and r['exit'] == 0 and same(got[1], want):
                continue
            allok = False
            outcome = 'error' if got is None or r['exit'] != 0 else 'mismatch'
            ck.violation(key(outcome),
                         'murex literal %s (%s position) gives %s; the same text as JSON is %s' % (
                             json.dumps(L.txt(c['text'])), pos,
                             json.dumps(got[1]) if got else 'an error: ' + (r['err'].decode('utf-8', 'replace').split('\n')[0][:160] or repr(r['out'][:80])),
                             json.dumps(want)),
                         {'src': src, 'expected': want, 'stdout': r['out'].decode('utf-8', 'replace')[:600],
                          'stderr': r['err'].decode('utf-8', 'replace')[:600], 'exit': r['exit']})
        if allok:
            ck.cov['traces_validated_against_impl'] += 1
            if interesting(c['tree']):
                nontriv.add(i)
                if len(ck.cov['samples']) < 4 and len(c['json']) > 25 and c['layout'] != 'compact':
                    ck.sample({'literal': L.txt(c['text']), 'value': want})
    ck.cov['distinct_nontrivial'] = len(nontriv)
    if not ck.violations and len(nontriv) < 1000:
        raise common.Infra('vacuous: %d non-trivial documents' % len(nontriv))
