"""C24 - flag parsing follows the declared flag table; `args` exposes exactly that result.
spec/Flags.tla (+ FlagsGen.tla)."""
import json
import os
import random
import time
from vlib import common, prog
from . import flagslib as L

LEVEL = 'model_checking'

PARSE_MS = 300       # per-call budget of a direct ParseFlags call (typical: microseconds)
ARGS_MS = 1000       # per-program budget of an `args` program (typical: < 1 ms)


def run(ck, replay=None):
    quick = ck.tier == 'quick'
    rng = random.Random(ck.seed)
    t0 = time.time()

    def phase(msg):
        common.log('[C24] %6.1fs %s' % (time.time() - t0, msg))
    excfg = 'MCFlagsGenQ.cfg' if quick else 'MCFlagsGen.cfg'
    nsample = 12000 if quick else 120000
    nargs = 6000 if quick else 40000
    first = 4 if quick else 8            # predicted-hang cases tried before the rest of their class
    uex = L.universe(excfg)
    us = L.universe('MCFlagsSample.cfg')
    for k in uex:
        if not set(uex[k]) <= set(us[k]):
            raise common.Infra('universe of %s is not contained in MCFlagsSample.cfg (needed for --replay)' % excfg)
    ck.cov['rule'] = (
        'TLC checks on every input that the transcribed ParseFlags loop (previous / ignoreFlags registers, alias rewrite with a hop '
        'measure) returns what the declarative rule of the property says and that every step decreases a termination measure, and '
        'exports input + expected result + expected content of the `args` variable.  Inputs: (a) exhaustive - every table over flags '
        '%s (absent, str/int/num/bool, alias of either flag or of an undeclared flag; self-aliases and 2-cycles included) x option '
        'combinations x every argument list of <= %d tokens from %s; (b) a VERIF_SEED-seeded sample of %d inputs over 4 flag names '
        '(alias chains <= 3, cycles, dangling aliases), 3 undeclared flags, 6 values, all 8 option combinations, <= %d arguments.  '
        'Every input is run through the real parameters.ParseFlags (error or not; flag -> Go type and value; additional) and a '
        'seeded subset of %d through the real `args` builtin inside a murex function (variable stored, Error text present iff the '
        'rule says error and equal to the text ParseFlags returned, Flags and Additional as JSON).  non-trivial = judged input that '
        'follows an alias, converts to int/num, takes a dash-prefixed value, cuts at `--` or at a strict-placement parameter, or '
        'must be refused; distinct = different (table, options, arguments).'
        % (uex['Names'], 2 if quick else 3, sorted(set(uex['Names'] + uex['Undecl'] + uex['Values'] + ['--'])), nsample, 5 if quick else 6, nargs))
    ck.assumptions += [
        'only error / no error is compared, not the wording of ParseFlags errors (the property says "a clean error"); `args` must carry the very text ParseFlags returned',
        'inputs the property leaves open are executed (crash/hang would still be reported) but not judged: a declared flag name or `--` (with AllowAdditional) directly after a value flag; a fraction given to an int flag; the same value flag given twice with different values; an alias chain ending at an undeclared name; an undeclared flag under IgnoreInvalidFlags',
        'exit number of `args` is judged only on successful parses (must be 0); the property does not fix it for the error case',
        'a case predicted to run into an alias cycle (or, for `args`, into the error path) is first tried on a few cases of its class; if those hang, the rest of the class is not executed in this run (counted in not_executed_after_hang)',
        'a hang is reported only after the same case timed out 3 more times with 10x the budget (DESIGN 4.5)',
    ]

    # ---- case tables out of TLC
    if replay:
        rp = json.load(open(replay))
        inputs = []
        for v in rp.get('violations', []):
            ci = v.get('case', {}).get('input')
            if ci:
                fi = L.to_file_input(ci)
                if fi not in inputs:
                    inputs.append(fi)
        if not inputs:
            raise common.Infra('nothing to replay in %s' % replay)
        cases = L.gen_from_inputs(ck, inputs, 'replay')
        nargs = len(cases)
    else:
        # the two TLC runs are independent: run them side by side
        from concurrent.futures import ThreadPoolExecutor
        with ThreadPoolExecutor(2) as ex:
            f1 = ex.submit(L.gen_exhaustive, ck, excfg)
            f2 = ex.submit(L.gen_from_inputs, ck, L.random_inputs(us, nsample, ck.seed, 5 if quick else 6), 'sample')
            cases = f1.result()
            nex = len(cases)
            cases += f2.result()
        ck.cov['inputs'] = {'exhaustive': nex, 'sampled': len(cases) - nex}
    phase('case tables from TLC: %d inputs' % len(cases))
    bykey = {}
    for c in cases:
        bykey.setdefault(L.case_key(c), c)
    cases = sorted(bykey.items())
    ids = {k: n for n, (k, _) in enumerate(cases)}
    cmap = dict(cases)

    # ---- real ParseFlags on every input
    suspects = [k for k, c in cases if c['cyclic']]
    rng.shuffle(suspects)
    normal = [k for k, c in cases if not c['cyclic']]
    direct = {}
    skipped = 0

    def do_parse(keys, tag):
        res = L.run_parse(ck, [(ids[k], cmap[k]) for k in keys], PARSE_MS, tag)
        for k in keys:
            direct[k] = res[ids[k]]

    do_parse(suspects[:first], 'psus')
    if any(direct[k]['status'] == 'hung' for k in suspects[:first]):
        skipped = len(suspects) - first if len(suspects) > first else 0
    else:
        do_parse(suspects[first:], 'psus2')
    do_parse(normal, 'parse')
    ck.cov['not_executed_after_hang'] = {'parse': skipped}

    phase('ParseFlags executed on %d inputs (%d not executed after a hang)' % (len(direct), skipped))
    # a timeout counts only if the same case times out 3 more times with 10x the budget (DESIGN 4.5);
    # a case that completes on re-run was a scheduling hiccup and is judged on the completed result
    hung = [k for k, _ in cases if direct.get(k) and direct[k]['status'] == 'hung']
    pclass = lambda k: 'cycle' if cmap[k]['cyclic'] else (cmap[k]['cause'] or 'none')
    retry, per = [], {}
    for k in hung:
        if per.get(pclass(k), 0) < 2 or (len(retry) < 24 and not cmap[k]['cyclic']):
            per[pclass(k)] = per.get(pclass(k), 0) + 1
            retry.append(k)
    real_hang = set()
    if retry:
        rr = L.run_parse(ck, [(n * 3 + j, cmap[k]) for n, k in enumerate(retry) for j in range(3)], PARSE_MS * 10, 'pconf', shards=len(retry) * 3)
        for n, k in enumerate(retry):
            runs = [rr[n * 3 + j] for j in range(3)]
            if all(x['status'] == 'hung' for x in runs):
                real_hang.add(k)
            else:
                direct[k] = dict([x for x in runs if x['status'] != 'hung'][0], id=ids[k])
                ck.cov['hung_not_reproduced'] = ck.cov.get('hung_not_reproduced', 0) + 1
    phase('ParseFlags timeouts re-run: %d of %d' % (len(retry), len(hung)))
    matched = set()
    unjudged = 0
    for k, c in cases:
        x = direct.get(k)
        if x is None:
            continue
        ck.cov['evaluations'] += 1
        case = {'input': L.case_input(c), 'call': 'parameters.ParseFlags(%s, &Arguments{AllowAdditional:%s, IgnoreInvalidFlags:%s, StrictFlagPlacement:%s, Flags:%s})'
                % (json.dumps(c['params']), c['aa'], c['ii'], c['strict'], json.dumps({e['name']: e['ty'] for e in c['table']})),
                'judged': c['judged'], 'expected': {'err': c['err'], 'cause': c['cause'], 'flags': c['flags'], 'additional': c['additional']}, 'actual': x}
        if x['status'] == 'hung':
            if k not in real_hang:
                ck.cov['hung_unconfirmed'] = ck.cov.get('hung_unconfirmed', 0) + 1
                continue
            ck.violation('parse:hang:%s:%s' % (pclass(k), k),
                         'ParseFlags does not return (4 timeouts, the last three with %d ms); the specification terminates with %s'
                         % (PARSE_MS * 10, 'error (%s)' % c['cause'] if c['err'] else 'a result'), case)
            continue
        if x['status'] == 'panic':
            ck.violation('parse:panic:%s' % k, 'ParseFlags panicked: %s' % x.get('detail'), case)
            continue
        if not c['judged']:
            unjudged += 1
            continue
        d = L.compare_parse(c, x)
        if d:
            ck.violation('parse:mismatch:%s:%s' % (d[0], k), 'ParseFlags [%s]: %s' % (k, d[1]), case)
        else:
            ck.cov['traces_validated_against_impl'] += 1
            matched.add(k)
            if L.nontrivial(c) and len(ck.cov['samples']) < 3 and len(c['params']) >= 3 and 'alias' in c['features']:
                ck.sample({'kind': 'ParseFlags', 'input': L.case_input(c), 'expected': case['expected'], 'actual': {'err': x['err'], 'flags': x['flags'], 'additional': x['additional']}})
    ck.cov['unjudged_executed'] = {'parse': unjudged}

    phase('ParseFlags compared')
    # ---- the `args` builtin on a seeded subset
    pool = [k for k, _ in cases]
    rng.shuffle(pool)
    nt = [k for k in pool if L.nontrivial(cmap[k])]
    other = [k for k in pool if not L.nontrivial(cmap[k])]            # unjudged and trivial inputs
    chosen = nt[:nargs * 3 // 4]
    chosen += other[:nargs - len(chosen)]

    def parse_state(k):
        x = direct.get(k)
        if x is None or x['status'] == 'hung':
            return 'hung' if (x is not None or cmap[k]['cyclic']) else 'none'
        return 'err' if x['err'] else 'ok'

    classes = {'ok': [], 'err': [], 'hung': [], 'none': []}
    for k in chosen:
        classes[parse_state(k)].append(k)
    ares = {}
    askipped = {}

    def do_args(keys, tag):
        if not keys:
            return
        jobs = [{'id': ids[k], 'src': L.render_args(cmap[k], ids[k]), 'timeout_ms': ARGS_MS} for k in keys]
        res = prog.run_programs(ck, jobs, tag=tag)
        for k in keys:
            ares[k] = res.get(ids[k])

    for cl in ('hung', 'err'):
        ks = classes[cl]
        do_args(ks[:first], 'a' + cl)
        if any(ares[k] and ares[k]['status'] != 'done' for k in ks[:first]):
            askipped[cl] = max(0, len(ks) - first)
        else:
            do_args(ks[first:], 'a2' + cl)
    do_args(classes['ok'] + classes['none'], 'args')
    ck.cov['not_executed_after_hang']['args'] = askipped

    phase('`args` executed on %d inputs' % len(ares))
    # timeouts: same rule as above, all re-runs in one parallel batch
    ahung = [k for k in chosen if ares.get(k) and ares[k]['status'] != 'done']
    retry, per = [], {}
    for k in ahung:
        ps = parse_state(k)
        if per.get(ps, 0) < 2 or (len(retry) < 24 and ps == 'ok'):
            per[ps] = per.get(ps, 0) + 1
            retry.append(k)
    areal = set()
    if retry:
        jobs = []
        for n, k in enumerate(retry):
            for j in range(3):
                src = L.render_args(cmap[k], ids[k]).replace('fl%d' % ids[k], 'fl%dx%d' % (ids[k], j)).replace('r%d' % ids[k], 'r%dx%d' % (ids[k], j))
                jobs.append({'id': n * 3 + j, 'src': src, 'timeout_ms': ARGS_MS * 10})
        rr = prog.run_programs(ck, jobs, tag='aconf', shards=len(jobs))
        for n, k in enumerate(retry):
            runs = [rr[n * 3 + j] for j in range(3)]
            if all(x['status'] != 'done' for x in runs):
                areal.add(k)
            else:
                ares[k] = [x for x in runs if x['status'] == 'done'][0]
                ck.cov['hung_not_reproduced'] = ck.cov.get('hung_not_reproduced', 0) + 1
    phase('`args` timeouts re-run: %d of %d' % (len(retry), len(ahung)))
    aunj = 0
    amatched = set()
    for k in chosen:
        x = ares.get(k)
        if x is None:
            continue
        c = cmap[k]
        ck.cov['evaluations'] += 1
        src = L.render_args(c, ids[k])
        case = {'input': L.case_input(c), 'src': src, 'judged': c['judged'], 'expected': c['args'], 'parse_flags_direct': direct.get(k)}
        ps = parse_state(k)
        if x['status'] != 'done':
            if k not in areal:
                ck.cov['hung_unconfirmed'] = ck.cov.get('hung_unconfirmed', 0) + 1
                continue
            st = 'crash' if x['status'] == 'crashed' else 'hang'
            ck.violation('args:%s:parse-%s:%s' % (st, ps, k),
                         '`args` never finishes (interpreter crash or loop; 4 timeouts, the last three with %d ms) where ParseFlags %s; rule: the variable is stored with %s'
                         % (ARGS_MS * 10, {'err': 'returns an error', 'hung': 'does not return', 'ok': 'succeeds', 'none': '(not run)'}[ps],
                            'the error text' if c['args']['error'] else 'the result'), case)
            continue
        r = x['runs'][0]
        case['stdout'] = r['out'].decode('utf-8', 'replace')
        case['stderr'] = r['err'].decode('utf-8', 'replace')
        if r.get('panic'):
            ck.violation('args:panic:parse-%s:%s' % (ps, k), '`args` panicked: %s' % r['panic'], case)
            continue
        if not c['judged']:
            aunj += 1
            continue
        d = L.compare_args(c, r, direct.get(k))
        if d:
            ck.violation('args:mismatch:%s:%s' % (d[0], k), '`args` [%s]: %s' % (k, d[1]), case)
        else:
            ck.cov['traces_validated_against_impl'] += 1
            amatched.add(k)
            if L.nontrivial(c) and len(ck.cov['samples']) < 5 and len(c['params']) >= 3 and c['flags'] and c['additional']:
                ck.sample({'kind': '`args`', 'src': src, 'expected': c['args'], 'stdout': case['stdout']})
    ck.cov['unjudged_executed']['args'] = aunj
    phase('`args` compared')
    nt_parse = sum(1 for k in matched if L.nontrivial(cmap[k]))
    nt_args = sum(1 for k in amatched if L.nontrivial(cmap[k]))
    ck.cov['distinct_nontrivial'] = nt_parse
    ck.cov['distinct_nontrivial_detail'] = {'parse': nt_parse, 'args': nt_args}
    feats = {}
    for k in matched:
        for f in cmap[k]['features']:
            feats[f] = feats.get(f, 0) + 1
    ck.cov['features_matched'] = feats
    ck.cov['exhaustive'] = False
    if replay:
        return
    if not ck.violations and (nt_parse < 2000 or nt_args < 500 or min(feats.get(f, 0) for f in L.NONTRIV) < 50):
        raise common.Infra('vacuous: %d / %d non-trivial inputs matched (ParseFlags / args), features %s' % (nt_parse, nt_args, feats))
