"""C23 - function parameters are bound and typed as declared; the signature parser accepts exactly the
documented grammar.  spec/FuncSig.tla (+ FuncSigGen.tla)."""
import json
import os
import random
import time
from vlib import common, prog
from . import funcsiglib as L

LEVEL = 'model_checking'


def run(ck, replay=None):
    quick = ck.tier == 'quick'
    rng = random.Random(ck.seed)
    t0 = time.time()

    def phase(msg):
        common.log('[C23] %6.1fs %s' % (time.time() - t0, msg))

    excfg = 'MCFuncSigQ.cfg' if quick else 'MCFuncSig.cfg'
    nsig = 10000 if quick else 150000
    ncall = 5000 if quick else 60000
    L.cfg_constants(excfg)
    us = L.cfg_constants('MCFuncSigSample.cfg')
    maxlen = 4 if quick else 5
    ck.cov['rule'] = (
        'Part 1 (signature parser): signatures are strings over the 10 character classes the parser distinguishes.  TLC checks that the '
        'transcribed 9-context character loop of ParseMxFunctionParameters accepts exactly the documented grammar and yields the same '
        'fields (name, type, optional, default, description as index ranges) on every string of <= %d classes and on a VERIF_SEED-seeded '
        'sample of %d longer strings (well-formed signatures of 1-4 parameters with defaults/descriptions containing punctuation, about '
        'half damaged by 1-2 random edits), and exports verdict + fields.  Every string is rendered to text (random letters, digits, _ - '
        'for L; random other characters incl. non-ASCII for U) and parsed by the real lang.ParseMxFunctionParameters; acceptance and all '
        'fields are compared.  Part 2 (binding): TLC checks that the transcribed castParameters loop agrees with the declarative binding '
        'rule on every call with 1-2 parameters (types str/int/num/bool x mandatory / optional / optional with default x argument lists '
        'over the value tokens) and on a seeded sample of %d calls with 2-3 parameters, and exports the expected outcome; every call is '
        'rendered to a `function` declaration (random white space, bare names for str, descriptions with punctuation) plus a call and '
        'run by the real interpreter: body ran or not, exit number, value printed for each variable, "does not exist" for unset ones.  '
        'non-trivial: signature = judged string of >= 3 classes that is rejected, or accepted with more than a bare name; call = judged call that '
        'fails, leaves parameters to defaults/unset, or converts to int/num.  distinct = different class strings / calls.' % (maxlen, nsig, ncall))
    ck.assumptions += [
        'the documentation does not fix white space between tokens, whether a default/description may follow a bare name, their order and number: a signature is judged only if the narrowest and the widest reading agree on acceptance; the others are executed (panic = finding) but not judged',
        'tab and carriage return are not generated (the parser turns a tab inside a default/description into a space and drops \\r; the property does not speak about them)',
        'calls that leave a mandatory parameter without argument are not executed: they prompt through readline (blocks on a TTY)',
        'truthiness of words other than true/false given to a bool parameter is executed but not judged',
        'int conversion of a fraction truncates as docs/commands/function.md documents (`age 1.2` -> 1)',
    ]

    if replay:
        rp = json.load(open(replay))
        sigs, calls = [], []
        for v in rp.get('violations', []):
            cs = v.get('case', {})
            if 'classes' in cs and cs['classes'] not in sigs:
                sigs.append(cs['classes'])
            if 'call' in cs and cs['call'] not in calls:
                calls.append(cs['call'])
        if not sigs and not calls:
            raise common.Infra('nothing to replay in %s' % replay)
        sigcases, callcases = L.gen_from_inputs(ck, sigs or [''], calls, 'replay')
    else:
        # the two TLC runs are independent: run them side by side
        from concurrent.futures import ThreadPoolExecutor
        with ThreadPoolExecutor(2) as ex:
            f1 = ex.submit(L.gen_exhaustive, ck, excfg)
            f2 = ex.submit(L.gen_from_inputs, ck, L.random_sigs(nsig, ck.seed), L.random_calls(ncall, ck.seed, us['ArgVals']), 'sample')
            sigcases, callcases = f1.result()
            s2, c2 = f2.result()
        nex = (len(sigcases), len(callcases))
        sigcases += s2
        callcases += c2
        ck.cov['inputs'] = {'signatures_exhaustive': nex[0], 'signatures_sampled': len(s2), 'calls_exhaustive': nex[1], 'calls_sampled': len(c2)}
    phase('case tables from TLC: %d signatures, %d calls' % (len(sigcases), len(callcases)))

    # ---- part 1: the real parser on every signature string
    bys = {}
    for c in sigcases:
        bys.setdefault(''.join(c['s']), c)
    sigs = sorted(bys.items())
    rows = []
    texts = {}
    for n, (s, c) in enumerate(sigs):
        texts[n] = L.render_sig(s, rng)
        rows.append({'id': n, 'text': texts[n]})
    res, crashed = common.run_shards(ck, 'funcsig-parse', rows, tag='fsig')
    if crashed:
        raise common.Infra('funcsig-parse died:\n%s' % crashed[0]['stderr'])
    byid = {x['id']: x for x in res}
    phase('real parser run on %d signatures' % len(rows))
    sig_ok = set()
    sunj = 0
    for n, (s, c) in enumerate(sigs):
        x = byid.get(n)
        if x is None:
            raise common.Infra('no result for signature %d' % n)
        ck.cov['evaluations'] += 1
        case = {'classes': s, 'text': texts[n], 'go': 'lang.ParseMxFunctionParameters(%s)' % json.dumps(texts[n], ensure_ascii=False),
                'judged': c['judged'], 'expected': {'ok': c['ok'], 'params': c['params']}, 'actual': x}
        if x['status'] == 'panic':
            ck.violation('sig:panic:%s' % s, 'ParseMxFunctionParameters panicked on %r: %s' % (texts[n], x.get('detail')), case)
            continue
        if not c['judged']:
            sunj += 1
            continue
        d = L.compare_sig(c, texts[n], x)
        if d:
            ck.violation('sig:%s:%s' % (d[0], s), d[1], case)
        else:
            ck.cov['traces_validated_against_impl'] += 1
            sig_ok.add(s)
            if c['ok'] and len(c['params']) >= 2 and len(ck.cov['samples']) < 2 and any(p['hasDefault'] for p in c['params']):
                ck.sample({'kind': 'signature', 'classes': s, 'text': texts[n], 'expected': c['params'], 'actual': x['params']})
    phase('signatures compared')

    # ---- part 2: real calls
    byc = {}
    for c in callcases:
        byc.setdefault(L.call_key(c), c)
    calls = sorted(byc.items())
    jobs = []
    srcs = {}
    nprompt = 0
    for n, (k, c) in enumerate(calls):
        if c['status'] == 'prompt':
            nprompt += 1
            continue
        srcs[n] = L.render_call(c, n, rng)
        jobs.append({'id': n, 'src': srcs[n], 'timeout_ms': 5000})
    cres = prog.run_programs(ck, jobs, tag='call')
    phase('%d calls executed (%d with a missing mandatory argument not executed)' % (len(jobs), nprompt))
    call_ok = set()
    cunj = 0
    for n, (k, c) in enumerate(calls):
        if n not in srcs:
            continue
        x = cres.get(n)
        if x is None:
            raise common.Infra('no result for call %d' % n)
        ck.cov['evaluations'] += 1
        case = {'call': {'ps': c['ps'], 'args': c['args']}, 'src': srcs[n], 'judged': c['judged'], 'expected': {'status': c['status'], 'vars': c['vars']}}
        if x['status'] != 'done':
            ck.violation('call:%s:%s' % ('crash' if x['status'] == 'crashed' else 'hang', k), 'the interpreter %s running the call' % ('died' if x['status'] == 'crashed' else 'did not finish within 5 s'), case)
            continue
        r = x['runs'][0]
        case['stdout'] = r['out'].decode('utf-8', 'replace')
        case['stderr'] = r['err'].decode('utf-8', 'replace')
        case['exit'] = r['exit']
        if r.get('panic'):
            ck.violation('call:panic:%s' % k, 'internal panic: %s' % r['panic'], case)
            continue
        if not c['judged']:
            cunj += 1
            continue
        d = L.compare_call(c, r)
        if d:
            ck.violation('call:%s:%s' % (d[0], k), 'call [%s]: %s' % (k, d[1]), case)
        else:
            ck.cov['traces_validated_against_impl'] += 1
            call_ok.add(k)
            if L.call_nontrivial(c) and len(c['ps']) == 3 and len(c['args']) == 2 and c['status'] == 'ok' and len(ck.cov['samples']) < 5:
                ck.sample({'kind': 'call', 'src': srcs[n], 'expected': case['expected'], 'stdout': case['stdout']})
    phase('calls compared')
    nt_sig = sum(1 for s in sig_ok if L.sig_nontrivial(bys[s]))
    nt_sig_acc = sum(1 for s in sig_ok if L.sig_nontrivial(bys[s]) and bys[s]['ok'])
    nt_call = sum(1 for k in call_ok if L.call_nontrivial(byc[k]))
    ck.cov['distinct_nontrivial'] = nt_sig + nt_call
    ck.cov['distinct_nontrivial_detail'] = {'signatures': nt_sig, 'signatures_accepted': nt_sig_acc, 'calls': nt_call}
    ck.cov['unjudged_executed'] = {'signatures': sunj, 'calls': cunj}
    ck.cov['not_executed'] = {'calls_that_prompt': nprompt}
    ck.cov['exhaustive'] = False
    if replay:
        return
    if not ck.violations and (nt_sig_acc < 1000 or nt_sig < 5000 or nt_call < 2000):
        raise common.Infra('vacuous: non-trivial signatures %d (accepted %d), calls %d' % (nt_sig, nt_sig_acc, nt_call))
