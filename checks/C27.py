"""C27 - job IDs stay stable while jobs run.  spec/Jobs.tla."""
import os
from vlib import common

LEVEL = 'model_checking'


def step_fn(st):
    return dict(st['ret'])


def nontrivial(row):
    """a job terminates and the table is collected while another job still runs"""
    acts = [s['act'] for s in row['steps']]
    if 'Terminate' not in acts or 'GC' not in acts:
        return False
    i = acts.index('Terminate')
    return 'GC' in acts[i:] and any(len(s.get('list', [])) > 0 for s in row['steps'][i:])


def key(row):
    return '|'.join('%s%s%s' % (s['act'], s.get('p', ''), s.get('id', '')) for s in row['steps'])


def generic_replay(ck, module, subcmd, plans, want, step, nontriv_fn, key_fn, extra=None, shards=None, min_nontrivial=20):
    nontriv = set()
    ok = 0
    for cfg, mode in plans:
        r, rows, info = common.gen_graph_paths(ck, module, cfg, want, step, mode, ck.seed, timeout=3000)
        if r.violated:
            raise common.Infra('%s.tla violates %s in %s\n%s' % (module, r.violated, cfg, r.out[-2000:]))
        ck.add_tlc(r)
        res, crashed = common.run_shards(ck, subcmd, rows, extra, shards=shards, tag=subcmd)
        if crashed:
            raise common.Infra('%s process died:\n%s' % (subcmd, crashed[0]['stderr']))
        byid = {x['id']: x for x in res}
        for row in rows:
            x = byid.get(row['id'])
            if x is None:
                raise common.Infra('missing result for path %d' % row['id'])
            ck.cov['evaluations'] += 1
            if x['status'] == 'ok':
                ok += 1
                if nontriv_fn(row):
                    nontriv.add(key_fn(row))
                    if len(ck.cov['samples']) < 3:
                        ck.sample({'kind': 'replayed behaviour (%s)' % cfg, 'steps': row['steps']})
            elif x['status'] == 'mismatch':
                ck.violation('replay:%s:%s' % (x['clause'], x['detail']), x['detail'],
                             {'cfg': cfg, 'clause': x['clause'], 'detail': x['detail'], 'steps': row['steps'][:x['step'] + 1]})
            else:
                raise common.Infra('replay infrastructure error: %s' % x)
        ck.cov.setdefault('replay_configs', {})[cfg] = dict(info, mode=mode, replayed=len(rows))
    ck.cov['traces_validated_against_impl'] += ok
    ck.cov['distinct_nontrivial'] += len(nontriv)
    if not ck.violations and len(nontriv) < min_nontrivial:
        raise common.Infra('vacuous: only %d non-trivial behaviours' % len(nontriv))
    return ok, nontriv


def run(ck, replay=None):
    quick = ck.tier == 'quick'
    ck.cov['rule'] = ('behaviours = paths covering every reachable state (thorough: every transition) of Jobs.tla (up to 5 jobs; '
                      'add / terminate / garbage-collect / Get(id) / GetLatest), replayed on a real lang.NewJobs() table with real '
                      'Process objects; lookup results and the full listing (job ID -> process, what `jobs` prints) compared after '
                      'every step.  non-trivial = a job ends and the table is collected while another job is still running; '
                      'distinct = different operation sequences.')
    ck.assumptions += ['a job finishing is Process.SetTerminatedState(true), as deregisterProcess does',
                       'each process is added to the table once (the call site in executeProcess is exercised by C28/C03 traces, not here)']
    r = common.tlc('Jobs', 'MCJobs.cfg', os.path.join(ck.scratch, 'mc'), timeout=1800)
    if r.violated:
        raise common.Infra('Jobs.tla violates %s: the specification is wrong\n%s' % (r.violated, r.out[-3000:]))
    ck.add_tlc(r)
    ck.cov['model_checking_runs'] = {'MCJobs.cfg': [r.distinct, r.generated]}
    plans = [('MCJobsGenQ.cfg', 'nodes')] if quick else [('MCJobsGen.cfg', 'edges')]
    generic_replay(ck, 'Jobs', 'jobs-replay', plans, ['ret'], step_fn, nontrivial, key)
    ck.cov['exhaustive'] = not quick
