"""C27 - job IDs stay stable while jobs run.  spec/Jobs.tla."""
import os
from vlib import common

LEVEL = 'model_checking'


def step_fn(st):
    return dict(st['ret'])


def nontrivial(row):
    """a job terminates and the table is collected while another job still runs"""
    acts = [s['act'] for s in row['steps']]
    if 'Terminate' not in acts or 'GC' not in acts:
        return False
    i = acts.index('Terminate')
    return 'GC' in acts[i:] and any(len(s.get('list', [])) > 0 for s in row['steps'][i:])


def key(row):
    return '|'.join('%s%s%s%s' % (s['act'], s.get('p', ''), s.get('id', ''), s.get('q', '')) for s in row['steps'])


def generic_replay(ck, module, subcmd, plans, want, step, nontriv_fn, key_fn, extra=None, shards=None, min_nontrivial=20):
    nontriv = set()
    ok = 0
    for cfg, mode in plans:
        r, rows, info = common.gen_graph_paths(ck, module, cfg, want, step, mode, ck.seed, timeout=3000)
        if r.violated:
            raise common.Infra('%s.tla violates %s in %s\n%s' % (module, r.violated, cfg, r.out[-2000:]))
        ck.add_tlc(r)
        res, crashed = common.run_shards(ck, subcmd, rows, extra, shards=shards, tag=subcmd)
        if crashed:
            raise common.Infra('%s process died:\n%s' % (subcmd, crashed[0]['stderr']))
        byid = {x['id']: x for x in res}
        for row in rows:
            x = byid.get(row['id'])
            if x is None:
                raise common.Infra('missing result for path %d' % row['id'])
            ck.cov['evaluations'] += 1
            if x['status'] == 'ok':
                ok += 1
                if nontriv_fn(row):
                    nontriv.add(key_fn(row))
                    if len(ck.cov['samples']) < 3:
                        ck.sample({'kind': 'replayed behaviour (%s)' % cfg, 'steps': row['steps']})
            elif x['status'] == 'mismatch':
                ck.violation('replay:%s:%s' % (x['clause'], x['detail']), x['detail'],
                             {'cfg': cfg, 'clause': x['clause'], 'detail': x['detail'], 'steps': row['steps'][:x['step'] + 1]})
            else:
                raise common.Infra('replay infrastructure error: %s' % x)
        ck.cov.setdefault('replay_configs', {})[cfg] = dict(info, mode=mode, replayed=len(rows))
    ck.cov['traces_validated_against_impl'] += ok
    ck.cov['distinct_nontrivial'] += len(nontriv)
    if not ck.violations and len(nontriv) < min_nontrivial:
        raise common.Infra('vacuous: only %d non-trivial behaviours' % len(nontriv))
    return ok, nontriv


def murex_level(ck, quick):
    """The call site: `bg { cmd }` registers cmd in the job table.  Jobs.tla says: after N Adds the
    listing is exactly jobs %1..%N, each process once; after all ended and a collection it is empty."""
    import itertools
    import json as _json
    from vlib import prog
    kinds = ['plain', 'alias']

    def mk(cid, combo, scale):
        src = 'alias slpv%d=sleep %g\n' % (cid, 2 * scale)
        for k in combo:
            src += 'bg { %s }\n' % (('sleep %g' % (2 * scale)) if k == 'plain' else 'slpv%d' % cid)
        src += 'sleep %g\nfid-list --jobs\nout ---\nsleep %g\nfid-list --jobs\n!alias slpv%d\n' % (0.6 * scale, 2.4 * scale, cid)
        return src

    def rows(t):
        rr = []
        for line in t.strip().split('\n'):
            try:
                v = _json.loads(line)
            except ValueError:
                continue
            if v and v[0] != 'JobID':
                rr.append(v)
        return rr

    def judge(combo, x):
        if x is None or x['status'] != 'done':
            return 'bg program crashed or hung', ''
        out = x['runs'][0]['out'].decode('utf-8', 'replace')
        first, _, second = out.partition('---\n')
        r1, r2 = rows(first), rows(second)
        want = ['%%%d' % (i + 1) for i in range(len(combo))]
        if [r[0] for r in r1] != want or len(set(r[1] for r in r1)) != len(combo) or r2:
            return '`bg` x%d (%s): jobs listed %s while running and %s after all ended; model: %s then nothing' % (
                len(combo), '+'.join(combo), [(r[0], r[1]) for r in r1], [(r[0], r[1]) for r in r2], want), out
        return None, out

    cases = []
    meta = {}
    cid = 0
    for n in (1, 2, 3):
        for combo in itertools.product(kinds, repeat=n):
            cid += 1
            src = mk(cid, combo, 1)
            cases.append({'id': cid, 'src': src, 'timeout_ms': 30000})
            meta[cid] = (combo, src)
    res = prog.run_programs(ck, cases, shards=min(len(cases), 14), tag='jobs')
    good = 0
    for cid_, (combo, src) in meta.items():
        ck.cov['evaluations'] += 1
        bad, out = judge(combo, res.get(cid_))
        if bad:
            # timing guard (rule 4.4): the listing is taken 0.6 s into 2 s jobs; on a loaded machine that margin
            # can be missed, so the case is repeated alone with every duration tripled before it is believed
            cid += 1
            src2 = mk(cid, combo, 3)
            r2 = prog.run_programs(ck, [{'id': cid, 'src': src2, 'timeout_ms': 60000}], shards=1, tag='jobs2')
            bad, out = judge(combo, r2.get(cid))
            src = src2
        if bad:
            ck.violation('murex:listing:' + '+'.join(combo), bad, {'src': src, 'stdout': out})
        else:
            good += 1
            if len(combo) == 2 and 'alias' in combo and len(ck.cov['samples']) < 5:
                ck.sample({'kind': 'murex program', 'src': src, 'stdout': out})
    ck.cov['traces_validated_against_impl'] += good
    ck.cov['murex_level_programs'] = len(cases)


def concurrent_traces(ck, quick):
    """V: goroutines add jobs, end them, collect (as deregisterProcess does) and look up concurrently on a real
    table; the table's hooks log every operation under its mutex; TLC validates the log against Jobs.tla."""
    import re
    mxh = common.build_mxh()
    n = 150 if quick else 1500
    rounds = 1 if quick else 3
    for k in range(rounds):
        tr = os.path.join(ck.scratch, 'jt%d.ndjson' % k)
        p = common.run([mxh, 'jobs-drive', '-out', tr, '-seed', str(ck.seed * 13 + k), '-n', str(n)], timeout=900)
        if p.returncode != 0:
            raise common.Infra('jobs-drive failed: ' + p.stderr.decode('utf-8', 'replace')[-2000:])
        r = common.tlc('JobsTrace', 'JobsTrace.cfg', os.path.join(ck.scratch, 'jtv%d' % k), workers=1, timeout=1800,
                       files={'trace.ndjson': open(tr).read()})
        ck.add_tlc(r)
        ck.cov['evaluations'] += n
        if r.violated:
            rows = common.read_ndjson(tr)
            m = re.search(r'"REJECTED_AT", (\d+)', r.out)
            line = int(m.group(1)) if m else 0
            start = max(i for i in range(0, max(1, line)) if rows[i]['ev'] == 'reset') if line else 0
            seg = rows[start:line + 2]
            ev = rows[line - 1] if 0 < line <= len(rows) else None
            ck.violation('trace:%s:%s' % (r.violated, ev and ev['ev']),
                         'a recorded concurrent execution of the job table is not a behaviour of Jobs.tla (%s at event %s)' % (r.violated, ev),
                         {'tlc': r.violated, 'rejected_event': ev, 'trace': seg[-60:]})
        else:
            ck.cov['traces_validated_against_impl'] += n
            if k == 0:
                ck.sample({'kind': 'validated concurrent trace prefix', 'events': common.read_ndjson(tr)[:24]})


def run(ck, replay=None):
    quick = ck.tier == 'quick'
    ck.cov['rule'] = ('behaviours = paths covering every reachable state (thorough: every transition) of Jobs.tla (up to 5 jobs; '
                      'add / terminate / garbage-collect / Get(id) / GetLatest / GetFromCommandLine(text) over command lines a, b, ab and six search strings), replayed on a real lang.NewJobs() table with real '
                      'Process objects; lookup results and the full listing (job ID -> process, what `jobs` prints) compared after '
                      'every step.  non-trivial = a job ends and the table is collected while another job is still running; '
                      'distinct = different operation sequences.')
    ck.assumptions += ['a job finishing is Process.SetTerminatedState(true), as deregisterProcess does',
                       'the call site (executeProcess adding a `bg` command to the table) is exercised with murex programs whose bg block holds one plain or aliased external command; blocks with several processes are not judged (the property does not say how many jobs they are)']
    r = common.tlc('Jobs', 'MCJobs.cfg', os.path.join(ck.scratch, 'mc'), timeout=1800)
    if r.violated:
        raise common.Infra('Jobs.tla violates %s: the specification is wrong\n%s' % (r.violated, r.out[-3000:]))
    ck.add_tlc(r)
    ck.cov['model_checking_runs'] = {'MCJobs.cfg': [r.distinct, r.generated]}
    plans = [('MCJobsGenQ.cfg', 'nodes')] if quick else [('MCJobsGen.cfg', 'edges')]
    generic_replay(ck, 'Jobs', 'jobs-replay', plans, ['ret'], step_fn, nontrivial, key)
    ck.cov['exhaustive'] = not quick
    concurrent_traces(ck, quick)
    murex_level(ck, quick)


def selftest(ck):
    """binding demonstration: a corrupted job-table log must be rejected by JobsTrace.tla"""
    import copy
    import json
    mxh = common.build_mxh()
    tr = os.path.join(ck.scratch, 'st.ndjson')
    common.run([mxh, 'jobs-drive', '-out', tr, '-seed', '5', '-n', '30'], timeout=600, check=True)
    rows = common.read_ndjson(tr)

    def validate(rs, label):
        return common.tlc('JobsTrace', 'JobsTrace.cfg', os.path.join(ck.scratch, label), workers=1, timeout=900,
                          files={'trace.ndjson': ''.join(json.dumps(x) + '\n' for x in rs)})
    ok = not validate(rows, 's0').violated
    common.log('selftest: pristine log -> %s' % ('accepted' if ok else 'REJECTED'))
    i = [k for k, x in enumerate(rows) if x['ev'] == 'jobs.add'][5]
    bad = copy.deepcopy(rows)
    bad[i]['a'] += 1                       # the job ID the table handed out
    r1 = validate(bad, 's1')
    common.log('selftest: changed the job ID of an add event -> %s' % ('rejected' if r1.violated else 'ACCEPTED'))
    i = [k for k, x in enumerate(rows) if x['ev'] == 'jobs.gc' and len(x['slots']) >= 2][0]
    bad = copy.deepcopy(rows)
    bad[i]['slots'] = bad[i]['slots'][:-1]  # a collection that drops a slot it must keep
    r2 = validate(bad, 's2')
    common.log('selftest: dropped the last slot of a collection result -> %s' % ('rejected' if r2.violated else 'ACCEPTED'))
    return ok and bool(r1.violated) and bool(r2.violated)
