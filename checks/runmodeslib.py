"""Shared by C04/C05: RunModes.tla case table -> murex programs -> real interpreter."""
import json
import os
import random
from vlib import common, prog

PRELUDE = 'function ex { err "e$1"; out "o$1"; return $2 }\n'
JOIN = {';': ' ; ', '&&': ' && ', '||': ' || ', '|': ' | '}


def body(p, rng):
    s = ''
    for k, c in enumerate(p, 1):
        if k > 1:
            j = JOIN[c['op']]
            if c['op'] == ';' and rng.random() < 0.5:
                j = '\n'
            s += j
        s += 'ex %d %d' % (k, c['exit'])
    return s


def render(case, cid, variant, rng):
    b = body(case['prog'], rng)
    m = case['mode']
    if m == 'normal':
        if variant == 'fn':
            return PRELUDE + 'function nf%d {\n%s\n}\nnf%d' % (cid, b, cid)
        return PRELUDE + b
    if variant == 'fn':
        return PRELUDE + 'function rm%d {\nrunmode %s function\n%s\n}\nrm%d' % (cid, m, b, cid)
    if variant == 'nest':
        # the block's own keyword decides how its body is scheduled, whatever the enclosing function's run mode is
        other = 'trypipe' if m == 'try' else 'try'
        return PRELUDE + 'function rn%d {\nrunmode %s function\n%s {\n%s\n}\n}\nrn%d' % (cid, other, m, b, cid)
    return PRELUDE + '%s {\n%s\n}' % (m, b)


def expected(case):
    p = case['prog']
    n = len(p)
    out = []
    err = []
    for k in range(1, n + 1):
        if case['ran'][k - 1]:
            err.append('e%d' % k)
            if k == n or p[k]['op'] != '|':
                out.append('o%d' % k)
    return out, sorted(err)


def stderr_in_pipeline_order(case, lines):
    """Commands of one pipeline run concurrently (their stderr lines may interleave) but a pipeline
    only starts after the one before it has finished: lines of an earlier pipeline come first."""
    p = case['prog']
    group = {}
    g = 0
    for k in range(1, len(p) + 1):
        if k > 1 and p[k - 1]['op'] != '|':
            g += 1
        group['e%d' % k] = g
    last = -1
    for l in lines:
        if l not in group:
            return False
        if group[l] < last:
            return False
        last = group[l]
    return True


def gen_cases(ck, maxlen, modes):
    cfg = open(os.path.join(common.SPEC, 'MCRunModesGen.cfg')).read()
    cfg = cfg.replace('MaxLen = 4', 'MaxLen = %d' % maxlen).replace('{"normal", "try", "trypipe"}', '{%s}' % ', '.join('"%s"' % m for m in modes))
    wd = os.path.join(ck.scratch, 'rm-gen')
    r = common.tlc('RunModesGen', 'Run.cfg', wd, files={'Run.cfg': cfg}, timeout=3000)
    if r.violated:
        raise common.Infra('RunModes.tla: %s violated: the operational scheduler model and the declarative rule disagree\n%s' % (r.violated, r.out[-3000:]))
    ck.add_tlc(r)
    return common.read_ndjson(os.path.join(wd, 'cases.ndjson'))


def nontrivial(case):
    p = case['prog']
    return any(c['op'] in ('&&', '||') for c in p) and any(c['exit'] != 0 for c in p)


def run_table(ck, cases, variants, limit=None):
    rng = random.Random(ck.seed)
    if limit and len(cases) > limit:
        # keep every short program, sample the longest ones
        short = [c for c in cases if len(c['prog']) < max(len(x['prog']) for x in cases)]
        long_ = [c for c in cases if c not in short] if False else [c for c in cases if len(c['prog']) == max(len(x['prog']) for x in cases)]
        rng.shuffle(long_)
        cases = short + long_[:max(0, limit - len(short))]
        ck.cov['exhaustive'] = False
    jobs = []
    meta = {}
    cid = 0
    for c in cases:
        for v in variants:
            cid += 1
            src = render(c, cid, v, rng)
            jobs.append({'id': cid, 'src': src, 'timeout_ms': 20000})
            meta[cid] = (c, v, src)
    res = prog.run_programs(ck, jobs, tag='rm')
    nontriv = set()
    unjudged = 0
    for cid, (c, v, src) in meta.items():
        x = res.get(cid)
        ck.cov['evaluations'] += 1
        pk = '%s:%s' % (c['mode'], ' '.join('%s%d' % (k['op'] if k['op'] != 'first' else '', k['exit']) for k in c['prog']))
        if x is None:
            raise common.Infra('no result for case %d' % cid)
        if x['status'] == 'crashed':
            ck.violation('crash:' + pk, 'interpreter process died running the program: ' + x.get('stderr', '')[-300:], {'src': src})
            continue
        if x['status'] == 'hung':
            ck.violation('hang:' + pk, 'program did not finish within 20 s', {'src': src})
            continue
        r = x['runs'][0]
        if r.get('panic'):
            ck.violation('panic:' + pk, 'internal panic: ' + r['panic'], {'src': src, 'stderr': r['err'].decode('utf-8', 'replace')})
            continue
        if not c['judged']:
            unjudged += 1
            continue
        eo, ee = expected(c)
        go = r['out'].decode('utf-8', 'replace').split('\n')[:-1]
        ge = sorted(r['err'].decode('utf-8', 'replace').split('\n')[:-1])
        raw_err = r['err'].decode('utf-8', 'replace').split('\n')[:-1]
        if go != eo or ge != ee or r['exit'] != c['exit'] or not stderr_in_pipeline_order(c, raw_err):
            ck.violation('case:%s:%s' % (v, pk),
                         'program [%s] variant %s: ran %s exit %d; rule: ran %s exit %d' % (pk, v, go + ge, r['exit'], eo + ee, c['exit']),
                         {'src': src, 'mode': c['mode'], 'stdout': go, 'stderr': ge, 'exit': r['exit'],
                          'expected_stdout': eo, 'expected_stderr': ee, 'expected_exit': c['exit']})
        else:
            ck.cov['traces_validated_against_impl'] += 1
            if nontrivial(c):
                nontriv.add(pk)
                if len(ck.cov['samples']) < 4 and len(c['prog']) >= 3:
                    ck.sample({'src': src, 'expected_stdout': eo, 'expected_stderr': ee, 'expected_exit': c['exit'], 'actual_exit': r['exit']})
    ck.cov['distinct_nontrivial'] += len(nontriv)
    ck.cov['unjudged_executed'] = ck.cov.get('unjudged_executed', 0) + unjudged
    return len(nontriv)
