"""C24: spec/Flags.tla + spec/FlagsGen.tla case table -> real parameters.ParseFlags (mxh flags-parse)
and the real `args` builtin (murex programs).  Expected values are read from TLC's export only."""
import json
import os
import random
import re
import subprocess
from vlib import common, prog

TYPES = ['str', 'int', 'num', 'bool']
WORD = re.compile(r'^[-A-Za-z0-9.]+$')
RX_INT = re.compile(r'^(0|-?[1-9][0-9]*)$')
RX_NUM = re.compile(r'^-?(0|[1-9][0-9]*)(\.[0-9]*[1-9])?$')


# ------------------------------------------------------------------ universes (read from the cfg)
def universe(cfgname):
    """The token universe of a TLC config.  The specification tabulates three string predicates
    (starts with '-', is a whole number, is a decimal number); they are verified here against the
    literal text of the tokens that the real code will see."""
    text = open(os.path.join(common.SPEC, cfgname)).read()
    u = {}
    for k in ('Names', 'Undecl', 'Values', 'DashValues', 'IntToks', 'NumToks'):
        m = re.search(r'^\s*%s\s*=\s*\{([^}]*)\}' % k, text, re.M)
        if not m:
            raise common.Infra('%s: constant %s not found' % (cfgname, k))
        u[k] = re.findall(r'"([^"]*)"', m.group(1))
    toks = u['Names'] + u['Undecl'] + u['Values'] + ['--']
    dash = set(u['Names'] + u['Undecl'] + u['DashValues'] + ['--'])
    for t in toks:
        if not WORD.match(t):
            raise common.Infra('%s: token %r cannot be written as a bare murex word' % (cfgname, t))
        if t.startswith('-') != (t in dash):
            raise common.Infra('%s: Dash() table wrong for %r' % (cfgname, t))
        if bool(RX_INT.match(t)) != (t in u['IntToks']) or bool(RX_NUM.match(t)) != (t in u['NumToks']):
            raise common.Infra('%s: IntToks/NumToks table wrong for %r' % (cfgname, t))
        if t not in u['NumToks']:
            try:
                float(t)
                raise common.Infra('%s: token %r parses as a number but is not in NumToks' % (cfgname, t))
            except ValueError:
                pass
    if set(u['Names']) & set(TYPES) or '--' in u['Names'] + u['Undecl']:
        raise common.Infra('%s: bad flag names' % cfgname)
    return u


# ------------------------------------------------------------------ TLC
def _check_tlc(r, what):
    if r.violated:
        raise common.Infra('Flags.tla (%s): %s violated - the transcribed ParseFlags loop and the declarative rule disagree, '
                           'or the termination measure fails: the specification is wrong\n%s' % (what, r.violated, r.out[-3000:]))


def gen_exhaustive(ck, cfgname):
    wd = os.path.join(ck.scratch, 'ex-' + cfgname)
    r = common.tlc('FlagsGen', cfgname, wd, timeout=3000)
    _check_tlc(r, cfgname)
    ck.add_tlc(r)
    rows = common.read_ndjson(os.path.join(wd, 'cases.ndjson'))
    os.remove(os.path.join(wd, 'cases.ndjson'))
    ck.cov.setdefault('tlc_runs', {})[cfgname] = {'distinct_states': r.distinct, 'generated': r.generated, 'inputs': len(rows), 'wall_s': round(r.wall, 1)}
    return rows


def random_inputs(u, n, seed, maxargs):
    """Seeded sample of inputs over the universe of MCFlagsSample.cfg: tables of 0-4 flags with types and alias
    chains (incl. self-aliases, cycles, dangling aliases), option combinations, argument lists of declared flags,
    aliases, undeclared flags, values and `--`."""
    rng = random.Random(seed)
    names, undecl, values = u['Names'], u['Undecl'], u['Values']
    seen = set()
    out = []
    guard = 0
    while len(out) < n and guard < n * 20:
        guard += 1
        k = rng.choice([0, 1, 2, 2, 3, 3, 3, 4, 4, 4])
        decl = rng.sample(names, k)
        tys = {}
        shape = rng.random()
        for j, nm in enumerate(decl):
            r = rng.random()
            if shape < 0.25 or j == 0 and shape < 0.8:
                tys[nm] = rng.choice(TYPES)                       # plain typed flags (first flag usually typed)
            elif r < 0.55:
                tys[nm] = rng.choice(TYPES)
            elif r < 0.85 and j > 0:
                tys[nm] = decl[j - 1] if rng.random() < 0.6 else rng.choice(decl)   # chains towards the first flag / any (cycles)
            elif r < 0.93:
                tys[nm] = rng.choice(names)                      # possibly undeclared or itself
            else:
                tys[nm] = rng.choice(undecl)
        aa = rng.random() < 0.6
        ii = rng.random() < 0.2
        strict = rng.random() < 0.3
        ln = rng.randint(0, maxargs)
        params = []
        pend = None          # type the next argument will be converted to (only used to bias the sample)
        for _ in range(ln):
            if pend is not None and rng.random() < 0.7:
                if pend == 'int':
                    t = rng.choice([v for v in values if v in u['IntToks']] if rng.random() < 0.75 else values)
                elif pend == 'num':
                    t = rng.choice([v for v in values if v in u['NumToks']] if rng.random() < 0.75 else values)
                else:
                    t = rng.choice(values + undecl)
                params.append(t)
                pend = None
                continue
            r = rng.random()
            if r < 0.5 and decl:
                t = rng.choice(decl)
            elif r < 0.75:
                t = rng.choice(values)
            elif r < 0.83:
                t = '--'
            elif r < 0.92:
                t = rng.choice(undecl)
            else:
                t = rng.choice(names)
            params.append(t)
            if pend is not None:
                pend = None
                continue
            x = t
            for _h in range(5):
                if x in tys and tys[x].startswith('-'):
                    x = tys[x]
            pend = tys.get(x) if (t.startswith('-') and tys.get(x) in ('str', 'int', 'num')) else None
        key = (tuple(sorted(tys.items())), aa, ii, strict, tuple(params))
        if key in seen:
            continue
        seen.add(key)
        ns = sorted(tys)
        out.append({'names': ns, 'tys': [tys[x] for x in ns], 'aa': aa, 'ii': ii, 'strict': strict, 'params': params})
    return out


def gen_from_inputs(ck, inputs, tag):
    wd = os.path.join(ck.scratch, 'in-' + tag)
    text = ''.join(json.dumps(x, separators=(',', ':')) + '\n' for x in inputs)
    r = common.tlc('FlagsGen', 'MCFlagsSample.cfg', wd, timeout=3000, workers=1, heap='4g', files={'inputs.ndjson': text})
    _check_tlc(r, 'MCFlagsSample.cfg/' + tag)
    ck.add_tlc(r)
    rows = common.read_ndjson(os.path.join(wd, 'cases.ndjson'))
    if len(rows) != len(inputs):
        raise common.Infra('TLC returned %d cases for %d inputs' % (len(rows), len(inputs)))
    ck.cov.setdefault('tlc_runs', {})['MCFlagsSample.cfg/' + tag] = {'distinct_states': r.distinct, 'generated': r.generated, 'inputs': len(rows), 'wall_s': round(r.wall, 1)}
    return rows


def case_key(c):
    tb = ','.join('%s=%s' % (e['name'], e['ty']) for e in sorted(c['table'], key=lambda e: e['name']))
    return 'aa%dii%ds%d|%s|%s' % (c['aa'], c['ii'], c['strict'], tb, ' '.join(c['params']))


def case_input(c):
    return {'table': sorted(c['table'], key=lambda e: e['name']), 'aa': c['aa'], 'ii': c['ii'], 'strict': c['strict'], 'params': c['params']}


def to_file_input(ci):
    return {'names': [e['name'] for e in ci['table']], 'tys': [e['ty'] for e in ci['table']],
            'aa': ci['aa'], 'ii': ci['ii'], 'strict': ci['strict'], 'params': ci['params']}


NONTRIV = {'alias', 'conv', 'dashvalue', 'ddash', 'strictcut', 'error'}


def nontrivial(c):
    return c['judged'] and bool(NONTRIV & set(c['features']))


# ------------------------------------------------------------------ real ParseFlags
def run_parse(ck, cases, timeout_ms, tag, shards=None):
    """cases: list of (id, case).  Returns id -> result row of `mxh flags-parse` (status ok|hung|panic)."""
    mxh = common.build_mxh()
    rows = [dict(case_input(c), id=cid, timeout_ms=timeout_ms) for cid, c in cases]
    shards = shards or min(common.NCPU, max(1, len(rows) // 2000))
    pending = [rows[s::shards] for s in range(shards)]
    pending = [p for p in pending if p]
    results = {}
    rnd = 0
    while pending:
        rnd += 1
        if rnd > 400:
            raise common.Infra('flags-parse: too many restarts')
        procs = []
        for s, part in enumerate(pending):
            inp = os.path.join(ck.scratch, '%s-in-%d-%d.ndjson' % (tag, rnd, s))
            outp = os.path.join(ck.scratch, '%s-out-%d-%d.ndjson' % (tag, rnd, s))
            common.write_ndjson(inp, part)
            procs.append((subprocess.Popen([mxh, 'flags-parse', '-in', inp, '-out', outp], stdout=subprocess.PIPE,
                                           stderr=subprocess.PIPE, stdin=subprocess.DEVNULL), outp, part))
        nxt = []
        for p, outp, part in procs:
            try:
                _, err = p.communicate(timeout=600)
            except subprocess.TimeoutExpired:
                p.kill()
                _, err = p.communicate()
            got = common.read_ndjson(outp) if os.path.exists(outp) else []
            for x in got:
                results[x['id']] = x
            rest = [r for r in part if r['id'] not in results]
            if p.returncode == 0:
                if rest:
                    raise common.Infra('flags-parse: %d cases without result' % len(rest))
            elif p.returncode == 3:
                if rest:
                    nxt.append(rest)
            else:
                raise common.Infra('flags-parse died (%s): %s' % (p.returncode, err.decode('utf-8', 'replace')[-2000:]))
        pending = nxt
    return results


def compare_parse(c, x):
    """-> None if the real result equals the specification's, else (what, description)."""
    if x['err'] != c['err']:
        return 'err', 'ParseFlags returned %s; rule: %s' % ('error %r' % x['err_text'] if x['err'] else 'no error', 'error (%s)' % c['cause'] if c['err'] else 'no error')
    if c['err']:
        if not x['err_text'].strip():
            return 'err', 'ParseFlags returned an error with an empty text'
        return None
    exp = sorted((f['name'], f['kind'], f['text']) for f in c['flags'])
    got = sorted((f['name'], f['kind'], f['text']) for f in x['flags'])
    if exp != got:
        return 'flags', 'flags %s; rule: %s' % (got, exp)
    if list(x['additional']) != list(c['additional']):
        return 'additional', 'additional %s; rule: %s' % (x['additional'], c['additional'])
    return None


# ------------------------------------------------------------------ the `args` builtin
def render_args(c, cid):
    tbl = {e['name']: e['ty'] for e in c['table']}
    spec = {'AllowAdditional': c['aa'], 'IgnoreInvalidFlags': c['ii'], 'StrictFlagPlacement': c['strict'], 'Flags': tbl}
    return ('function fl%d {\n    args r%d %s\n    exitnum\n    out $r%d\n}\nfl%d %s\n'
            % (cid, cid, json.dumps(spec, separators=(',', ':')), cid, cid, ' '.join(c['params'])))


def json_value_matches(kind, text, v):
    if kind == 'str':
        return isinstance(v, str) and v == text
    if kind == 'bool':
        return v is True and text == 'true'
    if isinstance(v, bool) or not isinstance(v, (int, float)):
        return False
    if kind == 'int':
        return float(v) == float(int(text)) and float(v).is_integer()
    if kind == 'num':
        return float(v) == float(text)
    return False


def compare_args(c, run, direct):
    """c: expected (c['args'] from the spec); run: one run of the program; direct: result of the direct
    ParseFlags call on the same input.  -> None or (what, description)."""
    out = run['out'].decode('utf-8', 'replace')
    err = run['err'].decode('utf-8', 'replace')
    lines = out.split('\n')
    exp = c['args']
    if err.strip():
        return 'failed', '`args` wrote to stderr: %r' % err[:300]
    if len(lines) < 2 or not lines[1].strip():
        return 'stored', 'the variable written by `args` is empty / missing (stdout %r)' % out[:200]
    try:
        obj = json.loads(lines[1])
    except ValueError:
        return 'stored', 'the variable written by `args` is not JSON: %r' % lines[1][:200]
    if not isinstance(obj, dict):
        return 'stored', 'the variable written by `args` is not a JSON object: %r' % lines[1][:200]
    etext = obj.get('Error') or ''
    if bool(etext) != exp['error']:
        return 'error', 'Error=%r; rule: %s' % (etext, 'an error text' if exp['error'] else 'no error')
    if exp['error']:
        if direct and direct['status'] == 'ok' and direct['err'] and etext != direct['err_text']:
            return 'errortext', 'Error=%r is not the text ParseFlags returned (%r)' % (etext, direct['err_text'])
        return None
    if lines[0].strip() != '0':
        return 'failed', '`args` had exit number %s on a successful parse' % lines[0].strip()
    flags = obj.get('Flags') or {}
    want = {f['name']: f for f in exp['flags']}
    if set(flags) != set(want) or not all(json_value_matches(want[k]['kind'], want[k]['text'], flags[k]) for k in want):
        return 'flags', 'Flags=%s; rule: %s' % (json.dumps(flags, sort_keys=True), sorted((f['name'], f['kind'], f['text']) for f in exp['flags']))
    add = obj.get('Additional') or []
    if list(add) != list(exp['additional']):
        return 'additional', 'Additional=%s; rule: %s' % (add, exp['additional'])
    return None
