"""Lifecycle.tla bound to the real block scheduler (binding V): programs of the RunModes family are run by the
real interpreter with the life-cycle gates logged (mxh run-programs -lcevents); TLC validates every log against
spec/LifecycleTrace.tla.  Used by C03 and C28."""
import json
import os
import re
import subprocess

from vlib import common

JOIN = {';': ' ; ', '&&': ' && ', '||': ' || ', '|': ' | '}
PROC_EVENTS = ('proc.exec', 'proc.waitprev', 'proc.destroy', 'proc.dereg', 'proc.dereg2')


def render(case, slow=0):
    """slow: bit k set = command k (exit 0 only) takes 20 ms, so that later commands of a pipeline can finish first"""
    body = ''
    for k, c in enumerate(case['prog']):
        if k:
            body += JOIN[c['op']]
        body += ('sleep 0.02' if slow >> k & 1 else 'true') if c['exit'] == 0 else 'false'
    return body if case['mode'] == 'normal' else '%s { %s }' % (case['mode'], body)


def pk(case):
    return '%s:%s' % (case['mode'], ' '.join('%s%d' % (k['op'] if k['op'] != 'first' else '', k['exit']) for k in case['prog']))


def slow_of(i, perturb):
    return (i * 2654435761 + perturb * 40503) >> 7 & 31 if perturb else 0


def record(ck, cases, perturb, tag):
    """-> {case index: [trace lines]} ; cases that did not finish are left out (they are another check's business)"""
    mxh = common.build_mxh()
    shards = min(common.NCPU, max(1, len(cases) // 50))
    procs = []
    for s in range(shards):
        part = [{'id': i + 1, 'src': render(c, slow_of(i, perturb)), 'timeout_ms': 20000} for i, c in enumerate(cases) if i % shards == s]
        inp = os.path.join(ck.scratch, '%s-in-%d.ndjson' % (tag, s))
        outp = os.path.join(ck.scratch, '%s-out-%d.ndjson' % (tag, s))
        evp = os.path.join(ck.scratch, '%s-ev-%d.ndjson' % (tag, s))
        common.write_ndjson(inp, part)
        cmd = [mxh, 'run-programs', '-in', inp, '-out', outp, '-lcevents', evp]
        if perturb:
            cmd += ['-perturb', str(perturb + s)]
        procs.append((subprocess.Popen(cmd, stdout=subprocess.DEVNULL, stderr=subprocess.PIPE, stdin=subprocess.DEVNULL), evp))
    traces = {}
    for p, evp in procs:
        try:
            _, err = p.communicate(timeout=1800)
        except subprocess.TimeoutExpired:
            for q, _ in procs:
                q.kill()
            raise common.Infra('lifecycle recording did not finish within 1800 s')
        if p.returncode not in (0, 3) or not os.path.exists(evp):
            raise common.Infra('lifecycle recording failed (%s): %s' % (p.returncode, err.decode('utf-8', 'replace')[-1500:]))
        cur = None
        for e in common.read_ndjson(evp):
            if e['ev'] == 'begin':
                cur = {'case': e['case'] - 1, 'evs': [], 'ended': False}
                traces[e['case'] - 1] = cur
            elif cur is not None:
                if e['ev'] == 'end':
                    cur['ended'] = True
                cur['evs'].append(e)
    out = {}
    for i, t in traces.items():
        c = cases[i]
        n = len(c['prog'])
        if not t['ended']:
            continue
        # the block under observation: the one whose processes are the n true/false/sleep commands
        blocks = {}
        for e in t['evs']:
            if e['ev'] == 'rm.spawn' and e.get('names') and all(x in ('expr', 'sleep') for x in e['names']) and len(e['fids']) == n:
                blocks[e['block']] = e['fids']
        if len(blocks) != 1:
            raise common.Infra('lifecycle: cannot identify the block of %r in its log (%d candidates)' % (render(c, slow_of(i, perturb)), len(blocks)))
        (blk, fids), = blocks.items()
        idx = {f: k + 1 for k, f in enumerate(fids)}
        lines = [{'ev': 'begin', 'prog': c['prog'], 'mode': c['mode'], 'case': i, 'src': render(c, slow_of(i, perturb))}]
        for e in t['evs']:
            if e['ev'] == 'rm.spawn' and e['block'] == blk:
                lines.append({'ev': 'rm.spawn'})
            elif e['ev'] in PROC_EVENTS and e.get('fid') in idx:
                lines.append({'ev': e['ev'], 'k': idx[e['fid']]})
            elif e['ev'] == 'end':
                lines.append({'ev': 'end'})
        out[i] = lines
    return out


def validate(ck, traces, tag, corrupt=None):
    """TLC over the concatenated traces; a rejected trace is reported and taken out, the rest is validated again.
    -> (number of accepted traces, [(case index, rejected line, log)])"""
    order = sorted(traces)
    rejected = []
    rounds = 0
    while order:
        rounds += 1
        if rounds > 12:
            # twelve rejected logs are reported; the remaining ones stay unexamined in this run
            ck.cov['lifecycle_traces_unexamined'] = len(order)
            return 0, rejected
        lines = []
        owner = []
        for i in order:
            for ln in traces[i]:
                lines.append(ln)
                owner.append(i)
        body = ''.join(json.dumps(x, separators=(',', ':')) + '\n' for x in lines)
        wd = os.path.join(ck.scratch, 'tlc-%s-%d' % (tag, rounds))
        r = common.tlc('LifecycleTrace', 'LifecycleTrace.cfg', wd, workers=1, files={'trace.ndjson': body}, timeout=1800)
        ck.add_tlc(r)
        if not r.violated:
            break
        m = re.search(r'"REJECTED_AT", (\d+)', r.out)
        if r.violated and not m:
            if 'Accepted' in str(r.violated) or 'ostcondition' in str(r.violated):
                raise common.Infra('LifecycleTrace: rejected without a position\n' + r.out[-2000:])
            # an invariant of Lifecycle failed on a state that explains the log: the model itself is wrong
            raise common.Infra('LifecycleTrace: %s on a trace state: the specification is inconsistent\n%s' % (r.violated, r.out[-3000:]))
        at = int(m.group(1))
        bad = owner[at - 1]
        first = owner.index(bad)
        rejected.append((bad, at - first, traces[bad]))
        order.remove(bad)
    return len(order), rejected


def run_binding(ck, cases, perturb, tag='lc'):
    """record + validate + report; returns the number of accepted traces"""
    traces = record(ck, cases, perturb, tag)
    ok, rejected = validate(ck, traces, tag)
    for i, at, lines in rejected:
        c = cases[i]
        ck.violation('lifecycle:' + pk(c),
                     'the real scheduler passed its gates in an order that Lifecycle.tla cannot explain: line %d (%s) of the log of `%s`'
                     % (at, json.dumps(lines[at - 1]) if at <= len(lines) else 'end', lines[0]['src']),
                     {'src': lines[0]['src'], 'mode': c['mode'], 'log': lines})
    ck.cov['lifecycle_traces_accepted'] = ck.cov.get('lifecycle_traces_accepted', 0) + ok
    ck.cov['lifecycle_events'] = ck.cov.get('lifecycle_events', 0) + sum(len(t) for t in traces.values())
    return ok
