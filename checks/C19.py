"""C19 - murex code never crashes or hangs the shell.  spec/Robust.tla (+ NamedPipes.tla sequences)."""
import json
import os
import random
import zlib
import subprocess
from vlib import common, prog

LEVEL = 'exploration'

DENY = set('''exit fg bg fid-kill fid-killall signal exec fexec source read tread get post getfile murex-package
murex-update-exe-list open open-image openagent !openagent history event !event key-code pt autocomplete debug config !config
method summary !summary test !test man-summary man-get-flags murex-docs read-named-pipe lockfile time cd runtime
(murex named pipe) os which fanout while !while for alias !alias function !function private !private global !global set !set export !export unset'''.split('\n'))
DENY = set(x for line in DENY for x in line.split()) | {'(murex named pipe)'}

ARGS = {
    'word': 'foo', 'number': '3', 'negative': '-5', 'huge': '99999999999999999999', 'zero': '0', 'flag': '--bogus',
    'empty': "''", 'json-obj': '%{a: 1}', 'json-arr': '%[1,2,3]', 'block': '{ out x }', 'unicode': "'é世\U0001F600'",
    'range': '[1..3]', 'path': '/nonexistent/dir/file', 'var-undef': '$undefinedvar_xyz', 'equals': 'a=b', 'slash-idx': '/9/9',
    # row / column / key selectors of the table indexer
    'frac-exp': '5e-1',
    'row0': '*0', 'row2': '*2', 'rowbig': '*99999999999', 'rowmax': '*9223372036854775807', 'rowover': '*99999999999999999999',
    'oldrow': '1:', 'oldrowbig': '99999999999:', 'col0': ':0', 'colbig': ':99', 'colletter': '*c', 'colZ': '*Z', 'colname': 'b', 'minus1': '-1',
}
INDEX_SHAPES = ['row0', 'row2', 'rowbig', 'rowmax', 'rowover', 'oldrow', 'oldrowbig', 'col0', 'colbig', 'colletter', 'colZ', 'colname', 'minus1',
                'zero', 'number', 'negative', 'huge', 'word', 'empty']
INDEX_CMDS = ['[', '![', '[[']
STDIN = {
    'none': None, 'empty': "tout str ''", 'lines': 'a [a,b,c]', 'json-array': 'tout json [1,2,3]', 'json-object': "tout json ({\"a\":1})",
    'bad-json': "tout json '{[,'", 'number': 'tout int 5', 'yaml': "tout yaml 'a: [1,2'",
    'csv': 'tout csv "a,b,c\\n1,2,3\\n4,5,6\\n"', 'csv-ragged': 'tout csv "a,b\\n1\\n2,3,4\\n"', 'csv-empty': "tout csv ''",
    'generic': 'tout * "a b c\\n1 2 3\\n4 5 6\\n"', 'jsonl-table': 'tout jsonl "[\\"a\\",\\"b\\"]\\n[1,2]\\n[3,4]"',
    'jsonl-bad': "tout jsonl '[\"a\",\"b\"]\\n[1,2]\\n[3,4]'", 'jsonl-empty-row': 'tout jsonl "[]\\n[1,2]\\n[3,4]"',
}
TABLE_STDIN = ['csv', 'csv-ragged', 'csv-empty', 'generic', 'jsonl-table', 'jsonl-bad', 'jsonl-empty-row']
TWO = ['[', '[[', '![', 'a', 'ja', 'alter', 'append', 'prepend', 'cast', 'format', 'left', 'right', 'prefix', 'suffix', 'match', 'regexp',
       'round', 'set', 'global', 'alias', 'function', 'private', 'args', 'if', 'foreach', 'for', 'while', 'switch', 'break', 'return',
       'continue', 'pipe', '!pipe', 'struct-keys', 'addheading', 'count', 'tabulate', 'jsplit', 'mjoin', 'expr', 'datetime', 'rand', 'tmp', 'select']

TEMPLATES = [
    'pipe npa%d; !pipe npa%d; !pipe npa%d; sleep 2.4; out done',
    'pipe npb%d; !pipe npb%d; pipe npb%d; sleep 2.4; out x -> <npb%d>; out done',
    '!pipe nonexistent%d',
    'out x -> <nonexistent%d>',
    'function fs%d (a: int, b: { out x }',
    'function fs%d (: int) { out x }\nfs%d 1',
    'function fi%d (a: int) { out $a }\nfi%d notanint',
    'break nosuchblock%d',
    'continue nosuchblock%d',
    'return notanumber',
    'a = %%[1,2,3]; out $a[-5]',
    'a = %%[1,2,3]; out $a[99]',
    'tout json [1,2,3] -> [ -9 ]',
    'tout json [1,2,3] -> [[ /-9 ]]',
    'tout json ({}) -> [ missing ]',
    'a [1..3] -> [5..2]',
    'a [1..3] -> [-9..]',
    'a [z..a..x]',
    'out "unbalanced',
    "out 'unbalanced",
    'out (unbalanced',
    'out %%[1,2',
    'out %%{a:',
    '$(',
    'try { try { false } }; trypipe { out x | false | out y }',
    'foreach { out x }',
    'a [1..3] -> foreach',
    'if { out x }',
    'switch { case }',
    'args flgs%d %%{ Flags: { --x: notatype } }',
    'function fa%d { args flgs %%{} }\nfa%d --bogus',
    'function fb%d { args flgs %%{ AllowAdditional: false, Flags: { --n: int } } }\nfb%d --n notint extra',
    'set int bad%d = abc',
    'global gg%d = %%[1,2]; $gg%d.9.9 = 1',
    'v%d = %%{a: 1}; $v%d.a.b.c = 2; out $v%d',
    'expr 1 / 0; expr 1 +; expr * 2',
    'out ${ out @{ out ${ out x } } }',
    'tout json [1,2,3] -> format xml; tout notatype x -> format json',
    'a [1..3] -> msort -> mtac -> [9] -> cast int',
    '<nonexistentpipe%d> -> cat',
    'a [1..3] -> [ 1', 'a [1..3] -> [[ /1', 'a [1..3] -> ![ 1',
    # a one-character word tight against a redirect token
    'out x>>fa%d', 'out x~>fb%d', 'out x|>fc%d',
    # the table of named pipes stays usable after the linger timers of repeated closes have fired
    'pipe npc%d; !pipe npc%d; !pipe npc%d; sleep 3; !pipe npc%d; out done',
    'pipe npd%d; !pipe npd%d; !pipe npd%d; sleep 3; runtime --named-pipes -> null; out done',
    'pipe npe%d; !pipe npe%d npe%d; sleep 3; pipe npf%d; out x -> <npf%d>; !pipe npf%d; out done',
    # row selectors of the table indexer: below the first row, far above the last one, out of order
    'tout csv "a,b,c\\n1,2,3\\n4,5,6\\n" -> [*3 *0]',
    'tout csv "a,b,c\\n1,2,3\\n4,5,6\\n" -> [*99999999999999999999 *1]',
    'tout csv "a,b,c\\n1,2,3\\n4,5,6\\n" -> [*0]',
]


FLAG_VALS = ['negative', 'zero', 'frac-exp', 'word', 'huge']


def declared_flags(builtins):
    """flags that the Go source of a builtin's package mentions as string literals (an over-approximation of its flag table)"""
    import glob
    import re
    pairs = set()
    for f in glob.glob(os.path.join(common.REPO, 'builtins', '**', '*.go'), recursive=True):
        if f.endswith('_test.go'):
            continue
        names = set(re.findall(r'lang\.Define(?:Function|Method)\(\s*"([^"]+)"', open(f, errors='replace').read())) & set(builtins)
        if not names:
            continue
        flags = set()
        for g in glob.glob(os.path.join(os.path.dirname(f), '*.go')):
            if not g.endswith('_test.go'):
                flags |= set(re.findall(r'"(--?[a-zA-Z][a-zA-Z0-9-]*)"', open(g, errors='replace').read()))
        for n in names:
            for fl in flags:
                pairs.add((n, fl))
    return sorted(pairs)


def render(c):
    a = ' '.join(ARGS.get(x, x) for x in c['args'])
    cmd = '%s %s' % (c['cmd'], a)
    cmd += {'[': ' ]', '![': ' ]', '[[': ' ]]'}.get(c['cmd'], '')
    s = STDIN[c['stdin']]
    return cmd if s is None else '%s -> %s' % (s, cmd)


def run(ck, replay=None):
    quick = ck.tier == 'quick'
    ck.cov['rule'] = ('Robust.tla enumerates (builtin from the real registry minus an explicit deny-list of interactive/process-killing/network builtins) x '
                      '(0, 1 or - for structured builtins - 2 arguments of 29 hostile shapes) x (13 stdin shapes), and the index family: ([, ![, [[) x (one selector or '
                      'every ordered pair of 19 row / column / key selectors) x (7 tabular stdin shapes: csv, ragged csv, empty csv, generic, jsonl, malformed jsonl, jsonl with an empty row), run completely in '
                      'both tiers; the flag family: every flag that the Go source of a builtin\'s package declares, followed by a hostile value (negative, zero, 5e-1, word, huge) in four '
                      'argument forms (alone, before / after a number, before a block; quick tier: the values negative and 5e-1, thorough tier: all); a seeded sample (quick) or all rows (thorough) of the rest plus 52 hand-written error-path programs (named-pipe misuse with the real 2 s timers, malformed signatures, bad '
                      'casts, bad block names, out-of-range indexes, unbalanced quotes, bad flag tables) are executed in child processes with a '
                      'per-program deadline; a seeded subset also runs through the real `murex -c` binary.  Outcome rule from the specification: '
                      'ok | error (exit != 0); `panic caught`, `Murex has crashed`, death of the process or a missed deadline are violations.  '
                      'non-trivial = at least one hostile argument or a method stdin; distinct = different programs.')
    ck.assumptions += ['this is specification-derived adversarial generation, not fuzzing of all programs',
                       'deny-listed builtins are not run in the table: exit, kill/signal, exec, network, interactive readers, persistent hooks, loops whose condition argument would never end (while/for), and definitions that would change the meaning of later rows in the same process (alias/function/private/global/set/export); definitions and loops are covered by the hand-written programs and by C04-C12/C39']
    mxh = common.build_mxh()
    # the builtin vocabulary comes from the real registry
    p = prog.run_programs(ck, [{'id': 1, 'src': 'runtime --builtins'}], shards=1, tag='bl')
    builtins = sorted(set(json.loads(p[1]['runs'][0]['out'].decode())) - DENY)
    if len(builtins) < 80:
        raise common.Infra('only %d builtins found' % len(builtins))
    two = [b for b in TWO if b in builtins]
    flagpairs = declared_flags(builtins)
    ck.cov['declared_flag_pairs'] = len(flagpairs)
    def tset(xs):
        return '{' + ', '.join(json.dumps(x) for x in xs) + '}'
    cfg = ('CONSTANTS\n  Builtins = %s\n  ArgShapes = %s\n  StdinShapes = %s\n  TwoArgBuiltins = %s\n  IndexCmds = %s\n  IndexShapes = %s\n'
           '  TableStdin = %s\n  FlagPairs = %s\n  FlagVals = %s\n') % (
               tset(builtins), tset(sorted(ARGS)), tset(sorted(STDIN)), tset(two), tset([c for c in INDEX_CMDS if c in builtins]),
               tset(INDEX_SHAPES), tset(TABLE_STDIN),
               tset(['%s %s' % (a, b) for a, b in flagpairs]), tset(FLAG_VALS))
    wd = os.path.join(ck.scratch, 'gen')
    r = common.tlc('Robust', 'Run.cfg', wd, workers=1, timeout=900, files={'Run.cfg': cfg})
    if r.violated:
        raise common.Infra('Robust.tla: %s\n%s' % (r.violated, r.out[-2000:]))
    cases = common.read_ndjson(os.path.join(wd, 'cases.ndjson'))
    ck.cov['table_rows'] = len(cases)
    rng = random.Random(ck.seed)
    rng.shuffle(cases)
    # the index family is run completely in both tiers, the rest is sampled
    idx = [c for c in cases if c['fam'] == 'index']
    flg = [c for c in cases if c['fam'] == 'flag']
    rest = [c for c in cases if c['fam'] == 'table']
    ck.cov['index_family_rows'] = len(idx)
    ck.cov['flag_family_rows'] = len(flg)
    if quick:
        # quick tier: every flag with the values negative and 5e-1 in all four argument forms, stdin alternating; the
        # thorough tier runs the whole family
        keep = []
        for n, c in enumerate(sorted(flg, key=lambda c: (c['cmd'], c['args'], c['stdin']))):
            if set(c['args']) & {'negative', 'frac-exp'} and (c['stdin'] == 'lines') == (zlib.crc32(('%s %s' % (c['cmd'], ' '.join(c['args']))).encode()) % 2 == ck.seed % 2):
                keep.append(c)
        flg = keep
    cases = idx + flg + (rest[:1500] if quick else rest[:int(os.environ.get('VERIF_C19_ROWS', '30000'))])
    jobs = []
    meta = {}
    cid = 1
    for c in cases:
        cid += 1
        src = render(c)
        jobs.append({'id': cid, 'src': src, 'timeout_ms': 15000})
        meta[cid] = ('%s:%s:%s:%s' % (c['fam'], c['cmd'], '+'.join(c['args']) or '-', c['stdin']), src)
    tjobs = []
    for t in TEMPLATES:
        cid += 1
        n = t.count('%d')
        src = (t % tuple([cid] * n)) if n else t.replace('%%', '%')
        tjobs.append({'id': cid, 'src': src, 'timeout_ms': 20000})
        meta[cid] = ('template:' + t.split('%d')[0][:40], src)
    cwd = os.path.join(ck.scratch, 'cwd')
    os.makedirs(cwd)
    old = os.getcwd()
    os.chdir(cwd)
    try:
        res = prog.run_programs(ck, jobs, tag='c19')
        res.update(prog.run_programs(ck, tjobs, shards=len(tjobs), tag='c19t'))
    finally:
        os.chdir(old)
    nontriv = set()
    for cid_, (key, src) in meta.items():
        x = res.get(cid_)
        ck.cov['evaluations'] += 1
        if x is None:
            raise common.Infra('no result for %s' % key)
        if x['status'] == 'crashed':
            first = [l for l in x.get('stderr', '').split('\n') if l.startswith('panic:') or l.startswith('fatal error:') or 'SIGSEGV' in l]
            # many programs share one interpreter process: the one in flight is the culprit only if it also kills a process of its own
            alone = prog.run_programs(ck, [{'id': 1, 'src': src, 'timeout_ms': 60000}], shards=1, tag='c19k').get(1, {})
            if alone.get('status') == 'crashed':
                ck.violation('crashed:' + key, 'the interpreter process died: %s' % (first[:1] or x.get('stderr', '')[-200:]), {'src': src, 'stderr': x.get('stderr', '')[-1500:]})
            else:
                frames = [l.strip() for l in x.get('stderr', '').split('\n') if l.startswith('github.com/lmorg/murex/')]
                where = frames[0].split('(')[0].replace('github.com/lmorg/murex/', '') if frames else '?'
                ck.violation('crashed-late:%s@%s' % ((first[:1] or ['?'])[0], where),
                             'the interpreter process died in a goroutine left behind by an earlier program (the program in flight, `%s`, does not crash alone): %s'
                             % (src[:80], first[:1]), {'src_in_flight': src, 'stderr': x.get('stderr', '')[-3000:]})
        elif x['status'] == 'hung':
            # rule 4.5: a missed deadline is believed only if the program, run alone, misses a 4x deadline twice more
            again = 0
            for k in range(2):
                rr = prog.run_programs(ck, [{'id': 1, 'src': src, 'timeout_ms': 60000}], shards=1, tag='c19h')
                if rr.get(1, {}).get('status') == 'hung':
                    again += 1
                else:
                    break
            if again == 2:
                ck.violation('hung:' + key, 'program did not return (15 s, then twice 60 s running alone)', {'src': src})
            else:
                ck.cov['slow_not_hung'] = ck.cov.get('slow_not_hung', 0) + 1
        else:
            r = x['runs'][0]
            if r.get('panic'):
                ck.violation('panic:' + key, 'internal panic reported: ' + r['err'].decode('utf-8', 'replace')[-300:].replace('\n', ' '), {'src': src, 'stderr': r['err'].decode('utf-8', 'replace')[-1500:]})
            else:
                ck.cov['traces_validated_against_impl'] += 1
                nontriv.add(src)
                if len(ck.cov['samples']) < 4 and r['exit'] != 0:
                    ck.sample({'src': src, 'exit': r['exit'], 'stderr': r['err'].decode('utf-8', 'replace')[:200]})
    # a subset through the real binary: its crash handler ("Murex has crashed", process does not exit) only exists there
    murex = common.build_murex()
    sub = [j for j in tjobs] + rng.sample(jobs, 40 if quick else 400)
    def one(j):
        try:
            p = subprocess.run(['timeout', '-s', 'KILL', '25', murex, '-c', j['src']], cwd=cwd, stdin=subprocess.DEVNULL,
                               stdout=subprocess.PIPE, stderr=subprocess.PIPE, timeout=40)
            return j, p.returncode, p.stderr.decode('utf-8', 'replace')
        except subprocess.TimeoutExpired:
            return j, -9, 'timeout'
    from concurrent.futures import ThreadPoolExecutor
    with ThreadPoolExecutor(max_workers=12) as ex:
        for j, rc, err in ex.map(one, sub):
            ck.cov['evaluations'] += 1
            key, src = meta[j['id']]
            if 'Murex has crashed' in err or 'panic caught' in err or 'panic:' in err or 'fatal error:' in err:
                ck.violation('binary-panic:' + key, '`murex -c` reported an internal panic: ' + err[-300:].replace('\n', ' '), {'src': src, 'stderr': err[-1500:]})
            elif rc in (-9, 137):
                hung = 0
                for k in range(2):
                    try:
                        p2 = subprocess.run(['timeout', '-s', 'KILL', '90', murex, '-c', j['src']], cwd=cwd, stdin=subprocess.DEVNULL,
                                            stdout=subprocess.PIPE, stderr=subprocess.PIPE, timeout=120)
                        if p2.returncode in (-9, 137):
                            hung += 1
                        else:
                            break
                    except subprocess.TimeoutExpired:
                        hung += 1
                if hung == 2:
                    ck.violation('binary-hung:' + key, '`murex -c` did not exit (25 s, then twice 90 s)', {'src': src})
                else:
                    ck.cov['slow_not_hung'] = ck.cov.get('slow_not_hung', 0) + 1
            elif rc < 0 or rc in (134, 139):
                ck.violation('binary-killed:' + key, '`murex -c` was killed by a signal (rc %d)' % rc, {'src': src, 'stderr': err[-800:]})
            else:
                ck.cov['traces_validated_against_impl'] += 1
    ck.cov['distinct_nontrivial'] = len(nontriv)
    ck.cov['exhaustive'] = False
    if not ck.violations and len(nontriv) < 500:
        raise common.Infra('vacuous: %d' % len(nontriv))
