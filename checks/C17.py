"""C17 - range filters select the documented slice.  spec/Arrays.tla section 2."""
import os
import random
from vlib import common
from . import arrayslib as L

LEVEL = 'model_checking'


def spell(row, rng):
    s = str(row['s']['v']) if row['s']['has'] else ''
    e = str(row['e']['v']) if row['e']['has'] else ''
    body = '%s..%s' % (s, e)
    if rng.random() < 0.25:
        body = ' %s ' % body
    return '[%s]%s' % (body, 'e' if row['excl'] else '')


def run(ck, replay=None):
    only = L.replay_begin(ck, replay)
    rng = random.Random(ck.seed)
    P = L.PARAMS[ck.tier]
    ck.cov['rule'] = ('TLC checks the transcribed streaming matcher (createRfIndex/newIndex bound arithmetic, SetLength for negative starts, the '
                      'Start/End counters and the exclude branch of the readArray callback, one action per item) against the slice rule of the property '
                      'for every list length 0..%d, every start and end in %d..%d or absent, with and without `e`, and exports the table.  Every row is run '
                      'through the real `[s..e]` filter on a str list and on a json array (seeded random item texts) and, where the property defines the '
                      'result (1<=s<=e, [s..], [..e], [..], [-k..]), the items on stdout are compared with the table.  non-trivial = judged row with an '
                      'end-point clipped to the list length or excluded by `e`; distinct = (type, n, s, e, flag).'
                      % (P['PRngMaxN'], P['PRngBounds'][0], P['PRngBounds'][1]))
    ck.assumptions += ['rows the property does not define (start 0, start > end, negative end, negative start with an end, `[-k..]e` with k > n) are executed (panic/crash/hang are findings), never judged on content',
                       'only stdout is compared (the property speaks about the output items); json output that is empty text counts as the empty list',
                       'with `e` an end that is not written has no end-point to exclude (DESIGN C17)']
    wd = L.gen_table(ck, 'range')
    rows = common.read_ndjson(os.path.join(wd, 'range.ndjson'))
    if len(rows) < 5000:
        raise common.Infra('vacuous: table has %d rows' % len(rows))
    ck.cov['exhaustive'] = True
    jobs, meta = [], {}
    cid = 0
    for row in rows:
        n = row['n']
        for dt in ['str', 'json']:
            # an item may be the empty string: it is still an item (only the `b` flag strips blanks)
            style = rng.choice(['num', 'word', 'blank'] if (dt == 'json' and n >= 2) else ['num', 'word'])
            if style == 'num':
                vals = list(range(1, n + 1)) if dt == 'str' else [str(x) for x in range(1, n + 1)]
            else:
                vals = ['%s%d' % (rng.choice(['it', 'Jan', 'x', 'q_']), p) for p in range(1, n + 1)]
                if style == 'blank':
                    vals[rng.randrange(n)] = ''
            if style == 'num' and n >= 2 and rng.random() < 0.5:
                head = '%s [1..%d]' % ('a' if dt == 'str' else 'ja', n)
            else:
                head = L.tout(dt, L.doc_array(dt, vals))
            cid += 1
            src = '%s -> %s' % (head, spell(row, rng))
            jobs.append({'id': cid, 'src': src})
            meta[cid] = (row, dt, [L.text_of(v) for v in vals], src)
    res = L.run(ck, jobs, 'c17')
    nontriv = set()
    unjudged = 0
    for cid, (row, dt, vals, src) in meta.items():
        ck.cov['evaluations'] += 1
        n = row['n']
        sp = '%s..%s%s' % (row['s']['v'] if row['s']['has'] else '', row['e']['v'] if row['e']['has'] else '', 'e' if row['excl'] else '')
        tail = '%s:n%d:%s' % (dt, n, sp)
        r = L.broken(ck, res.get(cid), tail, src)
        if r is None:
            continue
        if not row['judged']:
            unjudged += 1
            continue
        want = [vals[p - 1] for p in row['items']]
        got = L.dec_list(r['out'], dt)
        if got != want:
            ck.violation('value:' + tail, '[%s] on %d %s items output %r; the rule gives items %s' % (sp, n, dt, r['out'][:100], row['items']),
                         {'src': src, 'stdout': r['out'].decode('utf-8', 'replace'), 'stderr': r['err'].decode('utf-8', 'replace')[-400:], 'exit': r['exit'],
                          'expected_positions': row['items'], 'expected': want})
            continue
        ck.cov['traces_validated_against_impl'] += 1
        clipped = (row['e']['has'] and row['e']['v'] > n) or (row['s']['has'] and (row['s']['v'] > n or -row['s']['v'] > n))
        if clipped or row['excl']:
            nontriv.add(tail)
            if len(nontriv) % 2000 == 7:
                ck.sample({'src': src, 'expected': want, 'stdout': r['out'].decode('utf-8', 'replace')})
    ck.cov['distinct_nontrivial'] = len(nontriv)
    ck.cov['unjudged_executed'] = unjudged
    if L.replay_end(ck, only):
        return
    if not ck.violations and len(nontriv) < 1000:
        raise common.Infra('vacuous: %d non-trivial ranges' % len(nontriv))
