"""C01 - pipes deliver every byte exactly once, in order; EOF only after all writers closed
and the buffer drained; writer progress; byte counters.  spec/Stream.tla."""
import json
import os
from vlib import common
from . import streamlib

LEVEL = 'model_checking'


def run(ck, replay=None):
    quick = ck.tier == 'quick'
    ck.cov['rule'] = ('behaviours = paths through the TLC state graph of Stream.tla (every reachable state is on a '
                      'replayed path; thorough: every transition), each forced step by step onto real goroutines '
                      'through gates at the lock regions of streams.Stdin with Read/Write/ReadAll results and Stats() '
                      'compared after every step; plus recorded random concurrent executions validated by '
                      'StreamTrace.tla.  non-trivial = at least two actors and an operation with two lock regions '
                      '(Write: check/append, Read: check/take, ReadAll) interrupted by another actor between its regions; '
                      'distinct = different action sequences.')
    ck.assumptions += [
        'writers of a pipe are opened before its reader starts; later Opens only while another dependent is open (murex wiring)',
        'ReadAll is the last operation of the (single) reader using it',
        'gate hooks mark every lock region of Stdin (MANIFEST.hooks); a critical section added without a gate is executed atomically with its neighbour',
        'MaxBuf=2..4 bytes stands for the 1 MiB limit (streams.DefaultMaxBufferSize is set by the harness)',
    ]
    # 1. design-level model checking: safety (VIEW hides the replay-only variable), liveness
    wd = os.path.join(ck.scratch, 'mc')
    r = common.tlc('Stream', 'MCStream.cfg', wd, coverage=False, timeout=900)
    if r.violated:
        raise common.Infra('Stream.tla violates %s in MCStream.cfg: the specification is wrong\n%s' % (r.violated, r.out[-3000:]))
    ck.add_tlc(r)
    mc = {'MCStream': [r.distinct, r.generated]}
    r = common.tlc('Stream', 'MCStreamLive.cfg', os.path.join(ck.scratch, 'live'), timeout=900)
    if r.violated:
        raise common.Infra('Stream.tla violates liveness (%s): the specification is wrong\n%s' % (r.violated, r.out[-3000:]))
    ck.add_tlc(r)
    mc['MCStreamLive'] = [r.distinct, r.generated]
    if not quick:
        r = common.tlc('Stream', 'MCStreamFC.cfg', os.path.join(ck.scratch, 'mcfc'), timeout=1800)
        if r.violated:
            raise common.Infra('Stream.tla violates %s in MCStreamFC.cfg\n%s' % (r.violated, r.out[-3000:]))
        ck.add_tlc(r)
        mc['MCStreamFC'] = [r.distinct, r.generated]
    ck.cov['model_checking_runs'] = mc

    # 2. S: replay state-graph paths on real goroutines
    plans = [('MCStreamGenQ.cfg', 'nodes', 2)] if quick else [('MCStreamGen.cfg', 'edges', 2), ('MCStreamGen2R.cfg', 'nodes', 2),
                                                              ('MCStreamGenFC.cfg', 'nodes', 2)]
    if quick:
        plans.append(('MCStreamGen2RQ.cfg', 'nodes', 2))
    seen = set()
    nontriv = set()
    replayed_ok = 0
    deviations = {}
    exhaustive = True
    for cfg, mode, maxbuf in plans:
        r, rows, info = streamlib.gen_paths(ck, cfg, mode, ck.seed, timeout=3000)
        if r.violated:
            raise common.Infra('Stream.tla violates %s in %s' % (r.violated, cfg))
        ck.add_tlc(r)
        res = streamlib.replay(ck, rows, maxbuf)
        byid = {x['id']: x for x in res}
        if len(byid) != len(rows):
            raise common.Infra('replay returned %d results for %d paths' % (len(byid), len(rows)))
        for row in rows:
            x = byid[row['id']]
            ck.cov['evaluations'] += 1
            key = path_key = streamlib.path_key(row)
            if x['status'] == 'ok':
                replayed_ok += 1
                if key not in seen and streamlib.nontrivial_path(row):
                    nontriv.add(key)
                seen.add(key)
                if len(ck.cov['samples']) < 2 and streamlib.nontrivial_path(row):
                    ck.sample({'kind': 'replayed behaviour (%s)' % cfg, 'steps': row['steps'][:40]})
            elif x['status'] == 'mismatch':
                st = row['steps'][:x['step'] + 1]
                ck.violation('replay:%s:%s' % (x['clause'], x['detail']), x['detail'],
                             {'cfg': cfg, 'clause': x['clause'], 'detail': x['detail'], 'steps': st})
            elif x['status'] == 'deviation':
                deviations[x['clause']] = deviations.get(x['clause'], 0) + 1
            elif x['status'] == 'blocked':
                if streamlib.blocked_confirmed(ck, row, maxbuf):
                    ck.violation('blocked:' + x['detail'], 'the real pipe deadlocks on a behaviour of the specification: ' + x['detail'],
                                 {'cfg': cfg, 'detail': x['detail'], 'steps': row['steps'][:x['step'] + 1]})
            else:
                raise common.Infra('replay infrastructure error: %s' % x)
        ck.cov.setdefault('replay_configs', {})[cfg] = dict(info, mode=mode, replayed=len(rows))
    ndev = sum(deviations.values())
    ck.cov['replay_deviations'] = deviations
    if ndev > 0.5 * max(1, ck.cov['evaluations']):
        raise common.Infra('more than half of the behaviours could not be aligned with the code (%s): the gates no longer match the specification' % deviations)

    # 3. V: recorded random executions validated against the specification
    nt = 300 if quick else 3000
    validated = 0
    for label, flags, maxbuf in (('plain', [], 4), ('fc', ['-forceclose'], 4)):
        rounds = 1 if quick else 4
        for k in range(rounds):
            r, tr, nlines = streamlib.drive_and_validate(ck, ck.seed * 101 + k, nt, flags, maxbuf, '%s%d' % (label, k))
            ck.add_tlc(r)
            if r.violated:
                line, seg = streamlib.rejected_trace(r, tr)
                ck.violation('trace:%s:%s' % (r.violated, json.dumps(seg.get('rejected_event') if isinstance(seg, dict) else None)),
                             'recorded execution of streams.Stdin is not a behaviour of Stream.tla (%s, line %s)' % (r.violated, line),
                             {'mode': label, 'tlc': r.violated, 'segment': seg})
            else:
                validated += nt
                ck.cov['evaluations'] += nt
                if k == 0:
                    rows = common.read_ndjson(tr)
                    ck.sample({'kind': 'validated trace prefix (%s)' % label, 'events': rows[:25]})
    ck.cov['traces_validated_against_impl'] = replayed_ok + validated
    ck.cov['behaviours_replayed_ok'] = replayed_ok
    ck.cov['recorded_traces_validated'] = validated
    ck.cov['distinct_nontrivial'] = len(nontriv)
    ck.cov['exhaustive'] = (not quick)
    if len(nontriv) < 100:
        raise common.Infra('vacuous: only %d non-trivial behaviours' % len(nontriv))


def selftest(ck):
    """Demonstrate the binding (rule 4.8): a corrupted trace must be rejected by StreamTrace.tla, a trace with one
    event removed must be rejected, and a replay path with one flipped expected value must be reported."""
    import copy
    ok = True
    r, tr, n = streamlib.drive_and_validate(ck, 11, 50, [], 4, 'st0')
    if r.violated:
        common.log('selftest: pristine trace rejected?!')
        return False
    rows = common.read_ndjson(tr)
    cfg = open(os.path.join(common.SPEC, 'StreamTrace.cfg')).read().replace('@MAXBUF@', '4')

    def validate(rows2, label):
        text = ''.join(json.dumps(x, separators=(',', ':')) + '\n' for x in rows2)
        return common.tlc('StreamTrace', 'Run.cfg', os.path.join(ck.scratch, label), workers=1, timeout=600,
                          files={'Run.cfg': cfg, 'trace.ndjson': text})
    # corrupt one logged counter
    idx = [i for i, x in enumerate(rows) if x['ev'] == 'r.take'][3]
    bad = copy.deepcopy(rows)
    bad[idx]['b'] += 1
    r1 = validate(bad, 'st1')
    common.log('selftest: corrupted bytes-read counter in event %d -> %s' % (idx + 1, 'rejected' if r1.violated else 'ACCEPTED'))
    ok &= bool(r1.violated)
    # drop one event (as if a hook were missing)
    idx = [i for i, x in enumerate(rows) if x['ev'] == 'w.append'][2]
    bad = rows[:idx] + rows[idx + 1:]
    r2 = validate(bad, 'st2')
    common.log('selftest: removed w.append event %d -> %s' % (idx + 1, 'rejected' if r2.violated else 'ACCEPTED'))
    ok &= bool(r2.violated)
    # flip one expected value of a replay path
    rr, paths, info = streamlib.gen_paths(ck, 'MCStreamGenQ.cfg', 'nodes', 1, limit=50)
    p = [x for x in paths if any(s.get('k') == 'read' and s.get('data') for s in x['steps'])][0]
    for s in p['steps']:
        if s.get('k') == 'read' and s.get('data'):
            s['data'][0] += 1
            break
    res = streamlib.replay(ck, [p], 2, shards=1)
    common.log('selftest: flipped an expected byte in a replay path -> %s' % res[0]['status'])
    ok &= res[0]['status'] == 'mismatch'
    ck.cov['selftest'] = ok
    return ok
