"""C16 - index and element lookups return the element or a clean error.  spec/Arrays.tla section 1."""
import os
import random
from vlib import common
from . import arrayslib as L

LEVEL = 'model_checking'
DTYPES = ['json', 'yaml', 'jsonl']


def values(n, shape, rng):
    """n distinct element values: ints, plain words, or alternating"""
    ints = rng.sample(range(10, 990), n)
    out = []
    for p in range(n):
        if shape == 'int' or (shape == 'mix' and p % 2 == 0):
            out.append(ints[p])
        else:
            out.append('v%d%s' % (p, rng.choice('abcxyzQRS')))
    return out


def where(n, keys):
    tag = 'in'
    if any(k >= n for k in keys):
        tag = 'above'
    if any(k < -n for k in keys):
        tag = 'below'
    return '%s:%s' % (tag, 'neg' if any(k < 0 for k in keys) else 'pos')


def lookup_src(op, keys, rng):
    ks = ' '.join(str(k) for k in keys)
    if op == '[':
        return '[%s]' % ks if rng.random() < 0.5 else '[ %s ]' % ks
    if op == '![':
        return '![ %s ]' % ks
    return '[[/%s]]' % ks if rng.random() < 0.5 else '[[ /%s ]]' % ks


def run(ck, replay=None):
    only = L.replay_begin(ck, replay)
    rng = random.Random(ck.seed)
    P = L.PARAMS[ck.tier]
    ck.cov['rule'] = ('TLC checks the transcribed key loop of itoIndexArray (intended: both bounds tested after the negative adjustment) and '
                      'isValidElementIndex against the rule "element k (0-based, negative from the end) iff -n <= k < n, else error" for every array '
                      'length 0..%d with 1-%d keys in %d..%d and every single key in %d..%d on lengths 0..%d, and exports the table (plus map lookups '
                      'over all non-empty key sets of <=3 of 4 keys).  Every row is rendered on json, yaml and jsonl documents with seeded random distinct '
                      'element values and run through the real `[`, `[[`, `![` builtins; stdout/stderr/exit number are compared with the table: ok rows '
                      'must print exactly the element(s), err rows must give an error message and a non-zero exit number, no row may report a panic.  '
                      'non-trivial = a key outside 0..n-1 (negative or out of range); distinct = (type, operator, n, keys).'
                      % (P['PIdxMaxN'], P['PIdxMaxKeys'], P['PIdxKeys'][0], P['PIdxKeys'][1], P['PIdxWideKeys'][0], P['PIdxWideKeys'][1], P['PIdxWideN']))
    ck.assumptions += ['`![` rows and lookups of absent map keys are executed (panic/crash/hang are findings) but their content is not judged: the property text does not define them',
                       '`[[` on maps and multi-key lookups on maps are executed, not judged (module-version dependent result shape)',
                       'multi-key lookups: json/yaml must return the hits in the order asked for; on jsonl (a line filter) the result is compared as a set',
                       'element values are distinct integers and plain words; documents are passed with `tout <type> (...)`']
    wd = L.gen_table(ck, 'idx')
    rows = common.read_ndjson(os.path.join(wd, 'idx.ndjson'))
    maps = common.read_ndjson(os.path.join(wd, 'map.ndjson'))
    if len(rows) < 1000 or len(maps) < 40:
        raise common.Infra('vacuous: table has %d + %d rows' % (len(rows), len(maps)))
    ck.cov['exhaustive'] = True

    jobs, meta = [], {}
    cid = 0
    for row in rows:
        n, keys = row['n'], row['keys']
        for dt in DTYPES:
            shape = rng.choice(['int', 'str', 'mix'])
            vals = values(n, shape, rng)
            ops = ['[', '!['] + (['[['] if len(keys) == 1 else [])
            for op in ops:
                cid += 1
                src = '%s -> %s' % (L.tout(dt, L.doc_array(dt, vals)), lookup_src(op, keys, rng))
                jobs.append({'id': cid, 'src': src})
                meta[cid] = ('arr', row, dt, op, vals, src)
    # maps: several random spellings of the key tokens per row
    reps = 6 if ck.tier == 'quick' else 40
    for row in maps:
        for _ in range(reps):
            names = {}
            while len(names) < 4:
                t = len(names) + 1
                k = ''.join(rng.choice('abcdefghijklmnopqrstuvwxyzABCDEFGHIJKLMNOPQRSTUVWXYZ0123456789_') for _ in range(rng.randint(1, 8)))
                if k.lower() not in [x.lower() for x in names.values()]:
                    names[t] = k
            mvals = {}
            for t in row['present']:
                kind = rng.choice(['int', 'str', 'arr'])
                mvals[t] = rng.randint(10, 990) if kind == 'int' else ('w%d%s' % (t, rng.choice('abcxyz')) if kind == 'str' else [rng.randint(1, 9), rng.randint(10, 19)])
            for dt in ['json', 'yaml']:
                if dt == 'json':
                    doc = '{%s}' % ','.join('"%s":%s' % (names[t], L.text_of(mvals[t]) if not isinstance(mvals[t], str) else '"%s"' % mvals[t]) for t in row['present'])
                else:
                    doc = ''.join('"%s": %s\n' % (names[t], L.text_of(mvals[t]).replace(',', ', ') if not isinstance(mvals[t], str) else mvals[t]) for t in row['present'])
                for op in ['[', '![', '[[']:
                    cid += 1
                    key = names[row['key']]
                    lk = {'[': '[ %s ]', '![': '![ %s ]', '[[': '[[ /%s ]]'}[op] % key
                    src = '%s -> %s' % (L.tout(dt, doc), lk)
                    jobs.append({'id': cid, 'src': src})
                    meta[cid] = ('map', row, dt, op, (names, mvals), src)

    res = L.run(ck, jobs, 'c16')
    nontriv = set()
    unjudged = 0
    for cid, (kind, row, dt, op, vals, src) in meta.items():
        ck.cov['evaluations'] += 1
        if kind == 'arr':
            n, keys = row['n'], row['keys']
            tail = '%s:%s:%s:n%d:k%s' % (dt, op, where(n, keys), n, ','.join(str(k) for k in keys))
        else:
            tail = 'map:%s:%s:p%s:k%d' % (dt, op, ''.join(str(t) for t in row['present']), row['key'])
        r = L.broken(ck, res.get(cid), tail, src)
        if r is None:
            continue
        if kind == 'map':
            if op != '[' or not row['judged']:
                unjudged += 1
                continue
            names, mvals = vals
            want = mvals[row['index']['hits'][0]]
            if isinstance(want, list):
                got = L.dec_list(r['out'], dt)
                good = r['exit'] == 0 and got == [L.text_of(x) for x in want]
            else:
                got = L.dec_scalar(r['out'])
                good = r['exit'] == 0 and got == L.text_of(want)
            if not good:
                ck.violation('value:' + tail, 'map lookup [%s] returned %r (exit %d), the map holds %r' % (names[row['key']], r['out'][:80], r['exit'], want),
                             {'src': src, 'stdout': r['out'].decode('utf-8', 'replace'), 'stderr': r['err'].decode('utf-8', 'replace')[-400:], 'exit': r['exit'], 'expected': want})
            else:
                ck.cov['traces_validated_against_impl'] += 1
            continue
        if op == '![':
            unjudged += 1
            continue
        exp = row['index'] if op == '[' else row['element']
        info = {'src': src, 'stdout': r['out'].decode('utf-8', 'replace'), 'stderr': r['err'].decode('utf-8', 'replace')[-400:], 'exit': r['exit'],
                'expected': exp, 'array': vals}
        if exp['res'] == 'err':
            if r['exit'] == 0 or r['err'].strip() == b'':
                ck.violation('noerror:' + tail, '%s on a %d-element %s array must fail with an error message and a non-zero exit number; got exit %d, stderr %r, stdout %r'
                             % (src.split(' -> ')[-1], n, dt, r['exit'], r['err'][:60], r['out'][:60]), info)
                continue
        else:
            want = [L.text_of(vals[p]) for p in exp['hits']]
            if r['exit'] != 0:
                ck.violation('error:' + tail, '%s on a %d-element %s array must return element(s) %s; failed with exit %d: %s'
                             % (src.split(' -> ')[-1], n, dt, want, r['exit'], L.first_error_line(r['err'])), info)
                continue
            got = [L.dec_scalar(r['out'])] if len(want) == 1 else L.dec_list(r['out'], dt)
            if dt == 'jsonl' and len(want) > 1 and got is not None:
                # `[` on jsonl filters lines: order and repetition of a multi-key result are not compared
                got, want = sorted(set(got)), sorted(set(want))
            if got != want:
                ck.violation('value:' + tail, '%s on a %d-element %s array returned %r; the rule gives %s' % (src.split(' -> ')[-1], n, dt, r['out'][:80], want), info)
                continue
        ck.cov['traces_validated_against_impl'] += 1
        if any(k < 0 or k >= n for k in keys):
            nontriv.add(tail)
            if len(ck.cov['samples']) < 4 and len(nontriv) % 500 == 1:
                ck.sample({'src': src, 'expected': exp, 'stdout': info['stdout'], 'exit': r['exit']})
    ck.cov['distinct_nontrivial'] = len(nontriv)
    ck.cov['unjudged_executed'] = unjudged
    if L.replay_end(ck, only):
        return
    if not ck.violations and len(nontriv) < 500:
        raise common.Infra('vacuous: %d non-trivial lookups' % len(nontriv))
