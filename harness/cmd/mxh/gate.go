package main

import (
	"bytes"
	"fmt"
	"runtime"
	"strconv"
	"strings"
	"sync"
	"time"

	"github.com/lmorg/murex/utils/verifhook"
)

// goid returns the current goroutine's id (parsed from the stack header).
func goid() uint64 {
	var buf [64]byte
	n := runtime.Stack(buf[:], false)
	b := buf[:n]
	b = bytes.TrimPrefix(b, []byte("goroutine "))
	i := bytes.IndexByte(b, ' ')
	id, _ := strconv.ParseUint(string(b[:i]), 10, 64)
	return id
}

// An actor is a goroutine under the control of a scheduled replay.  It executes
// operations sent on ops; whenever the real code reaches a Gate it parks and tells
// the controller where it is; the controller releases it one critical section at a
// time.
type actor struct {
	id      int
	ops     chan func() any
	note    chan note // to controller: parked at / finished with
	release chan struct{}
	gid     uint64
	quit    chan struct{}
	only    string // if set: park only at gates whose name has this prefix
}

type note struct {
	parked bool
	point  string
	result any
	panic  any
}

var (
	actorsMu sync.RWMutex
	actors   = map[uint64]*actor{}
)

func newActor(id int) *actor {
	a := &actor{id: id, ops: make(chan func() any), note: make(chan note, 1),
		release: make(chan struct{}), quit: make(chan struct{})}
	ready := make(chan struct{})
	go func() {
		a.gid = goid()
		actorsMu.Lock()
		actors[a.gid] = a
		actorsMu.Unlock()
		close(ready)
		defer func() {
			actorsMu.Lock()
			delete(actors, a.gid)
			actorsMu.Unlock()
		}()
		for {
			select {
			case <-a.quit:
				return
			case op := <-a.ops:
				func() {
					defer func() {
						if r := recover(); r != nil {
							if _, ok := r.(abandon); ok {
								a.note <- note{result: abandon{}}
								return
							}
							a.note <- note{panic: fmt.Sprint(r)}
						}
					}()
					res := op()
					a.note <- note{result: res}
				}()
			}
		}
	}()
	<-ready
	return a
}

type abandon struct{}

// objGates lets a replay catch goroutines it did not start itself (e.g. the close
// timer of the named-pipe registry): obj pointer -> handler called with the gate name.
var objGates sync.Map

// gateHook is installed as verifhook.Gate: controlled goroutines park here.
func gateHook(obj any, point string) {
	g := goid()
	actorsMu.RLock()
	a := actors[g]
	actorsMu.RUnlock()
	if a == nil {
		if h, ok := objGates.Load(obj); ok {
			h.(func(string))(point)
		}
		return
	}
	if a.only != "" && !strings.HasPrefix(point, a.only) {
		return
	}
	a.note <- note{parked: true, point: point}
	select {
	case <-a.release:
	case <-a.quit:
		panic(abandon{})
	}
}

var errStepTimeout = fmt.Errorf("actor did not reach a gate or return in time")

// start begins an operation on the actor and waits until it parks or finishes.
func (a *actor) start(op func() any) (note, error) {
	a.ops <- op
	return a.wait()
}

// step releases a parked actor for one critical section.
func (a *actor) step() (note, error) {
	a.release <- struct{}{}
	return a.wait()
}

func (a *actor) wait() (note, error) {
	select {
	case n := <-a.note:
		return n, nil
	case <-time.After(30 * time.Second):
		return note{}, errStepTimeout
	}
}

// stop ends the actor goroutine; if it is parked inside an operation it unwinds
// through a panic that the actor loop recovers.
func (a *actor) stop() {
	close(a.quit)
}

func installGates() {
	verifhook.Install(&verifhook.Hooks{Gate: gateHook})
}
