// mxh is the conformance harness that binds the TLA+ specifications in /verif/spec
// to the real lmorg/murex packages.  One sub-command per subsystem; each reads
// cases/behaviours produced by TLC (ndjson) and/or writes traces recorded from the
// real code (ndjson).
package main

import (
	"bufio"
	"encoding/json"
	"fmt"
	"os"
	"sort"
	"time"
)

var cmds = map[string]func(args []string) int{}

func register(name string, f func(args []string) int) { cmds[name] = f }

func main() {
	if len(os.Args) < 2 {
		names := make([]string, 0, len(cmds))
		for k := range cmds {
			names = append(names, k)
		}
		sort.Strings(names)
		fmt.Fprintln(os.Stderr, "usage: mxh <cmd> ...; commands:", names)
		os.Exit(2)
	}
	f, ok := cmds[os.Args[1]]
	if !ok {
		fmt.Fprintln(os.Stderr, "unknown command", os.Args[1])
		os.Exit(2)
	}
	os.Exit(f(os.Args[2:]))
}

// readNDJSON reads every line of path into out (a pointer to a slice).
func readNDJSON[T any](path string) ([]T, error) {
	f, err := os.Open(path)
	if err != nil {
		return nil, err
	}
	defer f.Close()
	var out []T
	sc := bufio.NewScanner(f)
	sc.Buffer(make([]byte, 1<<20), 1<<28)
	for sc.Scan() {
		b := sc.Bytes()
		if len(b) == 0 {
			continue
		}
		var v T
		if err := json.Unmarshal(b, &v); err != nil {
			return nil, fmt.Errorf("%s: %v: %.200s", path, err, b)
		}
		out = append(out, v)
	}
	return out, sc.Err()
}

type ndWriter struct {
	f       *os.File
	w       *bufio.Writer
	flushed time.Time
}

func newNDWriter(path string) (*ndWriter, error) {
	f, err := os.Create(path)
	if err != nil {
		return nil, err
	}
	return &ndWriter{f: f, w: bufio.NewWriterSize(f, 1<<20)}, nil
}

func (n *ndWriter) Write(v any) {
	b, err := json.Marshal(v)
	if err != nil {
		panic(err)
	}
	n.w.Write(b)
	n.w.WriteByte('\n')
	// the driver watches this file for progress: do not sit on results for long
	if now := time.Now(); now.Sub(n.flushed) > time.Second {
		n.w.Flush()
		n.flushed = now
	}
}

func (n *ndWriter) Close() { n.w.Flush(); n.f.Close() }

func jsonMarshal(v any) ([]byte, error) { return json.Marshal(v) }
