package main

// Replay (binding G) of spec/Jobs.tla behaviours on a real lang.NewJobs() table.

import (
	"flag"
	"fmt"
	"math/rand"
	"os"
	"strings"
	"sync"
	"sync/atomic"
	"time"

	"github.com/lmorg/murex/lang"
	"github.com/lmorg/murex/utils/verifhook"
)

func init() { register("jobs-replay", jobsReplay) }

type jobsStep struct {
	Act  string  `json:"act"`
	K    string  `json:"k"`
	P    int     `json:"p"`
	ID   int     `json:"id"`
	Job  int     `json:"job"`
	Text string  `json:"text"`
	Q    string  `json:"q"`
	List [][]int `json:"list"`
}

type jobsPath struct {
	ID    int        `json:"id"`
	Steps []jobsStep `json:"steps"`
}

func replayJobsPath(p jobsPath) (res replayResult) {
	res.ID = p.ID
	res.Steps = len(p.Steps)
	fail := func(i int, status, clause, format string, args ...any) replayResult {
		res.Status, res.Step, res.Clause, res.Detail = status, i, clause, fmt.Sprintf(format, args...)
		return res
	}
	defer func() {
		if r := recover(); r != nil {
			res.Status, res.Clause, res.Detail = "mismatch", "panic", fmt.Sprint("real code panicked: ", r)
		}
	}()
	jobs := lang.NewJobs()
	procs := []*lang.Process{nil}
	idx := map[*lang.Process]int{}
	for i, st := range p.Steps {
		res.Step = i
		switch st.Act {
		case "Init":
			continue
		case "Add":
			pr := new(lang.Process)
			procs = append(procs, pr)
			idx[pr] = len(procs) - 1
			pr.VerifSetRaw(st.Text)
			jobs.Add(pr)
		case "Terminate":
			procs[st.P].SetTerminatedState(true)
		case "GC":
			jobs.GarbageCollect()
		case "Get":
			pr, err := jobs.Get(st.ID)
			if (err != nil) != (st.K == "err") {
				return fail(i, "mismatch", "lookup", "Get(%d): code returned error=%v; spec %s", st.ID, err, st.K)
			}
			if err == nil && idx[pr] != st.P {
				return fail(i, "mismatch", "lookup", "Get(%d): code returned process #%d; spec #%d", st.ID, idx[pr], st.P)
			}
		case "GetByText":
			pr, err := jobs.GetFromCommandLine(st.Q)
			if (err != nil) != (st.K == "err") {
				return fail(i, "mismatch", "lookup", "GetFromCommandLine(%q): code returned error=%v; spec %s", st.Q, err, st.K)
			}
			if err == nil && idx[pr] != st.P {
				return fail(i, "mismatch", "lookup", "GetFromCommandLine(%q): code returned process #%d; spec #%d", st.Q, idx[pr], st.P)
			}
		case "GetLatest":
			pr, err := jobs.GetLatest()
			if (err != nil) != (st.K == "err") {
				return fail(i, "mismatch", "lookup", "GetLatest: code returned error=%v; spec %s", err, st.K)
			}
			if err == nil && idx[pr] != st.P {
				return fail(i, "mismatch", "lookup", "GetLatest: code returned process #%d; spec #%d", idx[pr], st.P)
			}
		default:
			return fail(i, "infra", "", "unknown action %q", st.Act)
		}
		// the listing (what `jobs` prints) after every step
		l := jobs.List()
		got := [][]int{}
		for _, j := range l {
			var id int
			fmt.Sscanf(j.JobId, "%%%d", &id)
			got = append(got, []int{id, idx[j.Process]})
		}
		if fmt.Sprint(got) != fmt.Sprint(st.List) && !(len(got) == 0 && len(st.List) == 0) {
			return fail(i, "mismatch", "listing", "after %s: jobs lists %v (job ID, process); spec %v", st.Act, got, st.List)
		}
	}
	res.Status = "ok"
	return res
}

func jobsReplay(args []string) int {
	fs := flag.NewFlagSet("jobs-replay", flag.ExitOnError)
	in := fs.String("in", "", "paths ndjson")
	out := fs.String("out", "", "results ndjson")
	fs.Parse(args)
	paths, err := readNDJSON[jobsPath](*in)
	if err != nil {
		fmt.Fprintln(os.Stderr, err)
		return 2
	}
	w, err := newNDWriter(*out)
	if err != nil {
		fmt.Fprintln(os.Stderr, err)
		return 2
	}
	defer w.Close()
	for _, p := range paths {
		w.Write(replayJobsPath(p))
	}
	return 0
}

// ---------------------------------------------------------------------------
// V: concurrent random driver with event recording (validated by spec/JobsTrace.tla)

type jobsEvent struct {
	Ev    string `json:"ev"`
	S     string `json:"s"`
	P     int    `json:"p"`
	A     int    `json:"a"`
	Slots []int  `json:"slots"`
}

func jobsDrive(args []string) int {
	fs := flag.NewFlagSet("jobs-drive", flag.ExitOnError)
	out := fs.String("out", "", "trace ndjson")
	seed := fs.Int64("seed", 1, "seed")
	num := fs.Int("n", 100, "traces")
	fs.Parse(args)
	w, err := newNDWriter(*out)
	if err != nil {
		fmt.Fprintln(os.Stderr, err)
		return 2
	}
	defer w.Close()
	var mu sync.Mutex
	var evs []jobsEvent
	seqOf := map[int64]int{} // process token (its Id) -> number in order of addition
	var textOf sync.Map       // process token -> the command line the driver gave it
	texts := []string{"a", "b", "ab"}
	queries := []string{"", "a", "b", "ab", "ba", "c"}
	next := 0
	rec := func(e jobsEvent) { mu.Lock(); evs = append(evs, e); mu.Unlock() }
	tok := func(id int64) int {
		if id == 0 {
			return 0
		}
		return seqOf[id]
	}
	verifhook.Install(&verifhook.Hooks{
		Gate: func(obj any, point string) {},
		Emit: func(obj any, ev string, s string, n []int64) {
			mu.Lock()
			defer mu.Unlock()
			switch ev {
			case "jobs.add":
				next++
				seqOf[n[0]] = next
				tx, _ := textOf.Load(n[0])
				txs, _ := tx.(string)
				evs = append(evs, jobsEvent{Ev: ev, S: txs, P: next, A: int(n[1]), Slots: []int{}})
			case "jobs.gc.start", "jobs.lookup.start":
				evs = append(evs, jobsEvent{Ev: ev, Slots: []int{}})
			case "jobs.gc":
				sl := []int{}
				if s != "" {
					for _, x := range strings.Split(s, ",") {
						var v int64
						fmt.Sscan(x, &v)
						sl = append(sl, tok(v))
					}
				}
				evs = append(evs, jobsEvent{Ev: ev, Slots: sl})
			case "jobs.bytext":
				evs = append(evs, jobsEvent{Ev: ev, S: s, A: int(n[0]), P: tok(n[1]), Slots: []int{}})
			case "jobs.get", "jobs.latest":
				evs = append(evs, jobsEvent{Ev: ev, A: int(n[0]), P: tok(n[1]), Slots: []int{}})
			}
		}})
	master := rand.New(rand.NewSource(*seed))
	var token int64
	for t := 0; t < *num; t++ {
		mu.Lock()
		evs = evs[:0]
		seqOf = map[int64]int{}
		next = 0
		mu.Unlock()
		rec(jobsEvent{Ev: "reset", Slots: []int{}})
		jobs := lang.NewJobs()
		var wg sync.WaitGroup
		stop := make(chan struct{})
		for a := 0; a < 3; a++ {
			wg.Add(1)
			go func(seed int64) {
				defer wg.Done()
				rng := rand.New(rand.NewSource(seed))
				var inner sync.WaitGroup
				for k := 0; k < 2+rng.Intn(4); k++ {
					p := new(lang.Process)
					p.Id = uint32(atomic.AddInt64(&token, 1))
					tx := texts[rng.Intn(len(texts))]
					p.VerifSetRaw(tx)
					textOf.Store(int64(p.Id), tx)
					jobs.Add(p)
					d := time.Duration(rng.Intn(300)) * time.Microsecond
					inner.Add(1)
					go func() {
						defer inner.Done()
						time.Sleep(d)
						mu.Lock()
						me := seqOf[int64(p.Id)]
						evs = append(evs, jobsEvent{Ev: "call.term", P: me, Slots: []int{}})
						mu.Unlock()
						p.SetTerminatedState(true)
						rec(jobsEvent{Ev: "ret.term", P: me, Slots: []int{}})
						jobs.GarbageCollect() // as deregisterProcess does
					}()
					if rng.Intn(2) == 0 {
						time.Sleep(time.Duration(rng.Intn(200)) * time.Microsecond)
					}
				}
				inner.Wait()
			}(master.Int63())
		}
		wg.Add(1)
		go func(seed int64) {
			defer wg.Done()
			rng := rand.New(rand.NewSource(seed))
			for {
				select {
				case <-stop:
					return
				default:
				}
				switch rng.Intn(4) {
				case 3:
					jobs.GetFromCommandLine(queries[rng.Intn(len(queries))])
				case 0:
					jobs.Get(1 + rng.Intn(6))
				case 1:
					jobs.GetLatest()
				case 2:
					time.Sleep(time.Duration(rng.Intn(100)) * time.Microsecond)
				}
			}
		}(master.Int63())
		// wait for the adders, then stop the reader
		done := make(chan struct{})
		go func() { wg.Wait(); close(done) }()
		time.Sleep(2 * time.Millisecond)
		for {
			mu.Lock()
			n := len(evs)
			mu.Unlock()
			time.Sleep(3 * time.Millisecond)
			mu.Lock()
			same := len(evs) == n
			mu.Unlock()
			_ = same
			break
		}
		// adders finish on their own; the reader needs the stop signal
		go func() {
			time.Sleep(5 * time.Millisecond)
		}()
		waitAdders(&wg, stop)
		<-done
		mu.Lock()
		for _, e := range evs {
			w.Write(e)
		}
		mu.Unlock()
	}
	return 0
}

// waitAdders closes stop once only the reader goroutine can still be running: adders are
// bounded, so a generous sleep proportional to their worst case is enough and keeps this simple.
func waitAdders(wg *sync.WaitGroup, stop chan struct{}) {
	time.Sleep(8 * time.Millisecond)
	close(stop)
}

func init() { register("jobs-drive", jobsDrive) }
