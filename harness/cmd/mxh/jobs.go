package main

// Replay (binding G) of spec/Jobs.tla behaviours on a real lang.NewJobs() table.

import (
	"flag"
	"fmt"
	"os"

	"github.com/lmorg/murex/lang"
)

func init() { register("jobs-replay", jobsReplay) }

type jobsStep struct {
	Act  string  `json:"act"`
	K    string  `json:"k"`
	P    int     `json:"p"`
	ID   int     `json:"id"`
	Job  int     `json:"job"`
	List [][]int `json:"list"`
}

type jobsPath struct {
	ID    int        `json:"id"`
	Steps []jobsStep `json:"steps"`
}

func replayJobsPath(p jobsPath) (res replayResult) {
	res.ID = p.ID
	res.Steps = len(p.Steps)
	fail := func(i int, status, clause, format string, args ...any) replayResult {
		res.Status, res.Step, res.Clause, res.Detail = status, i, clause, fmt.Sprintf(format, args...)
		return res
	}
	defer func() {
		if r := recover(); r != nil {
			res.Status, res.Clause, res.Detail = "mismatch", "panic", fmt.Sprint("real code panicked: ", r)
		}
	}()
	jobs := lang.NewJobs()
	procs := []*lang.Process{nil}
	idx := map[*lang.Process]int{}
	for i, st := range p.Steps {
		res.Step = i
		switch st.Act {
		case "Init":
			continue
		case "Add":
			pr := new(lang.Process)
			procs = append(procs, pr)
			idx[pr] = len(procs) - 1
			jobs.Add(pr)
		case "Terminate":
			procs[st.P].SetTerminatedState(true)
		case "GC":
			jobs.GarbageCollect()
		case "Get":
			pr, err := jobs.Get(st.ID)
			if (err != nil) != (st.K == "err") {
				return fail(i, "mismatch", "lookup", "Get(%d): code returned error=%v; spec %s", st.ID, err, st.K)
			}
			if err == nil && idx[pr] != st.P {
				return fail(i, "mismatch", "lookup", "Get(%d): code returned process #%d; spec #%d", st.ID, idx[pr], st.P)
			}
		case "GetLatest":
			pr, err := jobs.GetLatest()
			if (err != nil) != (st.K == "err") {
				return fail(i, "mismatch", "lookup", "GetLatest: code returned error=%v; spec %s", err, st.K)
			}
			if err == nil && idx[pr] != st.P {
				return fail(i, "mismatch", "lookup", "GetLatest: code returned process #%d; spec #%d", idx[pr], st.P)
			}
		default:
			return fail(i, "infra", "", "unknown action %q", st.Act)
		}
		// the listing (what `jobs` prints) after every step
		l := jobs.List()
		got := [][]int{}
		for _, j := range l {
			var id int
			fmt.Sscanf(j.JobId, "%%%d", &id)
			got = append(got, []int{id, idx[j.Process]})
		}
		if fmt.Sprint(got) != fmt.Sprint(st.List) && !(len(got) == 0 && len(st.List) == 0) {
			return fail(i, "mismatch", "listing", "after %s: jobs lists %v (job ID, process); spec %v", st.Act, got, st.List)
		}
	}
	res.Status = "ok"
	return res
}

func jobsReplay(args []string) int {
	fs := flag.NewFlagSet("jobs-replay", flag.ExitOnError)
	in := fs.String("in", "", "paths ndjson")
	out := fs.String("out", "", "results ndjson")
	fs.Parse(args)
	paths, err := readNDJSON[jobsPath](*in)
	if err != nil {
		fmt.Fprintln(os.Stderr, err)
		return 2
	}
	w, err := newNDWriter(*out)
	if err != nil {
		fmt.Fprintln(os.Stderr, err)
		return 2
	}
	defer w.Close()
	for _, p := range paths {
		w.Write(replayJobsPath(p))
	}
	return 0
}
