package main

// Scheduled replay (binding S) for spec/NamedPipes.tla against lang/pipes.Named.

import (
	"flag"
	"fmt"
	"math/rand"
	"os"
	"sort"
	"strings"
	"sync"
	"sync/atomic"
	"time"

	_ "github.com/lmorg/murex/builtins/pipes/streams"
	"github.com/lmorg/murex/lang/pipes"
	"github.com/lmorg/murex/lang/stdio"
	"github.com/lmorg/murex/utils/verifhook"
)

func init() {
	register("named-replay", namedReplay)
}

type namedStep struct {
	Act   string   `json:"act"`
	ID    int      `json:"id"`
	K     string   `json:"k"`
	Name  string   `json:"name"`
	Live  []string `json:"live"`
	Pipe  int      `json:"pipe"`
	Timer int      `json:"timer"`
}

type namedPath struct {
	ID    int         `json:"id"`
	Steps []namedStep `json:"steps"`
}

type parkedTimer struct {
	name    string
	release chan struct{}
}

type namedWorld struct {
	n        *pipes.Named
	mu       sync.Mutex
	parked   []*parkedTimer
	arrive   chan struct{}
	done     chan string
	pipeIdx  map[stdio.Io]int
	finished bool
}

func (w *namedWorld) gate(point string) {
	w.mu.Lock()
	fin := w.finished
	w.mu.Unlock()
	if fin {
		return
	}
	switch {
	case strings.HasPrefix(point, "np.timer.done:"):
		select {
		case w.done <- strings.TrimPrefix(point, "np.timer.done:"):
		case <-time.After(20 * time.Second):
		}
	case strings.HasPrefix(point, "np.timer:"):
		pt := &parkedTimer{name: strings.TrimPrefix(point, "np.timer:"), release: make(chan struct{})}
		w.mu.Lock()
		w.parked = append(w.parked, pt)
		w.mu.Unlock()
		select {
		case w.arrive <- struct{}{}:
		default:
		}
		<-pt.release
	}
}

// takeTimer waits for a timer goroutine for name to reach its gate.
func (w *namedWorld) takeTimer(name string, wait time.Duration) *parkedTimer {
	deadline := time.Now().Add(wait)
	for {
		w.mu.Lock()
		for i, pt := range w.parked {
			if pt.name == name {
				w.parked = append(w.parked[:i], w.parked[i+1:]...)
				w.mu.Unlock()
				return pt
			}
		}
		w.mu.Unlock()
		if time.Now().After(deadline) {
			return nil
		}
		select {
		case <-w.arrive:
		case <-time.After(20 * time.Millisecond):
		}
	}
}

func (w *namedWorld) live() []string {
	d := w.n.Dump()
	out := []string{}
	for k := range d {
		if k != "null" {
			out = append(out, k)
		}
	}
	sort.Strings(out)
	return out
}

// liveTimeout is live() that gives up when the registry's mutex is never released
func (w *namedWorld) liveTimeout(d time.Duration) ([]string, bool) {
	ch := make(chan []string, 1)
	go func() { ch <- w.live() }()
	select {
	case l := <-ch:
		return l, true
	case <-time.After(d):
		return nil, false
	}
}

func eqStrs(a, b []string) bool {
	if len(a) != len(b) {
		return false
	}
	for i := range a {
		if a[i] != b[i] {
			return false
		}
	}
	return true
}

type getRes struct {
	io  stdio.Io
	err error
}

func replayNamedPath(p namedPath) (res replayResult) {
	res.ID = p.ID
	res.Steps = len(p.Steps)
	nm := pipes.NewNamed()
	w := &namedWorld{n: &nm, arrive: make(chan struct{}, 1), done: make(chan string, 16), pipeIdx: map[stdio.Io]int{}}
	objGates.Store(w.n, w.gate)
	// (the entry is left in place: timer goroutines of this registry may still be asleep)
	acts := map[int]*actor{}
	defer func() {
		for _, a := range acts {
			a.stop()
		}
		// let sleeping / parked timer goroutines of this registry run out
		w.mu.Lock()
		w.finished = true
		ps := w.parked
		w.parked = nil
		w.mu.Unlock()
		for _, x := range ps {
			close(x.release)
		}
	}()
	get := func(id int) *actor {
		a := acts[id]
		if a == nil {
			a = newActor(id)
			a.only = "np."
			acts[id] = a
		}
		return a
	}
	fail := func(i int, status, clause, format string, args ...any) replayResult {
		res.Status = status
		res.Step = i
		res.Clause = clause
		res.Detail = fmt.Sprintf(format, args...)
		return res
	}
	npipes := 0
	for i, st := range p.Steps {
		var n note
		var err error
		single := func(gatePoint string, op func() any) {
			a := get(st.ID)
			if n, err = a.start(op); err == nil && n.parked && n.point == gatePoint {
				n, err = a.step()
			}
		}
		name := st.Name
		switch st.Act {
		case "Init":
			continue
		case "Create":
			single("np.create", func() any { return w.n.CreatePipe(name, "std", "") })
		case "Close":
			single("np.close", func() any { return w.n.Close(name) })
		case "Delete":
			single("np.delete", func() any { return w.n.Delete(name) })
		case "Dump":
			single("np.dump", func() any { w.n.Dump(); return nil })
		case "GetBegin":
			n, err = get(st.ID).start(func() any { io, e := w.n.Get(name); return getRes{io, e} })
		case "GetTry":
			n, err = get(st.ID).step()
		case "TimerFire":
			pt := w.takeTimer(name, 20*time.Second)
			if pt == nil {
				return fail(i, "infra", "", "TimerFire(%s): no close timer reached its gate within 20s", name)
			}
			close(pt.release)
			select {
			case <-w.done:
			case <-time.After(20 * time.Second):
				return fail(i, "infra", "", "TimerFire(%s): timer goroutine did not finish", name)
			}
			n = note{}
		default:
			return fail(i, "infra", "", "unknown action %q", st.Act)
		}
		if err != nil {
			if err == errStepTimeout {
				return fail(i, "blocked", "blocked", "%s(%d,%q): the real code neither returned nor reached its next lock region within 30 s", st.Act, st.ID, name)
			}
			return fail(i, "infra", "", "%s(%d): %v", st.Act, st.ID, err)
		}
		if n.panic != nil {
			return fail(i, "mismatch", "panic", "%s(%d,%s): real code panicked: %v", st.Act, st.ID, name, n.panic)
		}
		switch st.Act {
		case "Create", "Close", "Delete":
			if n.parked {
				return fail(i, "deviation", "gate", "%s: code parked at %s", st.Act, n.point)
			}
			e, _ := n.result.(error)
			if (e != nil) != (st.K == "err") {
				return fail(i, "mismatch", "error", "%s(%d,%q): code returned error=%v; spec %s", st.Act, st.ID, name, e, st.K)
			}
			if st.Act == "Create" && st.K == "ok" {
				npipes++
				if io, e2 := w.n.Get(name); e2 == nil {
					w.pipeIdx[io] = npipes
				}
			}
		case "GetBegin":
			if !n.parked || n.point != "np.get" {
				return fail(i, "deviation", "gate", "GetBegin: expected gate np.get")
			}
		case "GetTry":
			if st.K == "none" {
				if !n.parked {
					r := n.result.(getRes)
					return fail(i, "mismatch", "get-early", "GetTry(%d,%q): code returned (%v) where spec retries", st.ID, name, r.err)
				}
			} else {
				if n.parked {
					return fail(i, "deviation", "still-running", "GetTry(%d,%q): spec returns %s, code still retrying", st.ID, name, st.K)
				}
				r := n.result.(getRes)
				if (r.err != nil) != (st.K == "err") {
					return fail(i, "mismatch", "error", "Get(%d,%q): code returned error=%v; spec %s", st.ID, name, r.err, st.K)
				}
				if st.K == "pipe" && w.pipeIdx[r.io] != st.Pipe {
					return fail(i, "mismatch", "wrong-pipe", "Get(%d,%q): code returned pipe #%d; spec #%d", st.ID, name, w.pipeIdx[r.io], st.Pipe)
				}
			}
		}
		want := append([]string{}, st.Live...)
		sort.Strings(want)
		got, alive := w.liveTimeout(30 * time.Second)
		if !alive {
			return fail(i, "blocked", "blocked", "after %s(%d,%q): Dump() of the registry did not return within 30 s", st.Act, st.ID, name)
		}
		if !eqStrs(got, want) {
			return fail(i, "mismatch", "registry", "after %s(%d,%q): registry holds %v; spec %v", st.Act, st.ID, name, got, want)
		}
	}
	res.Status = "ok"
	return res
}

func namedReplay(args []string) int {
	fs := flag.NewFlagSet("named-replay", flag.ExitOnError)
	in := fs.String("in", "", "paths ndjson")
	out := fs.String("out", "", "results ndjson")
	par := fs.Int("par", 256, "behaviours replayed concurrently (each on its own registry)")
	fs.Parse(args)
	paths, err := readNDJSON[namedPath](*in)
	if err != nil {
		fmt.Fprintln(os.Stderr, err)
		return 2
	}
	installGates()
	f, err := os.Create(*out)
	if err != nil {
		fmt.Fprintln(os.Stderr, err)
		return 2
	}
	defer f.Close()
	var mu sync.Mutex
	emit := func(v any) {
		b, _ := jsonMarshal(v)
		mu.Lock()
		f.Write(append(b, '\n'))
		mu.Unlock()
	}
	sem := make(chan struct{}, *par)
	var wg sync.WaitGroup
	for _, p := range paths {
		sem <- struct{}{}
		wg.Add(1)
		go func(p namedPath) {
			defer wg.Done()
			defer func() { <-sem }()
			emit(map[string]any{"start": p.ID})
			emit(replayNamedPath(p))
		}(p)
	}
	wg.Wait()
	return 0
}

// named-drive: free-running random concurrent operations on real registries (for the race
// detector build, C32) - no gates, no comparison; a panic or fatal error kills the process.
type npEvent struct {
	Ev   string `json:"ev"`
	Name string `json:"name"`
	Ok   int    `json:"ok"`
}

func namedDrive(args []string) int {
	fs := flag.NewFlagSet("named-drive", flag.ExitOnError)
	seed := fs.Int64("seed", 1, "seed")
	regs := fs.Int("n", 8, "registries")
	ops := fs.Int("ops", 300, "operations per client")
	out := fs.String("out", "", "if set: record the registries' events here (ndjson, one trace per registry)")
	fs.Parse(args)
	var mu sync.Mutex
	logs := map[any][]npEvent{}
	if *out != "" {
		verifhook.Install(&verifhook.Hooks{Emit: func(obj any, ev string, s string, n []int64) {
			if !strings.HasPrefix(ev, "np.") {
				return
			}
			e := npEvent{Ev: ev, Name: s}
			if len(n) > 0 {
				e.Ok = int(n[0])
			}
			mu.Lock()
			logs[obj] = append(logs[obj], e)
			mu.Unlock()
		}})
	}
	var wg sync.WaitGroup
	var all []*pipes.Named
	for r := 0; r < *regs; r++ {
		nm := pipes.NewNamed()
		n := &nm
		all = append(all, n)
		for c := 0; c < 4; c++ {
			wg.Add(1)
			go func(r, c int) {
				defer wg.Done()
				rng := rand.New(rand.NewSource(*seed*1000 + int64(r*10+c)))
				names := []string{"a", "b", "c"}
				for i := 0; i < *ops; i++ {
					name := names[rng.Intn(len(names))]
					switch rng.Intn(6) {
					case 0, 5:
						n.CreatePipe(name, "std", "")
					case 1:
						n.Close(name)
					case 2:
						n.Delete(name)
					case 3:
						if rng.Intn(8) == 0 {
							n.Get(name)
						}
					case 4:
						n.Dump()
					}
					if rng.Intn(16) == 0 {
						time.Sleep(time.Duration(rng.Intn(200)) * time.Microsecond)
					}
				}
			}(r, c)
		}
	}
	wg.Wait()
	time.Sleep(2500 * time.Millisecond) // let the close timers fire
	if *out != "" {
		w, err := newNDWriter(*out)
		if err != nil {
			fmt.Fprintln(os.Stderr, err)
			return 2
		}
		mu.Lock()
		for _, n := range all {
			w.Write(npEvent{Ev: "reset"})
			for _, e := range logs[n] {
				w.Write(e)
			}
		}
		mu.Unlock()
		w.Close()
	}
	return 0
}

func init() { register("named-drive", namedDrive) }

// named-storm: one goroutine creates and deletes names as fast as it can while others look them up and one lists the registry - the schedule the
// scheduled replay cannot produce (no gate sits between the registry's unlock and the caller's use of the result).
// Reports look-ups that returned neither a pipe nor an error; an unsynchronised access kills the process
// ("fatal error: concurrent map read and map write"), which the driver reports.
func namedStorm(args []string) int {
	fs := flag.NewFlagSet("named-storm", flag.ExitOnError)
	ms := fs.Int("ms", 1500, "duration per registry in milliseconds")
	regs := fs.Int("n", 4, "registries (in parallel)")
	getters := fs.Int("getters", 6, "look-up goroutines per registry")
	fs.Parse(args)
	var lookups, nilnil, errs atomic.Int64
	var wg sync.WaitGroup
	for r := 0; r < *regs; r++ {
		nm := pipes.NewNamed()
		n := &nm
		stop := make(chan struct{})
		wg.Add(1)
		go func() {
			defer wg.Done()
			for {
				select {
				case <-stop:
					return
				default:
				}
				n.CreatePipe("s", "std", "")
				n.Delete("s")
				n.CreatePipe("t", "std", "")
				n.Dump()
				n.Delete("t")
			}
		}()
		// ... and one lists the registry (runtime --named-pipes) all the time
		wg.Add(1)
		go func() {
			defer wg.Done()
			for {
				select {
				case <-stop:
					return
				default:
				}
				for k := range n.Dump() {
					_ = k
				}
			}
		}()
		for g := 0; g < *getters; g++ {
			wg.Add(1)
			go func(g int) {
				defer wg.Done()
				name := "s"
				if g%2 == 1 {
					name = "t"
				}
				for {
					select {
					case <-stop:
						return
					default:
					}
					io, err := n.Get(name)
					lookups.Add(1)
					if err != nil {
						errs.Add(1)
					} else if io == nil {
						nilnil.Add(1)
					}
				}
			}(g)
		}
		go func() {
			time.Sleep(time.Duration(*ms) * time.Millisecond)
			close(stop)
		}()
	}
	wg.Wait()
	b, _ := jsonMarshal(map[string]int64{"lookups": lookups.Load(), "nilnil": nilnil.Load(), "errors": errs.Load()})
	fmt.Println(string(b))
	return 0
}

func init() { register("named-storm", namedStorm) }
