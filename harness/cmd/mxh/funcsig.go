package main

// funcsig-parse (C23): call the real lang.ParseMxFunctionParameters on signature texts rendered
// from the class strings of spec/FuncSig.tla and report acceptance and the parsed fields.
// No judgement here: the driver compares the report with the specification's expected values.

import (
	"flag"
	"fmt"
	"os"

	"github.com/lmorg/murex/lang"
)

func init() { register("funcsig-parse", funcsigParse) }

type funcsigCase struct {
	ID   int    `json:"id"`
	Text string `json:"text"`
}

type funcsigParam struct {
	Name        string `json:"name"`
	DataType    string `json:"type"`
	Description string `json:"desc"`
	Default     string `json:"default"`
	HasDefault  bool   `json:"hasDefault"`
	Optional    bool   `json:"optional"`
}

type funcsigResult struct {
	ID      int            `json:"id"`
	Status  string         `json:"status"` // ok | panic
	Accept  bool           `json:"accept"`
	ErrText string         `json:"err_text"`
	Params  []funcsigParam `json:"params"`
	Detail  string         `json:"detail,omitempty"`
}

func funcsigOne(c funcsigCase) (res funcsigResult) {
	res.ID = c.ID
	res.Params = []funcsigParam{}
	defer func() {
		if r := recover(); r != nil {
			res.Status, res.Detail = "panic", fmt.Sprint(r)
		}
	}()
	ps, err := lang.ParseMxFunctionParameters(c.Text)
	res.Status = "ok"
	if err != nil {
		res.ErrText = err.Error()
		return
	}
	res.Accept = true
	for _, p := range ps {
		res.Params = append(res.Params, funcsigParam{p.Name, p.DataType, p.Description, p.Default, p.HasDefault, p.Optional})
	}
	return
}

func funcsigParse(args []string) int {
	fs := flag.NewFlagSet("funcsig-parse", flag.ExitOnError)
	in := fs.String("in", "", "cases ndjson")
	out := fs.String("out", "", "results ndjson")
	fs.Parse(args)
	cases, err := readNDJSON[funcsigCase](*in)
	if err != nil {
		fmt.Fprintln(os.Stderr, err)
		return 2
	}
	w, err := newNDWriter(*out)
	if err != nil {
		fmt.Fprintln(os.Stderr, err)
		return 2
	}
	defer w.Close()
	for _, c := range cases {
		w.Write(funcsigOne(c))
	}
	return 0
}
