package main

// cache-replay: replay (binding G) of spec/Cache.tla behaviours on the real utils/cache
// package (memory layer + sqlite layer) with a private database file and the real clock.
//
// The package keeps its state in package-level variables (namespace map, database path), so
// one process uses one database file and every behaviour gets namespaces of its own.
// Trim and Clear act on every namespace of the process: behaviours containing Clear are run
// one after the other (-lockstep=false); the others advance together, phase by phase, a
// phase ending at a Tick of the specification = sleeping until every "near" TTL written so
// far has passed (-lockstep=true).
//
// TTL classes: past = now-10s, near = now+<near>s, far = now+2h.  A read is only compared when
// the real clock realised the relation of the specification (entry alive: the read finished
// <margin> before the stored expiry second; expired: it started <margin> after it);
// otherwise the behaviour is reported as "slop" and not judged.

import (
	"context"
	"encoding/json"
	"flag"
	"fmt"
	"os"
	"path/filepath"
	"time"

	"github.com/lmorg/murex/utils/cache"
)

func init() { register("cache-replay", cacheReplay) }

type cacheStep struct {
	Act   string   `json:"act"`
	Ns    string   `json:"ns"`
	K     string   `json:"k"`
	V     string   `json:"v"`
	Ttl   string   `json:"ttl"`
	Exp   string   `json:"exp"`
	Entry string   `json:"entry"`
	Known []string `json:"known"`
}

type cacheRow struct {
	ID     int                        `json:"id"`
	VType  string                     `json:"vtype"`
	Values map[string]json.RawMessage `json:"values"`
	Keys   map[string]string          `json:"keys"`
	Ns     map[string]string          `json:"ns"`
	Steps  []cacheStep                `json:"steps"`
}

type cacheResult struct {
	ID      int    `json:"id"`
	Status  string `json:"status"` // ok | mismatch | slop | infra
	Step    int    `json:"step"`
	Clause  string `json:"clause,omitempty"`
	Detail  string `json:"detail,omitempty"`
	Got     string `json:"got,omitempty"`
	Reads   int    `json:"reads"`   // reads compared
	Hits    int    `json:"hits"`    // of which returned a value
	OpErrs  int    `json:"op_errs"` // Trim/Clear calls that returned an error (not judged)
	Ms      int64  `json:"ms"`
	Summary *struct {
		Internal int `json:"internal_entries"`
		Db       int `json:"db_entries"`
	} `json:"summary,omitempty"`
}

type cacheStruct struct {
	Name string
	N    int
	Tags []string
}

// cacheTyped returns (value to write, fresh pointer to read into) for the row's value type
func cacheTyped(vtype string, raw json.RawMessage) (w any, r any, err error) {
	switch vtype {
	case "string":
		var v string
		err = json.Unmarshal(raw, &v)
		return v, new(string), err
	case "bytes":
		var v []byte
		err = json.Unmarshal(raw, &v)
		return &v, new([]byte), err // shell/preview_dynamic.go writes &b
	case "strings":
		var v []string
		err = json.Unmarshal(raw, &v)
		return v, new([]string), err
	case "map":
		var v map[string]any
		err = json.Unmarshal(raw, &v)
		return v, new(map[string]any), err
	case "int":
		var v int
		err = json.Unmarshal(raw, &v)
		return v, new(int), err
	case "struct":
		v := new(cacheStruct)
		err = json.Unmarshal(raw, v)
		return v, new(cacheStruct), err // shell/autocomplete/dynamic.go writes a struct pointer
	}
	return nil, nil, fmt.Errorf("unknown value type %q", vtype)
}

func cacheCanon(v any) string {
	b, err := json.Marshal(v)
	if err != nil {
		return "!" + err.Error()
	}
	return string(b)
}

type cacheRun struct {
	row   cacheRow
	res   cacheResult
	pc    int
	done  bool
	lastW map[string]int64 // cell -> stored expiry second of the latest write
	canon map[string]string
	t0    time.Duration
}

type cacheEnv struct {
	near     time.Duration
	margin   time.Duration
	deadline time.Time // every near entry written so far has expired after this
}

func (e *cacheEnv) finish(r *cacheRun, status string, step int, clause, format string, args ...any) {
	r.res.Status, r.res.Step, r.res.Clause, r.res.Detail = status, step, clause, fmt.Sprintf(format, args...)
	r.done = true
}

// step executes one step; the returned flag is true when it was a Tick
func (e *cacheEnv) step(r *cacheRun) (tick bool) {
	i := r.pc
	st := r.row.Steps[i]
	r.pc++
	defer func() {
		if x := recover(); x != nil {
			e.finish(r, "mismatch", i, "panic", "real code panicked in %s: %v", st.Act, x)
		}
	}()
	ns := r.row.Ns[st.Ns]
	key := r.row.Keys[st.K]
	cell := st.Ns + "/" + st.K
	switch st.Act {
	case "Init":
		// the namespaces that exist at start-up (cache.InitCache); a read creates one
		for _, n := range st.Known {
			var s string
			if cache.Read(r.row.Ns[n], "\x00init", &s) {
				e.finish(r, "mismatch", i, "phantom:absent", "reading a key nobody wrote in the new namespace %q returned %q", n, s)
				return
			}
		}
	case "Write":
		w, _, err := cacheTyped(r.row.VType, r.row.Values[st.V])
		if err != nil {
			e.finish(r, "infra", i, "", "value %s: %v", st.V, err)
			return
		}
		var ttl time.Time
		switch st.Ttl {
		case "past":
			ttl = time.Now().Add(-10 * time.Second)
		case "near":
			ttl = time.Now().Add(e.near)
			if d := time.Unix(ttl.Unix(), 0).Add(e.margin + 50*time.Millisecond); d.After(e.deadline) {
				e.deadline = d
			}
		case "far":
			ttl = time.Now().Add(2 * time.Hour)
		default:
			e.finish(r, "infra", i, "", "ttl class %q", st.Ttl)
			return
		}
		r.lastW[cell] = ttl.Unix()
		cache.Write(ns, key, w, ttl)
	case "Read":
		_, ptr, err := cacheTyped(r.row.VType, r.row.Values["v1"])
		if err != nil {
			e.finish(r, "infra", i, "", "value type: %v", err)
			return
		}
		t0 := time.Now()
		ok := cache.Read(ns, key, ptr)
		t1 := time.Now()
		if tf, has := r.lastW[cell]; has {
			exp := time.Unix(tf, 0)
			if st.Entry == "alive" && !t1.Before(exp.Add(-e.margin)) {
				e.finish(r, "slop", i, "", "read finished %v relative to the expiry of an entry the specification has alive", t1.Sub(exp))
				return
			}
			if st.Entry == "expired" && t0.Before(exp.Add(e.margin)) {
				e.finish(r, "slop", i, "", "read started %v relative to the expiry of an entry the specification has expired", t0.Sub(exp))
				return
			}
		}
		r.res.Reads++
		got := "none"
		if ok {
			r.res.Hits++
			c := cacheCanon(ptr)
			got = "?" + c
			for tok, cv := range r.canon {
				if cv == c {
					got = tok
				}
			}
		}
		if got != st.Exp {
			r.res.Got = got
			clause := "wrong-value"
			if st.Exp == "none" {
				clause = "phantom:" + st.Entry
			} else if got == "none" {
				clause = "lost"
			}
			e.finish(r, "mismatch", i, clause, "Read(%s, %s) returned %s; specification %s (entry %s)", st.Ns, st.K, got, st.Exp, st.Entry)
			return
		}
	case "Trim":
		if _, err := cache.Trim(context.Background()); err != nil {
			r.res.OpErrs++
		}
	case "Clear":
		if _, err := cache.Clear(context.Background()); err != nil {
			r.res.OpErrs++
		}
	case "Tick":
		return true
	default:
		e.finish(r, "infra", i, "", "unknown action %q", st.Act)
	}
	return false
}

// runGroup advances the rows of a group together, phase by phase
func (e *cacheEnv) runGroup(rows []*cacheRun) {
	for {
		waiting := false
		active := false
		for _, r := range rows {
			if r.done {
				continue
			}
			start := time.Now()
			for !r.done && r.pc < len(r.row.Steps) {
				if e.step(r) {
					waiting = true
					break
				}
			}
			if !r.done && r.pc >= len(r.row.Steps) {
				r.res.Status = "ok"
				r.done = true
			}
			r.t0 += time.Since(start)
			if !r.done {
				active = true
			}
		}
		if !active {
			return
		}
		if waiting {
			if d := time.Until(e.deadline); d > 0 {
				time.Sleep(d)
			}
		}
	}
}

func cacheReplay(args []string) int {
	fs := flag.NewFlagSet("cache-replay", flag.ExitOnError)
	in := fs.String("in", "", "rows ndjson")
	out := fs.String("out", "", "results ndjson")
	dir := fs.String("dir", "", "directory for the database file")
	lockstep := fs.Bool("lockstep", false, "advance all rows together (no row contains Clear)")
	near := fs.Float64("near", 5, "seconds of a near TTL")
	margin := fs.Float64("margin", 0.4, "seconds of slack around an expiry")
	fs.Parse(args)
	rows, err := readNDJSON[cacheRow](*in)
	if err != nil {
		fmt.Fprintln(os.Stderr, err)
		return 2
	}
	w, err := newNDWriter(*out)
	if err != nil {
		fmt.Fprintln(os.Stderr, err)
		return 2
	}
	defer w.Close()
	db := filepath.Join(*dir, fmt.Sprintf("cache-%d.db", os.Getpid()))
	os.Remove(db)
	defer os.Remove(db)
	cache.SetPath(db)
	// as main.go does at start-up (cache.InitCache): from here on the cache is enabled
	var boot string
	cache.Read("boot", "boot", &boot)
	if !cache.DbEnabled() {
		fmt.Fprintln(os.Stderr, "the sqlite layer is not available")
		return 2
	}
	env := &cacheEnv{near: time.Duration(*near * float64(time.Second)), margin: time.Duration(*margin * float64(time.Second))}
	runs := make([]*cacheRun, len(rows))
	for i, row := range rows {
		r := &cacheRun{row: row, lastW: map[string]int64{}, canon: map[string]string{}}
		r.res.ID = row.ID
		for tok, raw := range row.Values {
			v, _, err := cacheTyped(row.VType, raw)
			if err != nil {
				r.res.Status, r.res.Detail, r.done = "infra", err.Error(), true
			}
			r.canon[tok] = cacheCanon(v)
		}
		runs[i] = r
	}
	if *lockstep {
		env.runGroup(runs)
	} else {
		for _, r := range runs {
			env.runGroup([]*cacheRun{r})
		}
	}
	for _, r := range runs {
		r.res.Ms = r.t0.Milliseconds()
		w.Write(r.res)
	}
	// what the two layers hold at the end (evidence only)
	func() {
		defer func() { recover() }()
		d, _ := cache.Dump(context.Background())
		b, err := json.Marshal(d)
		if err != nil {
			return
		}
		var m map[string]struct {
			Internal []json.RawMessage
			CacheDb  []json.RawMessage
		}
		if json.Unmarshal(b, &m) != nil {
			return
		}
		var s cacheResult
		s.ID, s.Status = -1, "summary"
		s.Summary = &struct {
			Internal int `json:"internal_entries"`
			Db       int `json:"db_entries"`
		}{}
		for _, v := range m {
			s.Summary.Internal += len(v.Internal)
			s.Summary.Db += len(v.CacheDb)
		}
		w.Write(s)
	}()
	return 0
}
