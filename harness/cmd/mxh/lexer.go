package main

// Binding for spec/Lexer.tla (C08 C09 C10 C36 C34).
//
//  * builtins registered into the real interpreter (so that programs executed by
//    `run-programs` can observe / prepare state without their text being lexed):
//      vx a b c          -> one line: JSON array of exactly the parameters received (= vxargv)
//      vxget name        -> one line: JSON string of the variable's string value
//      vxgetdt name      -> raw variable value on stdout with the variable's data type
//      vxset name dt hex -> set variable `name` (data type dt) to the bytes given in hex
//  * `mxh argv-echo a b c`: the same as vxargv for an external process (os.Args).
//  * `mxh lexer -in rows -out results`: calls on the real package API:
//      op=cmdline  argv -> escape.CommandLine on a copy + strings.Join(" ")  (what
//                  main.go:argvToCmdLineStr consists of) -> ParseBlock -> ParseStatementParameters
//      op=parse    text -> ParseBlock -> ParseStatementParameters
//      op=json     text -> encoding/json decode, re-encoded canonically
//      op=unsafe   text -> utils/parser.Parse verdict + commands in the ParseBlock tree

import (
	"bytes"
	"encoding/hex"
	"encoding/json"
	"flag"
	"fmt"
	"os"
	"strings"
	"time"

	"github.com/lmorg/murex/lang"
	"github.com/lmorg/murex/lang/types"
	"github.com/lmorg/murex/utils/escape"
)

func init() {
	register("lexer", lexerCmd)
	register("argv-echo", func(args []string) int {
		b, _ := json.Marshal(append([]string{}, args...))
		os.Stdout.Write(append(b, '\n'))
		return 0
	})

	vxargv := func(p *lang.Process) error {
		p.Stdout.SetDataType(types.Json)
		b, err := jsonNoHTML(append([]string{}, p.Parameters.StringArray()...))
		if err != nil {
			return err
		}
		_, err = p.Stdout.Write(append(b, '\n'))
		return err
	}
	lang.DefineFunction("vxargv", vxargv, types.Json)
	lang.DefineFunction("vx", vxargv, types.Json) // the command name used by spec/Lexer.tla (CmdName)

	lang.DefineFunction("vxget", func(p *lang.Process) error {
		p.Stdout.SetDataType(types.Json)
		name, err := p.Parameters.String(0)
		if err != nil {
			return err
		}
		s, err := p.Variables.GetString(name)
		if err != nil {
			return err
		}
		b, err := jsonNoHTML(map[string]string{"value": s, "dt": p.Variables.GetDataType(name)})
		if err != nil {
			return err
		}
		_, err = p.Stdout.Write(append(b, '\n'))
		return err
	}, types.Json)

	lang.DefineFunction("vxgetdt", func(p *lang.Process) error {
		name, err := p.Parameters.String(0)
		if err != nil {
			return err
		}
		s, err := p.Variables.GetString(name)
		if err != nil {
			return err
		}
		p.Stdout.SetDataType(p.Variables.GetDataType(name))
		_, err = p.Stdout.Write([]byte(s))
		return err
	}, types.Any)

	lang.DefineFunction("vxset", func(p *lang.Process) error {
		p.Stdout.SetDataType(types.Null)
		name, err := p.Parameters.String(0)
		if err != nil {
			return err
		}
		dt, err := p.Parameters.String(1)
		if err != nil {
			return err
		}
		hx, _ := p.Parameters.String(2)
		b, err := hex.DecodeString(hx)
		if err != nil {
			return err
		}
		// the variable belongs to the caller's scope, like `set`
		return p.Variables.Set(p, name, string(b), dt)
	}, types.Null)
}

func jsonNoHTML(v any) ([]byte, error) {
	var buf bytes.Buffer
	enc := json.NewEncoder(&buf)
	enc.SetEscapeHTML(false)
	if err := enc.Encode(v); err != nil {
		return nil, err
	}
	return bytes.TrimRight(buf.Bytes(), "\n"), nil
}

type lexRow struct {
	ID   int      `json:"id"`
	Op   string   `json:"op"`
	Argv []string `json:"argv"`
	Text string   `json:"text"`
	Pos  int      `json:"pos"`
}

type lexStmt struct {
	Cmd    string   `json:"cmd"`
	Params []string `json:"params"`
	Err    string   `json:"err,omitempty"`
}

type lexResult struct {
	ID     int       `json:"id"`
	Status string    `json:"status"`
	Esc    []string  `json:"esc,omitempty"`
	Text   string    `json:"text,omitempty"`
	Stmts  []lexStmt `json:"stmts,omitempty"`
	Err    string    `json:"err,omitempty"`
	Panic  string    `json:"panic,omitempty"`
	JSON   string    `json:"json,omitempty"`
	Extra  any       `json:"extra,omitempty"`
}

// argvToCmdLine is main.go:argvToCmdLineStr (package main cannot be imported): the same two calls.
func argvToCmdLine(argv []string) ([]string, string) {
	cmdLine := make([]string, len(argv))
	copy(cmdLine, argv)
	escape.CommandLine(cmdLine)
	return cmdLine, strings.Join(cmdLine, " ")
}

// parseText runs the real block parser and then the real statement parser (as executeProcess does)
// on every statement of text.  Nothing is executed.
func parseText(text string, res *lexResult) {
	defer func() {
		if r := recover(); r != nil {
			res.Panic = fmt.Sprint(r)
		}
	}()
	tree, err := lang.ParseBlock([]rune(text))
	if err != nil {
		res.Err = err.Error()
		return
	}
	fork := lang.ShellProcess.Fork(lang.F_FUNCTION | lang.F_NEW_MODULE | lang.F_NO_STDIN | lang.F_CREATE_STDOUT | lang.F_CREATE_STDERR)
	fork.Name.Set("verif")
	for _, fn := range *tree {
		st := lexStmt{Cmd: string(fn.Command)}
		// a fresh process per statement, named like the command (executeProcess passes p itself)
		fork.Process.Name.Set(string(fn.CommandName()))
		name, params, err := lang.ParseStatementParameters(fn.Raw, fork.Process)
		if err != nil {
			st.Err = err.Error()
		} else {
			st.Cmd = name
			st.Params = append([]string{}, params...)
		}
		res.Stmts = append(res.Stmts, st)
	}
}

func lexOne(r lexRow) lexResult {
	res := lexResult{ID: r.ID, Status: "done"}
	switch r.Op {
	case "cmdline":
		res.Esc, res.Text = argvToCmdLine(r.Argv)
		parseText(res.Text, &res)
	case "parse":
		res.Text = r.Text
		parseText(r.Text, &res)
	case "json":
		var v any
		d := json.NewDecoder(strings.NewReader(r.Text))
		d.UseNumber()
		if err := d.Decode(&v); err != nil {
			res.Err = err.Error()
		} else {
			b, _ := jsonNoHTML(v)
			res.JSON = string(b)
		}
	case "unsafe":
		lexUnsafe(r, &res)
	default:
		res.Status = "infra"
		res.Err = "unknown op " + r.Op
	}
	return res
}

func lexerCmd(args []string) int {
	fs := flag.NewFlagSet("lexer", flag.ExitOnError)
	in := fs.String("in", "", "rows ndjson")
	out := fs.String("out", "", "results ndjson")
	hangMs := fs.Int("hang-ms", 3000, "a row that takes longer is reported as hung")
	fs.Parse(args)
	rows, err := readNDJSON[lexRow](*in)
	if err != nil {
		fmt.Fprintln(os.Stderr, err)
		return 2
	}
	w, err := newNDWriter(*out)
	if err != nil {
		fmt.Fprintln(os.Stderr, err)
		return 2
	}
	defer w.Close()
	initMurex()
	for _, r := range rows {
		w.Write(map[string]any{"start": r.ID})
		w.w.Flush()
		done := make(chan lexResult, 1)
		go func(r lexRow) { done <- lexOne(r) }(r)
		select {
		case res := <-done:
			w.Write(res)
		case <-time.After(time.Duration(*hangMs) * time.Millisecond):
			// the parser is spinning: report, and let the driver restart us for the rest
			w.Write(lexResult{ID: r.ID, Status: "hung"})
			w.Close()
			os.Exit(3)
		}
	}
	return 0
}
