package main

// Scheduled replay (binding S) and recorded random drivers (binding V) for
// spec/Stream.tla against builtins/pipes/streams.Stdin.

import (
	"flag"
	"fmt"
	"io"
	"math/rand"
	"os"
	"runtime"
	"sync"
	"sync/atomic"
	"time"

	"github.com/lmorg/murex/builtins/pipes/streams"
	"github.com/lmorg/murex/utils/verifhook"
)

func init() {
	register("stream-replay", streamReplay)
	register("stream-drive", streamDrive)
}

type streamStep struct {
	Act  string `json:"act"`
	ID   int    `json:"id"`
	K    string `json:"k"`
	N    int    `json:"n"`
	Data []int  `json:"data"`
	Err  bool   `json:"err"`
	EOF  bool   `json:"eof"`
	T    string `json:"t"`
	Ty   string `json:"ty"`
	Next string `json:"next"` // acting actor's pc after the step, per the spec
	BW   uint64 `json:"bW"`
	BR   uint64 `json:"bR"`
}

type streamPath struct {
	ID    int          `json:"id"`
	Steps []streamStep `json:"steps"`
}

type replayResult struct {
	ID      int    `json:"id"`
	Status  string `json:"status"` // ok | mismatch | deviation | infra
	Step    int    `json:"step"`
	Clause  string `json:"clause,omitempty"`
	Detail  string `json:"detail,omitempty"`
	Steps   int    `json:"steps"`
	Actions string `json:"actions,omitempty"`
}

type wres struct {
	n   int
	err error
}
type rres struct {
	data []byte
	err  error
}

func ints(b []byte) []int {
	out := make([]int, len(b))
	for i, c := range b {
		out[i] = int(c)
	}
	return out
}

func eqData(b []byte, d []int) bool {
	if len(b) != len(d) {
		return false
	}
	for i := range b {
		if int(b[i]) != d[i] {
			return false
		}
	}
	return true
}

// expected gate after each spec action, given what the spec says the actor's next pc is,
// is derived on the Python side; here we only need to know which notes are acceptable.

func replayStreamPath(p streamPath, maxBuf int) (res replayResult) {
	res.ID = p.ID
	res.Steps = len(p.Steps)
	streams.DefaultMaxBufferSize = maxBuf
	s := streams.NewStdin()
	acts := map[string]*actor{}
	defer func() {
		for _, a := range acts {
			a.stop()
		}
	}()
	// writers, readers, setters and getters are separate actors even when the
	// specification numbers them alike
	get := func(act string, id int) *actor {
		role := act[:1]
		if act == "Open" || act == "Close" {
			role = "W"
		}
		key := fmt.Sprintf("%s%d", role, id)
		a := acts[key]
		if a == nil {
			a = newActor(id)
			acts[key] = a
		}
		return a
	}
	fail := func(i int, status, clause, format string, args ...any) replayResult {
		res.Status = status
		res.Step = i
		res.Clause = clause
		res.Detail = fmt.Sprintf(format, args...)
		return res
	}
	// typers whose SetDataType came back without entering its lock region although the specification stores the type
	// there: not a verdict by itself (nothing was observed yet); the replay goes on and the next observation of the type
	// (GetDataType) is compared with the specification's value
	setSkipped := map[int]bool{}
	for i, st := range p.Steps {
		a := get(st.Act, st.ID)
		var n note
		var err error
		if st.Act == "TSet" && setSkipped[st.ID] {
			delete(setSkipped, st.ID)
			continue
		}
		switch st.Act {
		case "Init":
			continue
		case "Open":
			if n, err = a.start(func() any { s.Open(); return nil }); err == nil && n.parked && n.point == "open" {
				n, err = a.step()
			}
		case "Close":
			if n, err = a.start(func() any { s.Close(); return nil }); err == nil && n.parked && n.point == "close" {
				n, err = a.step()
			}
		case "ForceClose":
			if n, err = a.start(func() any { s.ForceClose(); return nil }); err == nil && n.parked && n.point == "fc" {
				n, err = a.step()
			}
		case "WBegin":
			pl := make([]byte, len(st.Data))
			for j, d := range st.Data {
				pl[j] = byte(d)
			}
			n, err = a.start(func() any { k, e := s.Write(pl); return wres{k, e} })
		case "RBegin":
			if st.N == 0 {
				n, err = a.start(func() any { b, e := s.ReadAll(); return rres{append([]byte{}, b...), e} })
			} else {
				sz := st.N
				n, err = a.start(func() any {
					b := make([]byte, sz)
					k, e := s.Read(b)
					return rres{b[:k], e}
				})
			}
		case "TBegin":
			ty := st.Ty
			n, err = a.start(func() any { s.SetDataType(ty); return nil })
		case "GBegin":
			n, err = a.start(func() any { return s.GetDataType() })
		case "WCheck", "WAppend", "RCheck", "RTake", "RAStart", "RAWait", "RATake", "TSet", "GPoll":
			n, err = a.step()
		default:
			return fail(i, "infra", "", "unknown action %q", st.Act)
		}
		if err != nil {
			if err == errStepTimeout {
				// every other actor is parked outside the lock regions: the real code is blocked
				return fail(i, "blocked", "blocked", "%s(%d): the real code neither returned nor reached its next lock region within 30 s", st.Act, st.ID)
			}
			return fail(i, "infra", "", "%s(%d): %v", st.Act, st.ID, err)
		}
		if n.panic != nil {
			return fail(i, "mismatch", "panic", "%s(%d): real code panicked: %v", st.Act, st.ID, n.panic)
		}
		// ---- compare what the real code did with what the spec says
		expectDone := st.K != "none"
		if n.parked && expectDone {
			// spec: operation returns here; code: still inside (at gate n.point)
			if st.Act == "RCheck" && st.EOF {
				return fail(i, "deviation", "eof-not-reported", "spec: Read returns EOF; code continues at gate %s", n.point)
			}
			return fail(i, "deviation", "still-running", "spec: %s returns (%s); code parked at %s", st.Act, st.K, n.point)
		}
		if !n.parked && !expectDone {
			// code returned although the spec says the operation is still in progress
			switch r := n.result.(type) {
			case rres:
				if r.err == io.EOF {
					return fail(i, "mismatch", "early-eof", "%s(%d): code returned EOF (data %v); spec: reader must keep waiting or take data", st.Act, st.ID, ints(r.data))
				}
				return fail(i, "mismatch", "read-result", "%s(%d): code returned %v,%v where spec continues", st.Act, st.ID, ints(r.data), r.err)
			case wres:
				return fail(i, "mismatch", "write-result", "%s(%d): code returned %d,%v where spec continues", st.Act, st.ID, r.n, r.err)
			case string:
				return fail(i, "mismatch", "type-early", "%s(%d): GetDataType returned %q where spec keeps waiting", st.Act, st.ID, r)
			default:
				if st.Act == "TBegin" {
					setSkipped[st.ID] = true
					continue
				}
				return fail(i, "deviation", "returned-early", "%s(%d): code returned where spec continues", st.Act, st.ID)
			}
		}
		if !n.parked {
			switch st.K {
			case "write":
				r, ok := n.result.(wres)
				if !ok {
					return fail(i, "infra", "", "result type %T", n.result)
				}
				if r.n != st.N || (r.err != nil) != st.Err {
					return fail(i, "mismatch", "write-result", "%s(%d): Write returned (%d,%v); spec (%d, err=%v)", st.Act, st.ID, r.n, r.err, st.N, st.Err)
				}
			case "read":
				r, ok := n.result.(rres)
				if !ok {
					return fail(i, "infra", "", "result type %T", n.result)
				}
				if (r.err == io.EOF) != st.EOF {
					return fail(i, "mismatch", "eof", "%s(%d): Read returned (%v,%v); spec eof=%v data=%v", st.Act, st.ID, ints(r.data), r.err, st.EOF, st.Data)
				}
				if !eqData(r.data, st.Data) {
					return fail(i, "mismatch", "data", "%s(%d): Read returned %v; spec %v", st.Act, st.ID, ints(r.data), st.Data)
				}
			case "readall":
				r, ok := n.result.(rres)
				if !ok {
					return fail(i, "infra", "", "result type %T", n.result)
				}
				if r.err != nil || !eqData(r.data, st.Data) {
					return fail(i, "mismatch", "data", "%s(%d): ReadAll returned (%v,%v); spec %v", st.Act, st.ID, ints(r.data), r.err, st.Data)
				}
			case "gdt":
				r, _ := n.result.(string)
				if r != st.T {
					return fail(i, "mismatch", "type", "%s(%d): GetDataType returned %q; spec %q", st.Act, st.ID, r, st.T)
				}
			}
		} else {
			// still inside the operation: compare where the code is with the spec's pc
			want := map[string]string{"check:W": "w.check", "append:W": "w.append", "check:R": "r.check",
				"take:R": "r.take", "rastart:R": "ra.start", "rawait:R": "ra.wait", "ratake:R": "ra.take",
				"set:T": "sdt", "poll:G": "gdt"}[st.Next+":"+st.Act[:1]]
			if want != n.point {
				if st.Next == "append" && n.point == "w.check" {
					return fail(i, "mismatch", "writer-stuck", "WCheck(%d): spec lets the writer through (buffer below limit or unlimited) but the code keeps waiting", st.ID)
				}
				return fail(i, "deviation", "gate", "%s(%d): spec pc %q (gate %s) but code is at gate %s", st.Act, st.ID, st.Next, want, n.point)
			}
		}
		bw, br := s.Stats()
		if bw != st.BW || br != st.BR {
			return fail(i, "mismatch", "counters", "after %s(%d): Stats()=(%d,%d); spec (%d,%d)", st.Act, st.ID, bw, br, st.BW, st.BR)
		}
	}
	res.Status = "ok"
	return res
}

func streamReplay(args []string) int {
	fs := flag.NewFlagSet("stream-replay", flag.ExitOnError)
	in := fs.String("in", "", "paths ndjson")
	out := fs.String("out", "", "results ndjson")
	maxBuf := fs.Int("maxbuf", 2, "DefaultMaxBufferSize standing for the spec's MaxBuf")
	fs.Parse(args)
	paths, err := readNDJSON[streamPath](*in)
	if err != nil {
		fmt.Fprintln(os.Stderr, err)
		return 2
	}
	installGates()
	w, err := newNDWriter(*out)
	if err != nil {
		fmt.Fprintln(os.Stderr, err)
		return 2
	}
	defer w.Close()
	// DefaultMaxBufferSize is a package variable: replays run sequentially with respect
	// to NewStdin, the behaviours themselves are cheap.
	for _, p := range paths {
		w.Write(replayStreamPath(p, *maxBuf))
	}
	return 0
}

// ---------------------------------------------------------------------------
// V: random concurrent drivers with event recording

type sevent struct {
	T    int    `json:"t"` // trace number
	Seq  int64  `json:"seq"`
	Ev   string `json:"ev"`
	ID   int    `json:"id"`
	S    string `json:"s"`
	A    int64  `json:"a"`
	B    int64  `json:"b"`
	C    int64  `json:"c"`
	Data []int  `json:"data"`
}

type recorder struct {
	mu   sync.Mutex
	seq  int64
	evs  []sevent
	t    int
	last map[int]sevent // per actor: its previous event (to collapse busy-wait repeats)
	hung bool
}

// events a polling loop repeats while nothing changes; an identical repeat by the same
// actor is a stuttering step of the specification and is not logged again
var spinEvents = map[string]bool{"r.check": true, "w.check": true, "ra.wait": true, "gdt": true}

func (r *recorder) add(ev string, id int, s string, n []int64, data []int) {
	r.mu.Lock()
	if r.hung {
		r.mu.Unlock()
		return
	}
	r.seq++
	e := sevent{T: r.t, Seq: r.seq, Ev: ev, ID: id, S: s, Data: data}
	if len(n) > 0 {
		e.A = n[0]
	}
	if len(n) > 1 {
		e.B = n[1]
	}
	if len(n) > 2 {
		e.C = n[2]
	}
	if e.Data == nil {
		e.Data = []int{}
	}
	if r.last == nil {
		r.last = map[int]sevent{}
	}
	if p, ok := r.last[id]; ok && spinEvents[ev] && p.Ev == ev && p.A == e.A && p.B == e.B && p.C == e.C && p.S == e.S {
		r.seq--
		r.mu.Unlock()
		return
	}
	r.last[id] = e
	r.evs = append(r.evs, e)
	r.mu.Unlock()
}

// goroutine-id -> (recorder, actor id) for the drive mode
var driveActors sync.Map

type driveActor struct {
	rec *recorder
	id  int
	rng *rand.Rand
}

var perturb atomic.Bool

func driveGate(obj any, point string) {
	v, ok := driveActors.Load(goid())
	if !ok {
		return
	}
	da := v.(*driveActor)
	switch da.rng.Intn(4) {
	case 0:
		runtime.Gosched()
	case 1:
		time.Sleep(time.Duration(da.rng.Intn(20)) * time.Microsecond)
	}
}

func driveEmit(obj any, ev string, s string, n []int64) {
	v, ok := driveActors.Load(goid())
	if !ok {
		return
	}
	da := v.(*driveActor)
	da.rec.add(ev, da.id, s, n, nil)
}

func streamDrive(args []string) int {
	fs := flag.NewFlagSet("stream-drive", flag.ExitOnError)
	out := fs.String("out", "", "trace ndjson")
	seed := fs.Int64("seed", 1, "seed")
	num := fs.Int("n", 100, "number of traces")
	maxBuf := fs.Int("maxbuf", 4, "DefaultMaxBufferSize")
	types := fs.Bool("types", false, "exercise Set/GetDataType instead of data")
	fc := fs.Bool("forceclose", false, "allow ForceClose")
	storm := fs.Bool("storm", false, "every trace: three writers declare different types at the same instant while two readers ask for the type")
	fs.Parse(args)
	verifhook.Install(&verifhook.Hooks{Gate: driveGate, Emit: driveEmit})
	w, err := newNDWriter(*out)
	if err != nil {
		fmt.Fprintln(os.Stderr, err)
		return 2
	}
	defer w.Close()
	streams.DefaultMaxBufferSize = *maxBuf
	if *types {
		// a reader waiting for the type while a writer waits for buffer space is a
		// deadlock of the usage protocol, not of the pipe: keep writers unblocked here
		streams.DefaultMaxBufferSize = 64
	}
	master := rand.New(rand.NewSource(*seed))
	for t := 1; t <= *num; t++ {
		rec := &recorder{t: t}
		rec.add("reset", 0, "", nil, nil)
		if *storm {
			runTypeStorm(rec, rand.New(rand.NewSource(master.Int63())))
		} else {
			runOneStreamTrace(rec, rand.New(rand.NewSource(master.Int63())), *types, *fc)
		}
		rec.mu.Lock()
		for _, e := range rec.evs {
			w.Write(e)
		}
		hung := rec.hung
		rec.mu.Unlock()
		if hung {
			fmt.Println("HUNG trace", t)
			break
		}
	}
	return 0
}

// runTypeStorm: the writers of a pipe all declare a (different) data type as simultaneously as goroutines
// can, readers ask for the type meanwhile (C02: the first declaration wins and never changes).
func runTypeStorm(rec *recorder, rng *rand.Rand) {
	s := streams.NewStdin()
	var wg sync.WaitGroup
	start := make(chan struct{})
	main := &driveActor{rec: rec, id: 0, rng: rand.New(rand.NewSource(rng.Int63()))}
	g := goid()
	driveActors.Store(g, main)
	for wi := 1; wi <= 3; wi++ {
		main.id = wi
		rec.add("call.open", wi, "", nil, nil)
		s.Open()
	}
	driveActors.Delete(g)
	names := []string{"a", "b", "json"}
	rng.Shuffle(len(names), func(i, j int) { names[i], names[j] = names[j], names[i] })
	for wi := 1; wi <= 3; wi++ {
		wid := wi
		ty := names[wi-1]
		wg.Add(1)
		go func() {
			defer wg.Done()
			da := &driveActor{rec: rec, id: wid, rng: rand.New(rand.NewSource(int64(wid)))}
			gg := goid()
			driveActors.Store(gg, da)
			defer driveActors.Delete(gg)
			<-start
			rec.add("call.sdt", wid, ty, nil, nil)
			s.SetDataType(ty)
			rec.add("ret.sdt", wid, ty, nil, nil)
			rec.add("call.close", wid, "", nil, nil)
			s.Close()
		}()
	}
	for _, rid := range []int{5, 6} {
		rid := rid
		wg.Add(1)
		go func() {
			defer wg.Done()
			da := &driveActor{rec: rec, id: rid, rng: rand.New(rand.NewSource(int64(rid)))}
			gg := goid()
			driveActors.Store(gg, da)
			defer driveActors.Delete(gg)
			<-start
			rec.add("call.gdt", rid, "", nil, nil)
			dt := s.GetDataType()
			rec.add("ret.gdt", rid, dt, nil, nil)
		}()
	}
	close(start)
	wg.Wait()
	bw, br := s.Stats()
	rec.add("stats", 0, "", []int64{int64(bw), int64(br)}, nil)
}

func runOneStreamTrace(rec *recorder, rng *rand.Rand, types, fc bool) {
	s := streams.NewStdin()
	nw := 1 + rng.Intn(3)
	var wg sync.WaitGroup
	spawn := func(id int, seed int64, f func(da *driveActor)) {
		wg.Add(1)
		go func() {
			defer wg.Done()
			da := &driveActor{rec: rec, id: id, rng: rand.New(rand.NewSource(seed))}
			g := goid()
			driveActors.Store(g, da)
			defer driveActors.Delete(g)
			f(da)
		}()
	}
	// protocol: writers are opened before the reader starts (as createProcess does)
	main := &driveActor{rec: rec, id: 0, rng: rand.New(rand.NewSource(rng.Int63()))}
	g := goid()
	driveActors.Store(g, main)
	for wi := 1; wi <= nw; wi++ {
		main.id = wi
		rec.add("call.open", wi, "", nil, nil)
		s.Open()
	}
	main.id = 0
	driveActors.Delete(g)
	typeNames := []string{"", "null", "a", "b", "json"}
	for wi := 1; wi <= nw; wi++ {
		wid := wi
		spawn(wid, rng.Int63(), func(da *driveActor) {
			k := 0
			nwr := da.rng.Intn(4)
			for j := 0; j < nwr; j++ {
				if types && da.rng.Intn(2) == 0 {
					ty := typeNames[da.rng.Intn(len(typeNames))]
					rec.add("call.sdt", wid, ty, nil, nil)
					s.SetDataType(ty)
					rec.add("ret.sdt", wid, ty, nil, nil)
					continue
				}
				sz := da.rng.Intn(4)
				pl := make([]byte, sz)
				d := make([]int, sz)
				for x := range pl {
					pl[x] = byte(16*wid + (k % 16))
					d[x] = int(pl[x])
					k++
				}
				rec.add("call.write", wid, "", []int64{int64(sz)}, d)
				n, err := s.Write(pl)
				e := int64(0)
				if err != nil {
					e = 1
				}
				rec.add("ret.write", wid, "", []int64{int64(n), e}, nil)
			}
			rec.add("call.close", wid, "", nil, nil)
			s.Close()
		})
	}
	// reader (id 5)
	spawn(5, rng.Int63(), func(da *driveActor) {
		if types {
			rec.add("call.gdt", 5, "", nil, nil)
			dt := s.GetDataType()
			rec.add("ret.gdt", 5, dt, nil, nil)
		}
		for {
			c := da.rng.Intn(8)
			if c == 0 {
				rec.add("call.readall", 5, "", nil, nil)
				b, _ := s.ReadAll()
				rec.add("ret.readall", 5, "", nil, ints(b))
				return
			}
			sz := 1 + da.rng.Intn(4)
			rec.add("call.read", 5, "", []int64{int64(sz)}, nil)
			b := make([]byte, sz)
			n, err := s.Read(b)
			e := int64(0)
			if err == io.EOF {
				e = 1
			}
			rec.add("ret.read", 5, "", []int64{int64(n), e}, ints(b[:n]))
			if err != nil {
				return
			}
		}
	})
	if types {
		spawn(6, rng.Int63(), func(da *driveActor) {
			rec.add("call.gdt", 6, "", nil, nil)
			dt := s.GetDataType()
			rec.add("ret.gdt", 6, dt, nil, nil)
		})
	}
	if fc && rng.Intn(3) == 0 {
		spawn(9, rng.Int63(), func(da *driveActor) {
			time.Sleep(time.Duration(da.rng.Intn(50)) * time.Microsecond)
			rec.add("call.fc", 9, "", nil, nil)
			s.ForceClose()
		})
	}
	done := make(chan struct{})
	go func() { wg.Wait(); close(done) }()
	select {
	case <-done:
	case <-time.After(hangAfter):
		// nobody makes progress: record it, then cancel the pipe so the goroutines end
		rec.add("hung", 0, "", nil, nil)
		rec.hung = true
		s.ForceClose()
		select {
		case <-done:
		case <-time.After(hangAfter):
		}
		return
	}
	bw, br := s.Stats()
	rec.add("stats", 0, "", []int64{int64(bw), int64(br)}, nil)
}

var hangAfter = 10 * time.Second
