package main

// arrays-roundtrip (C15): push lists through the real array writer of a data type, capture
// the bytes it produced, and read them back with the type's real ReadArray and
// ReadArrayWithType.  Nothing is judged here: the recorded (input, bytes, output) go to
// spec/ArraysTrace.tla.  `-types` lists the data types registered with both a writer and a
// reader.

import (
	"context"
	"flag"
	"fmt"
	"os"
	"time"

	_ "github.com/lmorg/murex/builtins"
	"github.com/lmorg/murex/builtins/pipes/streams"
	"github.com/lmorg/murex/lang/stdio"
	"github.com/lmorg/murex/lang/types"
)

func init() { register("arrays-roundtrip", arraysRoundtrip) }

type arrCase struct {
	ID    int     `json:"id"`
	Type  string  `json:"type"`
	Elems [][]int `json:"elems"` // byte values
}

type arrResult struct {
	ID     int     `json:"id"`
	Status string  `json:"status"` // ok | error | panic | hung
	Detail string  `json:"detail,omitempty"`
	Raw    []int   `json:"raw"`   // what the writer produced
	Back   [][]int `json:"back"`  // ReadArray callbacks
	Typed  [][]int `json:"typed"` // ReadArrayWithType callbacks converted to text
	TypeOf string  `json:"type_of,omitempty"`
}

func toInts(b []byte) []int {
	out := make([]int, len(b))
	for i := range b {
		out[i] = int(b[i])
	}
	return out
}

func arrOne(c arrCase) (res arrResult) {
	res.ID = c.ID
	res.Raw, res.Back, res.Typed = []int{}, [][]int{}, [][]int{}
	defer func() {
		if r := recover(); r != nil {
			res.Status, res.Detail = "panic", fmt.Sprint(r)
		}
	}()
	// write
	w := streams.NewStdin()
	w.SetDataType(c.Type)
	w.Open()
	type rawT struct {
		b   []byte
		err error
	}
	rawc := make(chan rawT, 1)
	go func() {
		b, err := w.ReadAll()
		rawc <- rawT{b, err}
	}()
	aw, err := w.WriteArray(c.Type)
	if err != nil {
		w.Close()
		res.Status, res.Detail = "error", "WriteArray: "+err.Error()
		return
	}
	for _, e := range c.Elems {
		b := make([]byte, len(e))
		for i := range e {
			b[i] = byte(e[i])
		}
		if err = aw.Write(b); err != nil {
			w.Close()
			res.Status, res.Detail = "error", "ArrayWriter.Write: "+err.Error()
			return
		}
	}
	err = aw.Close()
	w.Close()
	if err != nil {
		res.Status, res.Detail = "error", "ArrayWriter.Close: "+err.Error()
		return
	}
	raw := <-rawc
	if raw.err != nil {
		res.Status, res.Detail = "error", "ReadAll: "+raw.err.Error()
		return
	}
	res.Raw = toInts(raw.b)
	// read back: ReadArray
	r1 := streams.NewStdin()
	r1.SetDataType(c.Type)
	r1.Write(raw.b)
	err = r1.ReadArray(context.Background(), func(b []byte) {
		res.Back = append(res.Back, toInts(b))
	})
	if err != nil {
		res.Status, res.Detail = "error", "ReadArray: "+err.Error()
		return
	}
	// read back: ReadArrayWithType (what foreach uses)
	r2 := streams.NewStdin()
	r2.SetDataType(c.Type)
	r2.Write(raw.b)
	err = r2.ReadArrayWithType(context.Background(), func(v any, dt string) {
		res.TypeOf = dt
		s, cerr := types.ConvertGoType(v, types.String)
		if cerr != nil {
			s = fmt.Sprint(v)
		}
		res.Typed = append(res.Typed, toInts([]byte(s.(string))))
	})
	if err != nil {
		res.Status, res.Detail = "error", "ReadArrayWithType: "+err.Error()
		return
	}
	res.Status = "ok"
	return
}

func arraysRoundtrip(args []string) int {
	fs := flag.NewFlagSet("arrays-roundtrip", flag.ExitOnError)
	in := fs.String("in", "", "cases ndjson")
	out := fs.String("out", "", "results ndjson")
	listTypes := fs.Bool("types", false, "write the data types registered with both WriteArray and ReadArray to -out")
	fs.Parse(args)
	initMurex()
	w, err := newNDWriter(*out)
	if err != nil {
		fmt.Fprintln(os.Stderr, err)
		return 2
	}
	defer w.Close()
	if *listTypes {
		rd := map[string]bool{}
		for _, t := range stdio.DumpReadArray() {
			rd[t] = true
		}
		rdT := map[string]bool{}
		for _, t := range stdio.DumpReadArrayWithType() {
			rdT[t] = true
		}
		for _, t := range stdio.DumpWriteArray() {
			if rd[t] {
				w.Write(map[string]any{"type": t, "with_type": rdT[t]})
			}
		}
		return 0
	}
	cases, err := readNDJSON[arrCase](*in)
	if err != nil {
		fmt.Fprintln(os.Stderr, err)
		return 2
	}
	for _, c := range cases {
		w.Write(map[string]any{"start": c.ID})
		w.w.Flush()
		done := make(chan arrResult, 1)
		go func() { done <- arrOne(c) }()
		select {
		case r := <-done:
			w.Write(r)
		case <-time.After(30 * time.Second):
			w.Write(arrResult{ID: c.ID, Status: "hung", Raw: []int{}, Back: [][]int{}, Typed: [][]int{}})
			w.Close()
			return 3
		}
	}
	return 0
}
