package main

// scopes-run: execute murex programs rendered from spec/Scopes.tla histories either the way
// run-programs does (the program body is an F_FUNCTION fork of the shell process) or at
// SESSION level, i.e. exactly like the interactive shell runs a command line
// (shell/shell.go: ShellProcess.Fork(F_PARENT_VARTABLE | F_NEW_MODULE | F_NO_STDIN)), so that
// `config set` in the program body writes the session's own config table (C25).

import (
	"encoding/base64"
	"flag"
	"fmt"
	"os"
	"strings"
	"time"

	"github.com/lmorg/murex/app"
	"github.com/lmorg/murex/lang"
	"github.com/lmorg/murex/lang/ref"
)

func init() { register("scopes-run", scopesRun) }

type scopesCase struct {
	ID        int    `json:"id"`
	Src       string `json:"src"`
	TimeoutMs int    `json:"timeout_ms"`
	Level     string `json:"level"` // "session" | "function"
}

func runAtLevel(src string, level string, seq int, timeout time.Duration) (r progRun) {
	var fork *lang.Fork
	if level == "session" {
		fork = lang.ShellProcess.Fork(lang.F_PARENT_VARTABLE | lang.F_NEW_MODULE | lang.F_NO_STDIN | lang.F_CREATE_STDOUT | lang.F_CREATE_STDERR)
		fork.FileRef = ref.NewModule(app.ShellModule)
	} else {
		fork = lang.ShellProcess.Fork(lang.F_FUNCTION | lang.F_NEW_MODULE | lang.F_NO_STDIN | lang.F_CREATE_STDOUT | lang.F_CREATE_STDERR)
		fork.Name.Set("verif")
		fork.FileRef = &ref.File{Source: &ref.Source{Module: fmt.Sprintf("verif/s%d", seq)}}
	}
	type execRes struct {
		exit int
		err  error
		pan  any
	}
	done := make(chan execRes, 1)
	go func() {
		defer func() {
			if x := recover(); x != nil {
				done <- execRes{pan: x}
			}
		}()
		e, err := fork.Execute([]rune(src))
		done <- execRes{exit: e, err: err}
	}()
	select {
	case x := <-done:
		if x.pan != nil {
			r.Panic = fmt.Sprint(x.pan)
			return
		}
		r.Exit = x.exit
		if x.err != nil {
			r.ExecE = x.err.Error()
		}
	case <-time.After(timeout):
		r.Hung = true
		return
	}
	bErr, _ := fork.Stderr.ReadAll()
	bOut, _ := fork.Stdout.ReadAll()
	r.Out = base64.StdEncoding.EncodeToString(bOut)
	r.Err = base64.StdEncoding.EncodeToString(bErr)
	if s := string(bErr); strings.Contains(s, "panic caught") || strings.Contains(s, "Murex has crashed") {
		r.Panic = "panic caught (stderr)"
	}
	return
}

func scopesRun(args []string) int {
	fs := flag.NewFlagSet("scopes-run", flag.ExitOnError)
	in := fs.String("in", "", "cases ndjson")
	out := fs.String("out", "", "results ndjson")
	fs.Parse(args)
	cases, err := readNDJSON[scopesCase](*in)
	if err != nil {
		fmt.Fprintln(os.Stderr, err)
		return 2
	}
	f, err := os.Create(*out)
	if err != nil {
		fmt.Fprintln(os.Stderr, err)
		return 2
	}
	defer f.Close()
	emit := func(v any) {
		b, _ := jsonMarshal(v)
		f.Write(append(b, '\n'))
	}
	initMurex()
	for k, c := range cases {
		emit(map[string]any{"start": c.ID})
		to := time.Duration(c.TimeoutMs) * time.Millisecond
		if to == 0 {
			to = 10 * time.Second
		}
		res := progResult{ID: c.ID, Status: "done"}
		r := runAtLevel(c.Src, c.Level, k, to)
		res.Runs = append(res.Runs, r)
		if r.Hung {
			res.Status = "hung"
			emit(res)
			f.Sync()
			return 3
		}
		emit(res)
	}
	return 0
}
