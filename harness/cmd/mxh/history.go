package main

// hist-replay: replay (binding G) of spec/History.tla behaviours on the real
// shell/history package with real files.  Open = history.New, Write = History.Write,
// Crash = History.Write followed by cutting the file back to a byte offset inside the
// bytes that write appended (every offset of a sweep is continued separately).

import (
	"flag"
	"fmt"
	"io"
	"os"
	"path/filepath"
	"strings"
	"time"

	"github.com/lmorg/murex/shell/history"
)

func init() { register("hist-replay", histReplay) }

type histText struct {
	Unit string `json:"unit"`
	Rep  int    `json:"rep"`
	Tail string `json:"tail"`
}

// where a crash cuts the append: abs = n bytes written, end = all but n+1 bytes,
// frac = n/1000 of the way through the interior, sweep = every stride-th offset from n
// plus the last ones
type histPos struct {
	Mode   string `json:"mode"`
	N      int    `json:"n"`
	Stride int    `json:"stride"`
}

type histStep struct {
	Act     string     `json:"act"`
	E       string     `json:"e"`
	At      string     `json:"at"`
	Pos     *histPos   `json:"pos"`
	Allowed [][]string `json:"allowed"`
}

type histRow struct {
	ID    int                 `json:"id"`
	Texts map[string]histText `json:"texts"`
	Steps []histStep          `json:"steps"`
}

type histWrite struct {
	E    string `json:"e"`
	Done bool   `json:"done"`
	Len  int    `json:"len"` // bytes the append put on the file (with the newline)
	Off  int    `json:"off"` // bytes of it left on the file
}

type histFail struct {
	Step     int         `json:"step"`
	Clause   string      `json:"clause"`
	Detail   string      `json:"detail"`
	Observed []string    `json:"observed"`
	Writes   []histWrite `json:"writes"`
}

type histResult struct {
	ID       int       `json:"id"`
	Status   string    `json:"status"` // ok | mismatch | infra
	Fail     *histFail `json:"fail,omitempty"`
	NFail    int       `json:"nfail"`   // continuations (crash offsets) that failed
	Loads    int       `json:"loads"`   // loads compared with the specification
	Conts    int       `json:"conts"`   // crash offsets continued
	MaxLine  int       `json:"maxline"` // longest line put on a file
	InfraMsg string    `json:"infra,omitempty"`
	Ms       int64     `json:"ms"`
}

type histRunner struct {
	row    histRow
	file   string
	text   map[string]string
	token  map[string]string
	h      *history.History
	writes []histWrite
	res    *histResult
}

func collapse(l []string) []string {
	out := []string{}
	for i, s := range l {
		if i == 0 || l[i-1] != s {
			out = append(out, s)
		}
	}
	return out
}

func sameList(a, b []string) bool {
	if len(a) != len(b) {
		return false
	}
	for i := range a {
		if a[i] != b[i] {
			return false
		}
	}
	return true
}

type histInfra string

func histSize(path string) int64 {
	fi, err := os.Stat(path)
	if err != nil {
		return 0
	}
	return fi.Size()
}

// histTail returns the bytes of the file from offset base
func histTail(path string, base int64) ([]byte, error) {
	f, err := os.Open(path)
	if err != nil {
		return nil, err
	}
	defer f.Close()
	if _, err := f.Seek(base, io.SeekStart); err != nil {
		return nil, err
	}
	return io.ReadAll(f)
}

// histCut makes the file its first base bytes followed by part
func histCut(path string, base int64, part []byte) error {
	f, err := os.OpenFile(path, os.O_WRONLY, 0600)
	if err != nil {
		return err
	}
	defer f.Close()
	if err := f.Truncate(base); err != nil {
		return err
	}
	_, err = f.WriteAt(part, base)
	return err
}

func (r *histRunner) fail(i int, clause, format string, args ...any) *histFail {
	w := make([]histWrite, len(r.writes))
	copy(w, r.writes)
	return &histFail{Step: i, Clause: clause, Detail: fmt.Sprintf(format, args...), Writes: w}
}

func (r *histRunner) offsets(p *histPos, at string, n int) []int {
	// n = bytes of the append; a crash leaves 0..n-1 of them
	last := n - 1
	switch {
	case p == nil && at == "nothing":
		return []int{0}
	case p == nil && at == "allbutnl":
		return []int{last}
	case p == nil:
		return []int{1 + (n-2)/2}
	}
	clamp := func(x int) int {
		if x < 0 {
			return 0
		}
		if x > last {
			return last
		}
		return x
	}
	switch p.Mode {
	case "abs":
		return []int{clamp(p.N)}
	case "end":
		return []int{clamp(last - p.N)}
	case "frac":
		if n <= 2 {
			return []int{clamp(1)}
		}
		return []int{clamp(1 + p.N*(n-2)/1000)}
	case "sweep":
		st := p.Stride
		if st < 1 {
			st = 1
		}
		seen := map[int]bool{}
		var out []int
		add := func(x int) {
			x = clamp(x)
			if !seen[x] {
				seen[x] = true
				out = append(out, x)
			}
		}
		for x := p.N % st; x <= last; x += st {
			add(x)
		}
		for x := 0; x < 4; x++ { // the ends always
			add(x)
			add(last - x)
		}
		return out
	}
	panic(histInfra("unknown crash position mode " + p.Mode))
}

// run executes steps i.. ; returns the first failure
func (r *histRunner) run(i int) *histFail {
	for ; i < len(r.row.Steps); i++ {
		st := r.row.Steps[i]
		switch st.Act {
		case "Init":
		case "Open":
			h, err := history.New(r.file)
			if err != nil || h == nil {
				return r.fail(i, "open-error", "history.New: %v", err)
			}
			r.h = h
			obs := []string{}
			for k := 0; k < h.Len(); k++ {
				s, err := h.GetLine(k)
				if err != nil {
					return r.fail(i, "getline-error", "GetLine(%d) with Len()=%d: %v", k, h.Len(), err)
				}
				t, ok := r.token[s]
				if !ok {
					t = fmt.Sprintf("?%d:%.40q", len(s), s)
				}
				obs = append(obs, t)
			}
			r.res.Loads++
			c := collapse(obs)
			ok := false
			for _, a := range st.Allowed {
				if sameList(c, a) {
					ok = true
					break
				}
			}
			if !ok {
				f := r.fail(i, "load", "a new session loads %v; specification allows %v", c, st.Allowed)
				f.Observed = obs
				return f
			}
		case "Write", "Crash":
			if r.h == nil {
				panic(histInfra("write without a session"))
			}
			txt, ok := r.text[st.E]
			if !ok {
				panic(histInfra("no text for entry " + st.E))
			}
			base := histSize(r.file)
			if _, err := r.h.Write(txt); err != nil {
				return r.fail(i, "write-error", "History.Write: %v", err)
			}
			if histSize(r.file) < base {
				// the file shrank: nothing to cut for a crash; a completed write is judged by the loads that follow
				if st.Act == "Crash" {
					panic(histInfra("History.Write did not append: a crash inside it cannot be simulated"))
				}
				r.writes = append(r.writes, histWrite{E: st.E, Done: true, Len: 0, Off: 0})
				continue
			}
			w, err := histTail(r.file, base)
			if err != nil {
				return r.fail(i, "write-error", "history file unreadable after History.Write: %v", err)
			}
			if len(w) == 0 && st.Act == "Crash" {
				// nothing was appended (e.g. a duplicate that is not written twice): the session just dies
				r.writes = append(r.writes, histWrite{E: st.E, Done: false, Len: 0, Off: 0})
				r.h = nil
				r.res.Conts++
				continue
			}
			if len(w) > r.res.MaxLine {
				r.res.MaxLine = len(w)
			}
			if st.Act == "Write" {
				r.writes = append(r.writes, histWrite{E: st.E, Done: true, Len: len(w), Off: len(w)})
				continue
			}
			saved := r.writes
			var first *histFail
			for _, off := range r.offsets(st.Pos, st.At, len(w)) {
				if err := histCut(r.file, base, w[:off]); err != nil {
					panic(histInfra(err.Error()))
				}
				r.writes = append(append([]histWrite{}, saved...), histWrite{E: st.E, Done: false, Len: len(w), Off: off})
				r.h = nil
				r.res.Conts++
				if f := r.run(i + 1); f != nil {
					r.res.NFail++
					if first == nil {
						first = f
					}
				}
			}
			return first
		default:
			panic(histInfra("unknown action " + st.Act))
		}
	}
	return nil
}

func replayHistRow(row histRow, dir string) (res histResult) {
	res.ID = row.ID
	t0 := time.Now()
	defer func() { res.Ms = time.Since(t0).Milliseconds() }()
	r := &histRunner{row: row, text: map[string]string{}, token: map[string]string{}, res: &res}
	r.file = filepath.Join(dir, fmt.Sprintf("hist-%d.json", row.ID))
	os.Remove(r.file)
	defer os.Remove(r.file)
	for k, t := range row.Texts {
		s := strings.Repeat(t.Unit, t.Rep) + t.Tail
		r.text[k] = s
		r.token[strings.TrimSpace(s)] = k
	}
	if len(r.token) != len(r.text) {
		res.Status, res.InfraMsg = "infra", "entry texts are not distinct"
		return
	}
	defer func() {
		if x := recover(); x != nil {
			if m, ok := x.(histInfra); ok {
				res.Status, res.InfraMsg = "infra", string(m)
				return
			}
			res.Status = "mismatch"
			res.Fail = r.fail(-1, "panic", "real code panicked: %v", x)
		}
	}()
	if f := r.run(0); f != nil {
		res.Status, res.Fail = "mismatch", f
		return
	}
	res.Status = "ok"
	return
}

func histReplay(args []string) int {
	fs := flag.NewFlagSet("hist-replay", flag.ExitOnError)
	in := fs.String("in", "", "rows ndjson")
	out := fs.String("out", "", "results ndjson")
	dir := fs.String("dir", "", "directory for the history files")
	fs.Parse(args)
	rows, err := readNDJSON[histRow](*in)
	if err != nil {
		fmt.Fprintln(os.Stderr, err)
		return 2
	}
	w, err := newNDWriter(*out)
	if err != nil {
		fmt.Fprintln(os.Stderr, err)
		return 2
	}
	defer w.Close()
	d, err := os.MkdirTemp(*dir, "hist")
	if err != nil {
		fmt.Fprintln(os.Stderr, err)
		return 2
	}
	defer os.RemoveAll(d)
	initMurex()
	for _, row := range rows {
		w.Write(replayHistRow(row, d))
	}
	return 0
}
