package main

// flags-parse (C24): call the real parameters.ParseFlags on the inputs of the case table
// exported by spec/FlagsGen.tla and report what it returned.  No judgement here: the
// driver compares the report with the specification's expected values.
//
// ParseFlags may loop forever (alias cycle): every call runs in its own goroutine with a
// per-case timeout.  A goroutine that does not return cannot be stopped, so after a timeout
// the case is reported as "hung" and the process exits with status 3; the driver restarts
// it for the remaining cases.

import (
	"flag"
	"fmt"
	"os"
	"sort"
	"strconv"
	"time"

	"github.com/lmorg/murex/lang/parameters"
)

func init() { register("flags-parse", flagsParse) }

type flagsEntry struct {
	Name string `json:"name"`
	Ty   string `json:"ty"`
}

type flagsCase struct {
	ID        int          `json:"id"`
	Table     []flagsEntry `json:"table"`
	AA        bool         `json:"aa"`
	II        bool         `json:"ii"`
	Strict    bool         `json:"strict"`
	Params    []string     `json:"params"`
	TimeoutMs int          `json:"timeout_ms"`
}

type flagsValue struct {
	Name string `json:"name"`
	Kind string `json:"kind"` // Go type of the stored value: str int num bool other
	Text string `json:"text"` // canonical text of the value
}

type flagsResult struct {
	ID         int          `json:"id"`
	Status     string       `json:"status"` // ok | hung | panic
	Err        bool         `json:"err"`
	ErrText    string       `json:"err_text"`
	NilFlags   bool         `json:"nil_flags"`
	Flags      []flagsValue `json:"flags"`
	Additional []string     `json:"additional"`
	Detail     string       `json:"detail,omitempty"`
}

func flagsDescribe(name string, v any) flagsValue {
	switch t := v.(type) {
	case string:
		return flagsValue{name, "str", t}
	case int:
		return flagsValue{name, "int", strconv.Itoa(t)}
	case float64:
		return flagsValue{name, "num", strconv.FormatFloat(t, 'g', -1, 64)}
	case bool:
		return flagsValue{name, "bool", strconv.FormatBool(t)}
	default:
		return flagsValue{name, "other", fmt.Sprintf("%T:%v", v, v)}
	}
}

func flagsCallOnce(c flagsCase) (res flagsResult) {
	res.ID = c.ID
	res.Flags = []flagsValue{}
	res.Additional = []string{}
	defer func() {
		if r := recover(); r != nil {
			res.Status, res.Detail = "panic", fmt.Sprint(r)
		}
	}()
	args := &parameters.Arguments{
		AllowAdditional:     c.AA,
		IgnoreInvalidFlags:  c.II,
		StrictFlagPlacement: c.Strict,
		Flags:               map[string]string{},
	}
	for _, e := range c.Table {
		args.Flags[e.Name] = e.Ty
	}
	params := append([]string{}, c.Params...) // ParseFlags rewrites aliases in place
	flags, additional, err := parameters.ParseFlags(params, args)
	res.Status = "ok"
	if err != nil {
		res.Err, res.ErrText = true, err.Error()
	}
	res.NilFlags = flags == nil
	if flags != nil {
		m := flags.GetMap()
		for k, v := range m {
			res.Flags = append(res.Flags, flagsDescribe(k, v))
		}
		sort.Slice(res.Flags, func(i, j int) bool { return res.Flags[i].Name < res.Flags[j].Name })
	}
	if additional != nil {
		res.Additional = additional
	}
	return res
}

func flagsParse(args []string) int {
	fs := flag.NewFlagSet("flags-parse", flag.ExitOnError)
	in := fs.String("in", "", "cases ndjson")
	out := fs.String("out", "", "results ndjson")
	fs.Parse(args)
	cases, err := readNDJSON[flagsCase](*in)
	if err != nil {
		fmt.Fprintln(os.Stderr, err)
		return 2
	}
	w, err := newNDWriter(*out)
	if err != nil {
		fmt.Fprintln(os.Stderr, err)
		return 2
	}
	defer w.Close()
	for _, c := range cases {
		to := time.Duration(c.TimeoutMs) * time.Millisecond
		if to == 0 {
			to = 500 * time.Millisecond
		}
		done := make(chan flagsResult, 1)
		go func(c flagsCase) { done <- flagsCallOnce(c) }(c)
		select {
		case r := <-done:
			w.Write(r)
		case <-time.After(to):
			w.Write(flagsResult{ID: c.ID, Status: "hung", Flags: []flagsValue{}, Additional: []string{},
				Detail: fmt.Sprintf("ParseFlags did not return within %v", to)})
			w.Close()
			os.Exit(3)
		}
	}
	return 0
}
