package main

// Lifecycle event log (spec/LifecycleTrace.tla): the verif gates of the block scheduler
// (lang/interpreter_pc.go rm.spawn) and of the process goroutines (lang/process.go proc.*) are
// logged in one total order (a global mutex: the order of the log is an order in which the gates
// were really passed).  Used by `run-programs -lcevents`.

import (
	"fmt"
	"strings"
	"sync"

	"github.com/lmorg/murex/lang"
)

type lcEvent struct {
	Ev    string   `json:"ev"`
	Case  int      `json:"case,omitempty"`
	Block string   `json:"block,omitempty"`
	Fids  []int64  `json:"fids,omitempty"`
	Names []string `json:"names,omitempty"`
	Fid   int64    `json:"fid,omitempty"`
	Name  string   `json:"name,omitempty"`
}

var lcLog struct {
	sync.Mutex
	evs []lcEvent
}

func lcMark(ev string, id int) {
	lcLog.Lock()
	lcLog.evs = append(lcLog.evs, lcEvent{Ev: ev, Case: id})
	lcLog.Unlock()
}

func lcGate(obj any, point string) {
	switch {
	case point == "rm.spawn":
		procs, ok := obj.(*[]lang.Process)
		if !ok {
			return
		}
		e := lcEvent{Ev: point, Block: fmt.Sprintf("%p", procs)}
		for i := range *procs {
			e.Fids = append(e.Fids, int64((*procs)[i].Id))
			e.Names = append(e.Names, (*procs)[i].Name.String())
		}
		lcLog.Lock()
		lcLog.evs = append(lcLog.evs, e)
		lcLog.Unlock()
	case strings.HasPrefix(point, "proc."):
		p, ok := obj.(*lang.Process)
		if !ok {
			return
		}
		e := lcEvent{Ev: point, Fid: int64(p.Id), Name: p.Name.String()}
		lcLog.Lock()
		lcLog.evs = append(lcLog.evs, e)
		lcLog.Unlock()
	}
}

// Stream-use log (spec/StreamUse.tla): how the interpreter itself uses every pipe it creates while programs run:
// open / close with the dependents counter as the pipe saw it under its own mutex, and appends.
type suEvent struct {
	Ev   string `json:"ev"`
	Case int    `json:"case,omitempty"`
	Obj  int    `json:"o,omitempty"`
	N    int64  `json:"n"`
}

var suLog struct {
	sync.Mutex
	evs []suEvent
	ids map[any]int
}

func suMark(ev string, id int) {
	suLog.Lock()
	suLog.evs = append(suLog.evs, suEvent{Ev: ev, Case: id})
	suLog.Unlock()
}

func suEmit(obj any, ev string, s string, n []int64) {
	if ev != "open" && ev != "close" && ev != "w.append" && ev != "fc" {
		return
	}
	suLog.Lock()
	if suLog.ids == nil {
		suLog.ids = map[any]int{}
	}
	id, ok := suLog.ids[obj]
	if !ok {
		id = len(suLog.ids) + 1
		suLog.ids[obj] = id
	}
	e := suEvent{Ev: ev, Obj: id}
	if len(n) > 0 {
		e.N = n[0]
	}
	suLog.evs = append(suLog.evs, e)
	suLog.Unlock()
}
