package main

// run-programs: execute murex programs (rendered from TLC-generated cases) in-process
// through the real interpreter and report stdout, stderr, exit number, crash markers,
// hangs and FIDs left registered.

import (
	"encoding/base64"
	"flag"
	"fmt"
	"math/rand"
	"os"
	"runtime"
	"sort"
	"strings"
	"sync"
	"sync/atomic"
	"time"

	_ "github.com/lmorg/murex/builtins"
	"github.com/lmorg/murex/config"
	"github.com/lmorg/murex/config/defaults"
	"github.com/lmorg/murex/lang"
	"github.com/lmorg/murex/lang/ref"
	"github.com/lmorg/murex/utils/verifhook"
)

func init() { register("run-programs", runPrograms) }

type progCase struct {
	ID        int    `json:"id"`
	Src       string `json:"src"`
	Repeat    int    `json:"repeat"`
	TimeoutMs int    `json:"timeout_ms"`
	Fids      bool   `json:"fids"` // report FIDs still registered after the program
	// Pre: programs run before Src, each as a module of its own (definitions stay: functions, aliases and privates are
	// session-wide tables keyed by module); their output is dropped
	Pre []string `json:"pre"`
}

type fidEvent struct {
	Ev     string `json:"ev"`
	Fid    int64  `json:"fid"`
	Parent int64  `json:"parent"`
	Left   []int  `json:"left"`
}

// fidLog records FID table events in the order of the table's mutex
var fidLog struct {
	sync.Mutex
	on     bool
	evs    []fidEvent
	rootOf map[int64]int64
}

func fidEmit(obj any, ev string, s string, n []int64) {
	if ev != "fid.reg" && ev != "fid.dereg" {
		return
	}
	fidLog.Lock()
	e := fidEvent{Ev: ev, Fid: n[0], Left: []int{}}
	if ev == "fid.reg" {
		e.Parent = n[1]
		r, ok := fidLog.rootOf[e.Parent]
		if !ok || e.Parent == 0 {
			r = e.Fid
		}
		fidLog.rootOf[e.Fid] = r
	}
	fidLog.evs = append(fidLog.evs, e)
	fidLog.Unlock()
}

type progRun struct {
	Out    string `json:"out"` // base64
	Err    string `json:"err"` // base64
	Exit   int    `json:"exit"`
	Hung   bool   `json:"hung,omitempty"`
	Panic  string `json:"panic,omitempty"`
	ExecE  string `json:"exec_err,omitempty"`
	Stacks string `json:"stacks,omitempty"`
	Fids   []int  `json:"fids_left,omitempty"`
	NFids  int    `json:"fids_used,omitempty"`
}

type progResult struct {
	ID     int       `json:"id"`
	Status string    `json:"status"`
	Runs   []progRun `json:"runs"`
}

var murexInit sync.Once

func initMurex() {
	murexInit.Do(func() {
		defaults.Config(config.InitConf, false)
		lang.InitEnv()
	})
}

func liveFids() map[uint32]bool {
	out := map[uint32]bool{}
	for _, p := range lang.GlobalFIDs.ListAll() {
		out[p.Id] = true
	}
	return out
}

var progSeq atomic.Int64

func runOneProgram(src string, timeout time.Duration, wantFids bool) (r progRun) {
	seq := progSeq.Add(1)
	fork := lang.ShellProcess.Fork(lang.F_FUNCTION | lang.F_NEW_MODULE | lang.F_NO_STDIN | lang.F_CREATE_STDOUT | lang.F_CREATE_STDERR)
	fork.Name.Set("verif")
	fork.FileRef = &ref.File{Source: &ref.Source{Module: fmt.Sprintf("verif/m%d", seq)}}
	type execRes struct {
		exit int
		err  error
		pan  any
	}
	done := make(chan execRes, 1)
	go func() {
		defer func() {
			if x := recover(); x != nil {
				done <- execRes{pan: x}
			}
		}()
		e, err := fork.Execute([]rune(src))
		done <- execRes{exit: e, err: err}
	}()
	select {
	case x := <-done:
		if x.pan != nil {
			r.Panic = fmt.Sprint(x.pan)
			return
		}
		r.Exit = x.exit
		if x.err != nil {
			r.ExecE = x.err.Error()
		}
	case <-time.After(timeout):
		r.Hung = true
		buf := make([]byte, 1<<20)
		n := runtime.Stack(buf, true)
		r.Stacks = string(buf[:n])
		return
	}
	bErr, _ := fork.Stderr.ReadAll()
	bOut, _ := fork.Stdout.ReadAll()
	r.Out = base64.StdEncoding.EncodeToString(bOut)
	r.Err = base64.StdEncoding.EncodeToString(bErr)
	if s := string(bErr); strings.Contains(s, "panic caught") || strings.Contains(s, "Murex has crashed") {
		r.Panic = "panic caught (stderr)"
	}
	if wantFids {
		// quiescence: deregistration is asynchronous; poll until no FID of this program
		// (root = the fork's FID) is left, or 2 s
		root := int64(fork.Id)
		var left []int
		deadline := time.Now().Add(2 * time.Second)
		for {
			left = left[:0]
			now := liveFids()
			fidLog.Lock()
			for id := range now {
				if fidLog.rootOf[int64(id)] == root {
					left = append(left, int(id))
				}
			}
			fidLog.Unlock()
			if len(left) == 0 || time.Now().After(deadline) {
				break
			}
			time.Sleep(2 * time.Millisecond)
		}
		sort.Ints(left)
		r.Fids = left
		fidLog.Lock()
		fidLog.evs = append(fidLog.evs, fidEvent{Ev: "quiet", Fid: root, Left: append([]int{}, left...)})
		fidLog.Unlock()
	}
	return
}

func runPrograms(args []string) int {
	fs := flag.NewFlagSet("run-programs", flag.ExitOnError)
	in := fs.String("in", "", "cases ndjson")
	out := fs.String("out", "", "results ndjson")
	perturbSeed := fs.Int64("perturb", 0, "if non-zero: yield/sleep randomly at the verif gates (seed)")
	conc := fs.Int("conc", 1, "programs executed concurrently")
	events := fs.String("events", "", "write the FID table event log here (ndjson)")
	npevents := fs.String("npevents", "", "write the event log of the global named-pipe registry (names a, b, c) here (ndjson)")
	suevents := fs.String("suevents", "", "write the log of how the interpreter uses its pipes (open/close/append per pipe) here (ndjson)")
	lcevents := fs.String("lcevents", "", "write the log of the scheduler / process life-cycle gates here (ndjson)")
	fs.Parse(args)
	cases, err := readNDJSON[progCase](*in)
	if err != nil {
		fmt.Fprintln(os.Stderr, err)
		return 2
	}
	f, err := os.Create(*out)
	if err != nil {
		fmt.Fprintln(os.Stderr, err)
		return 2
	}
	defer f.Close()
	var emu sync.Mutex
	emit := func(v any) {
		b, _ := jsonMarshal(v)
		emu.Lock()
		f.Write(append(b, '\n'))
		emu.Unlock()
	}
	initMurex()
	hooks := &verifhook.Hooks{}
	if *events != "" {
		fidLog.on = true
		fidLog.rootOf = map[int64]int64{}
		hooks.Emit = fidEmit
	}
	var npMu sync.Mutex
	var npLog []npEvent
	if *npevents != "" {
		prev := hooks.Emit
		hooks.Emit = func(obj any, ev string, s string, n []int64) {
			if strings.HasPrefix(ev, "np.") {
				if obj == any(&lang.GlobalPipes) && (s == "a" || s == "b" || s == "c") {
					e := npEvent{Ev: ev, Name: s}
					if len(n) > 0 {
						e.Ok = int(n[0])
					}
					npMu.Lock()
					npLog = append(npLog, e)
					npMu.Unlock()
				}
				return
			}
			if prev != nil {
				prev(obj, ev, s, n)
			}
		}
		defer func() {
			time.Sleep(2600 * time.Millisecond) // let the close timers of the last programs fire
			w, err := newNDWriter(*npevents)
			if err == nil {
				w.Write(npEvent{Ev: "reset"})
				npMu.Lock()
				for _, e := range npLog {
					w.Write(e)
				}
				npMu.Unlock()
				w.Close()
			}
		}()
	}
	if *perturbSeed != 0 {
		var mu sync.Mutex
		rng := rand.New(rand.NewSource(*perturbSeed))
		hooks.Gate = func(obj any, point string) {
			mu.Lock()
			c := rng.Intn(32)
			d := rng.Intn(50)
			mu.Unlock()
			switch {
			case c < 12:
				runtime.Gosched()
			case c < 16:
				time.Sleep(time.Duration(d) * time.Microsecond)
			case c == 16 || (c < 20 && point == "proc.exec"):
				// now and then hold a goroutine back for long enough to let others overtake it
				// (more often where a process is about to start: a late starter is the
				// interesting schedule for everything that waits for "the previous process")
				time.Sleep(time.Duration(d*40) * time.Microsecond)
			}
		}
	}
	if *suevents != "" {
		prev := hooks.Emit
		hooks.Emit = func(obj any, ev string, s string, n []int64) {
			suEmit(obj, ev, s, n)
			if prev != nil {
				prev(obj, ev, s, n)
			}
		}
		defer func() {
			time.Sleep(200 * time.Millisecond)
			w, err := newNDWriter(*suevents)
			if err == nil {
				suLog.Lock()
				for _, e := range suLog.evs {
					w.Write(e)
				}
				suLog.Unlock()
				w.Close()
			}
		}()
	}
	if *lcevents != "" {
		prev := hooks.Gate
		hooks.Gate = func(obj any, point string) {
			lcGate(obj, point)
			if prev != nil {
				prev(obj, point)
			}
		}
		defer func() {
			time.Sleep(200 * time.Millisecond) // the deregistration goroutines of the last program
			w, err := newNDWriter(*lcevents)
			if err == nil {
				lcLog.Lock()
				for _, e := range lcLog.evs {
					w.Write(e)
				}
				lcLog.Unlock()
				w.Close()
			}
		}()
	}
	verifhook.Install(hooks)
	defer func() {
		if *events != "" {
			w, err := newNDWriter(*events)
			if err == nil {
				fidLog.Lock()
				for _, e := range fidLog.evs {
					w.Write(e)
				}
				fidLog.Unlock()
				w.Close()
			}
		}
	}()
	if *conc > 1 {
		// concurrent mode: no hang isolation (a hung program blocks only its worker until its timeout)
		var wg sync.WaitGroup
		ch := make(chan progCase)
		for k := 0; k < *conc; k++ {
			wg.Add(1)
			go func() {
				defer wg.Done()
				for c := range ch {
					to := time.Duration(c.TimeoutMs) * time.Millisecond
					if to == 0 {
						to = 10 * time.Second
					}
					res := progResult{ID: c.ID, Status: "done"}
					r := runOneProgram(c.Src, to, c.Fids)
					if r.Hung {
						res.Status = "hung"
					}
					res.Runs = append(res.Runs, r)
					emit(res)
				}
			}()
		}
		for _, c := range cases {
			ch <- c
		}
		close(ch)
		wg.Wait()
		return 0
	}
	for _, c := range cases {
		emit(map[string]any{"start": c.ID})
		to := time.Duration(c.TimeoutMs) * time.Millisecond
		if to == 0 {
			to = 10 * time.Second
		}
		n := c.Repeat
		if n < 1 {
			n = 1
		}
		res := progResult{ID: c.ID, Status: "done"}
		for _, pre := range c.Pre {
			runOneProgram(pre, to, false)
		}
		for k := 0; k < n; k++ {
			if *lcevents != "" {
				lcMark("begin", c.ID)
			}
			if *suevents != "" {
				suMark("begin", c.ID)
			}
			r := runOneProgram(c.Src, to, c.Fids)
			if *lcevents != "" {
				lcMark("end", c.ID)
			}
			if *suevents != "" {
				suMark("end", c.ID)
			}
			res.Runs = append(res.Runs, r)
			if r.Hung {
				// the interpreter is wedged: report and let the driver restart us for the rest
				res.Status = "hung"
				emit(res)
				f.Sync()
				return 3
			}
		}
		emit(res)
	}
	return 0
}
