package main

// op=unsafe of `mxh lexer` (C34): the autocomplete tokeniser's verdict on a command line, next to
// the commands the real block parser finds in the part of the line that dynamic.go would execute
// (ParsedTokens.Source[:LastFlowToken]), walked recursively through { } blocks and ${ } @{ } sub-shells.

import (
	"github.com/lmorg/murex/lang"
	"github.com/lmorg/murex/utils/parser"
)

type unsafeInfo struct {
	Unsafe        bool     `json:"unsafe"`
	LastFlowToken int      `json:"last_flow_token"`
	Prefix        string   `json:"prefix"`
	Cmds          []string `json:"cmds"`      // every command name the block parser finds in the prefix (recursively)
	Exprs         int      `json:"exprs"`     // statements that are expressions (assignments...)
	SubShells     int      `json:"subshells"` // ${ } / @{ } found in parameters
	ParseErr      string   `json:"parse_err,omitempty"`
	Safe          []string `json:"safe_list,omitempty"`
}

// matching closing brace of the block that opens at s[i] == '{' (quotes are not expected in the generated lines)
func closingBrace(s []rune, i int) int {
	depth := 0
	for j := i; j < len(s); j++ {
		switch s[j] {
		case '{':
			depth++
		case '}':
			depth--
			if depth == 0 {
				return j
			}
		}
	}
	return -1
}

func walkBlock(src []rune, info *unsafeInfo, depth int) {
	if depth > 8 {
		return
	}
	tree, err := lang.ParseBlock(src)
	if err != nil {
		if info.ParseErr == "" {
			info.ParseErr = err.Error()
		}
		return
	}
	for _, fn := range *tree {
		name := string(fn.CommandName())
		if name == lang.ExpressionFunctionName {
			info.Exprs++
		}
		info.Cmds = append(info.Cmds, name)
		for _, p := range fn.Parameters {
			for i := 0; i < len(p); i++ {
				if p[i] != '{' {
					continue
				}
				end := closingBrace(p, i)
				if end < 0 {
					break
				}
				if i > 0 && (p[i-1] == '$' || p[i-1] == '@') {
					info.SubShells++
				}
				walkBlock(p[i+1:end], info, depth+1)
				i = end
			}
		}
	}
}

func lexUnsafe(r lexRow, res *lexResult) {
	info := unsafeInfo{}
	defer func() {
		if x := recover(); x != nil {
			res.Panic = "panic in parser.Parse / ParseBlock"
		}
		res.Extra = info
	}()
	if r.Text == "" {
		// the safe list itself (so that the check can confirm the specification's command names)
		info.Safe = parser.GetSafeCmds()
		return
	}
	// shell/tab.go: parse(line[:pos]) -> parser.Parse(line, 0)
	pt, _ := parser.Parse([]rune(r.Text), 0)
	info.Unsafe = pt.Unsafe
	info.LastFlowToken = pt.LastFlowToken
	if pt.LastFlowToken < 0 || pt.LastFlowToken > len(pt.Source) {
		info.ParseErr = "LastFlowToken out of range"
		return
	}
	// shell/autocomplete/dynamic.go:98: cmdline.Execute(act.ParsedTokens.Source[:act.ParsedTokens.LastFlowToken])
	prefix := pt.Source[:pt.LastFlowToken]
	info.Prefix = string(prefix)
	walkBlock(prefix, &info, 0)
}
