// exithelper: `exithelper exit N` exits with status N; `exithelper signal N` ends by signal N;
// `exithelper argv a b c` prints its arguments as a JSON array (used by argv checks).
package main

import (
	"encoding/json"
	"fmt"
	"os"
	"os/exec"
	"os/signal"
	"strconv"
	"syscall"
	"time"
)

func main() {
	if len(os.Args) < 2 {
		os.Exit(0)
	}
	switch os.Args[1] {
	case "exit":
		n, _ := strconv.Atoi(os.Args[2])
		fmt.Println("ran")
		os.Exit(n)
	case "linger":
		// exit with status N at once but leave a child behind that keeps our stdout/stderr open for 3 s
		n, _ := strconv.Atoi(os.Args[2])
		fmt.Println("ran")
		c := exec.Command("sleep", "3")
		c.Stdout = os.Stdout
		c.Stderr = os.Stderr
		c.Start()
		os.Exit(n)
	case "signal":
		n, _ := strconv.Atoi(os.Args[2])
		fmt.Println("ran")
		os.Stdout.Sync()
		sig := syscall.Signal(n)
		signal.Reset(sig)
		syscall.Kill(os.Getpid(), sig)
		time.Sleep(2 * time.Second)
		os.Exit(99) // the signal did not end us
	case "argv":
		b, _ := json.Marshal(os.Args[2:])
		fmt.Println(string(b))
	}
}
