SPECIFICATION Spec
CONSTANTS
  Family = "vars"
  Plans <- VarPlansQ
  Encs <- Forms
  Inputs <- InputsPlus
INVARIANT Agree
CHECK_DEADLOCK FALSE
