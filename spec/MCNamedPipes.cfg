SPECIFICATION Spec
CONSTANTS
  Names = {"a", "b"}
  Clients = {1, 2}
  MaxOps = 3
  MaxPipes = 3
  MaxTimers = 2
  GetTries = 6
  OpKinds = {"create", "close", "delete", "get", "dump"}
VIEW view
INVARIANTS TypeOK NoCrash UniqueLive NoNegativeDeps
PROPERTIES TimerRemoves
CHECK_DEADLOCK FALSE
