------------------------------ MODULE FuncSig ------------------------------
(***************************************************************************)
(* C23 - function parameters are bound and typed as declared.              *)
(*   lang/functions.go  ParseMxFunctionParameters (signature parser)       *)
(*                      castParameters            (binding at call time)   *)
(*                                                                         *)
(* Part 1 - the signature `name: type [default] "description", ...`.       *)
(* A signature is a string over character CLASSES (the parser only looks   *)
(* at the class of a character):                                           *)
(*   L letter digit _ -   S space   N newline   C :   Q "   O [   B ]      *)
(*   M ,   X !   U any other character                                     *)
(* Two descriptions are given and TLC checks that they agree:              *)
(*  - Rec: the documented grammar as a recogniser that also yields the     *)
(*    fields of every parameter (as index ranges of the string);           *)
(*  - the operational machine: the 9-context character loop of             *)
(*    ParseMxFunctionParameters transcribed, one action per character.     *)
(* The machine models the INTENDED parser: an opening square bracket where *)
(* no default value can start is an error, like every other misplaced      *)
(* character (the real `case '['` has no default branch).                  *)
(*                                                                         *)
(* Where the documentation is silent (white space between tokens, a        *)
(* default or description without a data type, description before default, *)
(* repeated defaults/descriptions) the grammar is read twice - narrowly    *)
(* and widely - and a string is judged only if both readings agree.        *)
(*                                                                         *)
(* Part 2 - Cast: binding of the arguments of a call to the parameters.    *)
(***************************************************************************)
EXTENDS Integers, Sequences, FiniteSets, TLC

CONSTANTS MaxLen,     \* longest signature string (exhaustive input space only)
          Inputs      \* signature strings to explore: AllStrings, or a set read from a file

Classes == {"L", "S", "N", "C", "Q", "O", "B", "M", "X", "U"}
AllStrings == UNION {[1..n -> Classes] : n \in 0..MaxLen}
ASSUME \A s \in Inputs : \A k \in DOMAIN s : s[k] \in Classes

EOF == "$"
At(s, p) == IF p >= 1 /\ p <= Len(s) THEN s[p] ELSE EOF
Rng(a, b) == [k \in 1..(b - a) |-> a + k - 1]            \* the positions a .. b-1 as a sequence
NoParam == [name |-> <<>>, type |-> <<>>, typeStr |-> FALSE, optional |-> FALSE,
            hasDefault |-> FALSE, default |-> <<>>, desc |-> <<>>]
Reject == [ok |-> FALSE, params |-> <<>>]

(* ===================== the documented grammar (recogniser) ===================== *)
\*   signature := param ("," param)*
\*   param     := ws ["!"] name [":" sp type] [ gap "[" default "]" ] [ gap '"' description '"' ] ws
\*   name, type := L+        default := (any but ] and newline)*    description := (any but " and newline)*
\*   mandatory parameters cannot follow optional ones
\* lib  (wide reading of white space): white space incl. newlines may separate any two tokens and a
\*      default/description may follow a bare name; narrow: spaces only after ":" and between the type and
\*      the first of default/description (at least one), newlines only before a name and after a closing ] or ";
\* free (wide reading of the fields): defaults and descriptions in any order and number.
RECURSIVE Skip(_, _, _)
Skip(s, p, set) == IF p <= Len(s) /\ s[p] \in set THEN Skip(s, p + 1, set) ELSE p
WS == {"S", "N"}
\* first position >= p holding the closing character, 0 if a newline or the end comes first
RECURSIVE Close(_, _, _)
Close(s, p, closer) == IF p > Len(s) \/ s[p] = "N" THEN 0
                       ELSE IF s[p] = closer THEN p ELSE Close(s, p + 1, closer)

\* defaults and descriptions after position q; prm = the parameter so far; stage 0 none, 1 default seen, 2 description seen
\* -> [ok, prm, end] where end = position after the last field (q if none)
RECURSIVE Fields(_, _, _, _, _, _, _)
Fields(s, q, first, stage, prm, lib, free) ==
    LET qs == Skip(s, q, IF first /\ ~lib THEN {"S"} ELSE WS)
        c == At(s, qs)
        gapOK == (first /\ ~lib) => qs > q
    IN IF c \notin {"O", "Q"} THEN [ok |-> TRUE, prm |-> prm, end |-> q]
       ELSE LET e == Close(s, qs + 1, IF c = "O" THEN "B" ELSE "Q") IN
            IF ~gapOK \/ e = 0 THEN [ok |-> FALSE, prm |-> prm, end |-> q]
            ELSE IF c = "O"
              THEN IF ~free /\ stage > 0 THEN [ok |-> FALSE, prm |-> prm, end |-> q]
                   ELSE Fields(s, e + 1, FALSE, 1,
                               [prm EXCEPT !.hasDefault = TRUE, !.default = prm.default \o Rng(qs + 1, e)], lib, free)
              ELSE IF ~free /\ stage > 1 THEN [ok |-> FALSE, prm |-> prm, end |-> q]
                   ELSE Fields(s, e + 1, FALSE, 2, [prm EXCEPT !.desc = prm.desc \o Rng(qs + 1, e)], lib, free)

\* one parameter starting at p -> [ok, prm, next] with next = position of the "," or Len+1
Param(s, p, lib, free) ==
    LET p0 == Skip(s, p, WS)
        opt == At(s, p0) = "X"
        p1 == IF opt THEN (IF lib THEN Skip(s, p0 + 1, WS) ELSE p0 + 1) ELSE p0
        p2 == Skip(s, p1, {"L"})                                   \* name = [p1, p2)
        p2w == IF lib THEN Skip(s, p2, WS) ELSE p2
        hasType == At(s, p2w) = "C"
        p3 == IF hasType THEN Skip(s, p2w + 1, IF lib THEN WS ELSE {"S"}) ELSE p2
        p4 == IF hasType THEN Skip(s, p3, {"L"}) ELSE p2           \* type = [p3, p4)
        head == [NoParam EXCEPT !.name = Rng(p1, p2), !.optional = opt,
                                !.type = IF hasType THEN Rng(p3, p4) ELSE <<>>, !.typeStr = ~hasType]
        f == IF hasType \/ lib THEN Fields(s, p4, TRUE, 0, head, lib, free) ELSE [ok |-> TRUE, prm |-> head, end |-> p4]
        nofield == f.end = p4
        \* what may stand between the parameter and the "," or the end
        next == IF lib \/ ~nofield THEN Skip(s, f.end, WS)
                ELSE IF hasType /\ Skip(s, p4, {"S"}) = Len(s) + 1 THEN Len(s) + 1      \* spaces, then the end
                ELSE p4
    IN [ok   |-> p2 > p1 /\ (hasType => p4 > p3) /\ f.ok /\ At(s, next) \in {"M", EOF},
        prm  |-> f.prm, next |-> next]

RECURSIVE Params(_, _, _, _, _, _)
Params(s, p, acc, seenOpt, lib, free) ==
    LET r == Param(s, p, lib, free) IN
    IF ~r.ok \/ (seenOpt /\ ~r.prm.optional) THEN Reject
    ELSE IF At(s, r.next) = "M" THEN Params(s, r.next + 1, Append(acc, r.prm), seenOpt \/ r.prm.optional, lib, free)
    ELSE [ok |-> TRUE, params |-> Append(acc, r.prm)]
Rec(s, lib, free) == Params(s, 1, <<>>, FALSE, lib, free)

Decl(s) == Rec(s, FALSE, FALSE)
\* judged: the narrowest and the widest reading of the documentation agree on acceptance
Judged(s) == Rec(s, FALSE, FALSE).ok = Rec(s, TRUE, TRUE).ok

(* ============================ operational machine ============================== *)
VARIABLES sig, pos, ctx, cur, done, acc, res
\* cur = the parameter being read (mfp[counter]), acc = the parameters before it
vars == <<sig, pos, ctx, cur, done, acc, res>>

Init == /\ sig \in Inputs /\ pos = 1 /\ ctx = "NameStart" /\ cur = NoParam /\ acc = <<>>
        /\ done = FALSE /\ res = Reject

Error == /\ done' = TRUE /\ res' = Reject /\ UNCHANGED <<sig, pos, ctx, cur, acc>>
Go(c, p) == /\ ctx' = c /\ cur' = p /\ pos' = pos + 1 /\ UNCHANGED <<sig, done, acc, res>>
Stay == Go(ctx, cur)
AddDesc == Go(ctx, [cur EXCEPT !.desc = Append(cur.desc, pos)])
AddDefault == Go(ctx, [cur EXCEPT !.default = Append(cur.default, pos)])
NextParam(p) == /\ acc' = Append(acc, p) /\ cur' = NoParam /\ ctx' = "NameStart" /\ pos' = pos + 1
                /\ UNCHANGED <<sig, done, res>>

\* one iteration of `for i, r := range parameters { switch r { ... } }`
Step ==
    /\ ~done /\ pos <= Len(sig)
    /\ LET r == sig[pos] IN
       CASE r = "N" -> IF ctx \in {"NameStart", "DescEnd", "DefaultEnd"} THEN Stay ELSE Error
         [] r = "S" -> CASE ctx = "NameRead"    -> Error
                         [] ctx = "TypeRead"    -> Go("DescStart", cur)
                         [] ctx = "DescRead"    -> AddDesc
                         [] ctx = "DefaultRead" -> AddDefault
                         [] OTHER               -> Stay
         [] r = "C" -> CASE ctx = "NameRead"    -> Go("TypeStart", cur)
                         [] ctx = "DescRead"    -> AddDesc
                         [] ctx = "DefaultRead" -> AddDefault
                         [] OTHER               -> Error
         [] r = "Q" -> CASE ctx = "DefaultRead" -> AddDefault
                         [] ctx = "DescStart"   -> Go("DescRead", cur)
                         [] ctx = "DescRead"    -> Go("DescEnd", cur)
                         [] ctx = "DefaultEnd"  -> Go("DescRead", cur)
                         [] OTHER               -> Error
         [] r = "O" -> CASE ctx = "DescRead"    -> AddDesc
                         [] ctx = "DefaultRead" -> AddDefault
                         [] ctx \in {"DescStart", "DescEnd"} -> Go("DefaultRead", [cur EXCEPT !.hasDefault = TRUE])
                         [] OTHER               -> Error       \* intended; the real switch falls through silently
         [] r = "B" -> CASE ctx = "DescRead"    -> AddDesc
                         [] ctx = "DefaultRead" -> Go("DefaultEnd", cur)
                         [] OTHER               -> Error
         [] r = "M" -> CASE ctx = "DescRead"    -> AddDesc
                         [] ctx = "DefaultRead" -> AddDefault
                         [] ctx = "NameRead"    -> NextParam([cur EXCEPT !.typeStr = TRUE])
                         [] ctx \in {"TypeRead", "DescEnd", "DefaultEnd"} -> NextParam(cur)
                         [] OTHER               -> Error
         [] r = "X" -> CASE ctx = "NameStart"   -> Go("NameRead", [cur EXCEPT !.optional = TRUE])
                         [] ctx = "DescRead"    -> AddDesc
                         [] ctx = "DefaultRead" -> AddDefault
                         [] OTHER               -> Error
         [] r = "L" -> CASE ctx \in {"NameStart", "NameRead"} -> Go("NameRead", [cur EXCEPT !.name = Append(cur.name, pos)])
                         [] ctx \in {"TypeStart", "TypeRead"} -> Go("TypeRead", [cur EXCEPT !.type = Append(cur.type, pos)])
                         [] ctx = "DescRead"    -> AddDesc
                         [] ctx = "DefaultRead" -> AddDefault
                         [] OTHER               -> Error
         [] OTHER   -> CASE ctx = "DescRead"    -> AddDesc          \* U
                         [] ctx = "DefaultRead" -> AddDefault
                         [] OTHER               -> Error

\* after the loop: the end-of-text rules and the checks over the parameter list
MandatoryAfterOptional(ps) == \E a, b \in DOMAIN ps : a < b /\ ps[a].optional /\ ~ps[b].optional
Finish ==
    /\ ~done /\ pos > Len(sig)
    /\ done' = TRUE
    /\ LET last == IF ctx = "NameRead" THEN [cur EXCEPT !.typeStr = TRUE] ELSE cur
           ps == Append(acc, last)
       IN res' = IF ctx \in {"NameStart", "TypeStart", "DescRead", "DefaultRead"} THEN Reject
                 ELSE IF \E k \in DOMAIN ps : ps[k].name = <<>> \/ (ps[k].type = <<>> /\ ~ps[k].typeStr) THEN Reject
                 ELSE IF MandatoryAfterOptional(ps) THEN Reject
                 ELSE [ok |-> TRUE, params |-> ps]
    /\ UNCHANGED <<sig, pos, ctx, cur, acc>>

Next == Step \/ Finish
Spec == Init /\ [][Next]_vars

\* the parser accepts exactly the documented grammar and yields the same fields
Agree == (done /\ Judged(sig)) => res = Decl(sig)

(* ================================ Part 2: Cast ================================== *)
\* A call: parameters [type, optional, hasDefault, default] and the supplied argument values.
\* Values are opaque tokens; the conversions the property speaks about are tabulated.
CONSTANTS ArgVals,    \* argument / default tokens, e.g. {"7", "x", "true", "1.5"}
          IntToks,    \* tokens that are whole decimal numbers
          FracToks    \* tokens that are decimal numbers with a fraction; Trunc gives their whole part
Types == {"str", "int", "num", "bool"}
Trunc(v) == CASE v = "1.5" -> "1" [] v = "-1.5" -> "-1" [] OTHER -> v
\* ok = convertible; def = the property/documentation defines the outcome; text = how the value prints
Conv(ty, v) ==
    CASE ty = "str"  -> [ok |-> TRUE, def |-> TRUE, text |-> v]
      \* the empty default `[]` of a typed parameter: bound to something (not unset), what it converts to is not in the property
      [] v = ""      -> [ok |-> TRUE, def |-> FALSE, text |-> "?"]
      [] ty = "int"  -> IF v \in IntToks THEN [ok |-> TRUE, def |-> TRUE, text |-> v]
                        ELSE IF v \in FracToks THEN [ok |-> TRUE, def |-> TRUE, text |-> Trunc(v)]    \* documented: `age 1.2` -> 1
                        ELSE [ok |-> FALSE, def |-> TRUE, text |-> ""]
      [] ty = "num"  -> IF v \in IntToks \cup FracToks THEN [ok |-> TRUE, def |-> TRUE, text |-> v]
                        ELSE [ok |-> FALSE, def |-> TRUE, text |-> ""]
      [] ty = "bool" -> IF v \in {"true", "false"} THEN [ok |-> TRUE, def |-> TRUE, text |-> v]
                        ELSE [ok |-> TRUE, def |-> FALSE, text |-> "?"]       \* truthiness of other words: not in the property
      [] OTHER       -> [ok |-> FALSE, def |-> FALSE, text |-> ""]

Unset == [set |-> FALSE, text |-> ""]
Bound(t) == [set |-> TRUE, text |-> t]
\* the value a parameter is converted from: the argument, else the default of an optional parameter
Source(ps, args, k) == IF k <= Len(args) THEN [kind |-> "arg", v |-> args[k]]
                       ELSE IF ~ps[k].optional THEN [kind |-> "prompt", v |-> ""]
                       ELSE IF ps[k].hasDefault THEN [kind |-> "default", v |-> ps[k].default]
                       ELSE [kind |-> "unset", v |-> ""]

\* declarative: the call fails before the body iff some supplied/defaulted value cannot be converted;
\* otherwise every parameter is bound to its converted value, or stays unset
CastDecl(ps, args) ==
    LET K == DOMAIN ps
        src(k) == Source(ps, args, k)
    IN IF \E k \in K : src(k).kind = "prompt" THEN [status |-> "prompt", vars |-> <<>>]
       ELSE IF \E k \in K : src(k).kind \in {"arg", "default"} /\ ~Conv(ps[k].type, src(k).v).ok
         THEN [status |-> "fail", vars |-> <<>>]
       ELSE [status |-> "ok",
             vars |-> [k \in K |-> IF src(k).kind = "unset" THEN Unset ELSE Bound(Conv(ps[k].type, src(k).v).text)]]

\* operational: the loop of castParameters (early return on the first failure)
RECURSIVE CastLoop(_, _, _, _)
CastLoop(ps, args, k, bound) ==
    IF k > Len(ps) THEN [status |-> "ok", vars |-> bound]
    ELSE LET src == Source(ps, args, k) IN
         IF src.kind = "prompt" THEN [status |-> "prompt", vars |-> <<>>]
         ELSE IF src.kind = "unset" THEN CastLoop(ps, args, k + 1, Append(bound, Unset))       \* continue
         ELSE LET cv == Conv(ps[k].type, src.v) IN
              IF ~cv.ok THEN [status |-> "fail", vars |-> <<>>]
              ELSE CastLoop(ps, args, k + 1, Append(bound, Bound(cv.text)))
\* (a prompt is reached only when no earlier parameter failed: the signature rule puts optional parameters last)
CastAgree(ps, args) == LET d == CastDecl(ps, args) o == CastLoop(ps, args, 1, <<>>) IN
                       d = o \/ (o.status = "fail" /\ d.status = "prompt")
CastJudged(ps, args) == \A k \in DOMAIN ps : LET src == Source(ps, args, k) IN
                            src.kind \in {"arg", "default"} => Conv(ps[k].type, src.v).def
=============================================================================
