---------------------------- MODULE HistoryScan ----------------------------
(***************************************************************************)
(* The loop of openHist as a machine, one byte per step, started on EVERY   *)
(* byte string up to MaxFileLen (well-formed history files, torn ones,      *)
(* glued lines, garbage): when it stops, the list it built is what the      *)
(* rule (LoadDecl: cut at newlines, keep complete lines) says.              *)
(***************************************************************************)
EXTENDS HistoryFile

CONSTANT MaxFileLen
VARIABLES f, s
svars == <<f, s>>

Files == UNION {[1..n -> Bytes] : n \in 0..MaxFileLen}
SInit == f \in Files /\ s = ScanInit
SNext == ~s.stop /\ s' = ScanStep(f, s) /\ UNCHANGED f
SSpec == SInit /\ [][SNext]_svars /\ WF_svars(SNext)

ScanAgrees == s.stop => s.list = LoadDecl(f)
\* the recursive form used by History.tla is this machine run to its end
RunIsMachine == s.stop => s.list = LoadOp(f)
ScanStops == <>(s.stop)
=============================================================================
