---------------------------- MODULE PipelineGen ----------------------------
(* Programs (one or two pipelines joined by `;`) with their sequential meaning. *)
EXTENDS Pipeline, Json, SequencesExt

NonEmpty(p) == p.src # <<>>
WF == {p \in Pipelines : WellFormed(p) /\ NonEmpty(p)}
Small == {p \in WF : Len(p.stages) <= 1}
Progs == {<<p>> : p \in WF} \cup {<<p, q>> : p \in Small, q \in Small}
Case(ps) == [prog |-> ps, out |-> SeqProg(ps).out, err |-> SeqProg(ps).err]
Emit == ndJsonSerialize("cases.ndjson", SetToSeq({Case(ps) : ps \in Progs}))
=============================================================================
