------------------------------ MODULE LexerGen ------------------------------
(* Case tables for conformance: every input with what the declarative rules say about it. *)
EXTENDS Lexer, Json, SequencesExt

Ck(name, cond) == IF cond THEN TRUE ELSE Assert(FALSE, <<"Lexer.tla design check failed", name>>)

Case(x) ==
    CASE x.fam = "quote" ->
            [s |-> x.s, enc |-> x.enc, pos |-> x.pos, text |-> TextOf(x), value |-> DeclValue(x.enc, Enc(x.enc, x.s)),
             tags |-> QuoteTags(x.enc, x.s)]
      [] x.fam = "cmdline" ->
            [argv |-> x.argv, esc |-> [k \in DOMAIN x.argv |-> EscArg(x.argv[k])], text |-> CmdLine(x.argv),
             hazards |-> Hazards(x.argv), expected |-> CmdExpected(x)]
      [] x.fam = "vars" ->
            [form |-> x.form, val |-> x.val, arr |-> x.arr, text |-> TextOf(x),
             allowed |-> DeclParams(x.form, x.val, x.arr), tags |-> VarTags(x.val, x.arr)]
\* inputs supplied by the driver (seeded random long strings): same records as Inputs, read from a file;
\* added with  CONSTANT Inputs <- InputsPlus  (an empty file adds nothing)
SampleInputs == LET rows == ndJsonDeserialize("sample.ndjson") IN {rows[k] : k \in DOMAIN rows}
InputsPlus == EnumInputs \cup SampleInputs

DesignChecks == /\ Ck("EncodersRight", EncodersRight)
                /\ Ck("EscapeRight", EscapeRight)
                /\ Ck("WitnessesFail", Family # "cmdline" \/ WitnessesFail)
Cases == IF DesignChecks THEN {Case(x) : x \in Inputs} ELSE {}
Emit == ndJsonSerialize("cases.ndjson", SetToSeq(Cases))
\* evaluated once when TLC starts (a constant-level definition cannot be a POSTCONDITION)
ASSUME Emit
=============================================================================
