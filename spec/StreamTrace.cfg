SPECIFICATION TSpec
CONSTANTS
  Writers = {1, 2, 3}
  Readers = {5}
  Typers = {1, 2, 3}
  Getters = {5, 6}
  MaxBuf = @MAXBUF@
  WSizes = {0, 1, 2, 3}
  MaxWrites = 4
  RSizes = {0, 1, 2, 3, 4}
  MaxReads = 1000
  Types = {"", "null", "a", "b", "json"}
  AllowForceClose = TRUE
  StrictLimit = FALSE
CONSTRAINT TConstraint
INVARIANTS Conservation PerWriterOrder DeliveredIsPrefix NoEarlyEOF Counters FirstWins TypeNeverNull GetTypeLegal
POSTCONDITION TAccepted
CHECK_DEADLOCK FALSE
