SPECIFICATION Spec
CONSTANTS
  Tokens = {"a", "b"}
  MaxSrc = 2
  MaxStages = 2
  Kinds = {"mapx", "fn", "dup", "tac", "errtee", "cast", "ifa", "sw", "var", "tryf", "trys", "tpf", "ffif", "fsif"}
  Cap = 1
INVARIANTS Deterministic NoDeadlock OutputIsPrefix
POSTCONDITION Emit
CHECK_DEADLOCK FALSE
