SPECIFICATION Spec
CONSTANTS
  Writers = {1, 2}
  Readers = {5}
  Typers = {}
  Getters = {}
  MaxBuf = 2
  WSizes = {0, 1, 2}
  MaxWrites = 1
  RSizes = {0, 1, 2}
  MaxReads = 3
  Types = {}
  AllowForceClose = TRUE
  StrictLimit = TRUE
VIEW view
INVARIANTS TypeOK Conservation PerWriterOrder DeliveredIsPrefix NoEarlyEOF EofIsFinal Counters
CHECK_DEADLOCK FALSE
