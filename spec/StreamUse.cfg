SPECIFICATION Spec
CONSTRAINT HWM
POSTCONDITION Accepted
CHECK_DEADLOCK FALSE
