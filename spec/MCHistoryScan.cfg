SPECIFICATION SSpec
CONSTANTS
  Entries = {"a", "L"}
  Long = {"L"}
  ShortLen = 2
  LongLen = 3
  MaxTok = 0
  MaxFileLen = 6
INVARIANTS ScanAgrees RunIsMachine
PROPERTIES ScanStops
CHECK_DEADLOCK FALSE
