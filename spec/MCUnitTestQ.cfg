SPECIFICATION Spec
CONSTANTS
  Inputs <- QuickInputs
INVARIANT Agree
PROPERTY Sticky
POSTCONDITION Emit
CHECK_DEADLOCK FALSE
