-------------------------------- MODULE Jobs --------------------------------
(***************************************************************************)
(* The job table (lang.jobs): a sequence of slots, job ID = slot index.    *)
(* Every operation is one lock region; a job finishing (Terminate) is a    *)
(* flag on the process itself and is independent of the table.             *)
(*   Add  GarbageCollect  Get(id)  GetLatest  List                         *)
(* C27: a running job keeps its ID; lookups and the listing never return   *)
(* a finished job; the listing is exactly the running jobs; an ID is       *)
(* handed out again only after every job with that or a higher ID ended.   *)
(***************************************************************************)
EXTENDS Integers, Sequences, FiniteSets, TLC

CONSTANTS MaxProcs,   \* processes ever added
          MaxOps      \* lookups/listings/collections in a history

Nil == 0

VARIABLES
    slots,      \* Seq of process id or Nil
    term,       \* set of process ids that have terminated
    nproc,      \* processes created so far (ids 1..nproc)
    nops,
    assigned,   \* process id -> job ID it was given      [ghost]
    ret

vars == <<slots, term, nproc, nops, assigned, ret>>
view == <<slots, term, nproc, nops, assigned>>

A(a, r) == [act |-> a] @@ r
Running(p) == p # Nil /\ p \notin term
RunningIds == {i \in DOMAIN slots : Running(slots[i])}
Listing == [i \in RunningIds |-> slots[i]]       \* job ID -> process
\* the listing as a sequence of <<id, process>> in ID order
RECURSIVE ListFrom(_)
ListFrom(i) == IF i > Len(slots) THEN <<>>
               ELSE IF Running(slots[i]) THEN <<<<i, slots[i]>>>> \o ListFrom(i + 1)
               ELSE ListFrom(i + 1)

Init ==
    /\ slots = <<>> /\ term = {} /\ nproc = 0 /\ nops = 0 /\ assigned = <<>>
    /\ ret = A("Init", [k |-> "none", list |-> <<>>])

Add ==
    /\ nproc < MaxProcs
    /\ nproc' = nproc + 1
    /\ slots' = Append(slots, nproc + 1)
    /\ assigned' = Append(assigned, Len(slots) + 1)
    /\ ret' = A("Add", [k |-> "added", p |-> nproc + 1, job |-> Len(slots) + 1, list |-> ListFrom(1) \o <<<<Len(slots) + 1, nproc + 1>>>>])
    /\ UNCHANGED <<term, nops>>

Terminate(p) ==
    /\ p \in 1..nproc /\ p \notin term
    /\ term' = term \cup {p}
    /\ ret' = A("Terminate", [k |-> "none", p |-> p, list |-> SelectSeq(ListFrom(1), LAMBDA e : e[2] # p)])
    /\ UNCHANGED <<slots, nproc, nops, assigned>>

\* the backwards scan of GarbageCollect: finished jobs become empty slots; the run of empty
\* slots at the end of the table is cut off
RECURSIVE TrimNil(_)
TrimNil(s) == IF s # <<>> /\ s[Len(s)] = Nil THEN TrimNil(SubSeq(s, 1, Len(s) - 1)) ELSE s
GC ==
    /\ nops < MaxOps
    /\ nops' = nops + 1
    /\ slots' = TrimNil([i \in DOMAIN slots |-> IF Running(slots[i]) THEN slots[i] ELSE Nil])
    /\ ret' = A("GC", [k |-> "none", list |-> ListFrom(1)])
    /\ UNCHANGED <<term, nproc, assigned>>

Get(id) ==
    /\ nops < MaxOps
    /\ nops' = nops + 1
    /\ ret' = A("Get", [id |-> id, list |-> ListFrom(1)] @@
                  (IF id >= 1 /\ id <= Len(slots) /\ Running(slots[id])
                     THEN [k |-> "proc", p |-> slots[id]] ELSE [k |-> "err"]))
    /\ UNCHANGED <<slots, term, nproc, assigned>>

GetLatest ==
    /\ nops < MaxOps
    /\ nops' = nops + 1
    /\ ret' = A("GetLatest", [list |-> ListFrom(1)] @@
                  (IF RunningIds = {} THEN [k |-> "err"]
                   ELSE [k |-> "proc", p |-> slots[CHOOSE i \in RunningIds : \A j \in RunningIds : j <= i]]))
    /\ UNCHANGED <<slots, term, nproc, assigned>>

Next == Add \/ GC \/ GetLatest \/ (\E p \in 1..MaxProcs : Terminate(p)) \/ (\E id \in 0..(MaxProcs + 1) : Get(id))

Spec == Init /\ [][Next]_vars

(* ---- properties ---------------------------------------------------------- *)
\* a job that is running before and after a step keeps its ID
IdStable == [][\A p \in 1..nproc : (p \notin term' /\ \E i \in DOMAIN slots : slots[i] = p)
                 => \E i \in DOMAIN slots' : (slots'[i] = p /\ slots[i] = p)]_vars
\* a running job is always in the table, exactly once, at the ID it was given
RunningListedOnce == \A p \in 1..nproc : p \notin term =>
                        /\ Cardinality({i \in DOMAIN slots : slots[i] = p}) = 1
                        /\ slots[assigned[p]] = p
\* lookups never return a finished job
LookupRunning == (ret.act \in {"Get", "GetLatest"} /\ ret.k = "proc") => ret.p \notin term
\* an ID is reused only after every job with that or a higher ID has finished
ReuseRule == \A p, q \in 1..nproc : (q < p /\ assigned[q] >= assigned[p]) => q \in term
\* ... and a finished job never comes back
NoResurrection == \A i \in DOMAIN slots : slots[i] # Nil => assigned[slots[i]] = i
=============================================================================
