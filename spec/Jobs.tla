-------------------------------- MODULE Jobs --------------------------------
(***************************************************************************)
(* The job table (lang.jobs): a sequence of slots, job ID = slot index.    *)
(* Every operation is one lock region; a job finishing (Terminate) is a    *)
(* flag on the process itself and is independent of the table.             *)
(*   Add  GarbageCollect  Get(id)  GetLatest  GetFromCommandLine(s)  List  *)
(* C27: a running job keeps its ID; lookups and the listing never return   *)
(* a finished job; the listing is exactly the running jobs; an ID is       *)
(* handed out again only after every job with that or a higher ID ended.   *)
(***************************************************************************)
EXTENDS Integers, Sequences, FiniteSets, TLC

CONSTANTS MaxProcs,   \* processes ever added
          MaxOps      \* lookups/listings/collections in a history

Nil == 0

VARIABLES
    slots,      \* Seq of process id or Nil
    term,       \* set of process ids that have terminated
    nproc,      \* processes created so far (ids 1..nproc)
    nops,
    assigned,   \* process id -> job ID it was given      [ghost]
    text,       \* process id -> its command line (what `fg %text` / `bg %text` search)
    ret

vars == <<slots, term, nproc, nops, assigned, text, ret>>
view == <<slots, term, nproc, nops, assigned, text>>

\* command lines and search strings: small enough to tabulate strings.Contains
Texts == {"a", "b", "ab"}
Queries == {"", "a", "b", "ab", "ba", "c"}
Contains(t, q) == q = "" \/ q = t \/ (t = "ab" /\ q \in {"a", "b"})
\* the model checker gives process p a command line that depends on p only (no extra branching)
TextOf(p) == CASE p % 3 = 1 -> "a" [] p % 3 = 2 -> "b" [] OTHER -> "ab"

A(a, r) == [act |-> a] @@ r
Running(p) == p # Nil /\ p \notin term
RunningIds == {i \in DOMAIN slots : Running(slots[i])}
Listing == [i \in RunningIds |-> slots[i]]       \* job ID -> process
\* the listing as a sequence of <<id, process>> in ID order
RECURSIVE ListFrom(_)
ListFrom(i) == IF i > Len(slots) THEN <<>>
               ELSE IF Running(slots[i]) THEN <<<<i, slots[i]>>>> \o ListFrom(i + 1)
               ELSE ListFrom(i + 1)

Init ==
    /\ slots = <<>> /\ term = {} /\ nproc = 0 /\ nops = 0 /\ assigned = <<>> /\ text = <<>>
    /\ ret = A("Init", [k |-> "none", list |-> <<>>])

Add(t) ==
    /\ nproc < MaxProcs
    /\ text' = Append(text, t)
    /\ nproc' = nproc + 1
    /\ slots' = Append(slots, nproc + 1)
    /\ assigned' = Append(assigned, Len(slots) + 1)
    /\ ret' = A("Add", [k |-> "added", p |-> nproc + 1, text |-> t, job |-> Len(slots) + 1, list |-> ListFrom(1) \o <<<<Len(slots) + 1, nproc + 1>>>>])
    /\ UNCHANGED <<term, nops>>

Terminate(p) ==
    /\ p \in 1..nproc /\ p \notin term
    /\ term' = term \cup {p}
    /\ ret' = A("Terminate", [k |-> "none", p |-> p, list |-> SelectSeq(ListFrom(1), LAMBDA e : e[2] # p)])
    /\ UNCHANGED <<slots, nproc, nops, assigned, text>>

\* the backwards scan of GarbageCollect: finished jobs become empty slots; the run of empty
\* slots at the end of the table is cut off
RECURSIVE TrimNil(_)
TrimNil(s) == IF s # <<>> /\ s[Len(s)] = Nil THEN TrimNil(SubSeq(s, 1, Len(s) - 1)) ELSE s
GC ==
    /\ nops < MaxOps
    /\ nops' = nops + 1
    /\ slots' = TrimNil([i \in DOMAIN slots |-> IF Running(slots[i]) THEN slots[i] ELSE Nil])
    /\ ret' = A("GC", [k |-> "none", list |-> ListFrom(1)])
    /\ UNCHANGED <<term, nproc, assigned, text>>

Get(id) ==
    /\ nops < MaxOps
    /\ nops' = nops + 1
    /\ ret' = A("Get", [id |-> id, list |-> ListFrom(1)] @@
                  (IF id >= 1 /\ id <= Len(slots) /\ Running(slots[id])
                     THEN [k |-> "proc", p |-> slots[id]] ELSE [k |-> "err"]))
    /\ UNCHANGED <<slots, term, nproc, assigned, text>>

GetLatest ==
    /\ nops < MaxOps
    /\ nops' = nops + 1
    /\ ret' = A("GetLatest", [list |-> ListFrom(1)] @@
                  (IF RunningIds = {} THEN [k |-> "err"]
                   ELSE [k |-> "proc", p |-> slots[CHOOSE i \in RunningIds : \A j \in RunningIds : j <= i]]))
    /\ UNCHANGED <<slots, term, nproc, assigned, text>>

\* jobs.GetFromCommandLine (`fg %text`, `bg %text`): the newest running job whose command line contains q
MatchIds(q) == {i \in RunningIds : Contains(text[slots[i]], q)}
GetByText(q) ==
    /\ nops < MaxOps
    /\ nops' = nops + 1
    /\ ret' = A("GetByText", [q |-> q, list |-> ListFrom(1)] @@
                  (IF MatchIds(q) = {} THEN [k |-> "err"]
                   ELSE [k |-> "proc", p |-> slots[CHOOSE i \in MatchIds(q) : \A j \in MatchIds(q) : j <= i]]))
    /\ UNCHANGED <<slots, term, nproc, assigned, text>>

Next == Add(TextOf(nproc + 1)) \/ (\E q \in Queries : GetByText(q)) \/ GC \/ GetLatest \/ (\E p \in 1..MaxProcs : Terminate(p)) \/ (\E id \in 0..(MaxProcs + 1) : Get(id))

Spec == Init /\ [][Next]_vars

(* ---- properties ---------------------------------------------------------- *)
\* a job that is running before and after a step keeps its ID
IdStable == [][\A p \in 1..nproc : (p \notin term' /\ \E i \in DOMAIN slots : slots[i] = p)
                 => \E i \in DOMAIN slots' : (slots'[i] = p /\ slots[i] = p)]_vars
\* a running job is always in the table, exactly once, at the ID it was given
RunningListedOnce == \A p \in 1..nproc : p \notin term =>
                        /\ Cardinality({i \in DOMAIN slots : slots[i] = p}) = 1
                        /\ slots[assigned[p]] = p
\* lookups never return a finished job
LookupRunning == (ret.act \in {"Get", "GetLatest", "GetByText"} /\ ret.k = "proc") => ret.p \notin term
\* a search by command line returns a job whose command line contains the search string, and no newer running job does
TextLookup == (ret.act = "GetByText" /\ ret.k = "proc") =>
                 /\ Contains(text[ret.p], ret.q)
                 /\ \A i \in RunningIds : (i > assigned[ret.p] => ~Contains(text[slots[i]], ret.q))
TextLookupFinds == (ret.act = "GetByText" /\ ret.k = "err") => \A i \in RunningIds : ~Contains(text[slots[i]], ret.q)
\* an ID is reused only after every job with that or a higher ID has finished
ReuseRule == \A p, q \in 1..nproc : (q < p /\ assigned[q] >= assigned[p]) => q \in term
\* ... and a finished job never comes back
NoResurrection == \A i \in DOMAIN slots : slots[i] # Nil => assigned[slots[i]] = i
=============================================================================
