------------------------------- MODULE Stream -------------------------------
(***************************************************************************)
(* A murex byte pipe (builtins/pipes/streams.Stdin) at the grain of its    *)
(* critical sections.  One action per lock region of the Go code:          *)
(*                                                                         *)
(*   Write   = WBegin ; (WCheck)* ; WAppend      write.go                  *)
(*   Read    = RBegin ; (RCheck)* ; (RTake | eof) read.go                  *)
(*   ReadAll = RABegin(max:=0) ; (RAWait)* ; RATake                        *)
(*   Open / Close / ForceClose                   define.go                 *)
(*   SetDataType / GetDataType poll              utils.go                  *)
(*                                                                         *)
(* Properties C01 (delivery, EOF, counters, writer progress) and C02       *)
(* (data type set once) are stated at the bottom.                          *)
(***************************************************************************)
EXTENDS Integers, Sequences, FiniteSets, TLC

CONSTANTS
    Writers,        \* set of writer ids (small integers)
    Readers,        \* set of reader ids (small integers, disjoint from Writers)
    Typers,         \* set of actors calling SetDataType (ids, disjoint)
    Getters,        \* set of actors calling GetDataType (ids, disjoint)
    MaxBuf,         \* back-pressure limit (stands for 1 MiB)
    WSizes,         \* payload sizes a Write may use (0 = empty write)
    MaxWrites,      \* writes per writer
    RSizes,         \* buffer sizes for Read; 0 stands for ReadAll
    MaxReads,       \* Read calls per reader before it stops calling
    Types,          \* type names offered to SetDataType (may contain "" and "null")
    AllowForceClose,\* BOOLEAN
    StrictLimit     \* BOOLEAN: TRUE = a writer passes the back-pressure test exactly when the
                    \* buffer is below the limit (what the code does); FALSE = it must pass then
                    \* and may also pass when full (all the property asks: the limit is soft)

Generic == "*"

VARIABLES
    buf,        \* Seq of bytes currently buffered
    deps,       \* number of open dependents
    max,        \* current limit (0 = unlimited)
    bW, bR,     \* byte counters as reported by Stats()
    dtype,      \* "" = not set
    cancelled,  \* ForceClose happened
    wst,        \* writer -> "unopened" | "open" | "closed"
    wpc,        \* writer -> "idle" | "check" | "append"
    wpay,       \* writer -> payload of the Write in progress
    wn,         \* writer -> writes started
    wseq,       \* writer -> next byte tag
    rpc,        \* reader -> "idle" | "check" | "take" | "rawait" | "ratake" | "done"
    rsz,        \* reader -> size of Read in progress
    rn,         \* reader -> reads started
    started,    \* some reader has begun its first operation
    tpc,        \* typer  -> "idle" | "set" | "done"
    targ,       \* typer -> type it is setting
    gpc,        \* getter -> "idle" | "poll" | "done"
    gret,       \* getter -> returned type
    \* ghosts (not in the implementation)
    appended,   \* every byte appended, in lock order
    delivered,  \* every byte handed to a reader, in lock order
    sent,       \* writer -> bytes appended by that writer
    eof,        \* reader -> TRUE once it saw EOF
    eofOK,      \* every EOF so far was legal when decided
    cleared,    \* a cancelled Write cleared the buffer
    raTaken,    \* bytes at the head of buf that a ReadAll already handed over (ReadAll
                \* returns the buffer without emptying it)
    firstType,  \* argument of the first effective SetDataType ("" if none)
    gretOK,     \* every GetDataType return so far was legal when decided
    ret         \* last action's observable result (for replay); not part of the design

vars == <<buf, deps, max, bW, bR, dtype, cancelled, wst, wpc, wpay, wn, wseq,
          rpc, rsz, rn, started, tpc, targ, gpc, gret,
          appended, delivered, sent, eof, eofOK, cleared, raTaken, firstType, gretOK, ret>>

\* the design state without replay-only observation variable
view == <<buf, deps, max, bW, bR, dtype, cancelled, wst, wpc, wpay, wn, wseq,
          rpc, rsz, rn, started, tpc, targ, gpc, gret,
          appended, delivered, sent, eof, eofOK, cleared, raTaken, firstType, gretOK>>

Min(a, b) == IF a < b THEN a ELSE b
Tag(w, k) == 16 * w + k
Payload(w, k, n) == [i \in 1..n |-> Tag(w, k + i - 1)]
Proj(s, w) == SelectSeq(s, LAMBDA b : b \div 16 = w)
NoRet == [k |-> "none"]
A(a, i, r) == [act |-> a, id |-> i] @@ r

Init ==
    /\ buf = <<>> /\ deps = 0 /\ max = MaxBuf /\ bW = 0 /\ bR = 0
    /\ dtype = "" /\ cancelled = FALSE
    /\ wst = [w \in Writers |-> "unopened"]
    /\ wpc = [w \in Writers |-> "idle"]
    /\ wpay = [w \in Writers |-> <<>>]
    /\ wn = [w \in Writers |-> 0]
    /\ wseq = [w \in Writers |-> 0]
    /\ rpc = [r \in Readers |-> "idle"]
    /\ rsz = [r \in Readers |-> 0]
    /\ rn = [r \in Readers |-> 0]
    /\ started = FALSE
    /\ tpc = [t \in Typers |-> "idle"]
    /\ targ = [t \in Typers |-> ""]
    /\ gpc = [g \in Getters |-> "idle"]
    /\ gret = [g \in Getters |-> ""]
    /\ appended = <<>> /\ delivered = <<>>
    /\ sent = [w \in Writers |-> <<>>]
    /\ eof = [r \in Readers |-> FALSE]
    /\ eofOK = TRUE /\ cleared = FALSE /\ raTaken = 0 /\ firstType = "" /\ gretOK = TRUE
    /\ ret = A("Init", 0, NoRet)

\* the same values as Init, as a next-state relation (used by trace validation to start a new trace)
Reset ==
    /\ buf' = <<>> /\ deps' = 0 /\ max' = MaxBuf /\ bW' = 0 /\ bR' = 0
    /\ dtype' = "" /\ cancelled' = FALSE
    /\ wst' = [w \in Writers |-> "unopened"]
    /\ wpc' = [w \in Writers |-> "idle"]
    /\ wpay' = [w \in Writers |-> <<>>]
    /\ wn' = [w \in Writers |-> 0]
    /\ wseq' = [w \in Writers |-> 0]
    /\ rpc' = [r \in Readers |-> "idle"]
    /\ rsz' = [r \in Readers |-> 0]
    /\ rn' = [r \in Readers |-> 0]
    /\ started' = FALSE
    /\ tpc' = [t \in Typers |-> "idle"]
    /\ targ' = [t \in Typers |-> ""]
    /\ gpc' = [g \in Getters |-> "idle"]
    /\ gret' = [g \in Getters |-> ""]
    /\ appended' = <<>> /\ delivered' = <<>>
    /\ sent' = [w \in Writers |-> <<>>]
    /\ eof' = [r \in Readers |-> FALSE]
    /\ eofOK' = TRUE /\ cleared' = FALSE /\ raTaken' = 0 /\ firstType' = "" /\ gretOK' = TRUE
    /\ ret' = A("Init", 0, NoRet)

UNCH_W == UNCHANGED <<wst, wpc, wpay, wn, wseq>>
UNCH_R == UNCHANGED <<rpc, rsz, rn, started>>
UNCH_T == UNCHANGED <<tpc, targ, gpc, gret>>
UNCH_G == UNCHANGED <<appended, delivered, sent, eof, eofOK, cleared, raTaken, firstType, gretOK>>

(* ---- Open / Close ------------------------------------------------------ *)
\* Protocol assumption (as in murex): a pipeline's writers are opened before
\* its reader starts; later opens only happen while someone still holds it.
Open(w) ==
    /\ wst[w] = "unopened"
    /\ (~started \/ deps >= 1)
    /\ deps' = deps + 1
    /\ wst' = [wst EXCEPT ![w] = "open"]
    /\ ret' = A("Open", w, [k |-> "open"])
    /\ UNCHANGED <<buf, max, bW, bR, dtype, cancelled, wpc, wpay, wn, wseq>>
    /\ UNCH_R /\ UNCH_T /\ UNCH_G

Close(w) ==
    /\ wst[w] = "open" /\ wpc[w] = "idle"
    /\ deps' = deps - 1
    /\ wst' = [wst EXCEPT ![w] = "closed"]
    /\ ret' = A("Close", w, [k |-> "close"])
    /\ UNCHANGED <<buf, max, bW, bR, dtype, cancelled, wpc, wpay, wn, wseq>>
    /\ UNCH_R /\ UNCH_T /\ UNCH_G

ForceClose ==
    /\ AllowForceClose /\ ~cancelled
    /\ cancelled' = TRUE
    /\ ret' = A("ForceClose", 0, [k |-> "fc"])
    /\ UNCHANGED <<buf, deps, max, bW, bR, dtype>>
    /\ UNCH_W /\ UNCH_R /\ UNCH_T /\ UNCH_G

(* ---- Write --------------------------------------------------------------- *)
WBegin(w, n) ==
    /\ wst[w] = "open" /\ wpc[w] = "idle" /\ wn[w] < MaxWrites
    /\ n \in WSizes
    /\ wn' = [wn EXCEPT ![w] = @ + 1]
    /\ IF n = 0
         THEN /\ ret' = A("WBegin", w, [k |-> "write", n |-> 0, err |-> FALSE, data |-> <<>>])   \* empty write returns at once
              /\ UNCHANGED <<wpc, wpay, wseq>>
         ELSE /\ wpc' = [wpc EXCEPT ![w] = "check"]
              /\ wpay' = [wpay EXCEPT ![w] = Payload(w, wseq[w], n)]
              /\ wseq' = [wseq EXCEPT ![w] = @ + n]
              /\ ret' = A("WBegin", w, [k |-> "none", n |-> n, data |-> Payload(w, wseq[w], n)])
    /\ UNCHANGED <<buf, deps, max, bW, bR, dtype, cancelled, wst>>
    /\ UNCH_R /\ UNCH_T /\ UNCH_G

\* loop head: context test, then snapshot of len(buffer) and max under the lock
WCheckO(w, c) ==
    /\ wpc[w] = "check"
    /\ IF c
         THEN /\ buf' = <<>>
              /\ cleared' = TRUE
              /\ raTaken' = 0
              /\ wpc' = [wpc EXCEPT ![w] = "idle"]
              /\ wpay' = [wpay EXCEPT ![w] = <<>>]
              /\ ret' = A("WCheck", w, [k |-> "write", n |-> 0, err |-> TRUE])
         ELSE /\ IF Len(buf) < max \/ max = 0
                   THEN wpc' = [wpc EXCEPT ![w] = "append"]
                   ELSE \/ wpc' = [wpc EXCEPT ![w] = "check"]
                        \/ (~StrictLimit /\ wpc' = [wpc EXCEPT ![w] = "append"])
              /\ ret' = A("WCheck", w, NoRet)
              /\ UNCHANGED <<buf, cleared, raTaken, wpay>>
    /\ UNCHANGED <<deps, max, bW, bR, dtype, cancelled, wst, wn, wseq>>
    /\ UNCH_R /\ UNCH_T
    /\ UNCHANGED <<appended, delivered, sent, eof, eofOK, firstType, gretOK>>
WCheck(w) == WCheckO(w, cancelled)

WAppend(w) ==
    /\ wpc[w] = "append"
    /\ buf' = buf \o wpay[w]
    /\ bW' = bW + Len(wpay[w])
    /\ appended' = appended \o wpay[w]
    /\ sent' = [sent EXCEPT ![w] = @ \o wpay[w]]
    /\ wpc' = [wpc EXCEPT ![w] = "idle"]
    /\ wpay' = [wpay EXCEPT ![w] = <<>>]
    /\ ret' = A("WAppend", w, [k |-> "write", n |-> Len(wpay[w]), err |-> FALSE])
    /\ UNCHANGED <<deps, max, bR, dtype, cancelled, wst, wn, wseq>>
    /\ UNCH_R /\ UNCH_T
    /\ UNCHANGED <<delivered, eof, eofOK, cleared, raTaken, firstType, gretOK>>

(* ---- Read ---------------------------------------------------------------- *)
RBegin(r, n) ==
    /\ rpc[r] = "idle" /\ rn[r] < MaxReads /\ n \in RSizes
    /\ \E w \in Writers : wst[w] # "unopened"      \* reader starts after the pipeline is wired
    /\ rn' = [rn EXCEPT ![r] = @ + 1]
    /\ started' = TRUE
    /\ rsz' = [rsz EXCEPT ![r] = n]
    /\ rpc' = [rpc EXCEPT ![r] = IF n = 0 THEN "rastart" ELSE "check"]
    /\ ret' = A("RBegin", r, [k |-> "none", n |-> n])
    /\ UNCHANGED <<buf, deps, max, bW, bR, dtype, cancelled>>
    /\ UNCH_W /\ UNCH_T /\ UNCH_G

AllWritersDone == \A w \in Writers : wst[w] # "open"

RCheckO(r, c) ==
    /\ rpc[r] = "check"
    /\ IF c
         THEN /\ rpc' = [rpc EXCEPT ![r] = "done"]
              /\ ret' = A("RCheck", r, [k |-> "read", data |-> <<>>, eof |-> TRUE])
              /\ UNCHANGED <<eof, eofOK>>
         ELSE IF Len(buf) = 0
           THEN IF deps < 1
                  THEN /\ rpc' = [rpc EXCEPT ![r] = "done"]
                       /\ eof' = [eof EXCEPT ![r] = TRUE]
                       /\ eofOK' = (eofOK /\ AllWritersDone /\ buf = <<>>)
                       /\ ret' = A("RCheck", r, [k |-> "read", data |-> <<>>, eof |-> TRUE])
                  ELSE /\ ret' = A("RCheck", r, NoRet)                     \* spin
                       /\ UNCHANGED <<rpc, eof, eofOK>>
           ELSE /\ rpc' = [rpc EXCEPT ![r] = "take"]
                /\ ret' = A("RCheck", r, NoRet)
                /\ UNCHANGED <<eof, eofOK>>
    /\ UNCHANGED <<buf, deps, max, bW, bR, dtype, cancelled, rsz, rn, started>>
    /\ UNCH_W /\ UNCH_T
    /\ UNCHANGED <<appended, delivered, sent, cleared, raTaken, firstType, gretOK>>
RCheck(r) == RCheckO(r, cancelled)

RTake(r) ==
    /\ rpc[r] = "take"
    /\ LET k == Min(rsz[r], Len(buf)) IN
         /\ buf' = SubSeq(buf, k + 1, Len(buf))
         /\ bR' = bR + k
         /\ delivered' = delivered \o SubSeq(buf, 1, k)
         /\ ret' = A("RTake", r, [k |-> "read", data |-> SubSeq(buf, 1, k), eof |-> FALSE])
    /\ rpc' = [rpc EXCEPT ![r] = "idle"]
    /\ UNCHANGED <<deps, max, bW, dtype, cancelled, rsz, rn, started>>
    /\ UNCH_W /\ UNCH_T
    /\ UNCHANGED <<appended, sent, eof, eofOK, cleared, raTaken, firstType, gretOK>>

(* ---- ReadAll ------------------------------------------------------------- *)
RAStart(r) ==
    /\ rpc[r] = "rastart"
    /\ max' = 0
    /\ rpc' = [rpc EXCEPT ![r] = "rawait"]
    /\ ret' = A("RAStart", r, NoRet)
    /\ UNCHANGED <<buf, deps, bW, bR, dtype, cancelled, rsz, rn, started>>
    /\ UNCH_W /\ UNCH_T /\ UNCH_G

RAWaitO(r, c) ==
    /\ rpc[r] = "rawait"
    /\ rpc' = [rpc EXCEPT ![r] = IF c \/ deps < 1 THEN "ratake" ELSE "rawait"]
    /\ ret' = A("RAWait", r, NoRet)
    /\ UNCHANGED <<buf, deps, max, bW, bR, dtype, cancelled, rsz, rn, started>>
    /\ UNCH_W /\ UNCH_T /\ UNCH_G
RAWait(r) == RAWaitO(r, cancelled)

\* ReadAll hands over everything that is left; it is the reader's last operation.
RATake(r) ==
    /\ rpc[r] = "ratake"
    /\ bR' = bR + Len(buf)
    /\ delivered' = delivered \o buf
    /\ raTaken' = Len(buf)
    /\ eof' = [eof EXCEPT ![r] = TRUE]
    /\ eofOK' = (eofOK /\ (cancelled \/ AllWritersDone))
    /\ rpc' = [rpc EXCEPT ![r] = "done"]
    /\ ret' = A("RATake", r, [k |-> "readall", data |-> buf])
    /\ UNCHANGED <<buf, deps, max, bW, dtype, cancelled, rsz, rn, started>>
    /\ UNCH_W /\ UNCH_T
    /\ UNCHANGED <<appended, sent, cleared, firstType, gretOK>>

(* ---- data type ------------------------------------------------------------ *)
TBegin(t, ty) ==
    /\ tpc[t] \in {"idle", "done"} /\ ty \in Types
    /\ targ' = [targ EXCEPT ![t] = ty]
    /\ IF ty = "" \/ ty = "null"
         THEN /\ tpc' = [tpc EXCEPT ![t] = "done"]        \* returns without touching the pipe
              /\ ret' = A("TBegin", t, [k |-> "sdt", ty |-> ty])
         ELSE /\ tpc' = [tpc EXCEPT ![t] = "set"]
              /\ ret' = A("TBegin", t, [k |-> "none", ty |-> ty])
    /\ UNCHANGED <<buf, deps, max, bW, bR, dtype, cancelled, gpc, gret>>
    /\ UNCH_W /\ UNCH_R /\ UNCH_G

TSet(t) ==
    /\ tpc[t] = "set"
    /\ dtype' = IF dtype = "" THEN targ[t] ELSE dtype
    /\ firstType' = IF dtype = "" THEN targ[t] ELSE firstType
    /\ tpc' = [tpc EXCEPT ![t] = "done"]
    /\ ret' = A("TSet", t, [k |-> "sdt"])
    /\ UNCHANGED <<buf, deps, max, bW, bR, cancelled, targ, gpc, gret>>
    /\ UNCH_W /\ UNCH_R
    /\ UNCHANGED <<appended, delivered, sent, eof, eofOK, cleared, raTaken, gretOK>>

GBegin(g) ==
    /\ gpc[g] = "idle"
    /\ \E w \in Writers : wst[w] # "unopened"
    /\ gpc' = [gpc EXCEPT ![g] = "poll"]
    /\ started' = TRUE
    /\ ret' = A("GBegin", g, NoRet)
    /\ UNCHANGED <<buf, deps, max, bW, bR, dtype, cancelled, tpc, targ, gret, rpc, rsz, rn>>
    /\ UNCH_W /\ UNCH_G

\* c, d: the cancellation flag and the data type as observed by the getter
GPollO(g, c, d) ==
    /\ gpc[g] = "poll"
    /\ IF d # ""
         THEN /\ gpc' = [gpc EXCEPT ![g] = "done"]
              /\ gret' = [gret EXCEPT ![g] = d]
              /\ ret' = A("GPoll", g, [k |-> "gdt", t |-> d])
              /\ UNCHANGED gretOK
         ELSE IF c \/ deps < 1
           THEN /\ gpc' = [gpc EXCEPT ![g] = "done"]
                /\ gret' = [gret EXCEPT ![g] = Generic]
                /\ gretOK' = (gretOK /\ (c \/ AllWritersDone))
                /\ ret' = A("GPoll", g, [k |-> "gdt", t |-> Generic])
           ELSE /\ ret' = A("GPoll", g, NoRet)                             \* spin
                /\ UNCHANGED <<gpc, gret, gretOK>>
    /\ UNCHANGED <<buf, deps, max, bW, bR, dtype, cancelled, tpc, targ>>
    /\ UNCH_W /\ UNCH_R
    /\ UNCHANGED <<appended, delivered, sent, eof, eofOK, cleared, raTaken, firstType>>
GPoll(g) == GPollO(g, cancelled, dtype)

Next ==
    \/ \E w \in Writers : Open(w) \/ Close(w) \/ WCheck(w) \/ WAppend(w)
    \/ \E w \in Writers, n \in WSizes : WBegin(w, n)
    \/ ForceClose
    \/ \E r \in Readers, n \in RSizes : RBegin(r, n)
    \/ \E r \in Readers : RCheck(r) \/ RTake(r) \/ RAStart(r) \/ RAWait(r) \/ RATake(r)
    \/ \E t \in Typers, ty \in Types : TBegin(t, ty)
    \/ \E t \in Typers : TSet(t)
    \/ \E g \in Getters : GBegin(g) \/ GPoll(g)

Fairness ==
    /\ \A w \in Writers : WF_vars(WCheck(w)) /\ WF_vars(WAppend(w))
    /\ \A r \in Readers : WF_vars(RCheck(r)) /\ WF_vars(RTake(r))
                          /\ WF_vars(RAStart(r)) /\ WF_vars(RAWait(r)) /\ WF_vars(RATake(r))
                          /\ WF_vars(\E n \in RSizes : RBegin(r, n))
    /\ \A t \in Typers : WF_vars(TSet(t))
    /\ \A g \in Getters : WF_vars(GPoll(g))
    /\ \A w \in Writers : WF_vars(Close(w)) /\ WF_vars(Open(w))

Spec == Init /\ [][Next]_vars
FairSpec == Spec /\ Fairness

(* ---- properties ------------------------------------------------------------- *)
TypeOK ==
    /\ deps \in 0..Cardinality(Writers)
    /\ bW \in Nat /\ bR \in Nat
    /\ max \in {0, MaxBuf}

\* C01: nothing lost, duplicated or reordered (until a reader-side ForceClose
\* makes a writer discard the buffer).
Pending == SubSeq(buf, raTaken + 1, Len(buf))      \* buffered and not yet handed to a reader
Conservation == ~cleared => delivered \o Pending = appended
PerWriterOrder == ~cleared => \A w \in Writers : Proj(delivered \o Pending, w) = sent[w]
DeliveredIsPrefix == ~cleared => \E n \in 0..Len(appended) : delivered = SubSeq(appended, 1, n)
\* C01: EOF only after every writer closed and the buffer drained
NoEarlyEOF == eofOK
EofIsFinal == \A r \in Readers : (eof[r] /\ ~cancelled) => (Pending = <<>> /\ AllWritersDone)
\* C01: counters
Counters == bW = Len(appended) /\ bR = Len(delivered)
\* C01: a writer waiting on a full pipe proceeds once the reader drains it
WriterProgress ==
    \A w \in Writers : (wpc[w] = "check") ~> (wpc[w] # "check")
\* every operation in progress returns; the reader reaches end-of-stream
AllReturn ==
    /\ \A r \in Readers : (rpc[r] \notin {"idle", "done"}) ~> (rpc[r] \in {"idle", "done"})
    /\ \A r \in Readers : <>(rpc[r] = "done" \/ (rpc[r] = "idle" /\ rn[r] = MaxReads))

\* C02
TypeSetOnce == [][dtype # "" => dtype' = dtype]_vars
FirstWins == dtype = firstType
TypeNeverNull == dtype \notin {"null"}
GetTypeLegal == gretOK
GetTypeValue == \A g \in Getters : gpc[g] = "done" =>
                    (gret[g] = dtype \/ (gret[g] = Generic))
GetterReturns == \A g \in Getters : (gpc[g] = "poll") ~> (gpc[g] = "done")
=============================================================================
