------------------------------- MODULE Cache -------------------------------
(***************************************************************************)
(* C30 - the cache (utils/cache) never returns stale or foreign values.    *)
(*                                                                         *)
(* Declarative rule (the property): one map  m[ns, key] = [val, exp];       *)
(*   Write replaces the entry, Read returns val iff an entry exists and     *)
(*   exp > now, Trim drops expired entries, Clear drops everything.         *)
(*                                                                         *)
(* Operational machine (the code): two layers.                              *)
(*   mem  - internalCacheT (utils/cache/internal.go): per namespace a map   *)
(*          key -> (value, ttl); Write stores only when ttl is at least     *)
(*          59 minutes away; Read is asked first;                           *)
(*   sql  - cachedb (utils/cache/cachedb): one table per namespace,         *)
(*          INSERT OR REPLACE, SELECT .. WHERE ttl > unixepoch();           *)
(*   cache.Read  = mem.Read, falling back to sql.Read  (with_db.go)         *)
(*   cache.Write = mem.Write then sql.Write                                 *)
(*   a namespace exists (map entry + table) once initNamespace ran for it:  *)
(*   at start-up for the set `known`, lazily in read().                     *)
(* TLC checks that every read of the machine returns what the rule says.    *)
(*                                                                         *)
(* Parameters select the design that is modelled:                           *)
(*   MemLive = FALSE : the memory layer as coded - its Read never answers   *)
(*             (internal.go:26 tests ttl.After(now) the wrong way round and *)
(*             stores the value pointer into a copy) - reads are served by  *)
(*             sql.  This is the reference configuration.                   *)
(*   MemLive = TRUE  : the memory layer "repaired" in the obvious way.      *)
(*             TLC refutes Agree (a short-TTL rewrite leaves the old        *)
(*             long-TTL value in memory): diagnosis only (MCCacheMemLive).  *)
(*   LazyWrite = TRUE : INTENDED - a write to a namespace nobody read yet   *)
(*             creates it.  FALSE = as coded (the write is lost, or the nil *)
(*             map entry is dereferenced): diagnosis only (MCCacheAsCoded). *)
(***************************************************************************)
EXTENDS Integers, Sequences, FiniteSets, TLC

CONSTANTS Namespaces, Keys, Values,
          MaxOps,      \* reads/writes/trims/clears in a behaviour
          MaxTicks,    \* clock advances
          Boots,       \* the sets of namespaces that may exist at start-up (cache.InitCache)
          MemLive, LazyWrite

ASSUME Boots \subseteq SUBSET Namespaces

None == "none"
TTLs == {"past", "near", "far"}      \* expiry relative to the clock at the write
Far == 100
\* absolute expiry; anything already expired is the same for every later read: -1
Expiry(ttl, now) == IF ttl = "past" THEN -1 ELSE IF ttl = "near" THEN now + 1 ELSE Far
Cells == Namespaces \X Keys
Absent == [val |-> None, exp |-> -1]

(* ---------- the state as a record and the operations as functions on it ---------- *)
\* S = [m: the rule's map (Cells -> entry or Absent), mem: memory layer, sql: sqlite layer,
\*      known: namespaces that exist (map entry + table), now]
Alive(e, t) == e.val # None /\ e.exp > t
S0(kn) == [m |-> [c \in Cells |-> Absent], mem |-> [c \in Cells |-> Absent], sql |-> [c \in Cells |-> Absent],
           known |-> kn, now |-> 0]

\* internalCacheT.Read
MemRead(S, c) ==
    IF c[1] \notin S.known \/ S.mem[c].val = None THEN None
    ELSE IF MemLive
      THEN (IF S.mem[c].exp > S.now THEN S.mem[c].val ELSE None)
      ELSE \* as coded: `if v.ttl.After(time.Now()) { return false }`, and when the test lets an
           \* (expired) item through the value never reaches the caller: Unmarshal(nil) fails
           None
\* cachedb.Read: no table -> query error -> false
SqlRead(S, c) == IF c[1] \in S.known /\ Alive(S.sql[c], S.now) THEN S.sql[c].val ELSE None
CacheRead(S, c) == IF MemRead(S, c) # None THEN MemRead(S, c) ELSE SqlRead(S, c)
\* cache.Read: read() creates the namespace (empty) when it does not exist
MachineRead(S, c) == IF c[1] \in S.known THEN CacheRead(S, c) ELSE None
RuleRead(S, c) == IF Alive(S.m[c], S.now) THEN S.m[c].val ELSE None
ReadRet(S, ns, k) == [act |-> "Read", ns |-> ns, k |-> k,
                      got |-> MachineRead(S, <<ns, k>>),
                      exp |-> RuleRead(S, <<ns, k>>),
                      entry |-> IF S.m[<<ns, k>>].val = None THEN "absent"
                                ELSE IF S.m[<<ns, k>>].exp > S.now THEN "alive" ELSE "expired"]
ReadF(S, ns) == [S EXCEPT !.known = S.known \cup {ns}]

WriteF(S, ns, k, v, ttl) ==
    LET c == <<ns, k>>
        e == [val |-> v, exp |-> Expiry(ttl, S.now)]
        exists == ns \in S.known \/ LazyWrite
    IN [S EXCEPT !.m = [S.m EXCEPT ![c] = e],
                 !.known = IF LazyWrite THEN S.known \cup {ns} ELSE S.known,
                 \* internalCacheT.Write: "lets not bother ... if the TTL < 1 hr"
                 !.mem = IF exists /\ ttl = "far" THEN [S.mem EXCEPT ![c] = e] ELSE S.mem,
                 \* cachedb.Write: INSERT OR REPLACE (fails without a table)
                 !.sql = IF exists THEN [S.sql EXCEPT ![c] = e] ELSE S.sql]
WriteRet(S, ns, k, v, ttl) == [act |-> "Write", ns |-> ns, k |-> k, v |-> v, ttl |-> ttl, fresh |-> ns \notin S.known]

\* Trim: every existing namespace, both layers, entries whose ttl is before now
Expired(f, c, t) == f[c].val # None /\ f[c].exp < t
TrimF(S) == [S EXCEPT !.m = [c \in Cells |-> IF Expired(S.m, c, S.now) THEN Absent ELSE S.m[c]],
                      !.mem = [c \in Cells |-> IF c[1] \in S.known /\ Expired(S.mem, c, S.now) THEN Absent ELSE S.mem[c]],
                      !.sql = [c \in Cells |-> IF c[1] \in S.known /\ Expired(S.sql, c, S.now) THEN Absent ELSE S.sql[c]]]
ClearF(S) == [S EXCEPT !.m = [c \in Cells |-> Absent],
                       !.mem = [c \in Cells |-> IF c[1] \in S.known THEN Absent ELSE S.mem[c]],
                       !.sql = [c \in Cells |-> IF c[1] \in S.known THEN Absent ELSE S.sql[c]]]
\* the clock passes the expiry of every "near" entry written so far
Norm(f, t) == [c \in Cells |-> IF f[c].val # None /\ f[c].exp <= t THEN [f[c] EXCEPT !.exp = -1] ELSE f[c]]
TickF(S) == [S EXCEPT !.now = S.now + 1, !.m = Norm(S.m, S.now + 1), !.mem = Norm(S.mem, S.now + 1),
                      !.sql = Norm(S.sql, S.now + 1)]

\* properties of a state
\* the machine answers every possible read as the rule says
AgreeS(S) == \A c \in Cells : MachineRead(S, c) = RuleRead(S, c)
\* ... which is never a value of another cell, never an expired one, always the latest write
NoForeignNoStaleS(S) == \A c \in Cells : MachineRead(S, c) # None => (S.m[c].val = MachineRead(S, c) /\ S.m[c].exp > S.now)

(* ------------------------------ the machine ------------------------------ *)
VARIABLES st, nops, ret
vars == <<st, nops, ret>>
view == <<st, nops>>

Init == /\ st \in {S0(kn) : kn \in Boots}
        /\ nops = 0
        /\ ret = [act |-> "Init", known |-> st.known]
Op == nops < MaxOps /\ nops' = nops + 1
Read(ns, k) == Op /\ st' = ReadF(st, ns) /\ ret' = ReadRet(st, ns, k)
Write(ns, k, v, ttl) == Op /\ st' = WriteF(st, ns, k, v, ttl) /\ ret' = WriteRet(st, ns, k, v, ttl)
Trim == Op /\ st' = TrimF(st) /\ ret' = [act |-> "Trim"]
Clear == Op /\ st' = ClearF(st) /\ ret' = [act |-> "Clear"]
Tick == st.now < MaxTicks /\ st' = TickF(st) /\ ret' = [act |-> "Tick"] /\ UNCHANGED nops

Next == \/ Trim \/ Clear \/ Tick
        \/ \E ns \in Namespaces, k \in Keys : Read(ns, k) \/ \E v \in Values, t \in TTLs : Write(ns, k, v, t)
Spec == Init /\ [][Next]_vars

(* ------------------------------ properties ------------------------------- *)
\* (state predicates over every cell, not over `ret`: the model-checking configurations identify
\* states that differ only in `ret`)
Agree == AgreeS(st)
NoForeignNoStale == NoForeignNoStaleS(st)
\* the sqlite layer alone is the rule's map wherever the namespace exists (design invariant)
SqlIsMap == \A c \in Cells : c[1] \in st.known =>
                /\ Alive(st.sql[c], st.now) <=> Alive(st.m[c], st.now)
                /\ Alive(st.m[c], st.now) => st.sql[c].val = st.m[c].val
=============================================================================
