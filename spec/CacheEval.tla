----------------------------- MODULE CacheEval -----------------------------
(***************************************************************************)
(* TLC as the evaluator of Cache.tla on given histories (longer, over more  *)
(* namespaces, keys and values than the exhaustive bound): reads            *)
(* cachehist.ndjson, one record [id, known : Seq(ns), ops : Seq(op)] with   *)
(*   op = [act : "Read", ns, k] | [act : "Write", ns, k, v, ttl]            *)
(*      | [act : "Trim"] | [act : "Clear"] | [act : "Tick"]                 *)
(* folds the operations of Cache.tla over it and writes, per history, the   *)
(* step records (what `ret` would be) to cacheexp.ndjson; `ok` says that    *)
(* Agree and NoForeignNoStale hold in every state of the history.           *)
(***************************************************************************)
EXTENDS Cache, Json, SequencesExt

CacheHistories == ndJsonDeserialize("cachehist.ndjson")


\* acc = [S, rets, ok]
ApplyC(acc, op) ==
    LET S == acc.S
        S2 == IF op.act = "Read" THEN ReadF(S, op.ns)
              ELSE IF op.act = "Write" THEN WriteF(S, op.ns, op.k, op.v, op.ttl)
              ELSE IF op.act = "Trim" THEN TrimF(S)
              ELSE IF op.act = "Clear" THEN ClearF(S)
              ELSE TickF(S)
        r == IF op.act = "Read" THEN ReadRet(S, op.ns, op.k)
             ELSE IF op.act = "Write" THEN WriteRet(S, op.ns, op.k, op.v, op.ttl)
             ELSE [act |-> op.act]
    IN [S |-> S2, rets |-> Append(acc.rets, r), ok |-> acc.ok /\ AgreeS(S2) /\ NoForeignNoStaleS(S2)]

RECURSIVE FoldC(_, _, _)
FoldC(acc, ops, i) == IF i > Len(ops) THEN acc ELSE FoldC(ApplyC(acc, ops[i]), ops, i + 1)

EvalC(h) == LET kn == ToSet(h.known)
                a == FoldC([S |-> S0(kn), rets |-> <<[act |-> "Init", known |-> kn]>>, ok |-> TRUE], h.ops, 1)
            IN [id |-> h.id, ok |-> a.ok, steps |-> a.rets]

ASSUME CacheEvalEmit == ndJsonSerialize("cacheexp.ndjson", [i \in DOMAIN CacheHistories |-> EvalC(CacheHistories[i])])
=============================================================================
