SPECIFICATION Spec
CONSTANTS
  Inputs <- FullInputs
INVARIANT Agree
PROPERTY Sticky
POSTCONDITION Emit
CHECK_DEADLOCK FALSE
