SPECIFICATION Spec
CONSTANTS
  MaxLen = 1
  Exits = {0}
  Modes = {"normal"}
  Codes = {0, 1, 2, 3, 7, 42, 100, 126, 127, 128, 130, 137, 200, 254, 255}
  Signals = {1, 2, 3, 4, 6, 7, 8, 9, 10, 11, 12, 13, 14, 15}
CHECK_DEADLOCK FALSE
