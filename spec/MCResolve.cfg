
