SPECIFICATION Spec
CONSTANTS
  Names = {"x", "y"}
  Opts = {}
  GlobalOpts = {}
  MaxLen = 4
  MaxDepth = 3
  Family = "var"
  TopLevel = "function"
INVARIANT Agree
PROPERTIES WriteIsLocal ReturnRestores
POSTCONDITION Emit
CHECK_DEADLOCK FALSE
