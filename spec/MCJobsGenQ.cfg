SPECIFICATION Spec
CONSTANTS
  MaxProcs = 4
  MaxOps = 3

INVARIANTS RunningListedOnce LookupRunning ReuseRule NoResurrection TextLookup TextLookupFinds
PROPERTIES IdStable
CHECK_DEADLOCK FALSE
