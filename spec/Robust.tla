------------------------------- MODULE Robust -------------------------------
(***************************************************************************)
(* C19: whatever program and input murex is given, it reports failures as  *)
(* error messages with a non-zero exit number; it never reaches an         *)
(* internal panic, never kills the shell and never leaves the caller       *)
(* blocked.                                                                *)
(* The specification enumerates the adversarial input space (a builtin, up *)
(* to two arguments of hostile shapes, a stdin of a hostile shape) and     *)
(* states the outcome rule; the case table is executed in child processes. *)
(***************************************************************************)
EXTENDS Integers, Sequences, FiniteSets, TLC, Json, SequencesExt

CONSTANTS Builtins,      \* names of the builtins under test (taken from the real registry)
          ArgShapes,     \* abstract argument shapes, rendered by the harness
          StdinShapes,   \* abstract stdin shapes; "none" = the command is not a method
          TwoArgBuiltins, \* builtins that are also tried with every pair of shapes
          IndexCmds,     \* the index / element builtins
          IndexShapes,   \* argument shapes that are (mis-shapen) row, column and key selectors
          TableStdin,    \* stdin shapes that are tables / lists of records
          FlagPairs,     \* strings "builtin flag": flags that the source of the builtin's package declares (taken from the real tree)
          FlagVals       \* hostile values for a flag (argument shapes)

Outcomes == {"ok", "error"}                          \* the only outcomes the property allows
Forbidden == {"panic", "crashed", "hung"}
\* an outcome is acceptable iff it is a normal return; "error" must come with exit # 0
Acceptable(o) == o.class \in Outcomes /\ (o.class = "error" => o.exit # 0)

One == {[cmd |-> b, args |-> <<a>>, stdin |-> s] : b \in Builtins, a \in ArgShapes, s \in StdinShapes}
Zero == {[cmd |-> b, args |-> <<>>, stdin |-> s] : b \in Builtins, s \in StdinShapes}
Two == {[cmd |-> b, args |-> <<a1, a2>>, stdin |-> s] : b \in TwoArgBuiltins, a1 \in ArgShapes, a2 \in ArgShapes, s \in {"none", "json-array"}}
\* index and element lookups on tabular data: every selector alone and every ordered pair of selectors
\* (a pair decides between the streaming and the buffered path of the table indexer)
Idx == {[cmd |-> b, args |-> <<a>>, stdin |-> s] : b \in IndexCmds, a \in IndexShapes, s \in TableStdin}
       \cup {[cmd |-> b, args |-> <<a1, a2>>, stdin |-> s] : b \in IndexCmds, a1 \in IndexShapes, a2 \in IndexShapes, s \in TableStdin}
\* a declared flag followed by a hostile value (and optionally one more argument): the builtin's own option handling
\* (an argument that is not a word of the flag table never reaches it)
\* (cmd is the pair string: the renderer prints it as it is, builtin then flag)
Flg == UNION {{[cmd |-> p, args |-> a, stdin |-> s] : a \in {<<v>>, <<v, "number">>, <<"number", v>>, <<v, "block">>}} :
              p \in FlagPairs, v \in FlagVals, s \in {"none", "lines"}}
Fam(S, f) == {[cmd |-> c.cmd, args |-> c.args, stdin |-> c.stdin, fam |-> f] : c \in S}
Cases == Fam(Zero \cup One \cup Two, "table") \cup Fam(Idx, "index") \cup Fam(Flg, "flag")
ASSUME Outcomes \cap Forbidden = {}
ASSUME ndJsonSerialize("cases.ndjson", SetToSeq(Cases))
=============================================================================
