SPECIFICATION FairSpec
CONSTANTS
  Names = {"a", "b"}
  Clients = {1, 2}
  MaxOps = 2
  MaxPipes = 2
  MaxTimers = 2
  GetTries = 6
  OpKinds = {"create", "close", "delete", "get"}
PROPERTIES ClosedEventuallyGone GetReturns
CHECK_DEADLOCK FALSE
