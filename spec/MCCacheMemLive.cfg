SPECIFICATION Spec
CONSTANTS
  Namespaces = {"A", "B"}
  Keys = {"k1", "k2"}
  Values = {"v1", "v2"}
  MaxOps = 4
  MaxTicks = 1
  Boots = {{}, {"A"}, {"B"}, {"A", "B"}}
  MemLive = TRUE
  LazyWrite = TRUE
VIEW view
INVARIANTS Agree NoForeignNoStale
CHECK_DEADLOCK FALSE
