------------------------------ MODULE Lifecycle ------------------------------
(***************************************************************************)
(* The life of the processes of one block: the scheduler goroutine         *)
(* (runModeNormal / runModeTry / runModeTryPipe in lang/interpreter_pc.go), *)
(* one goroutine per started process (executeProcess -> destroyProcess ->   *)
(* deregisterProcess in lang/process.go) and the waiter goroutines          *)
(* (`go waitProcess(prev)`), synchronised by the unbuffered channel         *)
(* WaitForTermination of every process and by the "previous process has     *)
(* terminated" flag.                                                        *)
(*                                                                         *)
(* TLC explores every interleaving for every block up to MaxLen commands    *)
(* and checks: no deadlock, the block returns (C03: "always finishes"),     *)
(* a command that is not piped into starts only after the command before it *)
(* has terminated (C03: sequential meaning), every process is released      *)
(* exactly once (C28) and every send on a WaitForTermination channel meets  *)
(* exactly one receiver.                                                    *)
(***************************************************************************)
EXTENDS Integers, Sequences, FiniteSets, TLC

CONSTANTS MaxLen, Exits, Modes

JoinOps == {";", "&&", "||", "|"}
Cmd == [op : JoinOps \cup {"first"}, exit : Exits]
Programs == UNION {{p \in [1..n -> Cmd] : p[1].op = "first" /\ \A i \in 2..n : p[i].op # "first"} : n \in 1..MaxLen}

VARIABLES
    prog, mode,
    spc,        \* scheduler: [at |-> "loop"|"waitprev"|"spawn"|"waitlast"|"examine"|"done", i |-> index]
    skipPipe,   \* runModeNormal's flag
    ppc,        \* process -> "unstarted" | "ready" | "body" | "waitprev" | "destroy" | "done" | "never"
    term,       \* process -> terminated flag (SetTerminatedState)
    cexit,      \* process -> ExitNum
    recv,       \* process -> number of goroutines blocked receiving on its WaitForTermination
    sent,       \* process -> sends completed on its channel
    dereg,      \* process -> times released from the FID table
    blockExit

vars == <<prog, mode, spc, skipPipe, ppc, term, cexit, recv, sent, dereg, blockExit>>
N == Len(prog)
IsMethod(i) == prog[i].op = "|"
IsCond(i) == prog[i].op \in {"&&", "||"}

Init ==
    /\ prog \in Programs /\ mode \in Modes
    /\ spc = [at |-> "loop", i |-> 1]
    /\ skipPipe = FALSE
    /\ ppc = [k \in 1..Len(prog) |-> "unstarted"]
    /\ term = [k \in 1..Len(prog) |-> FALSE]
    /\ cexit = [k \in 1..Len(prog) |-> 0]
    /\ recv = [k \in 1..Len(prog) |-> 0]
    /\ sent = [k \in 1..Len(prog) |-> 0]
    /\ dereg = [k \in 1..Len(prog) |-> 0]
    /\ blockExit = 0

UNCH_P == UNCHANGED <<ppc, term, cexit, sent, dereg>>

(* ------------------------------ process goroutine ------------------------ *)
\* executeProcess: a process found terminated (skipped by the scheduler) goes straight to destroy
PStart(k) ==
    /\ ppc[k] = "ready"
    /\ ppc' = [ppc EXCEPT ![k] = IF term[k] THEN "destroy" ELSE "body"]
    /\ UNCHANGED <<prog, mode, spc, skipPipe, term, cexit, recv, sent, dereg, blockExit>>
PBody(k) ==
    /\ ppc[k] = "body"
    /\ cexit' = [cexit EXCEPT ![k] = prog[k].exit]
    /\ ppc' = [ppc EXCEPT ![k] = "waitprev"]
    /\ UNCHANGED <<prog, mode, spc, skipPipe, term, recv, sent, dereg, blockExit>>
\* `for !p.Previous.HasTerminated()`: the first process's previous is the parent, which counts as terminated
PWaitPrev(k) ==
    /\ ppc[k] = "waitprev"
    /\ (IF k = 1 THEN TRUE ELSE term[k - 1])
    /\ ppc' = [ppc EXCEPT ![k] = "destroy"]
    /\ UNCHANGED <<prog, mode, spc, skipPipe, term, cexit, recv, sent, dereg, blockExit>>
\* destroyProcess: the send on the unbuffered channel completes only with a receiver; then deregisterProcess
PDestroy(k) ==
    /\ ppc[k] = "destroy"
    /\ recv[k] > 0
    /\ recv' = [recv EXCEPT ![k] = @ - 1]
    /\ sent' = [sent EXCEPT ![k] = @ + 1]
    /\ term' = [term EXCEPT ![k] = TRUE]
    /\ dereg' = [dereg EXCEPT ![k] = @ + 1]
    /\ ppc' = [ppc EXCEPT ![k] = "done"]
    /\ UNCHANGED <<prog, mode, spc, skipPipe, cexit, blockExit>>

(* ------------------------------ scheduler: normal mode -------------------- *)
\* top of the loop body for index i
NLoop ==
    /\ mode = "normal" /\ spc.at = "loop"
    /\ LET i == spc.i IN
       IF i > N THEN /\ spc' = [at |-> "waitlast", i |-> N]
                     /\ recv' = [recv EXCEPT ![N] = @ + 1]          \* waitProcess(last)
                     /\ UNCHANGED <<skipPipe>> /\ UNCH_P
       ELSE IF i = 1 THEN spc' = [at |-> "spawn", i |-> 1] /\ UNCHANGED <<recv, skipPipe>> /\ UNCH_P
       ELSE IF IsMethod(i)
              THEN \* go waitProcess(prev): a new goroutine blocks receiving; the scheduler moves on
                   /\ recv' = [recv EXCEPT ![i - 1] = @ + 1]
                   /\ spc' = [at |-> "examine", i |-> i]
                   /\ UNCHANGED skipPipe /\ UNCH_P
              ELSE \* waitProcess(prev) inline: the scheduler itself blocks
                   /\ recv' = [recv EXCEPT ![i - 1] = @ + 1]
                   /\ spc' = [at |-> "waitprev", i |-> i]
                   /\ UNCHANGED skipPipe /\ UNCH_P
    /\ UNCHANGED <<prog, mode, blockExit>>
\* the inline wait returns once the previous process has sent
NWaitPrev ==
    /\ mode = "normal" /\ spc.at = "waitprev"
    /\ sent[spc.i - 1] > 0
    /\ spc' = [at |-> "examine", i |-> spc.i]
    /\ UNCHANGED <<prog, mode, skipPipe, recv, blockExit>> /\ UNCH_P
\* the skip decision (reads the previous process's exit number)
NExamine ==
    /\ mode = "normal" /\ spc.at = "examine"
    /\ LET i == spc.i
           skip == \/ (prog[i].op = "&&" /\ cexit[i - 1] # 0)
                   \/ (prog[i].op = "||" /\ cexit[i - 1] = 0)
                   \/ (skipPipe /\ IsCond(i))
       IN /\ skipPipe' = skip
          /\ term' = [term EXCEPT ![i] = skip]
          /\ cexit' = [cexit EXCEPT ![i] = IF skip THEN cexit[i - 1] ELSE @]
          /\ spc' = [at |-> "spawn", i |-> i]
    /\ UNCHANGED <<prog, mode, ppc, recv, sent, dereg, blockExit>>
NSpawn ==
    /\ mode = "normal" /\ spc.at = "spawn"
    /\ ppc' = [ppc EXCEPT ![spc.i] = "ready"]                        \* go executeProcess
    /\ spc' = [at |-> "loop", i |-> spc.i + 1]
    /\ UNCHANGED <<prog, mode, skipPipe, term, cexit, recv, sent, dereg, blockExit>>
NWaitLast ==
    /\ mode = "normal" /\ spc.at = "waitlast"
    /\ sent[N] > 0
    /\ blockExit' = cexit[N]
    /\ spc' = [at |-> "done", i |-> N]
    /\ UNCHANGED <<prog, mode, skipPipe, recv>> /\ UNCH_P

(* ------------------------------ scheduler: try / trypipe ------------------ *)
Waited(i) == mode = "trypipe" \/ i = N \/ ~IsMethod(i + 1)
\* go executeProcess(i); then either wait for it inline or leave a waiter goroutine behind
TSpawn ==
    /\ mode \in {"try", "trypipe"} /\ spc.at = "loop"
    /\ LET i == spc.i IN
       IF i > N THEN spc' = [at |-> "done", i |-> N] /\ UNCHANGED <<ppc, recv>>
       ELSE /\ ppc' = [ppc EXCEPT ![i] = "ready"]
            /\ recv' = [recv EXCEPT ![i] = @ + 1]
            /\ spc' = IF Waited(i) THEN [at |-> "waitprev", i |-> i] ELSE [at |-> "loop", i |-> i + 1]
    /\ UNCHANGED <<prog, mode, skipPipe, term, cexit, sent, dereg, blockExit>>
RECURSIVE SkipTo(_)
SkipTo(k) == IF k <= N /\ prog[k].op = "||" THEN SkipTo(k + 1) ELSE k
\* the inline wait returned: examine the exit number
TExamine ==
    /\ mode \in {"try", "trypipe"} /\ spc.at = "waitprev"
    /\ sent[spc.i] > 0
    /\ LET i == spc.i  next == i + 1 IN
       /\ blockExit' = cexit[i]
       /\ IF next <= N /\ cexit[i] < 1 /\ prog[next].op = "||"
            THEN \* skipped alternatives are released by the scheduler itself and never started
                 LET S == next..(SkipTo(next) - 1) IN
                 /\ term' = [k \in 1..N |-> IF k \in S THEN TRUE ELSE term[k]]
                 /\ dereg' = [k \in 1..N |-> IF k \in S THEN dereg[k] + 1 ELSE dereg[k]]
                 /\ ppc' = [k \in 1..N |-> IF k \in S THEN "never" ELSE ppc[k]]
                 /\ spc' = [at |-> "loop", i |-> SkipTo(next)]
            ELSE IF next <= N /\ cexit[i] > 0 /\ prog[next].op # "||"
              THEN LET S == next..N IN
                   /\ dereg' = [k \in 1..N |-> IF k \in S THEN dereg[k] + 1 ELSE dereg[k]]
                   /\ ppc' = [k \in 1..N |-> IF k \in S THEN "never" ELSE ppc[k]]
                   /\ spc' = [at |-> "done", i |-> i]
                   /\ UNCHANGED term
              ELSE spc' = [at |-> "loop", i |-> next] /\ UNCHANGED <<term, dereg, ppc>>
    /\ UNCHANGED <<prog, mode, skipPipe, cexit, recv, sent>>

Next ==
    \/ \E k \in 1..MaxLen : k <= N /\ (PStart(k) \/ PBody(k) \/ PWaitPrev(k) \/ PDestroy(k))
    \/ NLoop \/ NWaitPrev \/ NExamine \/ NSpawn \/ NWaitLast
    \/ TSpawn \/ TExamine
Spec == Init /\ [][Next]_vars
FairSpec == Spec /\ WF_vars(Next)

(* ------------------------------ properties -------------------------------- *)
Returned == spc.at = "done"
AllQuiet == \A k \in 1..N : ppc[k] \in {"done", "never"}
\* the only states without a successor: the block has returned and every goroutine has ended
NoDeadlock == ENABLED Next \/ (Returned /\ AllQuiet)
BlockReturns == <>Returned
EverythingEnds == <>(Returned /\ AllQuiet)
\* a command that nothing is piped into runs its body only after the one before it has terminated
SequentialStart == \A k \in 2..N : (ppc[k] \in {"body", "waitprev", "destroy", "done"} /\ ~IsMethod(k) /\ mode = "normal") => term[k - 1]
\* every process is released exactly once when everything has ended, never twice before
ReleasedOnce == /\ \A k \in 1..N : dereg[k] <= 1
                /\ (Returned /\ AllQuiet) => \A k \in 1..N : dereg[k] = 1
\* a send never completes twice on one channel, and no receiver is left waiting at the end
Rendezvous == /\ \A k \in 1..N : sent[k] <= 1
              /\ (Returned /\ AllQuiet) => \A k \in 1..N : recv[k] = 0
=============================================================================
