------------------------------ MODULE History ------------------------------
(***************************************************************************)
(* C29 - shell history survives restarts and crashes.                      *)
(* Sessions of a shell append commands to one history file                 *)
(* (History.Write), may die in the middle of an append (only a prefix of    *)
(* the bytes of that write reaches the file) and later sessions load the    *)
(* file (history.New -> openHist) and go on appending.                      *)
(*                                                                         *)
(* Property: whatever the history of writes, crashes and reloads, a load    *)
(* returns - treating consecutive duplicates as one entry - every entry     *)
(* whose write completed, in order; only an entry whose write was cut by a  *)
(* crash may be missing (it may also be present when all its bytes but the  *)
(* newline made it).                                                        *)
(*                                                                         *)
(* The model is the INTENDED design: the scanner has no token limit         *)
(* (MaxTok = 0) and an append starts on a fresh line (FreshLine = TRUE: a   *)
(* newline is written first when the file does not end in one).  With the   *)
(* parameters of the present code (MCHistoryAsCoded.cfg: MaxTok = ShortLen, *)
(* FreshLine = FALSE) TLC refutes Durable - that run is a diagnosis, not a  *)
(* verdict; verdicts come from replaying the behaviours on the real code.   *)
(***************************************************************************)
EXTENDS HistoryFile

CONSTANTS FreshLine,   \* BOOLEAN: an append first terminates a torn last line
          MaxWrites,   \* appends (completed or cut) in a behaviour
          MaxCrashes,  \* of which cut by a crash
          MaxOpens     \* sessions; the last one only loads, so that every append is looked at afterwards

VARIABLES
    file,    \* Seq(Bytes): the history file
    hist,    \* Seq([e, done]): every append so far, done = it completed      [ghost]
    up,      \* a session is running
    mem,     \* the running session's in-memory list
    nopen,
    ret      \* last action and what it must show

vars == <<file, hist, up, mem, nopen, ret>>
view == <<file, hist, up, mem, nopen>>

NCrash == Cardinality({i \in DOMAIN hist : ~hist[i].done})

\* the bytes of one append
Fresh(f) == IF FreshLine /\ f # <<>> /\ f[Len(f)] # NL THEN <<NL>> ELSE <<>>
Append1(f, e) == Fresh(f) \o Line(e) \o <<NL>>

\* the lists a load may return (consecutive duplicates collapsed): every completed append,
\* in order; each cut append present or not
Pick(h, K) == LET RECURSIVE P(_)
                  P(i) == IF i > Len(h) THEN <<>>
                          ELSE (IF i \in K THEN <<h[i].e>> ELSE <<>>) \o P(i + 1)
              IN P(1)
DoneIdx(h) == {i \in DOMAIN h : h[i].done}
Allowed(h) == {MxCollapse(Pick(h, DoneIdx(h) \cup X)) : X \in SUBSET (DOMAIN h \ DoneIdx(h))}

Init ==
    /\ file = <<>> /\ hist = <<>> /\ up = FALSE /\ mem = <<>> /\ nopen = 0
    /\ ret = [act |-> "Init"]

\* a session starts: history.New
Open ==
    /\ nopen < MaxOpens
    /\ nopen' = nopen + 1
    /\ up' = TRUE
    /\ mem' = LoadOp(file)
    /\ ret' = [act |-> "Open", allowed |-> Allowed(hist), must |-> MxCollapse(Pick(hist, DoneIdx(hist)))]
    /\ UNCHANGED <<file, hist>>

\* History.Write completes
Write(e) ==
    /\ up /\ Len(hist) < MaxWrites /\ nopen < MaxOpens
    /\ file' = file \o Append1(file, e)
    /\ hist' = Append(hist, [e |-> e, done |-> TRUE])
    /\ mem' = IF mem # <<>> /\ mem[Len(mem)] = e THEN mem ELSE Append(mem, e)
    /\ ret' = [act |-> "Write", e |-> e]
    /\ UNCHANGED <<up, nopen>>

\* the session dies during History.Write: only the first k bytes of the append reach the file
Crash(e, k) ==
    /\ up /\ Len(hist) < MaxWrites /\ nopen < MaxOpens /\ NCrash < MaxCrashes
    /\ k \in 0..(Len(Append1(file, e)) - 1)
    /\ file' = file \o SubSeq(Append1(file, e), 1, k)
    /\ hist' = Append(hist, [e |-> e, done |-> FALSE])
    /\ up' = FALSE /\ mem' = <<>>
    /\ ret' = [act |-> "Crash", e |-> e,
               at |-> IF k = 0 THEN "nothing"
                      ELSE IF k = Len(Append1(file, e)) - 1 THEN "allbutnl" ELSE "part"]
    /\ UNCHANGED nopen

Next == Open \/ (\E e \in Entries : Write(e) \/ \E k \in 0..(LongLen + 1) : Crash(e, k))
Spec == Init /\ [][Next]_vars

(* ------------------------------ properties ------------------------------- *)
\* what any later session would load
Durable == MxCollapse(LoadOp(file)) \in Allowed(hist)
\* the scanner loop computes the rule (on every file this machine can produce;
\* HistoryScan.tla checks it on every byte string)
LoaderAgrees == LoadOp(file) = LoadDecl(file)
\* the running session's own list is the loaded one plus its own writes
SessionView == up => MxCollapse(mem) \in Allowed(hist)
\* no entry is invented
NoForeign == \A i \in DOMAIN LoadOp(file) : \E j \in DOMAIN hist : hist[j].e = LoadOp(file)[i]
=============================================================================
