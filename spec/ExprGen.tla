------------------------------ MODULE ExprGen ------------------------------
(***************************************************************************)
(* Inputs for Expr.tla and the case table for conformance.                  *)
(*  - Family "arith"/"logic": enumerated families (every operand, operator  *)
(*    and parenthesis choice up to a bound).  The check runs several TLC    *)
(*    processes side by side; each takes the expressions whose first        *)
(*    operator is in Ops1 (and, if Base, the families without such a        *)
(*    choice);                                                              *)
(*  - Family "file": the token sequences listed in inputs.ndjson (random    *)
(*    deeper trees produced by the check).                                  *)
(* For every input the table gives what the rule says (Eval) and what the   *)
(* two wrong readings (Flat: no precedence, EvalR: right associative) would *)
(* give, so that the check can count the inputs that discriminate.          *)
(***************************************************************************)
EXTENDS Expr, Json, SequencesExt

CONSTANTS Family,    \* "arith" | "logic" | "file"
          Lits3,     \* indices into NumTab used for expressions of <= 3 operands
          Lits4,     \* ... of 4 operands ({}: none)
          StrN,      \* how many entries of StrTab are used
          WordsF,    \* "logic": how many of the false words / of the other words are operands
          WordsT,
          Small3,    \* "logic": include the three-operand expressions
          Ops1,      \* this process: first operators it is responsible for
          Base       \* this process also takes the families that are not split

Num(neg, d, k) == [t |-> "num", neg |-> neg, d |-> d, k |-> k]
NumTab == << Num(FALSE, 0, 0),   Num(FALSE, 1, 0),   Num(FALSE, 2, 0),  Num(TRUE, 3, 0),
             Num(FALSE, 5, 1),   Num(FALSE, 10, 1),  Num(TRUE, 25, 2),  Num(FALSE, 4, 0),
             Num(FALSE, 150, 2), Num(FALSE, 3, 0),   Num(FALSE, 6, 0),  Num(FALSE, 0, 1),
             Num(FALSE, 1, 1),   Num(FALSE, 10, 0),  Num(TRUE, 1, 0),   Num(FALSE, 75, 2),
             Num(FALSE, 15, 1),  Num(FALSE, 20, 1),  Num(TRUE, 0, 0),   Num(FALSE, 500, 3) >>
\*             0 1 2 -3   0.5 1.0 -0.25 4   1.50 3 6 0.0   0.1 10 -1 0.75   1.5 2.0 -0 0.500
S(b) == [t |-> "str", b |-> b]
StrTab == << S(<<97>>), S(<<98>>), S(<<97, 98>>), S(<<66>>), S(<<>>), S(<<49, 48>>), S(<<57>>), S(<<97, 32>>) >>
\*             a          b          ab             B          (empty)  10             9          "a "
Op(o) == [t |-> "op", o |-> o]
LP == [t |-> "("]
RP == [t |-> ")"]

C06Ops == ArithOps \cup RelOps \cup EqOps

\* operands a[1..n], operators o[1..n-1], parentheses around operands i..j (i = 0: none)
RECURSIVE BuildFrom(_, _, _, _, _)
BuildFrom(a, o, i, j, p) ==
    IF p > Len(a) THEN <<>>
    ELSE (IF p = i THEN <<LP>> ELSE <<>>) \o <<a[p]>> \o (IF p = j THEN <<RP>> ELSE <<>>)
         \o (IF p < Len(a) THEN <<Op(o[p])>> ELSE <<>>) \o BuildFrom(a, o, i, j, p + 1)
Build(a, o, i, j) == BuildFrom(a, o, i, j, 1)

Groups(n) == {<<0, 0>>} \cup {<<i, j>> \in (1..n) \X (1..n) : i < j /\ ~(i = 1 /\ j = n)}
\* every expression of n operands; first operator from ops1
Fam(lits, ops1, ops, n) ==
    {Build(a, o, g[1], g[2]) : a \in [1..n -> lits],
                               o \in {f \in [1..(n - 1) -> ops] : n = 1 \/ f[1] \in ops1},
                               g \in Groups(n)}

NumLits(ix) == {NumTab[i] : i \in ix}
StrLits(n) == {StrTab[i] : i \in 1..n}
StrOps == RelOps \cup EqOps

ArithInputs ==
    Fam(NumLits(Lits3), Ops1, C06Ops, 2) \cup Fam(NumLits(Lits3), Ops1, C06Ops, 3)
    \cup (IF Lits4 = {} THEN {} ELSE Fam(NumLits(Lits4), Ops1, C06Ops, 4))
    \cup (IF ~Base THEN {} ELSE
            Fam(NumLits(1..Len(NumTab)), {}, {}, 1)
            \* every pair of spellings under every operator (1 == 1.0, 1.50 <= 1.5, 0 / -0 ...)
            \cup Fam(NumLits(1..Len(NumTab)), C06Ops, C06Ops, 2)
            \* string comparisons, alone and as operands of == / !=
            \cup Fam(StrLits(StrN), StrOps, StrOps, 2)
            \cup {<<a, Op(c1), b, Op(e), c, Op(c2), d>> :
                     a \in StrLits(3), b \in StrLits(3), c \in StrLits(2), d \in StrLits(3),
                     c1 \in RelOps, c2 \in {"<", ">="}, e \in EqOps}
            \* a string meeting a number: the property is silent, still executed
            \cup Fam(StrLits(2) \cup NumLits({2, 3}), {"+", "<", "=="}, {"+", "<", "=="}, 2))

(* ------------------------------ C07 families ------------------------------ *)
Upper(b) == [i \in 1..Len(b) |-> IF b[i] >= 97 /\ b[i] <= 122 THEN b[i] - 32 ELSE b[i]]
\* " Word " : blanks around, first letter a capital
Padded(b) == <<32>> \o (IF b = <<>> THEN <<>> ELSE <<Upper(b)[1]>> \o Tail(b)) \o <<32>>
\* the words the property lists as false (lower case) ...
FalseList == << <<>>, <<48>>, <<110, 117, 108, 108>>, <<102, 97, 108, 115, 101>>, <<110, 111>>, <<111, 102, 102>>,
                <<102, 97, 105, 108>>, <<102, 97, 105, 108, 101, 100>>, <<100, 105, 115, 97, 98, 108, 101, 100>> >>
\* ... and words it does not list:  x yes on 1 00 0.0 nul offf "n o" true nope -1
TrueList == << <<120>>, <<121, 101, 115>>, <<111, 110>>, <<49>>, <<48, 48>>, <<48, 46, 48>>, <<110, 117, 108>>,
               <<111, 102, 102, 102>>, <<110, 32, 111>>, <<116, 114, 117, 101>>, <<110, 111, 112, 101>>, <<45, 49>> >>
Spellings(b) == {b, Upper(b), Padded(b)}
\* generous padding: "trimmed" has no length limit (40 blanks on each side)
Blanks(n) == [i \in 1..n |-> 32]
WidePadded(b) == Blanks(40) \o b \o Blanks(40)
WideWords == {WidePadded(FalseList[i]) : i \in 1..Len(FalseList)} \cup {WidePadded(TrueList[1]), WidePadded(TrueList[2])}
Words(nf, nt) == UNION {Spellings(FalseList[i]) : i \in 1..nf} \cup UNION {Spellings(TrueList[i]) : i \in 1..nt}

B(b) == [t |-> "bool", b |-> b]
NullTok == [t |-> "null"]
VarTok == [t |-> "var"]
Cmp(a, o, b) == <<LP, a, Op(o), b, RP>>
\* operands are token sequences
SimpleOperands(nf, nt) ==
    {<<B(TRUE)>>, <<B(FALSE)>>, <<NullTok>>, <<VarTok>>}
    \cup {<<NumTab[i]>> : i \in {1, 2, 3, 12, 5}}                       \* 0 1 2 0.0 0.5
    \cup {<<S(w)>> : w \in Words(nf, nt)}
CmpOperands == {Cmp(NumTab[2], "<", NumTab[3]), Cmp(NumTab[3], "<", NumTab[2]),
                Cmp(StrTab[1], "==", StrTab[1]), Cmp(StrTab[1], ">=", StrTab[2])}
\* a small set for three-operand expressions: true false null var 0 "" " Off " "x"
SmallOperands ==
    {<<B(TRUE)>>, <<B(FALSE)>>, <<NullTok>>, <<VarTok>>, <<NumTab[1]>>,
     <<S(<<>>)>>, <<S(Padded(FalseList[6]))>>, <<S(TrueList[1])>>}
C07Ops == LogicOps \cup CondOps

LogicInputs ==
    LET all == SimpleOperands(WordsF, WordsT) \cup CmpOperands
        few == IF Small3 THEN SmallOperands ELSE {}
    IN {a \o <<Op(o)>> \o b : a \in all, b \in all, o \in Ops1}
       \cup {<<LP>> \o a \o <<Op(o1)>> \o b \o <<RP, Op(o2)>> \o c :
                 a \in few, b \in few, c \in few, o1 \in Ops1, o2 \in C07Ops}
       \cup {a \o <<Op(o1), LP>> \o b \o <<Op(o2)>> \o c \o <<RP>> :
                 a \in few, b \in few, c \in few, o1 \in Ops1, o2 \in C07Ops}
       \cup {a \o <<Op(o1)>> \o b \o <<Op(o2)>> \o c :
                 a \in few, b \in few, c \in few, o1 \in Ops1, o2 \in C07Ops}
       \* comparison operands without parentheses: executed, not judged (ranking of < against && is not in C07)
       \cup (IF ~Base THEN {} ELSE
               {<<a, Op(c1), b, Op(o), c, Op(c2), e>> :
                   a \in {NumTab[2], NumTab[3]}, b \in {NumTab[2], NumTab[3]}, c \in {NumTab[3]}, e \in {NumTab[2], NumTab[3]},
                   c1 \in {"<", "=="}, c2 \in {"<", ">="}, o \in C07Ops})

\* truthiness seen from outside an expression: a command prints a word and returns an exit number
TruthRows == {[b |-> w, exit |-> e, truthy |-> TruthyOut(w, e)] :
                 w \in Words(Len(FalseList), Len(TrueList)) \cup WideWords, e \in {0, 1, 3}}
EmitTruth == ndJsonSerialize("truth.ndjson", SetToSeq(TruthRows))

\* (operator arguments are evaluated once; a definition would re-read the file at every use)
FileRows == ndJsonDeserialize("inputs.ndjson")
ToksOf(rows) == {rows[i].toks : i \in 1..Len(rows)}
FileInputs == ToksOf(FileRows)

GenInputs == CASE Family = "arith" -> ArithInputs
               [] Family = "logic" -> LogicInputs
               [] Family = "file"  -> FileInputs

\* exp: what the rule says; flat/right: what the two wrong readings would give
\* mix: the property texts do not rank the operators that meet in s (see Unmixed)
Row(s) == [exp |-> Eval(s), flat |-> Flat(s), right |-> EvalR(s), mix |-> ~Unmixed(s)]
EmitEnum == ndJsonSerialize("cases.ndjson", SetToSeq({[toks |-> s] @@ Row(s) : s \in GenInputs}))
EmitRows(rows) == ndJsonSerialize("cases.ndjson", [i \in 1..Len(rows) |-> [id |-> rows[i].id] @@ Row(rows[i].toks)])
EmitFile == EmitRows(FileRows)
\* the table is written while TLC starts; the state space exploration then checks Agree
ASSUME IF Family = "file" THEN EmitFile ELSE EmitEnum
ASSUME (Family = "logic" /\ Base) => EmitTruth
=============================================================================
