------------------------------ MODULE FidTrace ------------------------------
(***************************************************************************)
(* The FID table (lang/funcid.go) and C28, checked on event logs recorded  *)
(* from the real table (events are emitted under the table's mutex):       *)
(*   fid.reg(fid, parent)   fid.dereg(fid)   quiet(root)                   *)
(* quiet(root) is logged by the driver when the program whose top-level    *)
(* fork has FID root has returned and the session is quiet for it.         *)
(*  - FidUnique : a FID handed out was never handed out before             *)
(*  - QuietEmpty: at quiet(root) no live FID descends from root            *)
(***************************************************************************)
EXTENDS Integers, Sequences, FiniteSets, TLC, Json

Log == ndJsonDeserialize("trace.ndjson")

VARIABLES l, live, ever, rootOf, bad
tvars == <<l, live, ever, rootOf, bad>>

E == Log[l]
Init == TLCSet(1, 1) /\ TLCSet(2, <<>>) /\ l = 1 /\ live = {} /\ ever = {} /\ rootOf = <<>> /\ bad = <<>>

Reg == /\ l <= Len(Log) /\ E.ev = "fid.reg"
       /\ live' = live \cup {E.fid}
       /\ ever' = ever \cup {E.fid}
       /\ rootOf' = (E.fid :> (IF E.parent # 0 /\ E.parent \in DOMAIN rootOf THEN rootOf[E.parent] ELSE E.fid)) @@ rootOf
       /\ bad' = IF E.fid \in ever THEN Append(bad, [line |-> l, why |-> "fid handed out twice", fid |-> E.fid]) ELSE bad
       /\ l' = l + 1
Dereg == /\ l <= Len(Log) /\ E.ev = "fid.dereg"
         /\ live' = live \ {E.fid}
         /\ l' = l + 1
         /\ UNCHANGED <<ever, rootOf, bad>>
Quiet == /\ l <= Len(Log) /\ E.ev = "quiet"
         /\ LET left == {f \in live : f \in DOMAIN rootOf /\ rootOf[f] = E.fid} IN
              bad' = IF left # {} THEN Append(bad, [line |-> l, why |-> "fids left after program finished", fid |-> E.fid, left |-> left]) ELSE bad
         /\ l' = l + 1
         /\ UNCHANGED <<live, ever, rootOf>>
Next == Reg \/ Dereg \/ Quiet
Spec == Init /\ [][Next]_tvars

HWM == /\ TLCSet(1, IF TLCGet(1) < l THEN l ELSE TLCGet(1))
       /\ (l = Len(Log) + 1 => TLCSet(2, bad))
\* the two properties over the replayed log: FidUnique and QuietEmpty hold iff nothing was recorded
FidUnique == \A i \in DOMAIN bad : bad[i].why # "fid handed out twice"
QuietEmpty == \A i \in DOMAIN bad : bad[i].why # "fids left after program finished"
Accepted == /\ (IF TLCGet(1) = Len(Log) + 1 THEN TRUE ELSE PrintT(<<"REJECTED_AT", TLCGet(1)>>) /\ FALSE)
            /\ (IF TLCGet(2) = <<>> THEN TRUE ELSE PrintT(<<"BAD", TLCGet(2)>>) /\ FALSE)
=============================================================================
