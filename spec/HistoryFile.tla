---------------------------- MODULE HistoryFile ----------------------------
(***************************************************************************)
(* The shell history file (shell/history/history.go) as a sequence of      *)
(* abstract bytes, and the two descriptions of loading it:                 *)
(*  - LoadDecl: the rule - cut the file at newlines, keep the pieces that   *)
(*    are the complete line of some entry, in order;                       *)
(*  - LoadOp: the loop of openHist - a line scanner that walks the bytes,   *)
(*    accumulates a token, hands it to the decoder at a newline (or at end  *)
(*    of file when bytes are left over) and gives up when a token outgrows  *)
(*    its buffer (MaxTok; 0 = the scanner has no token limit).              *)
(* Entry e is written as Line(e) \o <<NL>>.  Line(e) stands for the JSON    *)
(* object {"datetime":..,"block":..}: no strict prefix of it, and nothing   *)
(* that merely contains it, decodes.                                        *)
(***************************************************************************)
EXTENDS Integers, Sequences, FiniteSets, TLC

CONSTANTS Entries,    \* entry tokens, e.g. {"a", "b", "L"}
          Long,       \* the entries whose line is longer than a scanner buffer (64 KiB in the code)
          ShortLen,   \* abstract length of an ordinary line
          LongLen,    \* abstract length of a Long line ( > ShortLen )
          MaxTok      \* token limit of the line scanner; 0 = none (intended)

ASSUME Long \subseteq Entries /\ ShortLen >= 1 /\ LongLen > ShortLen /\ MaxTok >= 0

LenOf(e) == IF e \in Long THEN LongLen ELSE ShortLen
NL == <<"NL", 0>>
Line(e) == [i \in 1..LenOf(e) |-> <<e, i>>]
Bytes == {NL} \cup UNION {{<<e, i>> : i \in 1..LenOf(e)} : e \in Entries}

\* the decoder (json.Unmarshal + the empty-block test): a token is an entry iff it is exactly its line
Decode(tok) == IF \E e \in Entries : tok = Line(e)
                 THEN <<CHOOSE e \in Entries : tok = Line(e)>> ELSE <<>>

(* ------------------------------ declarative ------------------------------ *)
\* positions of the newlines; piece j = bytes strictly between newline j-1 and newline j;
\* the bytes after the last newline are a last piece when there are any
NLPos(f) == {i \in 1..Len(f) : f[i] = NL}
RECURSIVE Pieces(_, _)
Pieces(f, from) ==
    IF from > Len(f) THEN <<>>
    ELSE LET later == {i \in NLPos(f) : i >= from} IN
         IF later = {} THEN <<SubSeq(f, from, Len(f))>>
         ELSE LET n == CHOOSE i \in later : \A j \in later : i <= j
              IN <<SubSeq(f, from, n - 1)>> \o Pieces(f, n + 1)
RECURSIVE Flat(_)
Flat(ss) == IF ss = <<>> THEN <<>> ELSE Decode(Head(ss)) \o Flat(Tail(ss))
LoadDecl(f) == Flat(Pieces(f, 1))

(* ------------------------------ operational ------------------------------ *)
\* scanner state: next byte to look at, token so far, entries so far, stopped
ScanInit == [pos |-> 1, cur |-> <<>>, list |-> <<>>, stop |-> FALSE]
ScanStep(f, s) ==
    IF s.pos > Len(f)
      THEN \* end of file: left-over bytes are a final token
           [s EXCEPT !.list = s.list \o Decode(s.cur), !.cur = <<>>, !.stop = TRUE]
    ELSE IF f[s.pos] = NL
      THEN [s EXCEPT !.list = s.list \o Decode(s.cur), !.cur = <<>>, !.pos = s.pos + 1]
    ELSE IF MaxTok > 0 /\ Len(s.cur) + 1 > MaxTok
      THEN [s EXCEPT !.stop = TRUE]            \* bufio.ErrTooLong: Scan() returns false for good
    ELSE [s EXCEPT !.cur = Append(s.cur, f[s.pos]), !.pos = s.pos + 1]
RECURSIVE ScanRun(_, _)
ScanRun(f, s) == IF s.stop THEN s.list ELSE ScanRun(f, ScanStep(f, s))
LoadOp(f) == ScanRun(f, ScanInit)

(* ------------------------------- duplicates ------------------------------ *)
RECURSIVE MxCollapse(_)
MxCollapse(s) == IF Len(s) <= 1 THEN s
                 ELSE IF s[1] = s[2] THEN MxCollapse(Tail(s))
                 ELSE <<s[1]>> \o MxCollapse(Tail(s))
=============================================================================
