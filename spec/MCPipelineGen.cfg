SPECIFICATION Spec
CONSTANTS
  Tokens = {"a", "b"}
  MaxSrc = 2
  MaxStages = 3
  Kinds = {"mapx", "fn", "dup", "tac", "errtee"}
  Cap = 1
INVARIANTS Deterministic NoDeadlock OutputIsPrefix
POSTCONDITION Emit
CHECK_DEADLOCK FALSE
