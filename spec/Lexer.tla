-------------------------------- MODULE Lexer --------------------------------
(***************************************************************************)
(* murex's block / statement / quote lexer (lang/expressions/parse_block.go,*)
(* parse_statement.go, parse_quotes.go, parse_expression.go, parse_vars.go, *)
(* statement.go) and the command line escaper (utils/escape/escape.go).     *)
(*                                                                         *)
(* Characters are short string tokens: a printable character stands for     *)
(* itself, the others have names (SP TAB CR LF BS = backslash, SQ = ', DQ   *)
(* = ", BT = `, EA = e-acute, NUL = "no character").  A text is a sequence  *)
(* of tokens.                                                               *)
(*                                                                         *)
(* Two descriptions are given and TLC checks that they agree on every input *)
(* of the bound:                                                            *)
(*  - declarative: what the properties say -- a quoted literal denotes its  *)
(*    contents after the documented escapes (C09); the escaped command line *)
(*    denotes the original argv (C10); `$v` is one argument equal to the    *)
(*    value, `@v` one argument per element (C08);                           *)
(*  - operational: the lexer as a machine, one action per iteration of the  *)
(*    loop that is active in the code (ParseBlock, parseStatement,          *)
(*    parseExpression, parseString, parseStringInfix, parseBlockQuote,      *)
(*    parseBackTick), with their flags (escape, canHaveZeroLenStr, escapeLf,*)
(*    parenthesis depth) and the order of the cases of nextParameter.       *)
(*                                                                         *)
(* The machine is the INTENDED lexer: one pass that both delimits and       *)
(* evaluates.  The code does it in two passes (exec=false while the block   *)
(* is split into statements, exec=true when a statement runs) which are     *)
(* meant to delimit identically; where they do not, the real code deviates  *)
(* from this machine and conformance shows it.                              *)
(*                                                                         *)
(* Scope of the machine: every branch a character of the alphabets can      *)
(* reach.  Constructs whose evaluation belongs to other specifications      *)
(* (%[ %{ literals, sub-shells ${ @{, index/range [..], ~user, named pipes, *)
(* function calls, redirections) end in the trap location "opaque": the     *)
(* model says "something else than the text is produced" and nothing more.  *)
(* TLC checks that no input that the properties constrain reaches a trap.   *)
(***************************************************************************)
EXTENDS Integers, Sequences, FiniteSets, TLC

CONSTANTS Family,     \* "quote" (C09) | "cmdline" (C10) | "vars" (C08)
          Plans,      \* bounds of the enumerated inputs, see "inputs" below
          Encs        \* quote: subset of {"sq","dqmin","dqsp","dqall","dqbs","bq"};  vars: subset of Forms

(* ============================== characters =============================== *)
Lower == {"a","b","c","d","e","f","g","h","i","j","k","l","m","n","o","p","q","r","s","t","u","v","w","x","y","z"}
Upper == {"A","B","C","D","E","F","G","H","I","J","K","L","M","N","O","P","Q","R","S","T","U","V","W","X","Y","Z"}
Digit == {"0","1","2","3","4","5","6","7","8","9"}
IsBare(c) == c \in Lower \cup Upper \cup Digit \cup {"_", "."}          \* isBareChar (BareSet below)
IsUserNameChar(c) == IsBare(c) \/ c = "-"
IsBlank(c) == c \in {"SP", "TAB"}

\* the character at index i, NUL outside the text (prevChar/nextChar return 0 there)
At(t, i) == IF i >= 1 /\ i <= Len(t) THEN t[i] ELSE "NUL"

RECURSIVE Flat(_)
Flat(ss) == IF ss = <<>> THEN <<>> ELSE Head(ss) \o Flat(Tail(ss))
MxRange(s) == {s[k] : k \in DOMAIN s}
RECURSIVE StrUpTo(_, _)
StrUpTo(A, n) == IF n = 0 THEN {<<>>} ELSE LET S == StrUpTo(A, n - 1) IN S \cup {Append(s, c) : s \in {x \in S : Len(x) = n - 1}, c \in A}
\* end (exclusive) of the maximal run of characters of the set S that starts at i
RECURSIVE RunEnd(_, _, _)
RunEnd(t, i, S) == IF i <= Len(t) /\ t[i] \in S THEN RunEnd(t, i + 1, S) ELSE i
BareSet == Lower \cup Upper \cup Digit \cup {"_", "."}
\* first index >= i holding character c, or 0
RECURSIVE Find(_, _, _)
Find(t, i, c) == IF i > Len(t) THEN 0 ELSE IF t[i] = c THEN i ELSE Find(t, i + 1, c)
Sub(t, a, b) == IF a > b THEN <<>> ELSE SubSeq(t, a, b)

(* ================= declarative: quoted literals (C09) ==================== *)
EscValue(c) == CASE c = "s" -> "SP" [] c = "t" -> "TAB" [] c = "r" -> "CR" [] c = "n" -> "LF" [] OTHER -> c
\* the documented escapes of a double-quoted literal: \s \t \r \n, \<char> = char
RECURSIVE Unescape(_)
Unescape(b) == IF b = <<>> THEN <<>>
               ELSE IF b[1] = "BS" /\ Len(b) >= 2 THEN <<EscValue(b[2])>> \o Unescape(SubSeq(b, 3, Len(b)))
               ELSE <<b[1]>> \o Unescape(Tail(b))

RECURSIVE ParenOK(_, _)
ParenOK(s, d) == IF s = <<>> THEN d = 0
                 ELSE IF s[1] = "(" THEN ParenOK(Tail(s), d + 1)
                 ELSE IF s[1] = ")" THEN d > 0 /\ ParenOK(Tail(s), d - 1)
                 ELSE ParenOK(Tail(s), d)

\* encoders: text of a literal whose value is meant to be s
DQChar(c, style) ==
    CASE c \in {"BS", "DQ", "$", "~"} -> <<"BS", c>>
      [] style # "dqmin" /\ c = "SP"  -> <<"BS", "s">>
      [] style # "dqmin" /\ c = "TAB" -> <<"BS", "t">>
      [] style # "dqmin" /\ c = "CR"  -> <<"BS", "r">>
      [] style # "dqmin" /\ c = "LF"  -> <<"BS", "n">>
      [] style = "dqall" /\ c \notin {"s", "t", "r", "n", "SP", "TAB", "CR", "LF"} -> <<"BS", c>>
      [] OTHER -> <<c>>
\* dqbs: the documented `\<char>` = char taken literally: a backslash before every character itself, raw blanks, tabs,
\* carriage returns and line feeds included (only the letters s t r n stay bare: after a backslash they mean something else)
DQCharBs(c) == IF c \in {"s", "t", "r", "n"} THEN <<c>> ELSE <<"BS", c>>
EncDefined(enc, s) ==
    CASE enc = "sq" -> "SQ" \notin MxRange(s)
      [] enc = "bq" -> ParenOK(s, 0) /\ MxRange(s) \cap {"$", "~"} = {}
      [] OTHER -> TRUE
Enc(enc, s) ==
    CASE enc = "sq" -> <<"SQ">> \o s \o <<"SQ">>
      [] enc = "bq" -> <<"%", "(">> \o s \o <<")">>
      [] enc = "dqbs" -> <<"DQ">> \o Flat([k \in DOMAIN s |-> DQCharBs(s[k])]) \o <<"DQ">>
      [] OTHER -> <<"DQ">> \o Flat([k \in DOMAIN s |-> DQChar(s[k], enc)]) \o <<"DQ">>
\* what the property says a literal denotes (no $ ~ expansion inside: the encoders escape or exclude them)
DeclValue(enc, lit) ==
    CASE enc = "sq" -> SubSeq(lit, 2, Len(lit) - 1)
      [] enc = "bq" -> SubSeq(lit, 3, Len(lit) - 1)
      [] OTHER -> Unescape(SubSeq(lit, 2, Len(lit) - 1))

\* features of a case that name the class of a failure seen on the real code (used in violation keys only)
QuoteTags(enc, s) == (IF s = <<>> THEN {"empty"} ELSE {})
                     \cup (IF enc \in {"dqmin", "dqsp", "dqall", "dqbs"} /\ "DQ" \in MxRange(s) THEN {"escaped-dq"} ELSE {})

(* ================ declarative: command line escaping (C10) =============== *)
\* escape.CommandLine: the replacements in their order; backslash first, so that the backslashes
\* added by the later ones are not doubled
EscChar(c) ==
    CASE c \in {"BS", "$", "@", "|", "?", "*", "SQ", "DQ", "(", ")", "<", ">", "#"} -> <<"BS", c>>
      [] c = "SP"  -> <<"BS", "SP">>
      [] c = "TAB" -> <<"BS", "t">>
      [] c = "CR"  -> <<"BS", "r">>
      [] c = "LF"  -> <<"BS", "n">>
      [] OTHER -> <<c>>
EscArg(a) == Flat([k \in DOMAIN a |-> EscChar(a[k])])
\* ... and the code itself: seventeen strings.Replace passes over the whole argument, in this order
Rp(c, d) == <<c, <<"BS", d>>>>
Replacements == << Rp("BS", "BS"), Rp("$", "$"), Rp("@", "@"), Rp("|", "|"), Rp("?", "?"), Rp("*", "*"),
                   Rp("SQ", "SQ"), Rp("DQ", "DQ"), Rp("(", "("), Rp(")", ")"), Rp("<", "<"), Rp(">", ">"),
                   Rp("#", "#"), Rp("SP", "SP"), Rp("TAB", "t"), Rp("CR", "r"), Rp("LF", "n") >>
RECURSIVE MxReplaceAll(_, _, _)
MxReplaceAll(s, c, r) == IF s = <<>> THEN <<>> ELSE (IF s[1] = c THEN r ELSE <<s[1]>>) \o MxReplaceAll(Tail(s), c, r)
RECURSIVE ApplyFrom(_, _)
ApplyFrom(s, k) == IF k > Len(Replacements) THEN s
                   ELSE ApplyFrom(MxReplaceAll(s, Replacements[k][1], Replacements[k][2]), k + 1)
CommandLineOp(a) == ApplyFrom(a, 1)                           \* escape.CommandLine on one element
RECURSIVE JoinSP(_)
JoinSP(ws) == IF ws = <<>> THEN <<>> ELSE IF Len(ws) = 1 THEN ws[1] ELSE ws[1] \o <<"SP">> \o JoinSP(Tail(ws))
CmdLine(argv) == JoinSP([k \in DOMAIN argv |-> CommandLineOp(argv[k])])   \* main.go argvToCmdLineStr, esccli
\* what a backslash-escaped bare word denotes: \s \t \r \n and \<char> = char (parseStatement's escape switch)
UnescapeWord(w) == Unescape(w)

\* Characters that keep a meaning for the lexer although CommandLine leaves them alone: an argv that
\* contains one of these patterns is not protected by the escaping (genuinely: see Witness below).
HazardNames == {"semicolon", "andand", "brace", "tilde", "percent", "backtick", "assign", "empty"}
HasPair(a, c, d) == \E k \in 1..(Len(a) - 1) : a[k] = c /\ a[k + 1] = d
AssignStart(a) == \/ At(a, 1) = "="
                  \/ (At(a, 1) \in {":", "+", "-", "/"} /\ At(a, 2) = "=")
Hazards(argv) ==
    LET args == Tail(argv)
        any(P(_)) == \E k \in DOMAIN args : P(args[k]) IN
    {h \in HazardNames :
        CASE h = "semicolon" -> any(LAMBDA a : ";" \in MxRange(a))
          [] h = "andand"    -> any(LAMBDA a : HasPair(a, "&", "&"))
          [] h = "brace"     -> any(LAMBDA a : MxRange(a) \cap {"{", "}"} # {})
          [] h = "tilde"     -> any(LAMBDA a : "~" \in MxRange(a))
          [] h = "percent"   -> any(LAMBDA a : HasPair(a, "%", "[") \/ HasPair(a, "%", "{"))
          [] h = "backtick"  -> any(LAMBDA a : "BT" \in MxRange(a))
          \* the first word after the command starts like an assignment: the line is an expression
          [] h = "assign"    -> \E k \in DOMAIN args : AssignStart(args[k]) /\ \A j \in 1..(k - 1) : args[j] = <<>>
          [] h = "empty"     -> any(LAMBDA a : a = <<>>)}

(* ================= declarative: variables as arguments (C08) ============= *)
\* "with at most one trailing CR/LF removed": nothing, or one line ending LF, CR LF, CR
Trims(v) == {v} \cup (IF v # <<>> /\ v[Len(v)] \in {"LF", "CR"} THEN {SubSeq(v, 1, Len(v) - 1)} ELSE {})
                \cup (IF Len(v) >= 2 /\ v[Len(v) - 1] = "CR" /\ v[Len(v)] = "LF" THEN {SubSeq(v, 1, Len(v) - 2)} ELSE {})
\* utils.CrLfTrimString: one LF, then one CR
CrLfTrim(v) == LET a == IF v # <<>> /\ v[Len(v)] = "LF" THEN SubSeq(v, 1, Len(v) - 1) ELSE v
               IN IF a # <<>> /\ a[Len(a)] = "CR" THEN SubSeq(a, 1, Len(a) - 1) ELSE a

\* features of a case that name the class of a failure seen on the real code (violation keys only)
VarTags(val, arr) == (IF \E k \in DOMAIN arr : arr[k] = <<>> THEN {"empty-element"} ELSE {})
                     \cup (IF CrLfTrim(val) = <<>> THEN {"empty-value"} ELSE {})

CmdName == <<"v", "x">>      \* a plain command name (the harness registers a builtin of that name)
ScalarName == <<"v">>
ArrayName == <<"w">>
\* statement forms using a scalar $v or an array @w; p/q are plain neighbours
Forms == {"$v", "p$v", "$v q", "p $v q", "@w", "p @w", "@w q", "$v @w"}
FormText(f) ==
    CmdName \o <<"SP">> \o
    CASE f = "$v"     -> <<"$", "v">>
      [] f = "p$v"    -> <<"p", "$", "v">>
      [] f = "$v q"   -> <<"$", "v", "SP", "q">>
      [] f = "p $v q" -> <<"p", "SP", "$", "v", "SP", "q">>
      [] f = "@w"     -> <<"@", "w">>
      [] f = "p @w"   -> <<"p", "SP", "@", "w">>
      [] f = "@w q"   -> <<"@", "w", "SP", "q">>
      [] f = "$v @w"  -> <<"$", "v", "SP", "@", "w">>
FormUsesScalar(f) == f \in {"$v", "p$v", "$v q", "p $v q", "$v @w"}
FormUsesArray(f) == f \in {"@w", "p @w", "@w q", "$v @w"}
\* the sets of parameter lists the property allows (a set because of "at most one" line ending)
DeclParams(f, val, arr) ==
    CASE f = "$v"     -> {<<t>> : t \in Trims(val)}
      [] f = "p$v"    -> {<<<<"p">> \o t>> : t \in Trims(val)}
      [] f = "$v q"   -> {<<t, <<"q">>>> : t \in Trims(val)}
      [] f = "p $v q" -> {<<<<"p">>, t, <<"q">>>> : t \in Trims(val)}
      [] f = "@w"     -> {arr}
      [] f = "p @w"   -> {<<<<"p">>>> \o arr}
      [] f = "@w q"   -> {arr \o <<<<"q">>>>}
      [] f = "$v @w"  -> {<<t>> \o arr : t \in Trims(val)}

(* ================================ inputs ================================= *)
\* alphabets
QuoteAlphaQ == {"a", "SP", "TAB", "CR", "LF", "SQ", "DQ", "BS", "(", ")", "#", ";", "|", "EA"}
QuoteAlphaT == QuoteAlphaQ \cup {"$", "~", "{", "}", "[", "s", "%"}
QuoteAlphaS == {"a", "SP", "SQ", "DQ", "BS", "(", ")", "LF"}          \* for longer strings
\* one representative of every class of character parseStatement / ParseBlock / parseExpression distinguish
CmdAlphaQ == {"a", "1", "SP", "TAB", "LF", "CR", "BS", "SQ", "DQ", "BT", ";", "|", "&", "#", "{", "}", "~", "%", "[",
              "(", ")", "$", "@", "<", ">", "=", "-", "?", "*", ":", "/", "EA", "s"}
CmdAlphaT == CmdAlphaQ \cup {"+", ",", "]", "^", "n"}         \* (optional, wider; `!` is in CmdAlphaFull)
\* every printable ASCII character and the usual control characters: short arguments only
CmdAlphaFull == Lower \cup Upper \cup Digit \cup
                {"SP", "TAB", "LF", "CR", "BS", "SQ", "DQ", "BT", "EA", "!", "#", "$", "%", "&", "(", ")", "*", "+", ",", "-",
                 ".", "/", ":", ";", "<", "=", ">", "?", "@", "[", "]", "^", "_", "{", "|", "}", "~"}
VarAlphaQ == {"a", "SP", "SQ", "DQ", "$", "@", "~", "*", ";", "|", "&", "{", "}", "LF", "CR", "EA", "BS", "#"}
VarAlphaS == {"a", "SP", "SQ", "$", "*", ";", "~", "LF", "CR"}       \* for longer values
AlphaBy(n) == CASE n = "quoteQ" -> QuoteAlphaQ [] n = "quoteT" -> QuoteAlphaT [] n = "quoteS" -> QuoteAlphaS
                [] n = "cmdQ" -> CmdAlphaQ [] n = "cmdT" -> CmdAlphaT [] n = "cmdFull" -> CmdAlphaFull
                [] n = "varQ" -> VarAlphaQ [] n = "varS" -> VarAlphaS
\* plans selectable from the configuration files (CONSTANT Plans <- Name)
\*   quote  : <<alphabet, longest value>>
\*   cmdline: <<alphabet, <<l1,..,lk>>>>  = k arguments of at most li characters
\*   vars   : <<alphabet, longest scalar value, most array elements, longest element>>
QuotePlansQ == {<<"quoteQ", 3>>}
QuotePlansT == {<<"quoteT", 3>>, <<"quoteS", 4>>}
CmdPlansQ == {<<"cmdFull", <<2>>>>, <<"cmdQ", <<2>>>>, <<"cmdQ", <<1, 1>>>>}
CmdPlansT == {<<"cmdFull", <<2>>>>, <<"cmdQ", <<3>>>>, <<"cmdQ", <<1, 1>>>>, <<"cmdQ", <<1, 1, 1>>>>}
VarPlansQ == {<<"varQ", 3, 2, 1>>}
VarPlansT == {<<"varQ", 3, 3, 1>>, <<"varS", 4, 2, 2>>}
EncsQuote == {"sq", "dqmin", "dqsp", "dqall", "dqbs", "bq"}

QuoteInputs == {[fam |-> "quote", s |-> s, enc |-> e, pos |-> p] :
                    s \in UNION {StrUpTo(AlphaBy(pl[1]), pl[2]) : pl \in Plans}, e \in Encs, p \in {"stmt", "expr"}}
RECURSIVE ArgTuples(_, _)
ArgTuples(A, shape) == IF shape = <<>> THEN {<<>>}
                       ELSE {<<a>> \o r : a \in StrUpTo(A, Head(shape)), r \in ArgTuples(A, Tail(shape))}
CmdInputs == {[fam |-> "cmdline", argv |-> <<CmdName>> \o args] : args \in UNION {ArgTuples(AlphaBy(pl[1]), pl[2]) : pl \in Plans}}
RECURSIVE SeqsUpTo(_, _)
SeqsUpTo(S, n) == IF n = 0 THEN {<<>>} ELSE LET R == SeqsUpTo(S, n - 1) IN R \cup {Append(r, e) : r \in {x \in R : Len(x) = n - 1}, e \in S}
VarInputs == {[fam |-> "vars", form |-> f, val |-> v, arr |-> <<>>] :
                    f \in {g \in Encs : ~FormUsesArray(g)}, v \in UNION {StrUpTo(AlphaBy(pl[1]), pl[2]) : pl \in Plans}}
        \cup {[fam |-> "vars", form |-> f, val |-> <<"k">>, arr |-> a] :
                    f \in {g \in Encs : FormUsesArray(g)},
                    \* array elements are single-line (C08's quantifier)
                    a \in UNION {SeqsUpTo(StrUpTo(AlphaBy(pl[1]) \ {"LF", "CR"}, pl[4]), pl[3]) : pl \in Plans} \ {<<>>}}
EnumInputs == CASE Family = "quote"   -> {x \in QuoteInputs : EncDefined(x.enc, x.s)}
                [] Family = "cmdline" -> CmdInputs
                [] Family = "vars"    -> VarInputs
\* (the configuration of LexerGen adds inputs chosen by the driver: Inputs <- InputsPlus)
Inputs == EnumInputs

TextOf(x) ==
    CASE x.fam = "quote" -> IF x.pos = "stmt" THEN CmdName \o <<"SP">> \o Enc(x.enc, x.s)
                            ELSE ScalarName \o <<"SP", "=", "SP">> \o Enc(x.enc, x.s)
      [] x.fam = "cmdline" -> CmdLine(x.argv)
      [] x.fam = "vars" -> FormText(x.form)
\* variables visible to the statement: name -> value (scalar) / elements (array)
EnvOf(x) == IF x.fam = "vars" THEN [scalar |-> x.val, array |-> x.arr, has |-> TRUE]
            ELSE [scalar |-> <<>>, array |-> <<>>, has |-> FALSE]

(* ========================== operational machine ========================== *)
HomeDir == <<"/", "H">>      \* stands for the value of ~ (home.MyDir)

VARIABLES inp, text, env, m
vars == <<inp, text, env, m>>

Stmt0 == [cmd |-> <<>>, cur |-> <<>>, params |-> <<>>, canZero |-> FALSE, escLf |-> FALSE]
M0 == [pc |-> "block", i |-> 1, start |-> 1, st |-> Stmt0, acc |-> <<>>, depth |-> 0, ret |-> "stmt",
       ast |-> <<>>, stmts |-> <<>>]
Final == {"done", "error", "opaque"}

\* statement.go nextParameter (globbing is off outside an interactive shell): order of the cases matters
NextParam(st) ==
    IF st.cmd = <<>> THEN [st EXCEPT !.cmd = st.cur, !.cur = <<>>]
    ELSE IF st.canZero THEN [st EXCEPT !.params = Append(st.params, st.cur), !.cur = <<>>, !.canZero = FALSE]
    ELSE IF st.cur = <<>> THEN st
    ELSE [st EXCEPT !.params = Append(st.params, st.cur), !.cur = <<>>]
Push(c, st) == [st EXCEPT !.cur = Append(st.cur, c)]
PushAll(cs, st) == [st EXCEPT !.cur = st.cur \o cs]

\* parseStatement returns: the statement is complete, ParseBlock goes on at index j
EndStmt(mm, st, j) ==
    [mm EXCEPT !.pc = "block", !.i = j, !.st = Stmt0,
               !.stmts = Append(mm.stmts, [kind |-> "cmd", cmd |-> st.cmd, params |-> st.params])]
Trap(mm, what) == [mm EXCEPT !.pc = what]

\* parseComment: up to, not including, the next LF; a backslash before CR/LF sets escapeLf
CommentEnd(t, i) == LET j == Find(t, i, "LF") IN IF j = 0 THEN Len(t) + 1 ELSE j
CommentEscLf(t, i, e) == \E k \in i..(e - 1) : t[k] = "BS" /\ At(t, k + 1) \in {"CR", "LF"}

\* `$` outside a sub-shell: parseVarScalar + getVar(varAsString).  Returns [ok, val, j] (j = next index)
Scalar(t, i, e) ==
    LET n == At(t, i + 1) IN
    IF n = "{" THEN [k |-> "opaque"]
    ELSE IF n = "(" THEN
        LET c == Find(t, i + 2, ")") IN
        IF c = 0 THEN [k |-> "error"]
        ELSE IF e.has /\ Sub(t, i + 2, c - 1) = ScalarName THEN [k |-> "ok", val |-> CrLfTrim(e.scalar), j |-> c + 1]
        ELSE [k |-> "opaque"]
    ELSE IF ~IsBare(n) THEN [k |-> "ok", val |-> <<"$">>, j |-> i + 1]
    ELSE LET j == RunEnd(t, i + 1, BareSet) IN
         IF At(t, j) = "[" \/ (At(t, j) = "(" /\ At(t, j - 1) = ".") THEN [k |-> "opaque"]
         ELSE IF e.has /\ Sub(t, i + 1, j - 1) = ScalarName THEN [k |-> "ok", val |-> CrLfTrim(e.scalar), j |-> j]
         ELSE [k |-> "opaque"]            \* a variable this model does not define
\* `~`: parseVarTilde
Tilde(t, i) == LET j == RunEnd(t, i + 1, BareSet \cup {"-"}) IN
               IF j = i + 1 THEN [k |-> "ok", val |-> HomeDir, j |-> j] ELSE [k |-> "opaque"]

\* ---- ParseBlock: one iteration of its loop
StartStmt(mm) == [mm EXCEPT !.pc = "expr", !.start = mm.i, !.ast = <<>>, !.st = Stmt0]
StepBlock(t, mm) ==
    LET i == mm.i  c == At(t, i)  n == At(t, i + 1) IN
    IF i > Len(t) THEN [mm EXCEPT !.pc = "done"]
    ELSE CASE c \in {"SP", "TAB", "CR", "LF", ";", "?"} -> [mm EXCEPT !.i = i + 1]
           [] c = "#" -> [mm EXCEPT !.i = CommentEnd(t, i)]
           [] c = "/" /\ n = "#" -> Trap(mm, "opaque")                          \* multi-line comment
           [] c = "&" /\ n = "&" -> [mm EXCEPT !.i = i + 2]
           [] c = "|" -> [mm EXCEPT !.i = IF n = "|" THEN i + 2 ELSE i + 1]
           [] c = "-" /\ n = ">" -> [mm EXCEPT !.i = i + 2]
           [] c = "=" /\ n = ">" -> Trap(mm, "opaque")                          \* => inserts `format generic`
           [] c \in {">", "~"} /\ n = ">" -> Trap(mm, "opaque")                 \* >> and ~> redirections
           [] OTHER -> StartStmt(mm)

\* ---- preParser: the text is first read as an expression (parseExpression + validateExpression);
\* only if that fails it is a statement.  Modelled exactly for: bare words, numbers, blanks, `=`,
\* the three quoting forms and the terminators; every other symbol makes the attempt fail here
\* (in the code most of them raise "unexpected symbol" when exec is false).
ValueKinds == {"bare", "num", "qs", "qd", "qp"}
ValidExpr(a) == \/ Len(a) = 1 /\ a[1].k \in {"num", "qp"}
                \/ Len(a) = 3 /\ a[1].k = "bare" /\ a[2].k = "assign" /\ a[3].k \in ValueKinds
Fallback(mm) == [mm EXCEPT !.pc = "stmt", !.i = mm.start, !.ast = <<>>, !.st = Stmt0]
EndExpr(mm, j) ==
    IF ValidExpr(mm.ast)
      THEN [mm EXCEPT !.pc = "block", !.i = j, !.ast = <<>>,
                      !.stmts = Append(mm.stmts,
                          IF Len(mm.ast) = 3 THEN [kind |-> "assign", name |-> mm.ast[1].v, val |-> mm.ast[3].v, vk |-> mm.ast[3].k]
                          ELSE [kind |-> "value", val |-> mm.ast[1].v, vk |-> mm.ast[1].k])]
      ELSE Fallback(mm)
StepExpr(t, mm) ==
    LET i == mm.i  c == At(t, i)  n == At(t, i + 1) IN
    IF i > Len(t) THEN EndExpr(mm, i)
    ELSE CASE c \in {"SP", "TAB", "CR"} -> [mm EXCEPT !.i = i + 1]
           [] c = "LF" -> IF mm.ast = <<>> THEN [mm EXCEPT !.i = i + 1] ELSE EndExpr(mm, i)
           [] c \in {";", "#", "|"} -> EndExpr(mm, i)
           [] c = "?" -> IF n \in {"?", ":"} THEN Fallback(mm) ELSE EndExpr(mm, i)
           [] c = "&" -> IF n = "&" THEN EndExpr(mm, i) ELSE Fallback(mm)
           [] c = "=" -> IF n \in {"=", "~"} THEN Fallback(mm)
                         ELSE IF n = ">" THEN EndExpr(mm, i)
                         ELSE [mm EXCEPT !.i = i + 1, !.ast = Append(mm.ast, [k |-> "assign", v |-> <<>>])]
           [] c = "SQ" -> [mm EXCEPT !.pc = "sq", !.i = i + 1, !.acc = <<>>, !.ret = "expr"]
           [] c = "DQ" -> [mm EXCEPT !.pc = "dq", !.i = i + 1, !.acc = <<>>, !.ret = "expr"]
           [] c = "%" /\ n = "(" -> [mm EXCEPT !.pc = "bq", !.i = i + 2, !.acc = <<>>, !.depth = 0, !.ret = "expr"]
           [] c \in Digit -> LET j == RunEnd(t, i, Digit \cup {"."}) IN
                             [mm EXCEPT !.i = j, !.ast = Append(mm.ast, [k |-> "num", v |-> Sub(t, i, j - 1)])]
           [] IsBare(c) /\ c \notin Digit ->
                  LET j == RunEnd(t, i, BareSet) IN
                  IF At(t, j) = "(" THEN Fallback(mm)                           \* function call
                  ELSE [mm EXCEPT !.i = j, !.ast = Append(mm.ast, [k |-> "bare", v |-> Sub(t, i, j - 1)])]
           [] OTHER -> Fallback(mm)

\* ---- quotes.  The closing quote returns to the statement or the expression.
EndQuote(mm, kind) ==
    IF mm.ret = "stmt"
      THEN [mm EXCEPT !.pc = "stmt", !.i = mm.i + 1, !.acc = <<>>,
                      \* a quoted literal is an argument even when it is empty (canHaveZeroLenStr).  The code
                      \* sets the flag for ' and " only; intended here for %( ) as well (C09: "does the same")
                      !.st = [PushAll(mm.acc, mm.st) EXCEPT !.canZero = TRUE]]
      ELSE [mm EXCEPT !.pc = "expr", !.i = mm.i + 1, !.acc = <<>>, !.ast = Append(mm.ast, [k |-> kind, v |-> mm.acc])]
\* parseString(', ', exec=true): verbatim up to the next single quote
StepSQ(t, mm) ==
    LET c == At(t, mm.i) IN
    IF mm.i > Len(t) THEN Trap(mm, "error")                                       \* missing closing quote
    ELSE IF c = "SQ" THEN EndQuote(mm, "qs")
    ELSE [mm EXCEPT !.i = mm.i + 1, !.acc = Append(mm.acc, c)]
\* the $ and ~ cases of parseStringInfix
Infix(t, e, mm, c) ==
    LET r == IF c = "$" THEN Scalar(t, mm.i, e) ELSE Tilde(t, mm.i) IN
    IF r.k = "ok" THEN [mm EXCEPT !.i = r.j, !.acc = mm.acc \o r.val] ELSE Trap(mm, r.k)
\* parseStringInfix('"'): the `escaped` flag is the location dqesc
StepDQ(t, e, mm) ==
    LET c == At(t, mm.i) IN
    IF mm.i > Len(t) THEN Trap(mm, "error")
    ELSE IF mm.pc = "dqesc" THEN [mm EXCEPT !.pc = "dq", !.i = mm.i + 1, !.acc = Append(mm.acc, EscValue(c))]
    ELSE CASE c = "BS" -> [mm EXCEPT !.pc = "dqesc", !.i = mm.i + 1]
           [] c \in {"$", "~"} -> Infix(t, e, mm, c)
           [] c = "DQ" -> EndQuote(mm, "qd")
           [] OTHER -> [mm EXCEPT !.i = mm.i + 1, !.acc = Append(mm.acc, c)]
\* parseStringInfix(')') with the recursion of parseParenthesis flattened into a depth counter:
\* no backslash escapes, nested parentheses are kept
StepBQ(t, e, mm) ==
    LET c == At(t, mm.i) IN
    IF mm.i > Len(t) THEN Trap(mm, "error")
    ELSE CASE c \in {"$", "~"} -> Infix(t, e, mm, c)
           [] c = "(" -> [mm EXCEPT !.i = mm.i + 1, !.acc = Append(mm.acc, c), !.depth = mm.depth + 1]
           [] c = ")" -> IF mm.depth = 0 THEN EndQuote(mm, "qp")
                         ELSE [mm EXCEPT !.i = mm.i + 1, !.acc = Append(mm.acc, c), !.depth = mm.depth - 1]
           [] OTHER -> [mm EXCEPT !.i = mm.i + 1, !.acc = Append(mm.acc, c)]
\* parseBackTick (exec): a deprecated quote that is replaced by single quotes *kept in the value*
StepBT(t, mm) ==
    LET c == At(t, mm.i) IN
    IF mm.i > Len(t) THEN Trap(mm, "error")
    ELSE IF c = "BT" THEN [mm EXCEPT !.pc = "stmt", !.i = mm.i + 1, !.acc = <<>>,
                                     !.st = PushAll(<<"SQ">> \o mm.acc \o <<"SQ">>, mm.st)]
    ELSE [mm EXCEPT !.i = mm.i + 1, !.acc = Append(mm.acc, c)]
\* parseBlockQuote: the text between matching braces, braces included, is taken verbatim (no escapes);
\* quotes, comments and % literals inside are delimited by their own rules (not modelled: trap)
StepBrace(t, mm) ==
    LET c == At(t, mm.i) IN
    IF mm.i > Len(t) THEN Trap(mm, "error")                                       \* missing closing brace
    ELSE CASE c = "{" -> [mm EXCEPT !.i = mm.i + 1, !.acc = Append(mm.acc, c), !.depth = mm.depth + 1]
           [] c = "}" -> IF mm.depth = 0
                           THEN [mm EXCEPT !.pc = "stmt", !.i = mm.i + 1, !.acc = <<>>,
                                           !.st = PushAll(Append(mm.acc, c), mm.st)]
                           ELSE [mm EXCEPT !.i = mm.i + 1, !.acc = Append(mm.acc, c), !.depth = mm.depth - 1]
           [] c \in {"SQ", "DQ", "(", "#", "%"} -> Trap(mm, "opaque")
           [] OTHER -> [mm EXCEPT !.i = mm.i + 1, !.acc = Append(mm.acc, c)]

\* ---- parseStatement (exec=true): one iteration of its loop; location "esc" = the escape flag
StepStmt(t, e, mm) ==
    LET i == mm.i  c == At(t, i)  n == At(t, i + 1)  p == At(t, i - 1)  st == mm.st
        go(st2) == [mm EXCEPT !.i = i + 1, !.st = st2]
        ret(st2) == EndStmt(mm, st2, i)
    IN
    IF i > Len(t) THEN EndStmt(mm, NextParam(st), i)          \* also with the escape flag still set
    ELSE IF mm.pc = "esc" THEN
        CASE c = "LF" -> [go(NextParam(st)) EXCEPT !.pc = "stmt"]
          [] c \in {"SP", "TAB"} -> [go(IF n = "#" THEN [st EXCEPT !.escLf = TRUE] ELSE Push(c, st)) EXCEPT !.pc = "stmt"]
          [] c = "CR" -> go(st)                                \* dropped, the escape stays pending
          [] OTHER -> [go(Push(EscValue(c), st)) EXCEPT !.pc = "stmt"]
    ELSE
        CASE c = "#" -> [mm EXCEPT !.i = CommentEnd(t, i),
                                   !.st = [st EXCEPT !.escLf = st.escLf \/ CommentEscLf(t, i + 1, CommentEnd(t, i))]]
          [] c = "/" -> IF n = "#" THEN Trap(mm, "opaque") ELSE go(Push(c, st))
          [] c = "BS" -> [go(st) EXCEPT !.pc = "esc"]
          [] c \in {"SP", "TAB", "CR"} -> go(NextParam(st))
          [] c = "LF" -> IF st.escLf THEN go(NextParam([st EXCEPT !.escLf = FALSE]))
                         ELSE IF st.cmd # <<>> \/ st.cur # <<>> THEN ret(NextParam(st))
                         ELSE go(st)
          [] c = "*" -> go(Push(c, st))
          [] c = "?" -> IF ~IsBlank(p) /\ ~IsBlank(n) THEN go(Push(c, st)) ELSE ret(NextParam(st))
          [] c \in {";", "|"} -> ret(NextParam(st))
          [] c = "&" -> IF n = "&" THEN ret(NextParam(st)) ELSE go(Push(c, st))
          [] c = ":" -> IF st.cmd # <<>> THEN go(Push(c, st))
                        ELSE IF st.cur # <<>> THEN go(NextParam(st))       \* `cmd:` - the colon is dropped
                        ELSE Trap(mm, "opaque")                              \* :type cast
          [] c = "=" -> IF n = ">" THEN ret(NextParam(st)) ELSE go(Push(c, st))
          [] c = "~" -> IF n = ">" THEN Trap(mm, "opaque")
                        ELSE LET r == Tilde(t, i) IN
                             IF r.k = "ok" THEN [mm EXCEPT !.i = r.j, !.st = PushAll(r.val, st)] ELSE Trap(mm, r.k)
          [] c = "<" -> IF st.cur # <<>> THEN go(Push(c, st)) ELSE Trap(mm, "opaque")       \* named pipe?
          [] c = ">" -> IF n = ">" THEN Trap(mm, "opaque") ELSE go(Push(c, st))
          [] c = "(" -> Trap(mm, "opaque")                     \* (quote), inline expression or function call
          [] c = "%" -> IF n \in {"[", "{"} THEN Trap(mm, "opaque")            \* array / object literal (C36)
                        ELSE IF n = "(" THEN [mm EXCEPT !.pc = "bq", !.i = i + 2, !.acc = <<>>, !.depth = 0, !.ret = "stmt"]
                        ELSE go(Push(c, st))
          [] c = "{" -> [mm EXCEPT !.pc = "brace", !.i = i + 1, !.acc = <<c>>, !.depth = 0]
          [] c = "[" -> IF st.cmd # <<>> \/ st.cur # <<>> THEN go(Push(c, st)) ELSE Trap(mm, "opaque")   \* [ / [[ command
          [] c = "}" -> Trap(mm, "error")                      \* unexpected closing bracket
          [] c = "SQ" -> [mm EXCEPT !.pc = "sq", !.i = i + 1, !.acc = <<>>, !.ret = "stmt"]
          [] c = "DQ" -> [mm EXCEPT !.pc = "dq", !.i = i + 1, !.acc = <<>>, !.ret = "stmt"]
          [] c = "BT" -> [mm EXCEPT !.pc = "bt", !.i = i + 1, !.acc = <<>>]
          [] c = "$" -> LET r == Scalar(t, i, e) IN
                        IF r.k = "ok" THEN [mm EXCEPT !.i = r.j, !.st = [PushAll(r.val, st) EXCEPT !.canZero = TRUE]]
                        ELSE Trap(mm, r.k)
          [] c = "@" -> IF p \notin {"SP", "TAB", "NUL"} THEN go(Push(c, st))
                        ELSE IF n = "{" THEN Trap(mm, "opaque")
                        ELSE IF n = "[" /\ st.cmd = <<>> /\ st.cur = <<>> THEN Trap(mm, "opaque")
                        ELSE IF IsBare(n) THEN
                            LET j == RunEnd(t, i + 1, BareSet) IN
                            IF At(t, j) = "[" \/ ~e.has \/ Sub(t, i + 1, j - 1) # ArrayName THEN Trap(mm, "opaque")
                            ELSE \* one parameter per element (processStatementArrays), each exactly the element
                                 LET s1 == NextParam(st) IN
                                 [mm EXCEPT !.i = j, !.st = [s1 EXCEPT !.params = s1.params \o e.array]]
                        ELSE go(Push(c, st))
          [] c = "-" -> IF n = ">" THEN ret(NextParam(st)) ELSE go(Push(c, st))
          [] OTHER -> go(Push(c, st))

Step(t, e, mm) ==
    CASE mm.pc = "block" -> StepBlock(t, mm)
      [] mm.pc = "expr" -> StepExpr(t, mm)
      [] mm.pc \in {"stmt", "esc"} -> StepStmt(t, e, mm)
      [] mm.pc = "sq" -> StepSQ(t, mm)
      [] mm.pc \in {"dq", "dqesc"} -> StepDQ(t, e, mm)
      [] mm.pc = "bq" -> StepBQ(t, e, mm)
      [] mm.pc = "bt" -> StepBT(t, mm)
      [] mm.pc = "brace" -> StepBrace(t, mm)

Init == /\ inp \in Inputs
        /\ text = TextOf(inp)
        /\ env = EnvOf(inp)
        /\ m = M0
Next == /\ m.pc \notin Final
        /\ m' = Step(text, env, m)
        /\ UNCHANGED <<inp, text, env>>
Spec == Init /\ [][Next]_vars

\* the whole run as an operator (used for the witnesses and the predicted column of the tables)
RECURSIVE Run(_, _, _)
Run(t, e, mm) == IF mm.pc \in Final THEN mm ELSE Run(t, e, Step(t, e, mm))
Outcome(mm) == IF mm.pc = "done" THEN [k |-> "done", stmts |-> mm.stmts] ELSE [k |-> mm.pc, stmts |-> <<>>]
Lex(t, e) == Outcome(Run(t, e, M0))

(* ============================== properties =============================== *)
Done == m.pc \in Final
OneCmd(c, ps) == <<[kind |-> "cmd", cmd |-> c, params |-> ps]>>

\* C09: every encoder is right (declaratively), and the lexer evaluates the literal to its contents,
\* as one argument of one statement / as the value assigned by one expression
EncodersRight == \A x \in Inputs : x.fam = "quote" => DeclValue(x.enc, Enc(x.enc, x.s)) = x.s
QuoteKind(e) == CASE e = "sq" -> "qs" [] e = "bq" -> "qp" [] OTHER -> "qd"
QuoteExpected(x) ==
    LET v == DeclValue(x.enc, Enc(x.enc, x.s)) IN
    IF x.pos = "stmt" THEN OneCmd(CmdName, <<v>>)
    ELSE <<[kind |-> "assign", name |-> ScalarName, val |-> v, vk |-> QuoteKind(x.enc)]>>
QuoteAgree == (Done /\ inp.fam = "quote") => Outcome(m) = [k |-> "done", stmts |-> QuoteExpected(inp)]

\* C10: the escaping is right for the escape rule (declaratively) and, unless the argv contains one
\* of the unprotected patterns, the lexer reads the escaped line as one statement with the same argv
EscapeRight == \A x \in Inputs : x.fam = "cmdline" =>
                    \A k \in DOMAIN x.argv : /\ CommandLineOp(x.argv[k]) = EscArg(x.argv[k])
                                              /\ UnescapeWord(EscArg(x.argv[k])) = x.argv[k]
CmdExpected(x) == OneCmd(x.argv[1], Tail(x.argv))
CmdAgree == (Done /\ inp.fam = "cmdline" /\ Hazards(inp.argv) = {}) =>
                Outcome(m) = [k |-> "done", stmts |-> CmdExpected(inp)]
\* each unprotected pattern really breaks the round trip in this model
Witness == [semicolon |-> <<CmdName, <<"a", ";", "b">>>>,
            andand    |-> <<CmdName, <<"a", "&", "&", "b">>>>,
            brace     |-> <<CmdName, <<"a", "}">>>>,
            tilde     |-> <<CmdName, <<"~">>>>,
            percent   |-> <<CmdName, <<"%", "[", "1", "]">>>>,
            backtick  |-> <<CmdName, <<"BT", "a", "BT">>>>,
            assign    |-> <<CmdName, <<"=", "a">>>>,
            empty     |-> <<CmdName, <<>>, <<"a">>>>]
NoEnv == [scalar |-> <<>>, array |-> <<>>, has |-> FALSE]
WitnessesFail == \A h \in HazardNames :
                    /\ Hazards(Witness[h]) = {h}
                    /\ Lex(CmdLine(Witness[h]), NoEnv) # [k |-> "done", stmts |-> CmdExpected([argv |-> Witness[h]])]

\* C08: a scalar is one argument (glued to its neighbours in the same word), an array one argument
\* per element, nothing is lexed again
VarsAgree == (Done /\ inp.fam = "vars") =>
                /\ m.pc = "done" /\ Len(m.stmts) = 1 /\ m.stmts[1].kind = "cmd" /\ m.stmts[1].cmd = CmdName
                /\ m.stmts[1].params \in DeclParams(inp.form, inp.val, inp.arr)

\* no judged input reaches a construct the machine does not model
NoTrap == (Done /\ (inp.fam # "cmdline" \/ Hazards(inp.argv) = {})) => m.pc = "done"
Agree == QuoteAgree /\ CmdAgree /\ VarsAgree /\ NoTrap
Terminates == <>Done
=============================================================================
