SPECIFICATION TSpec
CONSTANTS
  Names = {"a", "b", "c"}
  Clients = {1}
  MaxOps = 100000000
  MaxPipes = 1000000
  MaxTimers = 1000000
  GetTries = 6
  OpKinds = {"create", "close", "delete", "get", "dump"}
CONSTRAINT HWM
INVARIANTS NoCrash UniqueLive NoNegativeDeps
POSTCONDITION TAccepted
CHECK_DEADLOCK FALSE
