SPECIFICATION Spec
CONSTANTS
  MaxLen = 0
  Inputs <- FileStrings
  ArgVals = {"7", "x", "true", "false", "1.5", "-5"}
  IntToks = {"7", "-5"}
  FracToks = {"1.5"}
  MaxParams = 0
  Calls <- FileCalls
INVARIANT Agree
POSTCONDITION Emit
CHECK_DEADLOCK FALSE
