------------------------------ MODULE Control ------------------------------
(***************************************************************************)
(* C39: break, continue and return affect only the named block.            *)
(* Programs are small syntax trees (function body with nested foreach / if *)
(* blocks and one or two control statements); Exec gives their structured   *)
(* meaning with completion records, from which the visible output and the   *)
(* function's exit number follow.                                          *)
(***************************************************************************)
EXTENDS Integers, Sequences, FiniteSets, TLC, Json, SequencesExt

\* statements
Out(tag) == [t |-> "out", tag |-> tag]
Ctl(k, name, n) == [t |-> "ctl", k |-> k, name |-> name, n |-> n]
If(var, val, body) == [t |-> "if", var |-> var, val |-> val, body |-> body]
\* kind: "foreach" | "while" | "for" -- also the name murex gives the block
Loop(kind, var, items, body) == [t |-> "loop", kind |-> kind, var |-> var, items |-> items, body |-> body]
\* cons: a foreach fed by an earlier stage of the same pipeline (the producer: another foreach printing its
\* items one per second); a block ended from inside it takes the producer with it
Staged(var, items, body) == [t |-> "staged", kind |-> "foreach", var |-> var, items |-> items, body |-> body]

\* a call of another function (its name and body); the callee's exit number is not looked at by the caller
CallFn(fname, body) == [t |-> "call", fname |-> fname, body |-> body]

Normal == [k |-> "normal", name |-> "", n |-> 0]
RenderTag(tag, env) == [x \in DOMAIN tag |->
                          IF tag[x] = "$i" THEN ToString(env.i)
                          ELSE IF tag[x] = "$j" THEN ToString(env.j)
                          ELSE IF tag[x] = "$n" THEN ToString(env.n) ELSE tag[x]]

\* result of executing something: printed tags, completion record, and for every staged loop that was run the
\* range [lo, hi] of the number of items its producer may have started before it was stopped
R(out, c, tk) == [out |-> out, c |-> c, tk |-> tk]

RECURSIVE ExecSeq(_, _), ExecStmt(_, _), ExecLoop(_, _, _)
\* a sequence of statements runs until one completes abnormally
ExecSeq(ss, env) ==
    IF ss = <<>> THEN R(<<>>, Normal, <<>>)
    ELSE LET r == ExecStmt(Head(ss), env) IN
         IF r.c.k # "normal" THEN r
         ELSE LET rest == ExecSeq(Tail(ss), env) IN R(r.out \o rest.out, rest.c, r.tk \o rest.tk)

ExecStmt(s, env) ==
    CASE s.t = "out" -> R(<<RenderTag(s.tag, env)>>, Normal, <<>>)
      [] s.t = "ctl" -> R(<<>>, [k |-> s.k, name |-> s.name, n |-> s.n], <<>>)
      [] s.t = "if"  -> IF env[s.var] = s.val
                          THEN LET r == ExecSeq(s.body, env) IN
                               \* `break if` ends the if block, nothing more
                               IF r.c.k = "break" /\ r.c.name = "if" THEN R(r.out, Normal, r.tk) ELSE r
                          ELSE R(<<>>, Normal, <<>>)
      [] s.t = "loop" -> LET r == ExecLoop(s, s.items, env) IN R(r.out, r.c, r.tk)
      \* return and `break <callee>` end the callee only: the caller carries on.  (The callee sees the caller's loop variable as
      \* its parameter; nothing else can leave a function: murex refuses a block name outside the function's scope.)
      [] s.t = "call" -> LET r == ExecSeq(s.body, env) IN
                         IF r.c.k = "return" \/ (r.c.k = "break" /\ r.c.name = s.fname) THEN R(r.out, Normal, r.tk) ELSE r
      [] s.t = "staged" ->
           LET r == ExecLoop(s, s.items, env)
               n == Len(s.items)
               \* the consumer went through all items: so did the producer.  The consumer ended its own loop early:
               \* the producer is in no block that was ended, it may run on.  A block around the pipeline was ended
               \* while the consumer was at item `used`: the producer had started that one and must not run to its end
               tick == IF r.c.k = "normal" THEN [lo |-> r.used, hi |-> n]
                       ELSE [lo |-> r.used, hi |-> IF r.used < n THEN n - 1 ELSE n]
           IN R(r.out, r.c, r.tk \o <<tick>>)

\* -> [out, c, tk, used]: used = iterations started
ExecLoop(s, items, env) ==
    IF items = <<>> THEN [out |-> <<>>, c |-> Normal, tk |-> <<>>, used |-> 0]
    ELSE LET r == ExecSeq(s.body, [env EXCEPT ![s.var] = Head(items)]) IN
         IF r.c.k = "break" /\ r.c.name = s.kind THEN [out |-> r.out, c |-> Normal, tk |-> r.tk, used |-> 1]       \* loop ends
         ELSE IF r.c.k = "normal" \/ (r.c.k = "continue" /\ r.c.name = s.kind)
           THEN LET rest == ExecLoop(s, Tail(items), env) IN
                [out |-> r.out \o rest.out, c |-> rest.c, tk |-> r.tk \o rest.tk, used |-> 1 + rest.used]
           ELSE [out |-> r.out, c |-> r.c, tk |-> r.tk, used |-> 1]      \* aimed at something further out

\* a function call: return n / break <function> end it; its exit number is n, resp. 0
Call(fname, body) ==
    LET r == ExecSeq(body, [i |-> 0, j |-> 0, n |-> 0]) IN
    [out |-> r.out, tk |-> r.tk,
     exit |-> IF r.c.k = "return" THEN r.c.n ELSE 0,
     wellformed |-> r.c.k \in {"normal", "return"} \/ (r.c.k = "break" /\ r.c.name = fname)]

(* ------------------------------ program family 1: nested loops ---------- *)
FName == "fn"
LoopKinds == {"foreach", "while", "for"}
\* control statements: break / continue aimed at a loop by its name, return, break if, break <function>
CtlKinds == {"none", "return", "return0", "break-if", "break-fn"} \cup {"break-" \o k : k \in LoopKinds} \cup {"continue-" \o k : k \in LoopKinds}
MkCtl(k) == CASE k = "return"           -> <<Ctl("return", "", 3)>>
              [] k = "return0"          -> <<Ctl("return", "", 0)>>
              [] k = "break-if"         -> <<Ctl("break", "if", 0)>>
              [] k = "break-fn"         -> <<Ctl("break", FName, 0)>>
              [] k = "none"             -> <<>>
              [] \E x \in LoopKinds : k = "break-" \o x -> <<Ctl("break", CHOOSE x \in LoopKinds : k = "break-" \o x, 0)>>
              [] \E x \in LoopKinds : k = "continue-" \o x -> <<Ctl("continue", CHOOSE x \in LoopKinds : k = "continue-" \o x, 0)>>
Targets(k) == IF \E x \in LoopKinds : k \in {"break-" \o x, "continue-" \o x}
                THEN {CHOOSE x \in LoopKinds : k \in {"break-" \o x, "continue-" \o x}} ELSE {}
\* the control statement sits inside `if { $var == when }` between two outputs
Guarded(k, var, when, mark) ==
    IF k = "none" THEN <<>>
    ELSE <<If(var, when, <<Out(<<"g", mark>>)>> \o MkCtl(k) \o <<Out(<<"h", mark>>)>>)>>

Body(p) ==
    LET inner == IF p.inner # "none"
                   THEN <<Loop(p.inner, "j", <<1, 2>>, <<Out(<<"b", "$i", "$j">>)>> \o Guarded(p.c2, "j", p.w2, "2") \o <<Out(<<"c", "$i", "$j">>)>>)>>
                   ELSE <<>>
    IN <<Out(<<"s">>),
         Loop(p.k1, "i", <<1, 2, 3>>, <<Out(<<"a", "$i">>)>> \o Guarded(p.c1, "i", p.w1, "1") \o inner \o <<Out(<<"d", "$i">>)>>)>>
       \o (IF p.last THEN <<>> ELSE <<Out(<<"e">>)>>)

\* last: the outer loop is the function's last statement, so the function's exit number is the loop's
Params == [k1 : LoopKinds, c1 : CtlKinds, w1 : {1, 2}, inner : LoopKinds \cup {"none"}, c2 : CtlKinds, w2 : {1, 2}, last : BOOLEAN]
\* the property gives the exit number after `return n` and after a normal end; what a loop that was left by `break` reports
\* as its own exit number is not part of it: such a function's exit number is looked at only if something follows the loop
IsBreakOut(c) == c = "break-fn" \/ \E x \in LoopKinds : c = "break-" \o x
ExitJudged(p) == ~p.last \/ (~IsBreakOut(p.c1) /\ ~IsBreakOut(p.c2))
\* a loop can only be named from inside it
Valid(p) == /\ (p.inner = "none" => (p.c2 = "none" /\ p.w2 = 1)) /\ (p.c1 = "none" => p.w1 = 1) /\ (p.c2 = "none" => p.w2 = 1)
            /\ Targets(p.c1) \subseteq {p.k1}
            /\ Targets(p.c2) \subseteq {p.k1, p.inner}
Programs == {p \in Params : Valid(p)}

Case(p) == LET r == Call(FName, Body(p)) IN
           [family |-> "nest", params |-> p, body |-> Body(p), out |-> r.out, exit |-> r.exit, exit_judged |-> ExitJudged(p), tk |-> r.tk, wellformed |-> r.wellformed]

(* ------------------------------ program family 2: a block ended from a pipeline stage ---- *)
\* function body: [while over 2 rounds {] producer -> foreach i over NStage items { a; if i = w { g; CTL; h }; d } ; e [}] ; z
NStage == 6
StageCtl == {"none", "return", "break-fn", "break-while", "break-foreach", "break-if"}
Params2 == [wrap : BOOLEAN, c : StageCtl, w : {2, 3}]
Valid2(p) == (p.c = "break-while" => p.wrap) /\ (p.c = "none" => p.w = 2)
Programs2 == {p \in Params2 : Valid2(p)}
Body2(p) ==
    LET pipe == <<Staged("i", [x \in 1..NStage |-> x], <<Out(<<"a", "$i">>)>> \o Guarded(p.c, "i", p.w, "1") \o <<Out(<<"d", "$i">>)>>),
                  Out(<<"e">>)>>
    IN <<Out(<<"s">>)>> \o (IF p.wrap THEN <<Loop("while", "n", <<1, 2>>, <<Out(<<"w", "$n">>)>> \o pipe)>> ELSE pipe) \o <<Out(<<"z">>)>>
Case2(p) == LET r == Call(FName, Body2(p)) IN
            [family |-> "stage", params |-> p, body |-> Body2(p), out |-> r.out, exit |-> r.exit, tk |-> r.tk, wellformed |-> r.wellformed]

(* ------------------------------ program family 3: a function called from a loop -------- *)
\* fn: s; loop k1 over 3 { a; [if i = w1 { g1; C1; h1 }]; call inner(i); d }; e      inner: p; if i = w2 { g2; C2; h2 }; q
InnerName == "inner"
InnerCtl == {"none", "return", "break-inner", "break-if"}
MkInnerCtl(k) == IF k = "break-inner" THEN <<Ctl("break", InnerName, 0)>> ELSE MkCtl(k)
Params3 == [k1 : LoopKinds, c1 : {"none", "return", "break-fn"} \cup {"break-" \o k : k \in LoopKinds} \cup {"continue-" \o k : k \in LoopKinds},
            w1 : {2, 3}, c2 : InnerCtl, w2 : {1, 2}]
Valid3(p) == (p.c1 = "none" => p.w1 = 2) /\ (p.c2 = "none" => p.w2 = 1) /\ Targets(p.c1) \subseteq {p.k1} /\ p.c2 # "none"
Programs3 == {p \in Params3 : Valid3(p)}
InnerBody(p) == <<Out(<<"p", "$i">>), If("i", p.w2, <<Out(<<"g", "2">>)>> \o MkInnerCtl(p.c2) \o <<Out(<<"h", "2">>)>>), Out(<<"q", "$i">>)>>
Body3(p) == <<Out(<<"s">>),
              Loop(p.k1, "i", <<1, 2, 3>>, <<Out(<<"a", "$i">>)>> \o Guarded(p.c1, "i", p.w1, "1") \o <<CallFn(InnerName, InnerBody(p)), Out(<<"d", "$i">>)>>),
              Out(<<"e">>)>>
Case3(p) == LET r == Call(FName, Body3(p)) IN
            [family |-> "call", params |-> p, body |-> Body3(p), out |-> r.out, exit |-> r.exit, tk |-> r.tk, wellformed |-> r.wellformed]
ASSUME \A p \in Programs3 : Call(FName, Body3(p)).wellformed
\* `return` in the callee at item 1: the callee's tail is skipped for that item only, the caller's loop goes on
ASSUME LET r == Call(FName, Body3([k1 |-> "foreach", c1 |-> "none", w1 |-> 2, c2 |-> "return", w2 |-> 1])) IN
         r.out = <<<<"s">>, <<"a", "1">>, <<"p", "1">>, <<"g", "2">>, <<"d", "1">>, <<"a", "2">>, <<"p", "2">>, <<"q", "2">>, <<"d", "2">>,
                   <<"a", "3">>, <<"p", "3">>, <<"q", "3">>, <<"d", "3">>, <<"e">>>> /\ r.exit = 0

\* sanity: the meaning never invents output and a program without control statements prints everything
ASSUME \A p \in Programs : Call(FName, Body(p)).wellformed
ASSUME \A p \in Programs2 : Call(FName, Body2(p)).wellformed
ASSUME \A k \in LoopKinds :
         LET r == Call(FName, Body([k1 |-> k, c1 |-> "none", w1 |-> 1, inner |-> "none", c2 |-> "none", w2 |-> 1, last |-> FALSE])) IN
         Len(r.out) = 8 /\ r.exit = 0 /\ r.tk = <<>>
\* a loop named from the inner loop: when the kinds differ the outer loop is the one that ends
ASSUME LET r == Call(FName, Body([k1 |-> "while", c1 |-> "none", w1 |-> 1, inner |-> "foreach", c2 |-> "break-while", w2 |-> 1, last |-> FALSE])) IN
         r.out = <<<<"s">>, <<"a", "1">>, <<"b", "1", "1">>, <<"g", "2">>, <<"e">>>>
ASSUME LET r == Call(FName, Body([k1 |-> "foreach", c1 |-> "none", w1 |-> 1, inner |-> "foreach", c2 |-> "break-foreach", w2 |-> 1, last |-> FALSE])) IN
         Len(r.out) = 2 + 3 * 4
\* `return 0` from a loop that is the function's last statement: exit number 0, whatever kind of loop was cancelled by it
ASSUME \A k \in LoopKinds :
         LET r == Call(FName, Body([k1 |-> k, c1 |-> "return0", w1 |-> 2, inner |-> "none", c2 |-> "none", w2 |-> 1, last |-> TRUE])) IN
         r.exit = 0 /\ r.out = <<<<"s">>, <<"a", "1">>, <<"d", "1">>, <<"a", "2">>, <<"g", "1">>>>
\* a block around the pipeline ended at item 2 of 6: the producer had started 2 items and stops before the last
ASSUME Call(FName, Body2([wrap |-> FALSE, c |-> "return", w |-> 2])).tk = <<[lo |-> 2, hi |-> NStage - 1]>>
ASSUME Call(FName, Body2([wrap |-> TRUE, c |-> "break-while", w |-> 3])).tk = <<[lo |-> 3, hi |-> NStage - 1]>>
ASSUME Call(FName, Body2([wrap |-> TRUE, c |-> "none", w |-> 2])).tk = <<[lo |-> NStage, hi |-> NStage], [lo |-> NStage, hi |-> NStage]>>
ASSUME ndJsonSerialize("cases.ndjson", SetToSeq({Case(p) : p \in Programs} \cup {Case2(p) : p \in Programs2} \cup {Case3(p) : p \in Programs3}))
=============================================================================
