------------------------------ MODULE Control ------------------------------
(***************************************************************************)
(* C39: break, continue and return affect only the named block.            *)
(* Programs are small syntax trees (function body with nested foreach / if *)
(* blocks and one or two control statements); Exec gives their structured   *)
(* meaning with completion records, from which the visible output and the   *)
(* function's exit number follow.                                          *)
(***************************************************************************)
EXTENDS Integers, Sequences, FiniteSets, TLC, Json, SequencesExt

\* statements
Out(tag) == [t |-> "out", tag |-> tag]
Ctl(k, name, n) == [t |-> "ctl", k |-> k, name |-> name, n |-> n]
If(var, val, body) == [t |-> "if", var |-> var, val |-> val, body |-> body]
Loop(var, items, body) == [t |-> "foreach", var |-> var, items |-> items, body |-> body]

Normal == [k |-> "normal", name |-> "", n |-> 0]
RenderTag(tag, env) == [x \in DOMAIN tag |->
                          IF tag[x] = "$i" THEN ToString(env.i)
                          ELSE IF tag[x] = "$j" THEN ToString(env.j) ELSE tag[x]]

RECURSIVE ExecSeq(_, _), ExecStmt(_, _), ExecLoop(_, _, _)
\* a sequence of statements runs until one completes abnormally
ExecSeq(ss, env) ==
    IF ss = <<>> THEN [out |-> <<>>, c |-> Normal]
    ELSE LET r == ExecStmt(Head(ss), env) IN
         IF r.c.k # "normal" THEN r
         ELSE LET rest == ExecSeq(Tail(ss), env) IN [out |-> r.out \o rest.out, c |-> rest.c]

ExecStmt(s, env) ==
    CASE s.t = "out" -> [out |-> <<RenderTag(s.tag, env)>>, c |-> Normal]
      [] s.t = "ctl" -> [out |-> <<>>, c |-> [k |-> s.k, name |-> s.name, n |-> s.n]]
      [] s.t = "if"  -> IF env[s.var] = s.val
                          THEN LET r == ExecSeq(s.body, env) IN
                               \* `break if` ends the if block, nothing more
                               IF r.c.k = "break" /\ r.c.name = "if" THEN [out |-> r.out, c |-> Normal] ELSE r
                          ELSE [out |-> <<>>, c |-> Normal]
      [] s.t = "foreach" -> ExecLoop(s, s.items, env)

ExecLoop(s, items, env) ==
    IF items = <<>> THEN [out |-> <<>>, c |-> Normal]
    ELSE LET r == ExecSeq(s.body, [env EXCEPT ![s.var] = Head(items)]) IN
         IF r.c.k = "break" /\ r.c.name = "foreach" THEN [out |-> r.out, c |-> Normal]       \* loop ends
         ELSE IF r.c.k = "normal" \/ (r.c.k = "continue" /\ r.c.name = "foreach")
           THEN LET rest == ExecLoop(s, Tail(items), env) IN [out |-> r.out \o rest.out, c |-> rest.c]
           ELSE r                                             \* aimed at something further out

\* a function call: return n / break <function> end it; its exit number is n, resp. 0
Call(fname, body) ==
    LET r == ExecSeq(body, [i |-> 0, j |-> 0]) IN
    [out |-> r.out,
     exit |-> IF r.c.k = "return" THEN r.c.n ELSE 0,
     wellformed |-> r.c.k \in {"normal", "return"} \/ (r.c.k = "break" /\ r.c.name = fname)]

(* ------------------------------ program family -------------------------- *)
FName == "fn"
CtlKinds == {"none", "break-foreach", "continue-foreach", "return", "break-if", "break-fn"}
MkCtl(k) == CASE k = "break-foreach"    -> <<Ctl("break", "foreach", 0)>>
              [] k = "continue-foreach" -> <<Ctl("continue", "foreach", 0)>>
              [] k = "return"           -> <<Ctl("return", "", 3)>>
              [] k = "break-if"         -> <<Ctl("break", "if", 0)>>
              [] k = "break-fn"         -> <<Ctl("break", FName, 0)>>
              [] k = "none"             -> <<>>
\* the control statement sits inside `if { $var == when }` followed by one more output,
\* or (direct) at the top of the loop body guarded the same way but without its own trailing output
Guarded(k, var, when, mark) ==
    IF k = "none" THEN <<>>
    ELSE <<If(var, when, <<Out(<<"g", mark>>)>> \o MkCtl(k) \o <<Out(<<"h", mark>>)>>)>>

Body(p) ==
    LET inner == IF p.inner
                   THEN <<Loop("j", <<1, 2>>, <<Out(<<"b", "$i", "$j">>)>> \o Guarded(p.c2, "j", p.w2, "2") \o <<Out(<<"c", "$i", "$j">>)>>)>>
                   ELSE <<>>
    IN <<Out(<<"s">>),
         Loop("i", <<1, 2, 3>>, <<Out(<<"a", "$i">>)>> \o Guarded(p.c1, "i", p.w1, "1") \o inner \o <<Out(<<"d", "$i">>)>>),
         Out(<<"e">>)>>

Params == [c1 : CtlKinds, w1 : {1, 2}, inner : BOOLEAN, c2 : CtlKinds, w2 : {1, 2}]
Valid(p) == (~p.inner => (p.c2 = "none" /\ p.w2 = 1)) /\ (p.c1 = "none" => p.w1 = 1) /\ (p.c2 = "none" => p.w2 = 1)
Programs == {p \in Params : Valid(p)}

Case(p) == LET r == Call(FName, Body(p)) IN
           [params |-> p, body |-> Body(p), out |-> r.out, exit |-> r.exit, wellformed |-> r.wellformed]

\* sanity: the meaning never invents output and a program without control statements prints everything
ASSUME \A p \in Programs : Call(FName, Body(p)).wellformed
ASSUME LET r == Call(FName, Body([c1 |-> "none", w1 |-> 1, inner |-> FALSE, c2 |-> "none", w2 |-> 1])) IN
         Len(r.out) = 8 /\ r.exit = 0
ASSUME ndJsonSerialize("cases.ndjson", SetToSeq({Case(p) : p \in Programs}))
=============================================================================
