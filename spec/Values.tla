------------------------------- MODULE Values -------------------------------
(***************************************************************************)
(* C12: structured (JSON-typed) murex variables are values, and nested     *)
(* assignment `$v.path = x` is precise.                                    *)
(*                                                                         *)
(* Documents are trees of maps / arrays / scalars.  A history is           *)
(*   init a = D ; then any of                                              *)
(*   copy            b = $a   (also `set json b = $a`, `$a -> set b`)      *)
(*   set v p x       $v.p = x                                              *)
(*   call v p x      f $v  where  function f (d: json) { $d.p = x }        *)
(* Two descriptions are given and TLC checks that they agree after every   *)
(* operation of every history in the bound:                                *)
(*  - declarative: variables hold VALUES (Store: name -> document); an     *)
(*    assignment to path p of document D that the property defines yields  *)
(*    the document R with  Get(R,p) = x converted to the type of the old   *)
(*    leaf,  Get(R,q) = Get(D,q) for every other path q,  and nothing else;*)
(*  - operational: what the code does - names point at heap objects,       *)
(*    `b = $a` marshals and re-parses (a fresh object), lang.Variables.Set *)
(*    fetches the object and utils/alter.loop descends it by type switch,  *)
(*    converts at the leaf and stores the result IN PLACE.                 *)
(* The model is of the intended behaviour: an error met anywhere on the    *)
(* way rejects the assignment and changes nothing.                         *)
(***************************************************************************)
EXTENDS Integers, Sequences, FiniteSets, TLC

CONSTANTS ShapeIds,     \* which initial documents (subset of 1..5)
          ScalarIds,    \* which replacement scalars (subset of {"i7", "s8", "w1", "bt"})
          PathClasses,  \* which classes of assignment (see Classify) histories may contain
          MaxOps        \* operations after the initialisation

(* ------------------------------- documents ------------------------------- *)
\* every node is a record of the same shape (TLC cannot compare differently typed atoms)
Node(t, n, k, v) == [t |-> t, n |-> n, keys |-> k, vals |-> v]
I(n) == Node("i", n, <<>>, <<>>)        \* number n
S(n) == Node("s", n, <<>>, <<>>)        \* string holding the decimal text of n, e.g. "8"
W(n) == Node("w", n, <<>>, <<>>)        \* string holding a word, e.g. "w1"
B(n) == Node("b", n, <<>>, <<>>)        \* boolean (1 = true)
M(k, v) == Node("m", 0, k, v)           \* map: keys k[j] -> vals[j]
A(v) == Node("a", 0, <<>>, v)           \* array
None == Node("none", 0, <<>>, <<>>)     \* no such node
AnyV == Node("any", 0, <<>>, <<>>)       \* a scalar the property does not determine
IsScalar(x) == x.t \in {"i", "s", "w", "b", "any"}
IsCont(x) == x.t \in {"m", "a"}

Shape == <<M(<<"p", "q", "r">>, <<I(1), W(2), B(1)>>),                                        \* flat map
           A(<<I(1), W(2), B(1)>>),                                                           \* flat array
           M(<<"m", "l", "n">>, <<M(<<"p", "q">>, <<I(1), W(2)>>), A(<<I(3), W(4)>>), I(5)>>),   \* map of containers
           A(<<M(<<"p">>, <<I(1)>>), A(<<I(3), I(4)>>), W(2)>>),                               \* array of containers
           \* keys that differ from the new key "z" and from each other only in case: a key is a key, exactly as written
           M(<<"Z", "q", "Q">>, <<I(1), W(2), B(1)>>)>>
ScalarOf == [i7 |-> I(7), s8 |-> S(8), w1 |-> W(1), bt |-> B(1)]
Scalars == {ScalarOf[id] : id \in ScalarIds}

\* path components: a map key or an array index (`$v.key.0`)
K(s) == [s |-> s, i |-> -1]
X(i) == [s |-> "", i |-> i]

Last(s) == s[Len(s)]
Pop(s) == SubSeq(s, 1, Len(s) - 1)
MxIsPrefix(p, q) == Len(p) <= Len(q) /\ SubSeq(q, 1, Len(p)) = p
Related(p, q) == MxIsPrefix(p, q) \/ MxIsPrefix(q, p)

KeyIdx(node, s) == IF \E j \in DOMAIN node.keys : node.keys[j] = s
                     THEN CHOOSE j \in DOMAIN node.keys : node.keys[j] = s ELSE 0
Child(node, c) ==
    IF node.t = "m" /\ c.i = -1
      THEN IF KeyIdx(node, c.s) # 0 THEN node.vals[KeyIdx(node, c.s)] ELSE None
    ELSE IF node.t = "a" /\ c.i >= 0 /\ c.i < Len(node.vals) THEN node.vals[c.i + 1]
    ELSE None
RECURSIVE Get(_, _)
Get(node, p) == IF p = <<>> THEN node ELSE Get(Child(node, p[1]), Tail(p))

\* paths of all nodes below the root
RECURSIVE PathsOf(_)
PathsOf(node) ==
    IF node.t = "m" THEN UNION {{<<K(node.keys[j])>>} \cup {<<K(node.keys[j])>> \o q : q \in PathsOf(node.vals[j])} : j \in DOMAIN node.keys}
    ELSE IF node.t = "a" THEN UNION {{<<X(j - 1)>>} \cup {<<X(j - 1)>> \o q : q \in PathsOf(node.vals[j])} : j \in DOMAIN node.vals}
    ELSE {}
LeafPaths(D) == {p \in PathsOf(D) : IsScalar(Get(D, p))}
ContPaths(D) == {p \in PathsOf(D) \cup {<<>>} : IsCont(Get(D, p))}

(* ============================ declarative rule =========================== *)
\* "converted to the existing leaf's type".  None = cannot be converted; AnyV = the property does not say what comes out
Conv(x, t) ==
    CASE t = "i" -> (CASE x.t = "i" -> x [] x.t = "s" -> I(x.n) [] x.t = "w" -> None [] OTHER -> AnyV)
      [] t \in {"s", "w"} -> (CASE x.t = "i" -> S(x.n) [] x.t \in {"s", "w"} -> x [] OTHER -> AnyV)
      [] t = "b" -> (IF x.t = "b" THEN x ELSE AnyV)
      [] OTHER -> AnyV

\* What kind of assignment is `$D.p = x`?
\*   ok = "yes"  : the property defines it; leaf = what must be read back
\*   ok = "no"   : impossible as written (nothing sensible to read back): the intended behaviour is an error and no change
\*   ok = "maybe": a path below a key that does not exist: error, or success creating the maps on the way
Classify(D, p, x) ==
    LET parent == Get(D, Pop(p))
        c == Last(p)
        old == Get(D, p)
        R(cls, ok, leaf) == [cls |-> cls, ok |-> ok, leaf |-> leaf]
    IN CASE \E k \in 1..(Len(p) - 1) : IsScalar(Get(D, SubSeq(p, 1, k))) -> R("thru", "no", None)    \* passes through a scalar
         [] parent.t = "none" -> R("deepnew", "maybe", x)
         [] parent.t = "a" /\ c.i = -1 -> R("kind", "no", None)                 \* key into an array
         [] parent.t = "a" /\ c.i >= Len(parent.vals) -> R("range", "no", None)  \* index past the end
         [] parent.t = "m" /\ c.i # -1 -> R("kind", "no", None)                 \* (never generated)
         [] old.t = "none" -> R("newkey", "yes", x)                             \* new key in an existing map
         [] IsCont(old) -> R("container", "yes", x)                             \* replaces a whole sub-tree
         [] Conv(x, old.t).t = "none" -> R("inconv", "no", None)
         [] Conv(x, old.t).t = "any" -> R("unspec", "yes", AnyV)
         [] OTHER -> R("leaf", "yes", Conv(x, old.t))

\* the document equal to D except that p holds x (missing maps on the way are created)
RECURSIVE Put(_, _, _)
Put(node, p, x) ==
    IF p = <<>> THEN x
    ELSE LET c == p[1] IN
         IF node.t = "m"
           THEN IF KeyIdx(node, c.s) # 0
                  THEN [node EXCEPT !.vals[KeyIdx(node, c.s)] = Put(@, Tail(p), x)]
                  ELSE [node EXCEPT !.keys = Append(@, c.s), !.vals = Append(@, Put(M(<<>>, <<>>), Tail(p), x))]
         ELSE IF node.t = "a" THEN [node EXCEPT !.vals[c.i + 1] = Put(@, Tail(p), x)]
         ELSE node

\* the property, as predicates on the document R after a successful `$D.p = x`
ReadsBack(R, p, leaf) == Get(R, p) = leaf
FrameKept(D, R, p) == \A q \in LeafPaths(D) : ~Related(p, q) => Get(R, q) = Get(D, q)
NothingElse(D, R, p) == \A q \in LeafPaths(R) : Related(p, q) \/ q \in LeafPaths(D)
\* every other path with its value, for the conformance check
Frame(D, p) == {[p |-> q, v |-> Get(D, q)] : q \in {r \in LeafPaths(D) : ~Related(p, r)}}
\* every leaf of a document with its value (each is also read on its own: `$v.path`)
Leaves(D) == {[p |-> q, v |-> Get(D, q)] : q \in LeafPaths(D)}

Vars == {"a", "b"}
NoStore == [v \in Vars |-> None]
AssignV(D, p, x) == LET cl == Classify(D, p, x) IN IF cl.ok = "no" THEN D ELSE Put(D, p, cl.leaf)
\* value semantics of one operation
ApplyV(st, o) ==
    CASE o.k = "init" -> [st EXCEPT !.a = o.x]
      [] o.k = "copy" -> [st EXCEPT !.b = st.a]
      [] o.k = "set"  -> [st EXCEPT ![o.v] = AssignV(@, o.p, o.x)]
      [] OTHER -> st                               \* call: the function works on its own copy
\* what is to be observed after operation o applied to store st
ObsV(st, o) ==
    LET after == ApplyV(st, o)
        isAssign == o.k \in {"set", "call"}
        cl == IF isAssign THEN Classify(st[o.v], o.p, o.x) ELSE [cls |-> "-", ok |-> "-", leaf |-> None]
    IN [docs |-> after, leaves |-> [v \in Vars |-> Leaves(after[v])],
        cls |-> cl.cls, ok |-> cl.ok, rb |-> cl.leaf,
        frame |-> IF isAssign THEN Frame(st[o.v], o.p) ELSE {},
        fn |-> IF o.k = "call" THEN AssignV(st[o.v], o.p, o.x) ELSE None]

(* ------------------------------- histories ------------------------------- *)
Op(k, v, p, x) == [k |-> k, v |-> v, p |-> p, x |-> x]
\* candidate paths for an assignment into D
Cand(D) == PathsOf(D)
           \cup {q \o <<K("z")>> : q \in ContPaths(D)}                              \* new key / key into an array
           \cup {q \o <<X(Len(Get(D, q).vals))>> : q \in {r \in ContPaths(D) : Get(D, r).t = "a"}}   \* index past the end
           \cup {q \o <<K("z")>> : q \in LeafPaths(D)}                              \* through a scalar
           \cup {q \o <<K("y"), K("z")>> : q \in {r \in ContPaths(D) : Get(D, r).t = "m"}}          \* below a missing key
Assigns(D) == {y \in Cand(D) \X Scalars : Classify(D, y[1], y[2]).cls \in PathClasses}
\* operations that may follow history h whose value store is st (a call changes nothing, so it is only ever the last operation)
NextOps(h, st) ==
    IF h = <<>> THEN {Op("init", "a", <<>>, Shape[s]) : s \in ShapeIds}
    ELSE IF Last(h).k = "call" \/ Len(h) > MaxOps THEN {}
    ELSE (IF st.b.t = "none" THEN {Op("copy", "b", <<>>, None)} ELSE {})
         \cup UNION {{Op(k, v, y[1], y[2]) : y \in Assigns(st[v]), k \in {"set", "call"}} : v \in {u \in Vars : st[u].t # "none"}}

RECURSIVE HistN(_)
HistN(n) == IF n = 0 THEN {[h |-> <<>>, st |-> NoStore]}
            ELSE UNION {{[h |-> Append(x.h, o), st |-> ApplyV(x.st, o)] : o \in NextOps(x.h, x.st)} : x \in HistN(n - 1)}
Histories == UNION {{x.h : x \in HistN(n)} : n \in 2..(MaxOps + 1)}

RECURSIVE StoreSeq(_)
\* StoreSeq(h)[i] = value store after the first i operations
StoreSeq(h) == IF h = <<>> THEN <<>>
               ELSE LET p == StoreSeq(Pop(h)) IN Append(p, ApplyV(IF p = <<>> THEN NoStore ELSE Last(p), Last(h)))
DeclObsSeq(h) == LET ss == StoreSeq(h) IN [i \in 1..Len(h) |-> ObsV(IF i = 1 THEN NoStore ELSE ss[i - 1], h[i])]

(* ========================== operational machine ========================== *)
\* utils/alter/alter.go loop(), action "alter", for the remaining path; st = "ok" | "err" | "ovw" (errOverwritePath)
Ok(v) == [st |-> "ok", v |-> v]
Err == [st |-> "err", v |-> None]
Ovw == [st |-> "ovw", v |-> None]
RECURSIVE Alt(_, _, _)
Alt(v, path, x) ==
    IF path # <<>>
      THEN LET c == path[1] IN
           CASE v.t = "a" -> IF c.i < 0 THEN Err                           \* expecting an array index
                             ELSE IF c.i >= Len(v.vals) THEN Err           \* index greater than length of array
                             ELSE LET r == Alt(v.vals[c.i + 1], Tail(path), x) IN
                                  IF r.st = "ok" THEN Ok([v EXCEPT !.vals[c.i + 1] = r.v]) ELSE r
             [] v.t = "m" -> LET j == KeyIdx(v, c.s)
                                 r == Alt(IF j = 0 THEN None ELSE v.vals[j], Tail(path), x) IN
                             IF r.st # "ok" THEN r
                             ELSE IF j # 0 THEN Ok([v EXCEPT !.vals[j] = r.v])
                             ELSE Ok([v EXCEPT !.keys = Append(@, c.s), !.vals = Append(@, r.v)])
             [] v.t = "none" -> Ovw                                       \* nil below which a path is still to be walked
             [] OTHER -> Err                                              \* a path element is an end of tree
      ELSE CASE v.t = "none" -> Ok(x)
             [] IsCont(v) -> Ok(x)
             [] OTHER -> LET cv == Conv(x, v.t) IN IF cv.t = "none" THEN Err ELSE Ok(cv)     \* types.ConvertGoType to the old leaf's type

VARIABLES hist,    \* operations so far
          heap,    \* objects (documents); a variable's Value is a pointer to one of them
          ref,     \* name -> heap index, 0 = undefined
          obs      \* what was observed after each operation
vars == <<hist, heap, ref, obs>>

Deref(hp, rf) == [v \in Vars |-> IF rf[v] = 0 THEN None ELSE hp[rf[v]]]

Init == hist = <<>> /\ heap = <<>> /\ ref = [v \in Vars |-> 0] /\ obs = <<>>

Do(o) ==
    /\ hist' = Append(hist, o)
    /\ LET cur == IF o.k \in {"set", "call"} THEN heap[ref[o.v]] ELSE None
           r == IF o.k \in {"set", "call"} THEN Alt(cur, o.p, o.x) ELSE Err
           \* result of the assignment as the object ends up (an overwrite request takes the branch that creates the path)
           res == IF r.st = "ok" THEN r.v ELSE IF r.st = "ovw" THEN Put(cur, o.p, o.x) ELSE cur
           nheap == CASE o.k = "init" -> <<o.x>>
                      [] o.k = "copy" -> Append(heap, heap[ref.a])             \* marshal to JSON, parse again: a new object
                      [] o.k = "set"  -> [heap EXCEPT ![ref[o.v]] = res]       \* alter works on the stored object itself
                      [] OTHER -> Append(heap, res)                           \* the parameter is parsed into a new object, then altered
           nref == CASE o.k = "init" -> [ref EXCEPT !.a = 1]
                     [] o.k = "copy" -> [ref EXCEPT !.b = Len(heap) + 1]
                     [] OTHER -> ref
           cl == IF o.k \in {"set", "call"} THEN Classify(cur, o.p, o.x) ELSE [cls |-> "-", ok |-> "-", leaf |-> None]
       IN /\ heap' = nheap /\ ref' = nref
          /\ obs' = Append(obs, [docs |-> Deref(nheap, nref), leaves |-> [v \in Vars |-> Leaves(Deref(nheap, nref)[v])],
                                 cls |-> cl.cls, ok |-> cl.ok,
                                 rb |-> IF cl.ok = "no" THEN None ELSE Get(res, o.p),
                                 frame |-> IF o.k \in {"set", "call"} THEN Frame(cur, o.p) ELSE {},
                                 fn |-> IF o.k = "call" THEN res ELSE None])

Next == \E o \in NextOps(hist, Deref(heap, ref)) : Do(o)
Spec == Init /\ [][Next]_vars

(* ------------------------------- properties ------------------------------ *)
\* pointers + in-place alteration behave like values
Agree == obs = DeclObsSeq(hist)
\* the descent of alter.loop computes exactly the document the property describes
AlterPrecise ==
    hist # <<>> /\ Last(hist).k \in {"set", "call"} =>
        LET o == Last(hist)
            D == StoreSeq(Pop(hist))[Len(hist) - 1][o.v]
            cl == Classify(D, o.p, o.x)
            r == Alt(D, o.p, o.x)
        IN /\ cl.ok = "yes" => /\ r.st = "ok"
                               /\ ReadsBack(r.v, o.p, cl.leaf) /\ FrameKept(D, r.v, o.p) /\ NothingElse(D, r.v, o.p)
                               /\ r.v = Put(D, o.p, cl.leaf)
           /\ cl.ok = "no" => r.st = "err"
           /\ cl.ok = "maybe" => r.st = "ovw"
\* modifying one variable never changes the other
NoAlias == [][\A v \in Vars : (Last(hist').k = "call" \/ (Last(hist').k = "set" /\ Last(hist').v # v))
                                  => Deref(heap', ref')[v] = Deref(heap, ref)[v]]_vars
\* the reachable states are exactly the histories of the case table
Enumerated == Len(hist) >= 2 => hist \in Histories
=============================================================================
