SPECIFICATION Spec
CONSTANTS
  Family = "cmdline"
  Plans <- CmdPlansQ
  Encs = {}
  Inputs <- InputsPlus
INVARIANT Agree
CHECK_DEADLOCK FALSE
