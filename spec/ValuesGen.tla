----------------------------- MODULE ValuesGen -----------------------------
(* Case table for conformance: every history with what is to be observed after *)
(* each of its operations.                                                      *)
EXTENDS Values, Json, SequencesExt

Case(h) == [ops |-> h, obs |-> DeclObsSeq(h)]
Cases == {Case(h) : h \in Histories}
\* every history of the table was a state of the machine (and the invariants were checked on it);
\* reachable states = the empty history, the initialisations, the histories
\* (TLCGet also keeps the operator from being folded into a constant at start-up)
Emit == /\ TLCGet("distinct") = Cardinality(Histories) + Cardinality(ShapeIds) + 1
        /\ ndJsonSerialize("cases.ndjson", SetToSeq(Cases))
=============================================================================
