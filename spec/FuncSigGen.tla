----------------------------- MODULE FuncSigGen -----------------------------
(* Case tables for conformance (C23).                                                       *)
(*  cases.ndjson: every explored signature string with the verdict of the documented        *)
(*                grammar and the fields of each parameter (index sequences into the string) *)
(*  calls.ndjson: every explored call (parameter shapes + argument values) with what the    *)
(*                binding rule says: fails before the body / variable values / unset         *)
(* Inputs come from the exhaustive spaces below or from files written by the check driver   *)
(* (sigs.ndjson, callsin.ndjson: seeded samples of longer signatures / calls).              *)
EXTENDS FuncSig, Json, SequencesExt

CONSTANTS MaxParams,  \* exhaustive call space: signatures of 1..MaxParams parameters
          Calls       \* the calls to explore: AllCalls, or a set read from a file

\* a mandatory parameter's default only feeds the interactive prompt: left out
Shapes == {sh \in [type : Types, optional : BOOLEAN, hasDefault : BOOLEAN, default : ArgVals \cup {""}] :
              \* (an explicit empty default `[]` is a default too: hasDefault with default "")
              (~sh.hasDefault => sh.default = "") /\ (sh.hasDefault => sh.optional)}
SigsOf(n) == {ps \in [1..n -> Shapes] : ~MandatoryAfterOptional(ps)}
ArgsUpTo(n) == UNION {[1..m -> ArgVals] : m \in 0..n}
AllCalls == UNION {{[ps |-> ps, args |-> a] : ps \in SigsOf(n), a \in ArgsUpTo(n)} : n \in 1..MaxParams}

\* NB: TLC evaluates constant definitions once per worker thread: the file configurations run with one worker
FileStrings == LET rows == ndJsonDeserialize("sigs.ndjson") IN {rows[k].s : k \in DOMAIN rows}
FileCalls == LET rows == ndJsonDeserialize("callsin.ndjson") IN {[ps |-> rows[k].ps, args |-> rows[k].args] : k \in DOMAIN rows}

CallOK(c) == /\ \A k \in DOMAIN c.ps : c.ps[k] \in Shapes
             /\ ~MandatoryAfterOptional(c.ps)
             /\ \A k \in DOMAIN c.args : c.args[k] \in ArgVals
             /\ Len(c.args) <= Len(c.ps)
ASSUME \A c \in Calls : CallOK(c)
\* the loop of castParameters does what the rule says, on every explored call
ASSUME \A c \in Calls : CastAgree(c.ps, c.args)

Seq2(f) == [k \in 1..Len(f) |-> f[k]]
\* diagnosis for reports: the string is outside the grammar, but deleting some of its "[" characters gives a
\* signature inside it, in the widest reading (what a parser that silently skips misplaced opening brackets accepts)
RECURSIVE Without(_, _, _)
Without(s, D, k) == IF k > Len(s) THEN <<>> ELSE (IF k \in D THEN <<>> ELSE <<s[k]>>) \o Without(s, D, k + 1)
StrayBracket(s) ==
    LET os == {k \in DOMAIN s : s[k] = "O"} IN
    /\ ~Decl(s).ok /\ os # {} /\ Cardinality(os) <= 6
    /\ \E D \in SUBSET os : D # {} /\ Rec(Without(s, D, 1), TRUE, TRUE).ok       \* (widest reading)
SigCase(s) ==
    LET d == Decl(s) IN
    [s |-> s, judged |-> Judged(s), ok |-> d.ok, strayBracket |-> StrayBracket(s),
     params |-> [k \in 1..Len(d.params) |->
                   [name |-> Seq2(d.params[k].name), type |-> Seq2(d.params[k].type), typeStr |-> d.params[k].typeStr,
                    optional |-> d.params[k].optional, hasDefault |-> d.params[k].hasDefault,
                    default |-> Seq2(d.params[k].default), desc |-> Seq2(d.params[k].desc)]]]
CallCase(c) ==
    LET d == CastDecl(c.ps, c.args) IN
    [ps |-> c.ps, args |-> c.args, judged |-> CastJudged(c.ps, c.args), status |-> d.status, vars |-> d.vars]
Emit == /\ ndJsonSerialize("cases.ndjson", SetToSeq({SigCase(s) : s \in Inputs}))
        /\ ndJsonSerialize("calls.ndjson", SetToSeq({CallCase(c) : c \in Calls}))
=============================================================================
