--------------------------- MODULE NamedPipesTrace ---------------------------
(***************************************************************************)
(* Validates event logs of real pipes.Named registries (hooks emit under   *)
(* the registry mutex) recorded while goroutines create, close, delete and *)
(* look up pipes concurrently and the real close timers fire, against the  *)
(* actions of NamedPipes.tla.  One registry per trace ("reset" between).   *)
(* A timer that finds its name already gone logs nothing: such a firing is *)
(* a silent step.                                                          *)
(***************************************************************************)
EXTENDS NamedPipes, Json, TLCExt

Log == ndJsonDeserialize("trace.ndjson")
VARIABLES l
tvars == <<vars, l>>
E == Log[l]
IsEv(e) == l <= Len(Log) /\ E.ev = e /\ l' = l + 1
C == CHOOSE c \in Clients : TRUE

TInit == TLCSet(1, 1) /\ Init /\ l = 1
TReset == /\ IsEv("reset")
          /\ reg' = [n \in Names |-> Absent] /\ nextPipe' = 0 /\ sdeps' = <<>> /\ timers' = <<>>
          /\ nextTimer' = 0 /\ pc' = [c \in Clients |-> Idle] /\ nops' = [c \in Clients |-> 0]
          /\ crashed' = FALSE /\ closedBy' = <<>> /\ ret' = A("Init", 0, [k |-> "none"])
Ok(b) == IF b = 1 THEN "ok" ELSE "err"
TCreate == IsEv("np.create") /\ Create(C, E.name) /\ ret'.k = Ok(E.ok)
TClose  == IsEv("np.close") /\ Close(C, E.name) /\ ret'.k = Ok(E.ok)
TDelete == IsEv("np.delete") /\ Delete(C, E.name) /\ ret'.k = Ok(E.ok)
\* timers started for the same name are interchangeable: the oldest one still sleeping is taken.
\* A timer that finds its name gone logs nothing and changes nothing: it is simply left sleeping.
TTimer  == /\ IsEv("np.timer")
           /\ LET S == {t \in DOMAIN timers : timers[t].name = E.name /\ timers[t].st = "sleeping"} IN
                /\ S # {}
                /\ LET t == CHOOSE x \in S : \A y \in S : x <= y IN TimerFire(t) /\ ret'.k = "closed"
TGet == IsEv("np.get") /\ UNCHANGED vars /\ ((E.ok = 1) <=> reg[E.name] # Absent)
TNext == TReset \/ TCreate \/ TClose \/ TDelete \/ TTimer \/ TGet
TSpec == TInit /\ [][TNext]_tvars
HWM == TLCSet(1, IF TLCGet(1) < l THEN l ELSE TLCGet(1))
TAccepted == IF TLCGet(1) = Len(Log) + 1 THEN TRUE ELSE PrintT(<<"REJECTED_AT", TLCGet(1)>>) /\ FALSE
\* silent timer firings do not change what later events can match: keep one representative
TView == <<reg, nextPipe, sdeps, [t \in DOMAIN timers |-> timers[t]], l>>
=============================================================================
