SPECIFICATION Spec
CONSTANTS
  Inputs <- GenInputs
  Family = "logic"
  Lits3 = {}
  Lits4 = {}
  StrN = 0
  WordsF = 9
  WordsT = 6
  Small3 = TRUE
  Ops1 = {"&&", "||", "?:", "??"}
  Base = TRUE
INVARIANTS Agree
CHECK_DEADLOCK FALSE
