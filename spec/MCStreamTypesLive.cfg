SPECIFICATION FairSpec
CONSTANTS
  Writers = {1, 2}
  Readers = {}
  Typers = {1}
  Getters = {5}
  MaxBuf = 2
  WSizes = {}
  MaxWrites = 0
  RSizes = {}
  MaxReads = 0
  Types = {"", "null", "a", "b"}
  AllowForceClose = FALSE
  StrictLimit = TRUE
PROPERTIES GetterReturns
CHECK_DEADLOCK FALSE
