SPECIFICATION Spec
CONSTANTS
  Fams = {"idx"}
  IdxMaxN = 0
  IdxKeys <- TOne
  IdxMaxKeys = 1
  IdxWideN = 0
  IdxWideKeys <- TOne
  RngMaxN = 0
  RngBounds <- TOne
  MkVals <- TOne
  MkPads <- TOne
  MkExtra <- TOne
  MkMaxBlocks = 0
  MkMaxAlts = 1
CHECK_DEADLOCK FALSE
