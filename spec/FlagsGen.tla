------------------------------ MODULE FlagsGen ------------------------------
(* Case table for conformance (C24): every explored input with what the rule says about it *)
(* and what the `args` builtin must store.  Inputs are either the exhaustive space of      *)
(* Flags.tla (Inputs <- AllInputs) or a seeded sample over a larger universe written by    *)
(* the check driver to inputs.ndjson (Inputs <- FileInputs); the expected values always    *)
(* come from this evaluation.                                                              *)
EXTENDS Flags, Json, SequencesExt

\* one line of inputs.ndjson: {"names": [..], "tys": [..], "aa": b, "ii": b, "strict": b, "params": [..]}
\* (built with :> and @@ so that TLC holds explicit values, not unevaluated function expressions)
RECURSIVE TblOf(_, _)
TblOf(r, k) == IF k > Len(r.names) THEN <<>> ELSE (r.names[k] :> r.tys[k]) @@ TblOf(r, k + 1)
FromFile(r) ==
    [tbl    |-> TblOf(r, 1),
     opts   |-> [aa |-> r.aa, ii |-> r.ii, strict |-> r.strict],
     params |-> r.params]
\* NB: TLC evaluates a constant definition like this one once per worker thread (and per reference), so the
\* check driver runs the file-input configuration with a single worker; the work there is the export anyway.
FileInputs == LET rows == ndJsonDeserialize("inputs.ndjson") IN {FromFile(rows[k]) : k \in DOMAIN rows}

Case(c) ==
    LET A == Analysis(c)
        d == DeclA(c, A)
    IN
    [table    |-> {[name |-> k, ty |-> c.tbl[k]] : k \in DOMAIN c.tbl},
     aa |-> c.opts.aa, ii |-> c.opts.ii, strict |-> c.opts.strict,
     params   |-> c.params,
     judged   |-> JudgedA(c, A),
     err      |-> d.err,
     cause    |-> d.cause,
     flags    |-> d.flags,
     additional |-> d.additional,
     args     |-> ArgsBuiltin(d),
     cyclic   |-> \E p \in 1..N(c) : A.P[p].target = Cycle,     \* some argument names an alias that never ends
     features |-> FeaturesA(c, A)]
Emit == ndJsonSerialize("cases.ndjson", SetToSeq({Case(c) : c \in Inputs}))
=============================================================================
