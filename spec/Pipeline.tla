------------------------------ MODULE Pipeline ------------------------------
(***************************************************************************)
(* C03: a sequential murex program gives the same result under any         *)
(* schedule.  A pipeline `src -> s1 -> ... -> sn` runs its stages as       *)
(* concurrent processes joined by bounded byte pipes (Stream.tla) with     *)
(* end-of-stream after the writer closed.  This module has                 *)
(*   - Seq(P): the sequential meaning of a program (what it must print),   *)
(*   - the concurrent operational model: one process per stage, bounded    *)
(*     channels, back-pressure, close/EOF, aggregating stages,             *)
(* and TLC checks, for every pipeline in the bound and every interleaving, *)
(* that the run terminates and prints exactly Seq(P).                      *)
(***************************************************************************)
EXTENDS Integers, Sequences, FiniteSets, TLC

CONSTANTS Tokens,      \* line contents at the source, e.g. {"a", "b"}
          MaxSrc,      \* lines at the source
          MaxStages,
          Kinds,       \* subset of {"mapx", "fn", "dup", "tac", "errtee", "cast", "ifa", "sw", "var", "tryf", "trys", "tpf", "ffif", "fsif"}
          Cap          \* channel capacity in lines (stands for the 1 MiB buffer)

\* a line is a sequence of one-character strings; the renderer concatenates them
Line(t) == <<t>>
Sources == UNION {[1..n -> Tokens] : n \in 0..MaxSrc}
StageLists == UNION {[1..n -> Kinds] : n \in 0..MaxStages}
Pipelines == [src : Sources, stages : StageLists]

(* ------------------------- sequential meaning --------------------------- *)
RECURSIVE MxFlat(_)
MxFlat(ss) == IF ss = <<>> THEN <<>> ELSE Head(ss) \o MxFlat(Tail(ss))
MxRev(s) == [i \in 1..Len(s) |-> s[Len(s) + 1 - i]]
MapSeq(s, F(_)) == [i \in 1..Len(s) |-> F(s[i])]

\* what a stage prints on stdout / stderr for an input list
StageOut(k, in) ==
    CASE k = "mapx"   -> MapSeq(in, LAMBDA l : <<"x">> \o l)
      [] k = "fn"     -> MapSeq(in, LAMBDA l : <<"f">> \o l)
      [] k = "dup"    -> MxFlat(MapSeq(in, LAMBDA l : <<l, l>>))
      [] k = "tac"    -> MxRev(in)
      [] k = "errtee" -> in
      [] k = "cast"   -> in                                                   \* `cast str`: bytes unchanged
      \* if { $v == "a" } then { out A } else { out $v }
      [] k = "ifa"    -> MapSeq(in, LAMBDA l : IF l = <<"a">> THEN <<"A">> ELSE l)
      \* switch $v { case "b" { out B } default { out $v } }
      [] k = "sw"     -> MapSeq(in, LAMBDA l : IF l = <<"b">> THEN <<"B">> ELSE l)
      \* a variable assigned from the element and read back in an expression-built string
      [] k = "var"    -> MapSeq(in, LAMBDA l : <<"v">> \o l \o <<"v">>)
      \* a try / trypipe block inside the stage's loop body (C05 gives its meaning; here it sits in a stage whose stdout is a pipe
      \* with a concurrent reader): foreach v { try { fail; out never }; out "t$v" } - the block is abandoned, the body carries on
      [] k = "tryf"   -> MapSeq(in, LAMBDA l : <<"t">> \o l)
      \* foreach v { try { out "s$v" || out never } } - the alternative is skipped
      [] k = "trys"   -> MapSeq(in, LAMBDA l : <<"s">> \o l)
      \* foreach v { trypipe { fail | out never; out never2 }; out "p$v" }
      [] k = "tpf"    -> MapSeq(in, LAMBDA l : <<"p">> \o l)
      \* (two murex stages rendered as one) a function that passes its lines on and then FAILS, piped into `if` used as a
      \* method: `-> qf -> if { out T } else { out F }` - the condition is the upstream's output AND its exit number,
      \* which is final only when the upstream has closed its stdout: always F, whatever the schedule (seeded change C03d)
      [] k = "ffif"   -> <<<<"F">>>>
      \* the same with a function that succeeds: T (also on empty output: then the exit number alone decides)
      [] k = "fsif"   -> <<<<"T">>>>
StageErr(k, in) == IF k = "errtee" THEN MapSeq(in, LAMBDA l : <<"e">> \o l) ELSE <<>>

RECURSIVE RunStages(_, _, _)
RunStages(stages, in, err) ==
    IF stages = <<>> THEN [out |-> in, err |-> err]
    ELSE RunStages(Tail(stages), StageOut(Head(stages), in), err \o StageErr(Head(stages), in))

SeqPipe(p) == RunStages(p.stages, MapSeq(p.src, Line), <<>>)
\* `p1 ; p2`: everything p1 prints, then everything p2 prints
RECURSIVE SeqProg(_)
SeqProg(ps) == IF ps = <<>> THEN [out |-> <<>>, err |-> <<>>]
               ELSE LET h == SeqPipe(Head(ps)) t == SeqProg(Tail(ps)) IN
                    [out |-> h.out \o t.out, err |-> h.err \o t.err]

\* "sequential" in the sense of the property: at most one stage of a pipeline writes to the
\* shared stderr (two concurrent stages interleave there by design)
WellFormed(p) == Cardinality({i \in DOMAIN p.stages : p.stages[i] = "errtee"}) <= 1

(* ------------------------- concurrent operational model ----------------- *)
VARIABLES pipe,     \* the pipeline being run
          srcpos,   \* lines the source has written
          ch,       \* ch[i]: channel into stage i (i = 1..n); ch[n+1] is the block's stdout
          closed,   \* closed[i]: the writer of ch[i] has closed it
          pend,     \* pend[i]: lines stage i still has to write
          acc,      \* acc[i]: lines an aggregating stage has collected
          eof,      \* eof[i]: stage i has seen end-of-stream
          err       \* the block's stderr
vars == <<pipe, srcpos, ch, closed, pend, acc, eof, err>>

NS == Len(pipe.stages)
Unbounded(i) == i = NS + 1          \* the block's stdout is drained by the caller

Init ==
    /\ pipe \in {p \in Pipelines : WellFormed(p)}
    /\ srcpos = 0
    /\ ch = [i \in 1..(Len(pipe.stages) + 1) |-> <<>>]
    /\ closed = [i \in 1..(Len(pipe.stages) + 1) |-> FALSE]
    /\ pend = [i \in 1..Len(pipe.stages) |-> <<>>]
    /\ acc = [i \in 1..Len(pipe.stages) |-> <<>>]
    /\ eof = [i \in 1..Len(pipe.stages) |-> FALSE]
    /\ err = <<>>

Room(i) == Unbounded(i) \/ Len(ch[i]) < Cap

SrcWrite ==
    /\ srcpos < Len(pipe.src) /\ Room(1)
    /\ ch' = [ch EXCEPT ![1] = Append(@, Line(pipe.src[srcpos + 1]))]
    /\ srcpos' = srcpos + 1
    /\ UNCHANGED <<pipe, closed, pend, acc, eof, err>>
SrcClose ==
    /\ srcpos = Len(pipe.src) /\ ~closed[1]
    /\ closed' = [closed EXCEPT ![1] = TRUE]
    /\ UNCHANGED <<pipe, srcpos, ch, pend, acc, eof, err>>

\* stages that read their whole input before they print
Agg(k) == k \in {"tac", "ffif", "fsif"}
\* stage i takes one line
Read(i) ==
    /\ i \in 1..NS /\ pend[i] = <<>> /\ ~eof[i] /\ ch[i] # <<>>
    /\ LET l == Head(ch[i]) k == pipe.stages[i] IN
         /\ ch' = [ch EXCEPT ![i] = Tail(@)]
         /\ IF Agg(k)
              THEN acc' = [acc EXCEPT ![i] = Append(@, l)] /\ UNCHANGED pend
              ELSE pend' = [pend EXCEPT ![i] = StageOut(k, <<l>>)] /\ UNCHANGED acc
         /\ err' = err \o StageErr(k, <<l>>)
    /\ UNCHANGED <<pipe, srcpos, closed, eof>>
\* stage i writes one pending line downstream (blocks while the channel is full)
Write(i) ==
    /\ i \in 1..NS /\ pend[i] # <<>> /\ Room(i + 1)
    /\ ch' = [ch EXCEPT ![i + 1] = Append(@, Head(pend[i]))]
    /\ pend' = [pend EXCEPT ![i] = Tail(@)]
    /\ UNCHANGED <<pipe, srcpos, closed, acc, eof, err>>
\* stage i sees end-of-stream: only after its writer closed and the channel is drained
SeeEof(i) ==
    /\ i \in 1..NS /\ pend[i] = <<>> /\ ~eof[i] /\ ch[i] = <<>> /\ closed[i]
    /\ eof' = [eof EXCEPT ![i] = TRUE]
    /\ pend' = [pend EXCEPT ![i] = IF Agg(pipe.stages[i]) THEN StageOut(pipe.stages[i], acc[i]) ELSE <<>>]
    /\ UNCHANGED <<pipe, srcpos, ch, closed, acc, err>>
\* ... and closes its own output when it has written everything
Close(i) ==
    /\ i \in 1..NS /\ eof[i] /\ pend[i] = <<>> /\ ~closed[i + 1]
    /\ closed' = [closed EXCEPT ![i + 1] = TRUE]
    /\ UNCHANGED <<pipe, srcpos, ch, pend, acc, eof, err>>

Done == closed[NS + 1]
Next == SrcWrite \/ SrcClose \/ (\E i \in 1..MaxStages : Read(i) \/ Write(i) \/ SeeEof(i) \/ Close(i))
Spec == Init /\ [][Next]_vars
FairSpec == Spec /\ WF_vars(Next)

\* every schedule ends, and ends with exactly the sequential result
Deterministic == Done => (ch[NS + 1] = SeqPipe(pipe).out /\ err = SeqPipe(pipe).err)
NoDeadlock == ENABLED Next \/ Done
Terminates == <>Done
\* the output never runs ahead of or away from the sequential result
OutputIsPrefix == LET want == SeqPipe(pipe).out IN
                  Len(ch[NS + 1]) <= Len(want) /\ ch[NS + 1] = SubSeq(want, 1, Len(ch[NS + 1]))
=============================================================================
