----------------------------- MODULE UnitTestGen -----------------------------
(* Case table for conformance (C31): every explored (function, plan) with the verdict of the rule. *)
EXTENDS UnitTest, Json, SequencesExt


\* the plan space is a union of products, each pairing functions with the assertions that are meaningful for them
P(outMatch, outRegex, outType, outStruct, outGT, errMatch, errRegex, errType, errStruct, exits) ==
    [StdoutMatch : outMatch, StdoutRegex : outRegex, StdoutType : outType, StdoutIsArray : outStruct, StdoutIsMap : outStruct,
     StdoutGreaterThan : outGT, StderrMatch : errMatch, StderrRegex : errRegex, StderrType : errType,
     StderrIsArray : errStruct, StderrIsMap : errStruct, ExitNum : exits]
No == {FALSE}
\* text functions (1 plain, 4 with stderr and exit 3, 5 stderr only): match / regex / type / exit assertions
TextCases(full) ==
    [fn : {1, 4, 5},
     plan : P(IF full THEN {"", Hello, JArr, "nope"} ELSE {"", Hello, "nope"}, {"", RxHello, RxB}, {"", "str", "json"}, No, {0},
              IF full THEN {"", Oops, Warn, "nope"} ELSE {"", Oops, "nope"}, IF full THEN {"", RxOo, RxX, RxK} ELSE {"", RxOo, RxX}, {""}, No, {0, 1, 3})]
\* JSON functions (2 array, 3 map): structure / length assertions too
JsonCases(full) ==
    [fn : {2, 3},
     plan : P(IF full THEN {"", JArr, JMap, "nope"} ELSE {"", JArr}, IF full THEN {"", RxB, RxK} ELSE {"", RxB}, {"", "json", "str"}, BOOLEAN,
              IF full THEN {0, 1, 2, 3, 4} ELSE {0, 2, 3}, {"", "nope"}, {"", RxK}, {""}, No, {0, 3})]
\* stderr as structured data
ErrCases(full) ==
    [fn : {1, 4, 6},
     plan : P({""}, {""}, {""}, No, {0}, {"", JMap1, Oops}, {"", RxK, RxOo}, {"", "str", "json"}, BOOLEAN, {0, 3})]
\* structure assertions on text streams (not judged, executed)
MixedCases == [fn : {1, 5}, plan : P({""}, {""}, {""}, BOOLEAN, {0, 2}, {""}, {"", RxX}, {""}, No, {0, 1})]
QuickInputs == TextCases(FALSE) \cup JsonCases(FALSE) \cup ErrCases(FALSE) \cup MixedCases
FullInputs == TextCases(TRUE) \cup JsonCases(TRUE) \cup ErrCases(TRUE) \cup MixedCases

Case(c) ==
    LET a == Act(c.fn) IN
    [fn |-> c.fn, plan |-> c.plan, judged |-> Judged(c.plan, a), pass |-> Verdict(c.plan, a),
     failing |-> Failing(c.plan, a), asserted |-> {x[1] : x \in Assertions(c.plan, a)}]
FuncRow(f) == [fn |-> f] @@ Act(f)
\* (TLCGet("distinct") is only defined once model checking has run: it keeps TLC from folding Emit into a
\* constant at start-up, which it would then refuse as a POSTCONDITION)
Emit == /\ TLCGet("distinct") >= 0
        /\ ndJsonSerialize("cases.ndjson", SetToSeq({Case(c) : c \in Inputs}))
        /\ ndJsonSerialize("funcs.ndjson", SetToSeq({FuncRow(f) : f \in Funcs}))
        /\ ndJsonSerialize("facts.ndjson", <<[regexes |-> Regexes, texts |-> AllTexts, rxTrue |-> RxTrue,
                                             jsonArrays |-> JsonArrays, jsonMaps |-> JsonMaps,
                                             jsonLen |-> {<<t, JsonLen(t)>> : t \in JsonArrays \cup JsonMaps}]>>)
=============================================================================
