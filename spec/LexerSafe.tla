----------------------------- MODULE LexerSafe -----------------------------
(***************************************************************************)
(* C34: tab-completion may run the command line typed so far only if every  *)
(* command murex would execute in it is on the safe list and it contains no *)
(* assignment, redirection to a file or sub-shell                           *)
(* (utils/parser/parser.go pt.Unsafe, shell/autocomplete/dynamic.go:93).    *)
(*                                                                         *)
(* Abstract syntax of a command line: segments joined by flow tokens.  A    *)
(* segment is a command word, optionally followed by a blank, and one       *)
(* argument form; or an assignment expression.  The line being completed is *)
(*     seg1 J1 seg2 J2 ... segN      (N >= 2)                               *)
(* and what dynamic.go executes is the text before the last flow token,     *)
(* i.e. seg1 J1 ... seg(N-1).  MustNotRun says, from the structure alone,   *)
(* that this text must not be run; the tokeniser's verdict on the real code *)
(* has to be Unsafe for every such line.                                    *)
(* Characters are the tokens of Lexer.tla.                                  *)
(***************************************************************************)
EXTENDS Integers, Sequences, FiniteSets, TLC, Json, SequencesExt

CONSTANTS Plans       \* set of <<segments per line (>= 2), joiners, argument forms>>, see PlansQ

\* command words: on the safe list / not on it (the check confirms both against parser.GetSafeCmds)
SafeCmds == {<<"o", "u", "t">>, <<"t", "r", "u", "e">>}
\* zz\out: the command murex runs is `zzout` (a backslash before an ordinary character is that character), which is on no
\* list; a tokeniser that drops what stands before the escape sees the safe name `out`
\* \zout: the same with the escape at the very start of the command word (murex runs `zout`)
UnsafeCmds == {<<"k", "i", "l", "l">>, <<"v", "x", "r", "m">>, <<"z", "z", "BS", "o", "u", "t">>, <<"BS", "z", "o", "u", "t">>}
Cmds == SafeCmds \cup UnsafeCmds

\* "?t": the stderr pipe written tight against the word before it (`x? y`): a pipe for murex as soon as a blank stands on either side
JoinerNames == {"|", "->", ";", "&&", "||", "=>", "?", "?t", "LF"}
JoinText(j) == CASE j = "|" -> <<"|">> [] j = "->" -> <<"-", ">">> [] j = ";" -> <<";">> [] j = "&&" -> <<"&", "&">>
                 [] j = "||" -> <<"|", "|">> [] j = "=>" -> <<"=", ">">> [] j = "?" -> <<"SP", "?">> [] j = "?t" -> <<"?", "SP">> [] j = "LF" -> <<"LF">>

\* argument forms of a command segment (inner = the command inside a block / sub-shell)
ArgFormNames == {"none", "plain", "quoted", "block", "subshell", "arraysub", "var", "redirect", "append", "pipefile", "escaped",
                 "parensub", "bqsub", "dqsub", "nestparensub", "tblock", "appendt", "pipefilet"}
\* a sub-shell is evaluated inside double quotes and inside ( ) / %( ) strings as well
SubForms == {"subshell", "arraysub", "parensub", "bqsub", "dqsub", "nestparensub"}
NeedsInner(f) == f \in {"block", "tblock"} \cup SubForms
ArgText(f, inner) ==
    CASE f = "none"     -> <<>>
      [] f = "plain"    -> <<"x">>
      [] f = "quoted"   -> <<"SQ", "x", "SP", "y", "SQ">>
      [] f = "escaped"  -> <<"x", "BS", "SP", "y">>
      [] f = "block"    -> <<"{", "SP">> \o inner \o <<"SP", "}">>
      [] f = "tblock"   -> <<"{">> \o inner \o <<"}">>                \* the command sits right against both braces
      [] f = "subshell" -> <<"$", "{">> \o inner \o <<"}">>
      [] f = "arraysub" -> <<"@", "{">> \o inner \o <<"}">>
      [] f = "parensub" -> <<"(", "$", "{">> \o inner \o <<"}", ")">>
      [] f = "bqsub"    -> <<"%", "(", "a", "SP", "$", "{">> \o inner \o <<"}", "SP", "b", ")">>
      [] f = "dqsub"    -> <<"DQ", "a", "SP", "$", "{">> \o inner \o <<"}", "DQ">>
      [] f = "nestparensub" -> <<"(", "a", "SP", "(", "b", "SP", "$", "{">> \o inner \o <<"}", ")", ")">>
      [] f = "var"      -> <<"$", "v">>
      [] f = "redirect" -> <<"x", "SP", ">", "SP", "f">>           \* not a redirection in murex: `>` is an ordinary word here
      [] f = "append"   -> <<"x", "SP", ">", ">", "SP", "f">>      \* append stdout to file f
      [] f = "pipefile" -> <<"x", "SP", "|", ">", "SP", "f">>      \* write stdout to file f
      [] f = "appendt"  -> <<"x", ">", ">", "f">>                  \* the same without blanks: still file operations for murex
      [] f = "pipefilet" -> <<"x", "|", ">", "f">>
\* segments: a command (glue: is the command word followed by a blank when it has no argument) or an assignment
\* (trail: is the argument followed by a blank before the flow token)
\* colon: the command word is written in the old `cmd: arguments` form
CmdSegs(ArgForms) == {[k |-> "cmd", cmd |-> c, glue |-> g, form |-> f, inner |-> i, trail |-> t, colon |-> co] :
                          c \in Cmds, g \in {TRUE, FALSE}, f \in ArgForms, i \in Cmds, t \in {TRUE, FALSE}, co \in {TRUE, FALSE}}
Norm(s) == \* canonical: inner only matters for forms that use it; glue only for the bare form, trail for the others
    [s EXCEPT !.inner = IF NeedsInner(s.form) THEN s.inner ELSE <<"o", "u", "t">>,
              !.glue = IF s.form = "none" THEN s.glue ELSE TRUE,
              !.trail = IF s.form = "none" THEN FALSE ELSE s.trail,
              \* (the colon form is generated with the plain argument only; an escaped character in the word is left out of it)
              !.colon = IF s.form = "plain" /\ (\A x \in DOMAIN s.cmd : s.cmd[x] # "BS") THEN s.colon ELSE FALSE]
Segs(ArgForms) == {Norm(s) : s \in CmdSegs(ArgForms)}
                  \cup {[k |-> "assign", cmd |-> <<>>, glue |-> TRUE, form |-> "none", inner |-> <<>>, trail |-> FALSE, colon |-> FALSE],
                        \* an assignment to a variable that is called like a safe command: `out = 1`
                        [k |-> "assign", cmd |-> <<"o", "u", "t">>, glue |-> TRUE, form |-> "none", inner |-> <<>>, trail |-> FALSE, colon |-> FALSE]}
SegText(s) ==
    IF s.k = "assign" THEN (IF s.cmd = <<>> THEN <<"v">> ELSE s.cmd) \o <<"SP", "=", "SP", "1">>
    ELSE s.cmd \o (IF s.colon THEN <<":">> ELSE <<>>) \o (IF s.form = "none" THEN (IF s.glue THEN <<"SP">> ELSE <<>>)
                   ELSE <<"SP">> \o ArgText(s.form, s.inner) \o (IF s.trail THEN <<"SP">> ELSE <<>>))

\* lines: segs[1..n] joined by joins[1..n-1]; the last segment is the command being completed
RECURSIVE SeqsOf(_, _)
SeqsOf(S, n) == IF n = 0 THEN {<<>>} ELSE {Append(r, e) : r \in SeqsOf(S, n - 1), e \in S}
\* the segment being completed: a safe command followed by a blank (so that the last word itself is not the reason)
LastSeg == [k |-> "cmd", cmd |-> <<"o", "u", "t">>, glue |-> TRUE, form |-> "none", inner |-> <<"o", "u", "t">>, trail |-> FALSE, colon |-> FALSE]
LinesOf(maxsegs, Joiners, ArgForms) ==
    UNION {{[segs |-> Append(ss, LastSeg), joins |-> js] : ss \in SeqsOf(Segs(ArgForms), n), js \in SeqsOf(Joiners, n)} : n \in 1..(maxsegs - 1)}
Lines == UNION {LinesOf(p[1], p[2], p[3]) : p \in Plans}
PlansQ == {<<2, JoinerNames, ArgFormNames>>, <<3, {"|", ";", "->", "&&", "?t"}, {"none", "plain"}>>}
\* (three segments: 46 segment shapes squared x 16 joiner pairs = 34 k lines; sub-shell and file forms are in the two-segment plan)
PlansT == {<<2, JoinerNames, ArgFormNames>>, <<3, {"|", ";", "->", "?t"}, {"none", "plain", "appendt"}>>}

RECURSIVE Render(_, _, _)
Render(l, k, upto) == IF k > upto THEN <<>>
                      ELSE SegText(l.segs[k]) \o (IF k < upto THEN JoinText(l.joins[k]) \o Render(l, k + 1, upto) ELSE <<>>)
N(l) == Len(l.segs)
Text(l) == Render(l, 1, N(l))
Executed(l) == Render(l, 1, N(l) - 1)          \* the text before the last flow token

\* what the executed text would do
RunCmds(l) == {l.segs[k].cmd : k \in {j \in 1..(N(l) - 1) : l.segs[j].k = "cmd"}}
              \cup {l.segs[k].inner : k \in {j \in 1..(N(l) - 1) : l.segs[j].k = "cmd" /\ NeedsInner(l.segs[j].form)}}
HasAssign(l) == \E k \in 1..(N(l) - 1) : l.segs[k].k = "assign"
HasFileRedirect(l) == \E k \in 1..(N(l) - 1) : l.segs[k].form \in {"append", "pipefile", "appendt", "pipefilet"}
HasSubShell(l) == \E k \in 1..(N(l) - 1) : l.segs[k].form \in SubForms
Reasons(l) == (IF RunCmds(l) \cap UnsafeCmds # {} THEN {"unsafe-command"} ELSE {})
              \cup (IF HasAssign(l) THEN {"assignment"} ELSE {})
              \cup (IF HasFileRedirect(l) THEN {"file-redirect"} ELSE {})
              \cup (IF HasSubShell(l) THEN {"sub-shell"} ELSE {})
MustNotRun(l) == Reasons(l) # {}
\* where an unsafe command of the executed text stands: directly before a flow token (no blank after it),
\* before a blank, inside a block, inside a sub-shell  -- names the class of a failure in violation keys
Where(l) == {IF l.segs[k].form = "none" /\ ~l.segs[k].glue /\ l.joins[k] \notin {"?", "?t"} THEN <<"bare-before", l.joins[k]>> ELSE <<"word", "">> :
                 k \in {j \in 1..(N(l) - 1) : l.segs[j].k = "cmd" /\ l.segs[j].cmd \in UnsafeCmds}}
            \cup {<<"in", l.segs[k].form>> : k \in {j \in 1..(N(l) - 1) : l.segs[j].k = "cmd" /\ NeedsInner(l.segs[j].form) /\ l.segs[j].inner \in UnsafeCmds}}

Case(l) == [text |-> Text(l), executed |-> Executed(l), must_not_run |-> MustNotRun(l), reasons |-> Reasons(l),
            cmds |-> RunCmds(l), unsafe_cmds |-> RunCmds(l) \cap UnsafeCmds, where |-> Where(l),
            njoin |-> Len(l.joins), lastjoin |-> l.joins[Len(l.joins)]]
Cases == {Case(l) : l \in Lines}
Emit == /\ ndJsonSerialize("cases.ndjson", SetToSeq(Cases))
        /\ ndJsonSerialize("names.ndjson", <<[safe |-> SafeCmds, unsafe |-> UnsafeCmds]>>)
ASSUME Emit

VARIABLE done
Init == done = FALSE
Next == done = FALSE /\ done' = TRUE
Spec == Init /\ [][Next]_done
=============================================================================
