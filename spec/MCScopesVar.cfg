SPECIFICATION Spec
CONSTANTS
  Names = {"x", "y"}
  Opts = {}
  GlobalOpts = {}
  MaxLen = 4
  MaxDepth = 3
  Family = "var"
  TopLevel = "function"
INVARIANTS Agree Enumerated
PROPERTIES WriteIsLocal ReturnRestores
CHECK_DEADLOCK FALSE
