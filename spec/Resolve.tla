------------------------------ MODULE Resolve ------------------------------
(***************************************************************************)
(* C22: a command name resolves to the first match among private function  *)
(* (caller's module), alias, murex function, builtin, external executable; *)
(* an alias is expanded exactly once.   (executeProcess in lang/process.go) *)
(***************************************************************************)
EXTENDS Integers, Sequences, FiniteSets, TLC, Json, SequencesExt

Kinds == {"private", "alias", "function", "builtin", "external"}
Order == <<"private", "alias", "function", "builtin", "external">>
AliasTargets == {"out", "self", "other"}    \* alias NAME=out ..., alias NAME=NAME, alias NAME=OTHER
OtherKinds == {"private", "alias", "function", "external"}

\* first kind of Order that is in S (without expanding aliases)
RECURSIVE FirstOf(_, _)
FirstOf(S, i) == IF i > Len(Order) THEN "error"
                 ELSE IF Order[i] \in S THEN Order[i] ELSE FirstOf(S, i + 1)

\* what runs for `NAME args`
Resolve(defs, target, odefs) ==
    LET f == FirstOf(defs, 1) IN
    IF f # "alias" THEN f
    ELSE \* the alias is expanded once; the new name is looked up again, aliases excluded
         CASE target = "out"   -> "alias"
           [] target = "self"  -> FirstOf(defs \ {"alias"}, 1)
           [] target = "other" -> LET g == FirstOf(odefs \ {"alias"}, 1) IN
                                  IF g = "error" THEN "error" ELSE "other-" \o g

Cases == {[defs |-> d, target |-> t, odefs |-> o, runs |-> Resolve(d, t, o)] :
            d \in SUBSET Kinds, t \in AliasTargets, o \in SUBSET OtherKinds}
\* keep the table free of rows that only differ in irrelevant parameters
Relevant(c) == /\ ("alias" \notin c.defs => (c.target = "out" /\ c.odefs = {}))
               /\ (c.target # "other" => c.odefs = {})
\* sanity: an alias never resolves to an alias again, and privates always win
ASSUME \A c \in Cases : ("private" \in c.defs => c.runs = "private")
ASSUME \A c \in Cases : c.runs \notin {"other-alias"}
(* ---- across modules: a public function of module A runs the name; the line that runs it stands in module A, ---- *)
(* ---- whoever called the public function (code of another module B)                                       ---- *)
\* defsA: definitions of the name that module A can see (its own private, the global alias / function / external);
\* privB: the calling module B has a private of the same name - which must not matter
XResolve(defsA, privB) == Resolve(defsA, "out", {})
XCases == {[defs |-> d, privB |-> b, runs |-> XResolve(d, b)] : d \in SUBSET (Kinds \ {"builtin"}), b \in BOOLEAN}
ASSUME \A c \in XCases : c.runs = XResolve(c.defs, ~c.privB)
ASSUME ndJsonSerialize("cases.ndjson", SetToSeq({c \in Cases : Relevant(c)}))
ASSUME ndJsonSerialize("xcases.ndjson", SetToSeq(XCases))
=============================================================================
