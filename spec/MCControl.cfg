
