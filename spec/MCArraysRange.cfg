SPECIFICATION Spec
CONSTANTS
  Fams = {"range"}
  IdxMaxN <- PIdxMaxN
  IdxKeys <- PIdxKeys
  IdxMaxKeys <- PIdxMaxKeys
  IdxWideN <- PIdxWideN
  IdxWideKeys <- PIdxWideKeys
  RngMaxN <- PRngMaxN
  RngBounds <- PRngBounds
  MkVals <- PMkVals
  MkPads <- PMkPads
  MkExtra <- PMkExtra
  MkMaxBlocks <- PMkMaxBlocks
  MkMaxAlts <- PMkMaxAlts
INVARIANT AgreeRange
INVARIANT NoStuck
CHECK_DEADLOCK FALSE
