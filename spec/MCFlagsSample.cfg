SPECIFICATION Spec
CONSTANTS
  Names = {"-a", "-b", "--cc", "--dd"}
  Undecl = {"-z", "--zz", "-"}
  Values = {"x", "7", "0", "1.5", "-5", "-1.5"}
  DashValues = {"-5", "-1.5"}
  IntToks = {"7", "-5", "0"}
  NumToks = {"7", "-5", "0", "1.5", "-1.5"}
  MaxArgs = 0
  Inputs <- FileInputs
INVARIANTS TypeOK Agree
PROPERTY Decreases
POSTCONDITION Emit
CHECK_DEADLOCK FALSE
