----------------------------- MODULE ScopesGen -----------------------------
(* Case table for conformance: every history with what the rule says a program *)
(* observes after each of its operations.                                       *)
EXTENDS Scopes, Json, SequencesExt

Case(h) == [ops |-> h, obs |-> DeclObsSeq(h)]
Cases == {Case(h) : h \in Histories}
\* every history of the table was a state of the machine (and Agree was checked on it)
\* (TLCGet also keeps the operator from being folded into a constant at start-up)
Emit == /\ TLCGet("distinct") = Cardinality(Histories) + 1
        /\ ndJsonSerialize("cases.ndjson", SetToSeq(Cases))
=============================================================================
