SPECIFICATION Spec
CONSTANTS
  Plans <- PlansQ
CHECK_DEADLOCK FALSE
