CONSTANTS
  MaxLen = 5
  Exits = {0, 1}
  Modes = {"normal", "try", "trypipe"}
SPECIFICATION TSpec
CONSTRAINT HWM
INVARIANTS SequentialStart ReleasedOnce Rendezvous
POSTCONDITION Accepted
CHECK_DEADLOCK FALSE
