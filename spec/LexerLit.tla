------------------------------ MODULE LexerLit ------------------------------
(***************************************************************************)
(* C36: a %[ ] or %{ } literal written in JSON syntax denotes the JSON      *)
(* value of that text (lang/expressions/parse_array.go, parse_object.go).   *)
(*                                                                         *)
(* The specification is the generator of the property's quantifier plus the *)
(* identity it states: a JSON tree, its text in several JSON layouts (all   *)
(* of them JSON syntax), and the expected value = the tree.  Characters are *)
(* the tokens of Lexer.tla.  Every node has the same shape so that TLC can  *)
(* put nodes into sets:                                                     *)
(*   [t |-> "lit", s |-> spelling]            number / true / false / null  *)
(*   [t |-> "str", s |-> characters]          double-quoted string          *)
(*   [t |-> "arr", e |-> <<node, ...>>]                                     *)
(*   [t |-> "obj", e |-> <<<<key, node>>, ...>>]   key = characters         *)
(***************************************************************************)
EXTENDS Integers, Sequences, FiniteSets, TLC, Json, SequencesExt

CONSTANTS Width,      \* most children of a first-level node (over all scalars and keys)
          Width2,     \* most members of a second-level object (over a reduced set of subtrees; arrays: 2)
          Deep,       \* TRUE: a third level (one child) over a reduced set of subtrees
          Layouts     \* subset of {"compact", "spaced", "pretty", "nlcolon"}

N(t, s, e) == [t |-> t, s |-> s, e |-> e]
Lit(s) == N("lit", s, <<>>)
Str(s) == N("str", s, <<>>)
\* number spellings JSON and float64 agree on exactly, booleans, null
Lits == {Lit(<<"0">>), Lit(<<"7">>), Lit(<<"-", "1", "2">>), Lit(<<"1", ".", "5">>), Lit(<<"2", "e", "3">>),
         Lit(<<"t", "r", "u", "e">>), Lit(<<"f", "a", "l", "s", "e">>), Lit(<<"n", "u", "l", "l">>)}
\* strings without backslash, $, ~ and parentheses (the property's restriction)
Strs == {Str(<<>>), Str(<<"a">>), Str(<<"x", "SP", "y">>), Str(<<"EA", "#", "/">>), Str(<<"1">>), Str(<<"t", "r", "u", "e">>),
         Str(<<"[", ",", "]", "{", ":", "}">>), Str(<<"SQ", "%", "@">>)}
Keys == {<<"a">>, <<"b", "SP", "c">>, <<>>, <<"1">>}
Scalars == Lits \cup Strs
SmallScalars == {Lit(<<"7">>), Lit(<<"n", "u", "l", "l">>), Str(<<"a">>)}
SmallKeys == {<<"a">>, <<"b", "SP", "c">>}

RECURSIVE SeqsUpTo(_, _)
SeqsUpTo(S, n) == IF n = 0 THEN {<<>>} ELSE LET R == SeqsUpTo(S, n - 1) IN R \cup {Append(r, e) : r \in {x \in R : Len(x) = n - 1}, e \in S}
Inner(Sub, Ks, wa, wo) == {N("arr", <<>>, es) : es \in SeqsUpTo(Sub, wa)}
                          \cup {N("obj", <<>>, kvs) : kvs \in SeqsUpTo({<<k, v>> : k \in Ks, v \in Sub}, wo)}
Level1 == Inner(Scalars, Keys, Width, Width)
Small1 == Inner(SmallScalars, SmallKeys, 2, 2)
Level2 == Inner(SmallScalars \cup Small1, SmallKeys, 2, Width2)
Small2 == {x \in Level2 : Len(x.e) = 1}
Level3 == IF Deep THEN Inner(SmallScalars \cup Small2, SmallKeys, 1, 1) ELSE {}
Trees == Scalars \cup Level1 \cup Level2 \cup Level3

(* ------------------------------- printing -------------------------------- *)
RECURSIVE MxFlat(_)
MxFlat(ss) == IF ss = <<>> THEN <<>> ELSE Head(ss) \o MxFlat(Tail(ss))
RECURSIVE MxJoin(_, _)
MxJoin(ws, sep) == IF ws = <<>> THEN <<>> ELSE IF Len(ws) = 1 THEN ws[1] ELSE ws[1] \o sep \o MxJoin(Tail(ws), sep)
Indent(d) == [k \in 1..(2 * d) |-> "SP"]
Quote(s) == <<"DQ">> \o s \o <<"DQ">>
\* separators of a layout at nesting depth d: after the opening bracket, between members, before the
\* closing bracket, after the colon
Open(l, d)  == IF l = "pretty" THEN <<"LF">> \o Indent(d + 1) ELSE <<>>
Comma(l, d) == CASE l = "compact" -> <<",">> [] l = "pretty" -> <<",", "LF">> \o Indent(d + 1) [] OTHER -> <<",", "SP">>
Close(l, d) == IF l = "pretty" THEN <<"LF">> \o Indent(d) ELSE <<>>
Colon(l, d) == CASE l = "compact" -> <<":">> [] l = "nlcolon" -> <<":", "LF">> \o Indent(d + 1) [] OTHER -> <<":", "SP">>
RECURSIVE MxPrint(_, _, _)
MxPrint(x, l, d) ==
    CASE x.t = "lit" -> x.s
      [] x.t = "str" -> Quote(x.s)
      [] x.t = "arr" -> IF x.e = <<>> THEN <<"[", "]">>
                        ELSE <<"[">> \o Open(l, d) \o MxJoin([k \in DOMAIN x.e |-> MxPrint(x.e[k], l, d + 1)], Comma(l, d)) \o Close(l, d) \o <<"]">>
      [] x.t = "obj" -> IF x.e = <<>> THEN <<"{", "}">>
                        ELSE <<"{">> \o Open(l, d)
                             \o MxJoin([k \in DOMAIN x.e |-> Quote(x.e[k][1]) \o Colon(l, d) \o MxPrint(x.e[k][2], l, d + 1)], Comma(l, d))
                             \o Close(l, d) \o <<"}">>

\* the literal: JSON text of an array / object behind a %
IsInner(x) == x.t \in {"arr", "obj"}
Case(x, l) == [tree |-> x, layout |-> l, json |-> MxPrint(x, l, 0), text |-> <<"%">> \o MxPrint(x, l, 0)]
SampleTrees == LET rows == ndJsonDeserialize("sample.ndjson") IN {rows[k] : k \in DOMAIN rows}
Cases == {Case(x, l) : x \in {y \in Trees \cup SampleTrees : IsInner(y)}, l \in Layouts}
Emit == ndJsonSerialize("cases.ndjson", SetToSeq(Cases))
ASSUME Emit

\* TLC needs a behaviour specification; the content of this module is the table above
VARIABLE done
Init == done = FALSE
Next == done = FALSE /\ done' = TRUE
Spec == Init /\ [][Next]_done
=============================================================================
