-------------------------------- MODULE Expr --------------------------------
(***************************************************************************)
(* murex expressions (lang/expressions): what a well-formed expression     *)
(* over literals, parentheses and binary operators evaluates to.           *)
(*                                                                         *)
(*   C06  * /  >  + -  >  < <= > >=  >  == !=   (C precedence, left         *)
(*        associative), IEEE-754 double results, byte-order strings         *)
(*   C07  && || ?: ?? and the truthiness table                              *)
(*                                                                         *)
(* Two descriptions, and TLC checks that they agree on every input:        *)
(*  - Eval: the rule as the properties state it - the root of an            *)
(*    expression is its rightmost operator of the loosest precedence level  *)
(*    outside parentheses (that is "tighter binds first, equal precedence   *)
(*    associates left");                                                    *)
(*  - the operational machine: a transcription of parseExpression (a        *)
(*    parenthesised group is parsed and executed by a branch parser while   *)
(*    the outer expression is still being read) and of executeExpr /        *)
(*    executeExpression / foldAst (for each entry of orderOfOperations scan *)
(*    the node list from the left, fold the first node whose symbol number  *)
(*    is >= the entry, restart the scan).                                   *)
(*                                                                         *)
(* Numbers.  TLC has (32 bit) integers only.  A finite number is kept as    *)
(* sign * m * 2^e with m odd (or m = 0: IEEE zero, which has a sign).       *)
(* Every operation is computed exactly; whenever the exact result is not    *)
(* a dyadic rational with a small mantissa the result is `Ood` (out of the  *)
(* exactly representable domain) and nothing is claimed about it.  On the   *)
(* remaining domain (m < 2^30, |e| <= 200) every value is a float64 and     *)
(* IEEE-754 arithmetic - being correctly rounded - returns exactly the      *)
(* exact result, so integer arithmetic in TLC is a valid oracle for the     *)
(* doubles murex computes.  Infinities, NaN and the sign of zero follow     *)
(* IEEE-754 (division by zero, 0 * -1, inf - inf ...).                      *)
(***************************************************************************)
EXTENDS Integers, Sequences, FiniteSets, TLC

CONSTANT Inputs      \* set of token sequences to examine (substituted by the MC modules)

(* ================================ values ================================= *)
Fin(s, m, e) == [k |-> "fin", s |-> s, m |-> m, e |-> e]    \* s \in {1,-1}, m odd or m = 0 = e
PInf(s)  == [k |-> "inf", s |-> s]
NaN      == [k |-> "nan"]
Ood      == [k |-> "ood"]      \* a number the dyadic oracle cannot name (inexact / too big)
Bool(b)  == [k |-> "bool", b |-> b]
Str(b)   == [k |-> "str", b |-> b]          \* b : sequence of bytes
Null     == [k |-> "null"]
Missing  == [k |-> "missing"]  \* value of a variable that does not exist
Unj      == [k |-> "unj"]      \* the property texts do not define a result

NumKinds == {"fin", "inf", "nan", "ood"}
IsNum(v) == v.k \in NumKinds
IsZero(v) == v.k = "fin" /\ v.m = 0

Big  == 536870912       \* 2^29: mantissas stay below this, sums below 2^30
ELim == 200

RECURSIVE NormME(_, _)
NormME(m, e) == IF m = 0 THEN <<0, 0>>
                ELSE IF m % 2 = 0 THEN NormME(m \div 2, e + 1) ELSE <<m, e>>
MkFin(s, m, e) == LET n == NormME(m, e) IN
                  IF n[2] > ELim \/ n[2] < -ELim THEN Ood ELSE Fin(s, n[1], n[2])
Zero(s) == Fin(s, 0, 0)
Abs(x) == IF x < 0 THEN -x ELSE x
Sgn(x) == IF x < 0 THEN -1 ELSE 1
Pow5(k) == 5 ^ k
Pow2(k) == 2 ^ k

\* decimal literal  [-]D with the decimal point k digits from the right:  (-1)^neg * d / 10^k
LitNum(neg, d, k) ==
    LET s == IF neg THEN -1 ELSE 1 IN
    IF d = 0 THEN Zero(s)
    ELSE IF k > 9 \/ d >= Big THEN Ood
    ELSE IF d % Pow5(k) # 0 THEN Ood                  \* not a dyadic rational: ParseFloat rounds
    ELSE MkFin(s, d \div Pow5(k), -k)

NegV(v) == IF v.k = "fin" THEN Fin(-v.s, v.m, v.e)
           ELSE IF v.k = "inf" THEN PInf(-v.s) ELSE v

\* all four take numbers that are not Ood
MulV(a, b) ==
    IF a.k = "nan" \/ b.k = "nan" THEN NaN
    ELSE IF a.k = "inf" \/ b.k = "inf"
      THEN IF IsZero(a) \/ IsZero(b) THEN NaN ELSE PInf(a.s * b.s)
    ELSE IF a.m = 0 \/ b.m = 0 THEN Zero(a.s * b.s)
    ELSE IF a.m > Big \div b.m THEN Ood
    ELSE MkFin(a.s * b.s, a.m * b.m, a.e + b.e)

DivV(a, b) ==
    IF a.k = "nan" \/ b.k = "nan" THEN NaN
    ELSE IF a.k = "inf" THEN (IF b.k = "inf" THEN NaN ELSE PInf(a.s * b.s))
    ELSE IF b.k = "inf" THEN Zero(a.s * b.s)
    ELSE IF b.m = 0 THEN (IF a.m = 0 THEN NaN ELSE PInf(a.s * b.s))
    ELSE IF a.m = 0 THEN Zero(a.s * b.s)
    ELSE IF a.m % b.m # 0 THEN Ood                    \* quotient is not dyadic: rounded by the FPU
    ELSE MkFin(a.s * b.s, a.m \div b.m, a.e - b.e)

AddV(a, b) ==
    IF a.k = "nan" \/ b.k = "nan" THEN NaN
    ELSE IF a.k = "inf" THEN (IF b.k = "inf" /\ b.s # a.s THEN NaN ELSE a)
    ELSE IF b.k = "inf" THEN b
    ELSE IF a.m = 0 /\ b.m = 0 THEN Zero(IF a.s = b.s THEN a.s ELSE 1)
    ELSE IF a.m = 0 THEN b
    ELSE IF b.m = 0 THEN a
    ELSE LET lo == IF a.e < b.e THEN a.e ELSE b.e
             da == a.e - lo
             db == b.e - lo
         IN IF da > 29 \/ db > 29 THEN Ood
            ELSE IF a.m > Big \div Pow2(da) \/ b.m > Big \div Pow2(db) THEN Ood
            ELSE LET t == a.s * a.m * Pow2(da) + b.s * b.m * Pow2(db) IN
                 IF t = 0 THEN Zero(1)                \* x + (-x) = +0 (round to nearest)
                 ELSE MkFin(Sgn(t), Abs(t), lo)

SubV(a, b) == AddV(a, NegV(b))

\* "lt" "eq" "gt", "un" (unordered: a NaN is involved), "ood"
CmpNum(a, b) ==
    IF a.k = "nan" \/ b.k = "nan" THEN "un"
    ELSE IF a.k = "inf" /\ b.k = "inf" THEN (IF a.s = b.s THEN "eq" ELSE IF a.s < b.s THEN "lt" ELSE "gt")
    ELSE IF a.k = "inf" THEN (IF a.s = -1 THEN "lt" ELSE "gt")
    ELSE IF b.k = "inf" THEN (IF b.s = 1 THEN "lt" ELSE "gt")
    ELSE LET d == SubV(a, b) IN
         IF d.k = "ood" THEN "ood"
         ELSE IF d.m = 0 THEN "eq"                    \* +0 = -0
         ELSE IF d.s = -1 THEN "lt" ELSE "gt"

\* byte order on strings: a proper prefix is smaller, else the first differing byte decides
LexLt(x, y) == \E i \in 1..Len(y) :
                  /\ \A j \in 1..(i - 1) : j <= Len(x) /\ x[j] = y[j]
                  /\ (i > Len(x) \/ x[i] < y[i])
CmpStr(x, y) == IF x = y THEN "eq" ELSE IF LexLt(x, y) THEN "lt" ELSE "gt"

(* ============================== truthiness =============================== *)
\* C07: empty, 0, null, false, no, off, fail, failed, disabled (trimmed, case-insensitive)
\* are false; everything else is true.  Byte strings.
IsSpace(c) == c \in {32, 9, 10, 13, 11, 12}
Lower(c) == IF c >= 65 /\ c <= 90 THEN c + 32 ELSE c
RECURSIVE TrimL(_)
TrimL(b) == IF b # <<>> /\ IsSpace(Head(b)) THEN TrimL(Tail(b)) ELSE b
RECURSIVE TrimR(_)
TrimR(b) == IF b # <<>> /\ IsSpace(b[Len(b)]) THEN TrimR(SubSeq(b, 1, Len(b) - 1)) ELSE b
Canon(b) == LET t == TrimR(TrimL(b)) IN [i \in 1..Len(t) |-> Lower(t[i])]
FalseWords == { <<>>,
                <<48>>,                                        \* 0
                <<110, 117, 108, 108>>,                        \* null
                <<102, 97, 108, 115, 101>>,                    \* false
                <<110, 111>>,                                  \* no
                <<111, 102, 102>>,                             \* off
                <<102, 97, 105, 108>>,                         \* fail
                <<102, 97, 105, 108, 101, 100>>,               \* failed
                <<100, 105, 115, 97, 98, 108, 101, 100>> }     \* disabled
TruthyBytes(b) == Canon(b) \notin FalseWords

\* what `if` and `!` look at: the text a command printed and its exit number
TruthyOut(b, exit) == exit = 0 /\ TruthyBytes(b)

\* truthiness of a value inside an expression.  A number is judged through its decimal text:
\* zero prints as "0"; IEEE -0 prints as "-0", which the table does not list - left open.
Truthy(v) ==
    CASE v.k = "bool" -> v.b
      [] v.k = "str"  -> TruthyBytes(v.b)
      [] v.k = "null" -> FALSE
      [] v.k = "fin"  -> v.m # 0
      [] v.k = "inf"  -> TRUE
      [] v.k = "nan"  -> TRUE
\* operand kinds the property lists for && || ?: (booleans, numbers, strings, null)
TruthDefined(v) == v.k \in {"bool", "str", "null", "fin", "inf", "nan"} /\ ~(v.k = "fin" /\ v.m = 0 /\ v.s = -1)

(* ============================== operators ================================ *)
ArithOps == {"*", "/", "+", "-"}
RelOps   == {"<", "<=", ">", ">="}
EqOps    == {"==", "!="}
LogicOps == {"&&", "||"}
CondOps  == {"?:", "??"}
Ops      == ArithOps \cup RelOps \cup EqOps \cup LogicOps \cup CondOps

\* precedence level as the properties give it (C): bigger binds tighter
Prec == [o \in Ops |->
           CASE o \in {"*", "/"} -> 7
             [] o \in {"+", "-"} -> 6
             [] o \in RelOps     -> 5
             [] o \in EqOps      -> 4
             [] o = "&&"         -> 3
             [] o = "||"         -> 2
             [] o \in CondOps    -> 1]

RelHolds(o, c) == CASE o = "<"  -> c = "lt"
                    [] o = "<=" -> c \in {"lt", "eq"}
                    [] o = ">"  -> c = "gt"
                    [] o = ">=" -> c \in {"gt", "eq"}

\* Result of  a <o> b.  Unj whenever the property texts do not say (operand kinds they do
\* not combine); Ood whenever a number left the exact domain.
Apply(o, a, b) ==
    IF a.k = "unj" \/ b.k = "unj" THEN Unj
    ELSE IF o \in ArithOps THEN
        IF ~IsNum(a) \/ ~IsNum(b) THEN Unj
        ELSE IF a.k = "ood" \/ b.k = "ood" THEN Ood
        ELSE CASE o = "*" -> MulV(a, b)
               [] o = "/" -> DivV(a, b)
               [] o = "+" -> AddV(a, b)
               [] o = "-" -> SubV(a, b)
    ELSE IF o \in RelOps THEN
        IF IsNum(a) /\ IsNum(b) THEN
             IF a.k = "ood" \/ b.k = "ood" THEN Ood
             ELSE LET c == CmpNum(a, b) IN IF c = "ood" THEN Ood ELSE Bool(RelHolds(o, c))
        ELSE IF a.k = "str" /\ b.k = "str" THEN Bool(RelHolds(o, CmpStr(a.b, b.b)))
        ELSE Unj
    ELSE IF o \in EqOps THEN
        LET r == IF IsNum(a) /\ IsNum(b) THEN
                      IF a.k = "ood" \/ b.k = "ood" THEN "ood" ELSE CmpNum(a, b)
                 ELSE IF a.k = "str" /\ b.k = "str" THEN CmpStr(a.b, b.b)
                 ELSE IF a.k = "bool" /\ b.k = "bool" THEN (IF a.b = b.b THEN "eq" ELSE "lt")
                 ELSE "unj"
        IN IF r = "unj" THEN Unj ELSE IF r = "ood" THEN Ood
           ELSE Bool((r = "eq") = (o = "=="))
    ELSE IF o = "&&" THEN
        IF ~TruthDefined(a) \/ ~TruthDefined(b) THEN Unj ELSE Bool(Truthy(a) /\ Truthy(b))
    ELSE IF o = "||" THEN
        IF ~TruthDefined(a) \/ ~TruthDefined(b) THEN Unj ELSE Bool(Truthy(a) \/ Truthy(b))
    \* (an undefined variable is spoken of only as the left operand of ??: an operator that
    \* would have to yield one has no defined result)
    ELSE IF o = "?:" THEN
        IF ~TruthDefined(a) THEN Unj ELSE IF Truthy(a) THEN a ELSE IF b.k = "missing" THEN Unj ELSE b
    ELSE \* "??"
        IF a.k \in {"null", "missing"} THEN (IF b.k = "missing" THEN Unj ELSE b) ELSE a

(* ================================ tokens ================================= *)
\* [t |-> "num", neg, d, k]  [t |-> "str", b]  [t |-> "bool", b]  [t |-> "null"]
\* [t |-> "var"] (a variable that does not exist)  [t |-> "op", o]  [t |-> "("]  [t |-> ")"]
ValueToks == {"num", "str", "bool", "null", "var"}
TokValue(tok) == CASE tok.t = "num"  -> LitNum(tok.neg, tok.d, tok.k)
                   [] tok.t = "str"  -> Str(tok.b)
                   [] tok.t = "bool" -> Bool(tok.b)
                   [] tok.t = "null" -> Null
                   [] tok.t = "var"  -> Missing

\* parenthesis depth in front of each token (and after the last one): explicit function
DepthVec(s) ==
    LET d[i \in 1..(Len(s) + 1)] ==
            IF i = 1 THEN 0
            ELSE d[i - 1] + (IF s[i - 1].t = "(" THEN 1 ELSE IF s[i - 1].t = ")" THEN -1 ELSE 0)
    IN [i \in 1..(Len(s) + 1) |-> d[i]]

\* well-formed: operand (operator operand)*, operand = literal or ( well-formed )
WellFormed(s) ==
    LET n == Len(s)
        d == DepthVec(s)
        WantOperand(i) == i = 1 \/ s[i - 1].t \in {"op", "("}
    IN /\ n >= 1
       /\ \A i \in 1..(n + 1) : d[i] >= 0
       /\ d[n + 1] = 0
       /\ \A i \in 1..n : IF WantOperand(i) THEN s[i].t \in ValueToks \cup {"("}
                                            ELSE s[i].t \in {"op", ")"}
       /\ s[n].t \in ValueToks \cup {")"}

(* ============================ declarative rule =========================== *)
\* Value of tokens lo..hi of s (a well-formed expression); d = DepthVec(s);
\* P: operator -> precedence level.
\* Root = the rightmost operator of the lowest level that is outside parentheses.
RECURSIVE EvalRng(_, _, _, _, _, _)
EvalRng(s, d, lo, hi, P, rightAssoc) ==
    IF lo = hi THEN TokValue(s[lo])
    ELSE LET top == {i \in lo..hi : s[i].t = "op" /\ d[i] = d[lo]} IN
         IF top = {} THEN EvalRng(s, d, lo + 1, hi - 1, P, rightAssoc)     \* ( ... )
         ELSE LET k == CHOOSE i \in top : \A j \in top :
                           \/ P[s[j].o] > P[s[i].o]
                           \/ (P[s[j].o] = P[s[i].o] /\ (IF rightAssoc THEN j >= i ELSE j <= i))
              IN Apply(s[k].o, EvalRng(s, d, lo, k - 1, P, rightAssoc),
                               EvalRng(s, d, k + 1, hi, P, rightAssoc))

Eval(s) == EvalRng(s, DepthVec(s), 1, Len(s), Prec, FALSE)
\* Two wrong readings, used to tell which inputs discriminate:
\* no precedence at all (pure left to right) ...
NoPrec == [o \in Ops |-> 0]
Flat(s) == EvalRng(s, DepthVec(s), 1, Len(s), NoPrec, FALSE)
\* ... and equal precedence associating to the right
EvalR(s) == EvalRng(s, DepthVec(s), 1, Len(s), Prec, TRUE)

\* C07 defines each of && || ?: ?? by itself and says nothing about how they rank against each
\* other or against the C06 operators: an expression is judged only if, inside every pair of
\* parentheses (and at the top), the operators are all C06 operators or all the same logical
\* operator (each of which is associative, so the grouping cannot matter).
OpClass(o) == IF o \in ArithOps \cup RelOps \cup EqOps THEN "c06" ELSE o
RECURSIVE UnmixedRng(_, _, _, _)
UnmixedRng(s, d, lo, hi) ==
    IF lo = hi THEN TRUE
    ELSE LET top == {i \in lo..hi : s[i].t = "op" /\ d[i] = d[lo]} IN
         IF top = {} THEN UnmixedRng(s, d, lo + 1, hi - 1)
         ELSE /\ Cardinality({OpClass(s[i].o) : i \in top}) = 1
              /\ LET k == CHOOSE i \in top : \A j \in top : j <= i IN
                 UnmixedRng(s, d, lo, k - 1) /\ UnmixedRng(s, d, k + 1, hi)
Unmixed(s) == UnmixedRng(s, DepthVec(s), 1, Len(s))

(* ========================= operational machine =========================== *)
\* lang/expressions/symbols: the numbers matter, executeExpression compares them
SymKey == [o \in Ops |->
             CASE o = "?:" -> 28 [] o = "??" -> 29 [] o = "||" -> 30 [] o = "&&" -> 31
               [] o = "==" -> 32 [] o = "!=" -> 33
               [] o = ">"  -> 38 [] o = ">=" -> 39 [] o = "<" -> 40 [] o = "<=" -> 41
               [] o = "+"  -> 44 [] o = "-"  -> 46 [] o = "*" -> 47 [] o = "/" -> 48]
ValKey == 19     \* Number/Boolean/QuoteSingle/Calculated ...: every data value is < Operations (20)
\* orderOfOperations: Multiply, Add, Merge, GreaterThan, EqualTo, LogicalAnd, LogicalOr, Elvis, Assign
Order == <<47, 44, 42, 38, 32, 31, 30, 28, 21>>

ValNode(v) == [key |-> ValKey, v |-> v]
OpNode(o)  == [key |-> SymKey[o], o |-> o]
ErrV == [k |-> "error"]      \* the machine failed on a well-formed expression

\* foldAst at (0-based) astPos p: nodes p-1, p, p+1 are replaced by the result
FoldAt(ast, p) ==
    IF p <= 0 \/ p >= Len(ast) - 1 THEN <<ValNode(ErrV)>>
    ELSE LET l == ast[p] r == ast[p + 2] op == ast[p + 1]
             new == ValNode(IF l.key # ValKey \/ r.key # ValKey THEN ErrV ELSE Apply(op.o, l.v, r.v))
         IN SubSeq(ast, 1, p - 1) \o <<new>> \o SubSeq(ast, p + 3, Len(ast))

\* one iteration of the loops in executeExpr/executeExpression; st = [ast, grp, pos, ev]
\* (ev: what the iteration did - "scan", "fold" or "group")
Finished(st) == st.grp > Len(Order)
StepSt(st) ==
    IF st.pos >= Len(st.ast) THEN [st EXCEPT !.grp = @ + 1, !.pos = 0, !.ev = "group"]        \* next group
    ELSE IF st.ast[st.pos + 1].key < Order[st.grp] THEN [st EXCEPT !.pos = @ + 1, !.ev = "scan"]   \* continue
    ELSE [st EXCEPT !.ast = FoldAt(st.ast, st.pos), !.pos = 1, !.ev = "fold"]   \* fold; astPos = 0; astPos++
\* iterations up to and including the next fold or change of group
RECURSIVE ToEvent(_)
SkipScan(n) == IF n.ev # "scan" THEN n ELSE ToEvent(n)
ToEvent(st) == SkipScan(StepSt(st))
RECURSIVE RunSt(_)
RunSt(st) == IF Finished(st) THEN st ELSE RunSt(ToEvent(st))
ResultOf(st) == IF Len(st.ast) = 1 /\ st.ast[1].key = ValKey THEN st.ast[1].v ELSE ErrV
ExecAst(ast) == ResultOf(RunSt([ast |-> ast, grp |-> 1, pos |-> 0, ev |-> "group"]))

\* parseExpression from token i: returns the node list and the index after the closing ")"
RECURSIVE ParseFrom(_, _)
ParseFrom(s, i) ==
    IF i > Len(s) THEN [ast |-> <<>>, next |-> i]
    ELSE IF s[i].t = ")" THEN [ast |-> <<>>, next |-> i + 1]
    ELSE IF s[i].t = "(" THEN
         LET br == ParseFrom(s, i + 1)                 \* branch parser ...
             v == ExecAst(br.ast)                      \* ... executed at once
             rest == ParseFrom(s, br.next)
         IN [ast |-> <<ValNode(v)>> \o rest.ast, next |-> rest.next]
    ELSE LET rest == ParseFrom(s, i + 1)
             n == IF s[i].t = "op" THEN OpNode(s[i].o) ELSE ValNode(TokValue(s[i]))
         IN [ast |-> <<n>> \o rest.ast, next |-> rest.next]

VARIABLES inp, st, done, result
vars == <<inp, st, done, result>>

\* grp = 0: the text has not been parsed yet
Init == /\ inp \in Inputs
        /\ st = [ast |-> <<>>, grp |-> 0, pos |-> 0, ev |-> "group"]
        /\ done = FALSE /\ result = Unj
Parse == /\ ~done /\ st.grp = 0
         /\ st' = [ast |-> ParseFrom(inp, 1).ast, grp |-> 1, pos |-> 0, ev |-> "group"]
         /\ UNCHANGED <<inp, done, result>>
Step == /\ ~done /\ st.grp > 0 /\ ~Finished(st)
        /\ st' = ToEvent(st)
        /\ UNCHANGED <<inp, done, result>>
Finish == /\ ~done /\ Finished(st)
          /\ done' = TRUE /\ result' = ResultOf(st)
          /\ UNCHANGED <<inp, st>>
Next == Parse \/ Step \/ Finish
Spec == Init /\ [][Next]_vars /\ WF_vars(Next)

InputsWellFormed == done => WellFormed(inp)
\* the fold machine computes what the precedence rule says
Agree == done => result = Eval(inp)
Terminates == <>done
=============================================================================
