----------------------------- MODULE StreamUse -----------------------------
(***************************************************************************)
(* How the interpreter uses the pipes it creates (the other side of         *)
(* Stream.tla, which specifies the pipe itself): every process that writes  *)
(* to a pipe registers as a dependent (Open) and deregisters exactly once   *)
(* (Close); a reader sees end-of-stream when the counter is 0 and the       *)
(* buffer is empty.  Checked on logs recorded from the real interpreter     *)
(* running whole programs (events are emitted by the pipe under its own     *)
(* mutex, lang-level code is not instrumented):                             *)
(*    open(o, n)   close(o, n)   w.append(o)     n = the counter afterwards *)
(*  - CounterExact : n is the previous value +1 / -1 (the log is faithful)  *)
(*  - NeverNegative: a pipe is never closed more often than it was opened   *)
(*                   (an early end-of-stream for a concurrent reader:       *)
(*                   output depends on the schedule, C03)                   *)
(*  - NoLateWrite  : nothing is appended to a pipe after its last writer    *)
(*                   deregistered (bytes a reader may never see, C01)       *)
(*  - Balanced     : at the end of the log (session quiet) every pipe that  *)
(*                   was opened has counter 0 (otherwise its reader waits   *)
(*                   for ever: "always finishes", C03)                      *)
(***************************************************************************)
EXTENDS Integers, Sequences, FiniteSets, TLC, Json

Log == ndJsonDeserialize("trace.ndjson")

VARIABLES l,
          deps,     \* pipe -> counter, for the pipes whose counter is not 0
          opened,   \* pipes that have been opened at least once
          bad
tvars == <<l, deps, opened, bad>>
E == Log[l]
Known(o) == o \in opened
Cur(o) == IF o \in DOMAIN deps THEN deps[o] ELSE 0
Set(o, n) == /\ deps' = IF n = 0 THEN [x \in DOMAIN deps \ {o} |-> deps[x]] ELSE (o :> n) @@ deps
             /\ opened' = opened \cup {o}

Init == TLCSet(1, 1) /\ TLCSet(2, <<>>) /\ l = 1 /\ deps = <<>> /\ opened = {} /\ bad = <<>>

Flag(why) == bad' = Append(bad, [line |-> l, why |-> why, o |-> E.o, n |-> E.n])
Open == /\ l <= Len(Log) /\ E.ev = "open"
        /\ Set(E.o, E.n)
        /\ IF E.n # Cur(E.o) + 1 THEN Flag("counter") ELSE UNCHANGED bad
        /\ l' = l + 1
Close == /\ l <= Len(Log) /\ E.ev = "close"
         /\ Set(E.o, E.n)
         /\ IF E.n # Cur(E.o) - 1 THEN Flag("counter")
            ELSE IF E.n < 0 THEN Flag("closed more often than opened") ELSE UNCHANGED bad
         /\ l' = l + 1
Append1 == /\ l <= Len(Log) /\ E.ev = "w.append"
           /\ IF Known(E.o) /\ Cur(E.o) <= 0 THEN Flag("write after the last writer closed") ELSE UNCHANGED bad
           /\ l' = l + 1 /\ UNCHANGED <<deps, opened>>
Other == /\ l <= Len(Log) /\ E.ev \notin {"open", "close", "w.append"}
         /\ l' = l + 1 /\ UNCHANGED <<deps, opened, bad>>
Next == Open \/ Close \/ Append1 \/ Other
Spec == Init /\ [][Next]_tvars

Unbalanced == DOMAIN deps
HWM == /\ TLCSet(1, IF TLCGet(1) < l THEN l ELSE TLCGet(1))
       /\ (l = Len(Log) + 1 => TLCSet(2, <<bad, Unbalanced>>))
Accepted == /\ (IF TLCGet(1) = Len(Log) + 1 THEN TRUE ELSE PrintT(<<"REJECTED_AT", TLCGet(1)>>) /\ FALSE)
            /\ (IF TLCGet(2) = <<<<>>, {}>> THEN TRUE ELSE PrintT(<<"BAD", TLCGet(2)>>) /\ FALSE)
=============================================================================
