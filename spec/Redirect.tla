------------------------------ MODULE Redirect ------------------------------
(***************************************************************************)
(* C33: where the bytes a command writes end up, given its redirection     *)
(* tokens and its position (lang/redirection.go, createProcess).           *)
(* A command writes O to its stdout and E to its stderr.  Sinks:           *)
(*   "bout"/"berr" - stdout/stderr of the enclosing block,                 *)
(*   "next"        - stdin of the command it is piped into,                *)
(*   "drop"        - discarded,  "file" - the file of |> / >>.             *)
(***************************************************************************)
EXTENDS Integers, Sequences, FiniteSets, TLC, Json, SequencesExt

OutTokens == {"", "<err>", "<null>"}
ErrTokens == {"", "<!out>", "<!null>"}
Positions == {"last", "piped"}          \* last command of its pipeline / piped into a consumer
Contexts  == {"top", "function"}        \* written at top level / inside a function body

\* where the command's stdout would go without any token
NormalOut(pos) == IF pos = "piped" THEN "next" ELSE "bout"

OutSink(ot, pos) == CASE ot = ""       -> NormalOut(pos)
                      [] ot = "<err>"  -> "berr"
                      [] ot = "<null>" -> "drop"
\* <!out> sends stderr to where stdout (normally) goes
ErrSink(et, pos) == CASE et = ""        -> "berr"
                      [] et = "<!out>"  -> NormalOut(pos)
                      [] et = "<!null>" -> "drop"

Route(ot, et, pos) ==
    LET os == OutSink(ot, pos) es == ErrSink(et, pos)
        At(s) == (IF os = s THEN {"O"} ELSE {}) \cup (IF es = s THEN {"E"} ELSE {})
    IN [bout |-> At("bout"), berr |-> At("berr"), next |-> At("next")]

\* nothing is duplicated and nothing appears that was not written
Conserved(ot, et, pos) ==
    LET r == Route(ot, et, pos) IN
    /\ r.bout \cap r.berr = {} /\ r.bout \cap r.next = {} /\ r.berr \cap r.next = {}
    /\ (ot = "" /\ et = "") => (r = [bout |-> IF pos = "last" THEN {"O"} ELSE {}, berr |-> {"E"},
                                     next |-> IF pos = "piped" THEN {"O"} ELSE {}])
ASSUME \A ot \in OutTokens, et \in ErrTokens, pos \in Positions : Conserved(ot, et, pos)

\* file sinks: `|> f` leaves exactly the piped bytes, `>> f` appends them
FileOps == {"|>", ">>"}
FileAfter(op, before, bytes) == IF op = "|>" THEN bytes ELSE before \o bytes

Cases == {[kind |-> "route", ot |-> ot, et |-> et, pos |-> pos, ctx |-> c, want |-> Route(ot, et, pos)] :
              ot \in OutTokens, et \in ErrTokens, pos \in Positions, c \in Contexts}
\* the flags that make the builtin buffer its input before writing do not change what the file must hold
FileFlags == {"", "-w", "--wait-for-eof", "-i"}
FileCases == {[kind |-> "file", op |-> op, flag |-> f, before |-> b, bytes |-> x, after |-> FileAfter(op, b, x), ops |-> n] :
              op \in FileOps, f \in FileFlags, b \in {<<>>, <<"p">>}, x \in {<<"q">>, <<"q", "r">>, <<>>}, n \in {1}}
\* a pipeline that reads the file it writes: `open f -> filter |> f` (the builtin then caches its input by itself)
SelfCases == {[kind |-> "self", op |-> op, before |-> b, keep |-> k,
               after |-> FileAfter(op, b, SelectSeq(b, LAMBDA l : l \in k))] :
              op \in FileOps, b \in {<<"p", "q">>}, k \in {{}, {"p"}, {"p", "q"}}}
\* two file operations in a row on the same file
File2 == {[kind |-> "file2", op1 |-> a, op2 |-> b, x1 |-> <<"q">>, x2 |-> <<"r">>,
           after |-> FileAfter(b, FileAfter(a, <<"p">>, <<"q">>), <<"r">>)] : a \in FileOps, b \in FileOps}
ASSUME ndJsonSerialize("cases.ndjson", SetToSeq(Cases) \o SetToSeq(FileCases) \o SetToSeq(SelfCases) \o SetToSeq(File2))
=============================================================================
