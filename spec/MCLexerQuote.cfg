SPECIFICATION Spec
CONSTANTS
  Family = "quote"
  Plans <- QuotePlansQ
  Encs <- EncsQuote
  Inputs <- InputsPlus
INVARIANT Agree
CHECK_DEADLOCK FALSE
