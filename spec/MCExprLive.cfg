SPECIFICATION Spec
CONSTANTS
  Inputs <- GenInputs
  Family = "arith"
  Lits3 = {3, 4}
  Lits4 = {}
  StrN = 2
  WordsF = 0
  WordsT = 0
  Small3 = FALSE
  Ops1 = {"*", "/", "+", "-", "<", "<=", ">", ">=", "==", "!="}
  Base = TRUE
INVARIANTS Agree InputsWellFormed
PROPERTY Terminates
CHECK_DEADLOCK FALSE
