SPECIFICATION FairSpec
CONSTANTS
  Tokens = {"a", "b"}
  MaxSrc = 2
  MaxStages = 2
  Kinds = {"mapx", "fn", "dup", "tac", "errtee"}
  Cap = 1
INVARIANTS Deterministic NoDeadlock OutputIsPrefix
PROPERTIES Terminates
CHECK_DEADLOCK FALSE
