SPECIFICATION Spec
CONSTANTS
  MaxProcs = 5
  MaxOps = 5
VIEW view
INVARIANTS RunningListedOnce LookupRunning ReuseRule NoResurrection TextLookup TextLookupFinds
PROPERTIES IdStable
CHECK_DEADLOCK FALSE
