SPECIFICATION Spec
CONSTANTS
  MaxProcs = 5
  MaxOps = 4

INVARIANTS RunningListedOnce LookupRunning ReuseRule NoResurrection
PROPERTIES IdStable
CHECK_DEADLOCK FALSE
