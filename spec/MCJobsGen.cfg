SPECIFICATION Spec
CONSTANTS
  MaxProcs = 5
  MaxOps = 4

INVARIANTS RunningListedOnce LookupRunning ReuseRule NoResurrection TextLookup TextLookupFinds
PROPERTIES IdStable
CHECK_DEADLOCK FALSE
