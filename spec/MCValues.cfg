SPECIFICATION Spec
CONSTANTS
  ShapeIds = {1, 2, 3, 4, 5}
  ScalarIds = {"i7", "s8", "w1", "bt"}
  PathClasses = {"leaf", "newkey", "container", "inconv", "unspec", "range", "kind", "thru", "deepnew"}
  MaxOps = 1
INVARIANTS Agree AlterPrecise Enumerated
PROPERTIES NoAlias
CHECK_DEADLOCK FALSE
