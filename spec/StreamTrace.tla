---------------------------- MODULE StreamTrace ----------------------------
(***************************************************************************)
(* Validates traces recorded from the real streams.Stdin (hooks emit       *)
(* inside each lock region) against the actions of Stream.tla.  Many       *)
(* traces are concatenated; each starts with a "reset" event.              *)
(***************************************************************************)
EXTENDS Stream, Json, TLCExt

TraceLog == ndJsonDeserialize("trace.ndjson")

VARIABLES l,        \* next trace line to consume
          res,      \* actor id -> result record of its last completed operation
          fcPend,   \* ForceClose has been called but its effect not yet placed
          stale     \* actor id -> it has logged nothing since the cancellation took effect
                    \* or the data type was set: what it reads without the lock (the context
                    \* test before a lock region; the type in GetDataType's cancelled branch)
                    \* may predate that change

tvars == <<vars, l, res, fcPend, stale>>

E == TraceLog[l]
IsEv0(e) == l <= Len(TraceLog) /\ E.ev = e /\ l' = l + 1
IsEv(e) == IsEv0(e) /\ stale' = [stale EXCEPT ![E.id] = FALSE]
\* the actor observed "not cancelled": either true now, or its test predates the cancellation
NotCancelled(id) == ~cancelled \/ stale[id]
NoRes == [k |-> "none"]
Keep == UNCHANGED <<res, fcPend>>
\* record the result of an operation that returned in this step
Rec(id) == /\ res' = [res EXCEPT ![id] = ret']
           /\ UNCHANGED fcPend
Ids == Writers \cup Readers \cup Typers \cup Getters \cup {0, 9}

TInit == TLCSet(1, 1) /\ Init /\ l = 1 /\ res = [i \in Ids |-> NoRes] /\ fcPend = FALSE
         /\ stale = [i \in Ids |-> FALSE]

TReset == /\ IsEv("reset")
          /\ Reset
          /\ res' = [i \in Ids |-> NoRes] /\ fcPend' = FALSE

Skip == UNCHANGED vars

TCallOpen  == IsEv("call.open") /\ Skip /\ Keep
TOpen      == IsEv("open") /\ Open(E.id) /\ deps' = E.a /\ Keep
TCallClose == IsEv("call.close") /\ Skip /\ Keep
TClose     == IsEv("close") /\ Close(E.id) /\ deps' = E.a /\ Keep

TCallFc    == IsEv("call.fc") /\ Skip /\ fcPend' = TRUE /\ UNCHANGED res
\* the cancellation takes effect somewhere between call.fc and the "fc" event
TFcSilent  == /\ fcPend /\ ~cancelled /\ l <= Len(TraceLog) /\ ForceClose /\ UNCHANGED <<l, res, fcPend>>
              /\ stale' = [i \in Ids |-> TRUE]
TFc        == IsEv("fc") /\ cancelled /\ Skip /\ fcPend' = FALSE /\ UNCHANGED res

TCallWrite == /\ IsEv("call.write") /\ WBegin(E.id, E.a) /\ ret'.data = E.data
              /\ Rec(E.id)
TWCheck    == IsEv("w.check") /\ NotCancelled(E.id) /\ Len(buf) = E.a /\ max = E.b /\ WCheckO(E.id, FALSE) /\ Keep
TWCancel   == IsEv("w.cancel") /\ cancelled /\ WCheckO(E.id, TRUE) /\ Rec(E.id)
TWAppend   == /\ IsEv("w.append") /\ WAppend(E.id)
              /\ Len(wpay[E.id]) = E.a /\ bW' = E.b /\ Len(buf') = E.c
              /\ Rec(E.id)
TRetWrite  == /\ IsEv("ret.write") /\ Skip /\ Keep
              /\ res[E.id].k = "write" /\ res[E.id].n = E.a /\ res[E.id].err = (E.b = 1)

TCallRead  == IsEv("call.read") /\ RBegin(E.id, E.a) /\ Keep
TRCheck    == /\ IsEv("r.check") /\ NotCancelled(E.id) /\ Len(buf) = E.a /\ deps = E.b /\ RCheckO(E.id, FALSE)
              /\ IF ret'.k = "none" THEN Keep ELSE Rec(E.id)
TRCancel   == IsEv("r.cancel") /\ cancelled /\ RCheckO(E.id, TRUE) /\ Rec(E.id)
TRTake     == /\ IsEv("r.take") /\ RTake(E.id)
              /\ Len(ret'.data) = E.a /\ bR' = E.b /\ Len(buf') = E.c
              /\ Rec(E.id)
TRetRead   == /\ IsEv("ret.read") /\ Skip /\ Keep
              /\ res[E.id].k = "read" /\ res[E.id].data = E.data /\ res[E.id].eof = (E.b = 1)

TCallReadAll == IsEv("call.readall") /\ RBegin(E.id, 0) /\ Keep
TMax0      == IsEv("max0") /\ RAStart(E.id) /\ Keep
TRAWait    == IsEv("ra.wait") /\ NotCancelled(E.id) /\ deps = E.a /\ RAWaitO(E.id, FALSE) /\ Keep
TRACancel  == IsEv("ra.cancel") /\ cancelled /\ RAWaitO(E.id, TRUE) /\ Keep
TRATake    == /\ IsEv("ra.take") /\ Len(buf) = E.a /\ RATake(E.id) /\ bR' = E.b
              /\ Rec(E.id)
TRetReadAll == /\ IsEv("ret.readall") /\ Skip /\ Keep
               /\ res[E.id].k = "readall" /\ res[E.id].data = E.data

TCallSdt   == /\ IsEv("call.sdt") /\ TBegin(E.id, E.s) /\ Keep
TSdt       == /\ IsEv0("sdt") /\ TSet(E.id) /\ dtype' = E.s /\ Keep
              /\ stale' = IF dtype' # dtype THEN [i \in Ids |-> i # E.id]
                                            ELSE [stale EXCEPT ![E.id] = FALSE]
TRetSdt    == IsEv("ret.sdt") /\ Skip /\ Keep /\ tpc[E.id] = "done"
TCallGdt   == IsEv("call.gdt") /\ GBegin(E.id) /\ Keep
TGdt       == /\ IsEv("gdt") /\ NotCancelled(E.id) /\ dtype = E.s /\ deps = E.a /\ GPollO(E.id, FALSE, dtype)
              /\ IF ret'.k = "none" THEN Keep ELSE Rec(E.id)
\* the cancelled branch reads the type under the pipe's mutex and logs it there: it sees exactly the current type
\* (before fix a6796cf it read without the lock and this rule had to admit stale values)
TGdtCancel == /\ IsEv("gdt.cancel") /\ cancelled
              /\ E.s = dtype
              /\ GPollO(E.id, TRUE, E.s) /\ Rec(E.id)
TRetGdt    == IsEv("ret.gdt") /\ Skip /\ Keep /\ res[E.id].k = "gdt" /\ res[E.id].t = E.s
\* the driver's watchdog fired: nobody made progress for 10 s (judged by the check, not here)
THung      == IsEv("hung") /\ Skip /\ Keep
TStats     == IsEv("stats") /\ Skip /\ Keep /\ bW = E.a /\ bR = E.b

TNext ==
    \/ TReset \/ TCallOpen \/ TOpen \/ TCallClose \/ TClose \/ TCallFc \/ TFcSilent \/ TFc
    \/ TCallWrite \/ TWCheck \/ TWCancel \/ TWAppend \/ TRetWrite
    \/ TCallRead \/ TRCheck \/ TRCancel \/ TRTake \/ TRetRead
    \/ TCallReadAll \/ TMax0 \/ TRAWait \/ TRACancel \/ TRATake \/ TRetReadAll
    \/ TCallSdt \/ TSdt \/ TRetSdt \/ TCallGdt \/ TGdt \/ TGdtCancel \/ TRetGdt \/ TStats \/ THung

TSpec == TInit /\ [][TNext]_tvars

\* high-water mark of consumed lines (register 1), -workers 1
HWM == TLCSet(1, IF TLCGet(1) < l THEN l ELSE TLCGet(1))
TConstraint == HWM
TAccepted == IF TLCGet(1) = Len(TraceLog) + 1 THEN TRUE
             ELSE PrintT(<<"REJECTED_AT", TLCGet(1)>>) /\ FALSE
=============================================================================
