------------------------------ MODULE UnitTest ------------------------------
(***************************************************************************)
(* C31 - `test unit function` passes a unit test only if every assertion   *)
(* of the plan holds.   lang/test_units.go runTest, lang/test_compare.go   *)
(*                                                                         *)
(* A case is a function with a fixed observable outcome (stdout text and   *)
(* data type, stderr text and data type, exit number) and a test plan.     *)
(* Two descriptions are given and TLC checks that they agree:              *)
(*  - Verdict: the rule of the property - the exit number equals the       *)
(*    plan's and every assertion present in the plan holds;                *)
(*  - the operational machine: runTest transcribed, one action per check,  *)
(*    in the order of the code, with its `passed` flag.                    *)
(* Texts are literal strings; what the checks compute on them (regular     *)
(* expression matches, is-array, is-map, length) is tabulated below and    *)
(* verified by the check driver against the literal texts.                 *)
(***************************************************************************)
EXTENDS Integers, Sequences, FiniteSets, TLC

CONSTANTS Inputs      \* the cases to explore: a set of [fn, plan]

(* ------------------------- the functions under test ------------------------ *)
Hello == "hello\n"
JArr == "[\"a\",\"b\",\"c\"]"
JMap == "{\"k\":1,\"m\":2}"
JArr2 == "[1,2]"
JMap1 == "{\"k\":1}"
Oops == "oops\n"
Warn == "warn: x\n"
Funcs == 1..6
\* ("*" = murex's generic type: what a stream reports that nobody gave a type - `err` output, an empty stream)
Act(f) ==
    CASE f = 1 -> [stdout |-> Hello, otype |-> "str",  stderr |-> "",    etype |-> "*",    exit |-> 0]
      [] f = 2 -> [stdout |-> JArr,  otype |-> "json", stderr |-> "",    etype |-> "*",    exit |-> 0]
      [] f = 3 -> [stdout |-> JMap,  otype |-> "json", stderr |-> "",    etype |-> "*",    exit |-> 0]
      [] f = 4 -> [stdout |-> Hello, otype |-> "str",  stderr |-> Oops,  etype |-> "*",    exit |-> 3]
      [] f = 5 -> [stdout |-> "",    otype |-> "*",    stderr |-> Warn,  etype |-> "*",    exit |-> 1]
      [] f = 6 -> [stdout |-> "",    otype |-> "*",    stderr |-> JMap1, etype |-> "json", exit |-> 0]

(* --------------------------- tabulated text facts --------------------------- *)
RxHello == "^hel+o\n$"
RxB == "b"
RxOo == "oo"
RxX == "rn: x"
RxK == "k"
Regexes == {RxHello, RxB, RxOo, RxX, RxK}
AllTexts == {"", Hello, JArr, JMap, JArr2, JMap1, Oops, Warn}
\* the pairs <<regex, text>> where the regex finds a match in the text
RxTrue == {<<RxHello, Hello>>, <<RxB, JArr>>, <<RxOo, Oops>>, <<RxX, Warn>>, <<RxK, JMap>>, <<RxK, JMap1>>}
RxMatch(rx, t) == <<rx, t>> \in RxTrue
JsonArrays == {JArr, JArr2}
JsonMaps == {JMap, JMap1}
JsonLen(t) == CASE t = JArr -> 3 [] t = JMap -> 2 [] t = JArr2 -> 2 [] t = JMap1 -> 1 [] OTHER -> 0

(* ---------------------------------- plans ---------------------------------- *)
\* "" / FALSE / 0 = the assertion is not in the plan (ExitNum is always asserted, default 0)
PlanFields == {"StdoutMatch", "StdoutRegex", "StdoutType", "StdoutIsArray", "StdoutIsMap", "StdoutGreaterThan",
               "StderrMatch", "StderrRegex", "StderrType", "StderrIsArray", "StderrIsMap", "ExitNum"}
PlanOK(p) ==
    /\ DOMAIN p = PlanFields
    /\ p.StdoutMatch \in AllTexts \cup {"nope"} /\ p.StderrMatch \in AllTexts \cup {"nope"}
    /\ p.StdoutRegex \in Regexes \cup {""} /\ p.StderrRegex \in Regexes \cup {""}
    /\ p.StdoutType \in {"", "str", "json"} /\ p.StderrType \in {"", "str", "json"}
    /\ p.StdoutIsArray \in BOOLEAN /\ p.StdoutIsMap \in BOOLEAN /\ p.StderrIsArray \in BOOLEAN /\ p.StderrIsMap \in BOOLEAN
    /\ p.StdoutGreaterThan \in 0..5 /\ p.ExitNum \in 0..5
ASSUME \A c \in Inputs : c.fn \in Funcs /\ PlanOK(c.plan)

(* ------------------------------ declarative rule ---------------------------- *)
IsArray(t, ty) == ty = "json" /\ t \in JsonArrays
IsMap(t, ty) == ty = "json" /\ t \in JsonMaps
LenGE(t, ty, n) == ty = "json" /\ t \in JsonArrays \cup JsonMaps /\ JsonLen(t) >= n

\* every assertion of the plan, with whether it holds for the outcome a
Assertions(p, a) ==
    {<<"ExitNum", a.exit = p.ExitNum>>}
    \cup (IF p.StdoutMatch # "" THEN {<<"StdoutMatch", a.stdout = p.StdoutMatch>>} ELSE {})
    \cup (IF p.StdoutRegex # "" THEN {<<"StdoutRegex", RxMatch(p.StdoutRegex, a.stdout)>>} ELSE {})
    \cup (IF p.StdoutType # "" THEN {<<"StdoutType", a.otype = p.StdoutType>>} ELSE {})
    \cup (IF p.StdoutIsArray THEN {<<"StdoutIsArray", IsArray(a.stdout, a.otype)>>} ELSE {})
    \cup (IF p.StdoutIsMap THEN {<<"StdoutIsMap", IsMap(a.stdout, a.otype)>>} ELSE {})
    \cup (IF p.StdoutGreaterThan > 0 THEN {<<"StdoutGreaterThan", LenGE(a.stdout, a.otype, p.StdoutGreaterThan)>>} ELSE {})
    \cup (IF p.StderrMatch # "" THEN {<<"StderrMatch", a.stderr = p.StderrMatch>>} ELSE {})
    \cup (IF p.StderrRegex # "" THEN {<<"StderrRegex", RxMatch(p.StderrRegex, a.stderr)>>} ELSE {})
    \cup (IF p.StderrType # "" THEN {<<"StderrType", a.etype = p.StderrType>>} ELSE {})
    \cup (IF p.StderrIsArray THEN {<<"StderrIsArray", IsArray(a.stderr, a.etype)>>} ELSE {})
    \cup (IF p.StderrIsMap THEN {<<"StderrIsMap", IsMap(a.stderr, a.etype)>>} ELSE {})
Verdict(p, a) == \A x \in Assertions(p, a) : x[2]
Failing(p, a) == {x[1] : x \in {y \in Assertions(p, a) : ~y[2]}}

\* Cases on which the property text is unambiguous (the others are still executed):
Judged(p, a) ==
    \* a plan without any stderr assertion run on a function that writes to stderr: the property does not say
    \* whether unexpected stderr output fails the test
    /\ ~(p.StderrMatch = "" /\ p.StderrRegex = "" /\ a.stderr # "")
    \* array / map / length of a stream that is not structured data (murex reads a `str` stream as a list of lines)
    /\ (p.StdoutIsArray \/ p.StdoutIsMap \/ p.StdoutGreaterThan > 0) => a.otype = "json"
    /\ (p.StderrIsArray \/ p.StderrIsMap) => a.etype = "json"
    \* the data type of a stream that nobody gave a type
    /\ (p.StdoutType # "" => a.otype # "*") /\ (p.StderrType # "" => a.etype # "*")

(* ----------------------------- operational machine -------------------------- *)
VARIABLES case, pc, passed
vars == <<case, pc, passed>>
Steps == <<"ExitNum", "StdoutIsArray", "StdoutIsMap", "StdoutGreaterThan", "StdoutMatch", "StdoutRegex", "StdoutType",
           "StderrIsArray", "StderrIsMap", "StderrMatch", "StderrRegex", "StderrType">>

Init == case \in Inputs /\ pc = 1 /\ passed = TRUE

\* the effect of one check of runTest on the flag `passed` (murex's own view of a `str` stream as lines is not modelled:
\* those cases are not judged)
Check(step, p, a, ok) ==
    CASE step = "ExitNum"           -> IF a.exit = p.ExitNum THEN ok ELSE FALSE
      [] step = "StdoutIsArray"     -> IF p.StdoutIsArray /\ ~IsArray(a.stdout, a.otype) THEN FALSE ELSE ok
      [] step = "StdoutIsMap"       -> IF p.StdoutIsMap /\ ~IsMap(a.stdout, a.otype) THEN FALSE ELSE ok
      [] step = "StdoutGreaterThan" -> IF p.StdoutGreaterThan > 0 /\ ~LenGE(a.stdout, a.otype, p.StdoutGreaterThan) THEN FALSE ELSE ok
      [] step = "StdoutMatch"       -> IF p.StdoutMatch # "" /\ a.stdout # p.StdoutMatch THEN FALSE ELSE ok
      [] step = "StdoutRegex"       -> IF p.StdoutRegex # "" /\ ~RxMatch(p.StdoutRegex, a.stdout) THEN FALSE ELSE ok
      [] step = "StdoutType"        -> IF p.StdoutType # "" /\ a.otype # p.StdoutType THEN FALSE ELSE ok
      [] step = "StderrIsArray"     -> IF p.StderrIsArray /\ ~IsArray(a.stderr, a.etype) THEN FALSE ELSE ok
      [] step = "StderrIsMap"       -> IF p.StderrIsMap /\ ~IsMap(a.stderr, a.etype) THEN FALSE ELSE ok
      \* `if string(stderr) == plan.StderrMatch {..} else if plan.StderrMatch != "" || plan.StderrRegex == "" { passed = false }`
      [] step = "StderrMatch"       -> IF a.stderr = p.StderrMatch THEN ok
                                       ELSE IF p.StderrMatch # "" \/ p.StderrRegex = "" THEN FALSE ELSE ok
      [] step = "StderrRegex"       -> IF p.StderrRegex # "" /\ ~RxMatch(p.StderrRegex, a.stderr) THEN FALSE ELSE ok
      [] step = "StderrType"        -> IF p.StderrType # "" /\ a.etype # p.StderrType THEN FALSE ELSE ok

Next == /\ pc <= Len(Steps)
        /\ passed' = Check(Steps[pc], case.plan, Act(case.fn), passed)
        /\ pc' = pc + 1 /\ UNCHANGED case
Spec == Init /\ [][Next]_vars

Done == pc = Len(Steps) + 1
\* the framework reports "passed" exactly when the rule says so (where the rule is unambiguous)
Agree == (Done /\ Judged(case.plan, Act(case.fn))) => (passed = Verdict(case.plan, Act(case.fn)))
\* once an assertion has failed the test cannot pass any more
Sticky == [][~passed => ~passed']_vars
=============================================================================
