SPECIFICATION Spec
CONSTANTS
  Names = {}
  Opts = {"G", "L"}
  GlobalOpts = {"G"}
  MaxLen = 4
  MaxDepth = 3
  Family = "cfg"
  TopLevel = "session"
INVARIANT Agree
PROPERTIES WriteIsLocal ReturnRestores
POSTCONDITION Emit
CHECK_DEADLOCK FALSE
