SPECIFICATION Spec
CONSTANTS
  Inputs <- GenInputs
  Family = "arith"
  Lits3 = {1, 2, 3, 4, 5, 6, 7}
  Lits4 = {4, 5}
  StrN = 8
  WordsF = 0
  WordsT = 0
  Small3 = FALSE
  Ops1 = {"*", "/", "+", "-", "<", "<=", ">", ">=", "==", "!="}
  Base = TRUE
INVARIANTS Agree
CHECK_DEADLOCK FALSE
