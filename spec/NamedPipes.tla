----------------------------- MODULE NamedPipes -----------------------------
(***************************************************************************)
(* The named-pipe registry (lang/pipes.Named) at the grain of its lock     *)
(* regions, with the asynchronous close: Close only checks and starts a    *)
(* timer goroutine; ~2 s later the timer takes the lock, closes whatever    *)
(* pipe is registered under the name at that time and removes the name.     *)
(*                                                                         *)
(*   Create(c,n)   one lock region        CreatePipe                       *)
(*   Close(c,n)    one lock region + timer start   Close                   *)
(*   TimerFire(t)  one lock region        closePipe (after the sleep)      *)
(*   Delete(c,n)   one lock region        Delete                           *)
(*   GetTry(c)     one lock region per try, 100 ms apart, 6 tries   Get    *)
(*   Dump(c)       one lock region        Dump                             *)
(*                                                                         *)
(* C26: no operation sequence/interleaving crashes; live names are unique; *)
(* operations on a missing pipe return an error; a closed pipe disappears  *)
(* after its grace period.                                                 *)
(***************************************************************************)
EXTENDS Integers, Sequences, FiniteSets, TLC

CONSTANTS
    Names,        \* pipe names clients may use (strings)
    Clients,      \* client ids
    MaxOps,       \* operations per client
    MaxPipes,     \* bound on pipes ever created
    MaxTimers,    \* bound on timers ever started
    GetTries,     \* number of looks Get takes before giving up (6 in the code)
    OpKinds       \* subset of {"create","close","delete","get","dump"}

Absent == 0
Idle == [op |-> "idle", name |-> "", tries |-> 0]

VARIABLES
    reg,        \* name -> pipe id registered under it, or Absent
    nextPipe,   \* ids handed out so far
    sdeps,      \* pipe id -> dependents of the underlying stream (1 after create; timer's Close -1)
    timers,     \* timer id -> [name, state] state in {"sleeping","fired"}
    nextTimer,
    pc,         \* client -> "idle" or [op |-> "get", name, tries]
    nops,       \* client -> operations started
    crashed,    \* a nil pipe was dereferenced (would kill the shell)
    closedBy,   \* timer id -> pipe id it closed (0 = found nothing)  [ghost]
    ret         \* last action and its observable result (replay only)

vars == <<reg, nextPipe, sdeps, timers, nextTimer, pc, nops, crashed, closedBy, ret>>
view == <<reg, nextPipe, sdeps, timers, nextTimer, pc, nops, crashed, closedBy>>

A(a, c, r) == [act |-> a, id |-> c] @@ r
Live == {n \in Names : reg[n] # Absent}
DumpSet == Live            \* "null" is always present in the code as well; the harness removes it

Init ==
    /\ reg = [n \in Names |-> Absent]
    /\ nextPipe = 0
    /\ sdeps = <<>>
    /\ timers = <<>>
    /\ nextTimer = 0
    /\ pc = [c \in Clients |-> Idle]
    /\ nops = [c \in Clients |-> 0]
    /\ crashed = FALSE
    /\ closedBy = <<>>
    /\ ret = A("Init", 0, [k |-> "none"])

CanStart(c, kind) == pc[c].op = "idle" /\ nops[c] < MaxOps /\ kind \in OpKinds /\ ~crashed
Started(c) == nops' = [nops EXCEPT ![c] = @ + 1]

Create(c, n) ==
    /\ CanStart(c, "create")
    /\ Started(c)
    /\ IF reg[n] # Absent
         THEN /\ ret' = A("Create", c, [k |-> "err", name |-> n, live |-> Live])
              /\ UNCHANGED <<reg, nextPipe, sdeps>>
         ELSE /\ nextPipe < MaxPipes
              /\ nextPipe' = nextPipe + 1
              /\ reg' = [reg EXCEPT ![n] = nextPipe + 1]
              /\ sdeps' = Append(sdeps, 1)
              /\ ret' = A("Create", c, [k |-> "ok", name |-> n, live |-> Live \cup {n}])
    /\ UNCHANGED <<timers, nextTimer, pc, crashed, closedBy>>

\* Close checks under the lock and, on success, starts the timer; the registry is unchanged.
Close(c, n) ==
    /\ CanStart(c, "close")
    /\ Started(c)
    /\ IF reg[n] = Absent
         THEN /\ ret' = A("Close", c, [k |-> "err", name |-> n, live |-> Live])
              /\ UNCHANGED <<timers, nextTimer, closedBy>>
         ELSE /\ nextTimer < MaxTimers
              /\ nextTimer' = nextTimer + 1
              /\ timers' = Append(timers, [name |-> n, st |-> "sleeping"])
              /\ closedBy' = Append(closedBy, 0)
              /\ ret' = A("Close", c, [k |-> "ok", name |-> n, live |-> Live, timer |-> nextTimer + 1])
    /\ UNCHANGED <<reg, nextPipe, sdeps, pc, crashed>>

\* The timer acts on whatever is registered under the name *now*.
TimerFire(t) ==
    /\ t \in DOMAIN timers /\ timers[t].st = "sleeping" /\ ~crashed
    /\ LET n == timers[t].name IN
         IF reg[n] = Absent
           THEN /\ UNCHANGED <<reg, sdeps, closedBy, crashed>>      \* nothing left to close
                /\ ret' = A("TimerFire", t, [k |-> "noop", name |-> n, live |-> Live])
           ELSE /\ sdeps' = [sdeps EXCEPT ![reg[n]] = @ - 1]
                /\ reg' = [reg EXCEPT ![n] = Absent]
                /\ closedBy' = [closedBy EXCEPT ![t] = reg[n]]
                /\ UNCHANGED crashed
                /\ ret' = A("TimerFire", t, [k |-> "closed", name |-> n, live |-> Live \ {n}])
    /\ timers' = [timers EXCEPT ![t].st = "fired"]
    /\ UNCHANGED <<nextPipe, nextTimer, pc, nops>>

Delete(c, n) ==
    /\ CanStart(c, "delete")
    /\ Started(c)
    /\ IF reg[n] = Absent
         THEN /\ ret' = A("Delete", c, [k |-> "err", name |-> n, live |-> Live])
              /\ UNCHANGED reg
         ELSE /\ reg' = [reg EXCEPT ![n] = Absent]
              /\ ret' = A("Delete", c, [k |-> "ok", name |-> n, live |-> Live \ {n}])
    /\ UNCHANGED <<nextPipe, sdeps, timers, nextTimer, pc, crashed, closedBy>>

GetBegin(c, n) ==
    /\ CanStart(c, "get")
    /\ Started(c)
    /\ pc' = [pc EXCEPT ![c] = [op |-> "get", name |-> n, tries |-> 0]]
    /\ ret' = A("GetBegin", c, [k |-> "none", name |-> n, live |-> Live])
    /\ UNCHANGED <<reg, nextPipe, sdeps, timers, nextTimer, crashed, closedBy>>

GetTry(c) ==
    /\ pc[c].op # "idle" /\ ~crashed
    /\ LET n == pc[c].name IN
         IF reg[n] # Absent
           THEN /\ pc' = [pc EXCEPT ![c] = Idle]
                /\ ret' = A("GetTry", c, [k |-> "pipe", name |-> n, pipe |-> reg[n], live |-> Live])
           ELSE IF pc[c].tries + 1 >= GetTries
                  THEN /\ pc' = [pc EXCEPT ![c] = Idle]
                       /\ ret' = A("GetTry", c, [k |-> "err", name |-> n, live |-> Live])
                  ELSE /\ pc' = [pc EXCEPT ![c].tries = @ + 1]
                       /\ ret' = A("GetTry", c, [k |-> "none", name |-> n, live |-> Live])
    /\ UNCHANGED <<reg, nextPipe, sdeps, timers, nextTimer, nops, crashed, closedBy>>

Dump(c) ==
    /\ CanStart(c, "dump")
    /\ Started(c)
    /\ ret' = A("Dump", c, [k |-> "dump", live |-> Live])
    /\ UNCHANGED <<reg, nextPipe, sdeps, timers, nextTimer, pc, crashed, closedBy>>

Next ==
    \/ \E c \in Clients, n \in Names : Create(c, n) \/ Close(c, n) \/ Delete(c, n) \/ GetBegin(c, n)
    \/ \E c \in Clients : GetTry(c) \/ Dump(c)
    \/ \E t \in DOMAIN timers : TimerFire(t)

Spec == Init /\ [][Next]_vars
FairSpec == Spec /\ \A t \in 1..MaxTimers : WF_vars(TimerFire(t))
                 /\ \A c \in Clients : WF_vars(GetTry(c))

(* ---- properties --------------------------------------------------------- *)
TypeOK ==
    /\ \A n \in Names : reg[n] \in 0..nextPipe
    /\ nextPipe \in 0..MaxPipes /\ nextTimer \in 0..MaxTimers
NoCrash == ~crashed
\* live names are unique: no pipe id is registered under two names
UniqueLive == \A a, b \in Names : (reg[a] # Absent /\ reg[a] = reg[b]) => a = b
\* the underlying stream is never closed more often than it was opened
NoNegativeDeps == \A p \in DOMAIN sdeps : sdeps[p] >= 0
\* "an operation on a missing pipe returns an error" is how Close/Delete/Get are defined above
\* (k = "err" exactly when the name is absent); conformance compares it with the real error value.
\* a closed pipe disappears after its grace period: once every timer has fired, every pipe
\* on which Close succeeded is gone unless it was re-created/kept under the name later
ClosedEventuallyGone ==
    \A t \in 1..MaxTimers : (t \in DOMAIN timers) ~> (t \in DOMAIN timers /\ timers[t].st = "fired")
\* when a timer has fired the name it was started for is absent at that instant (action property)
TimerRemoves == [][\A t \in DOMAIN timers :
                     (timers[t].st = "sleeping" /\ timers'[t].st = "fired") => reg'[timers[t].name] = Absent]_vars
GetReturns == \A c \in Clients : (pc[c].op # "idle") ~> (pc[c].op = "idle")
=============================================================================
