------------------------------ MODULE External ------------------------------
(***************************************************************************)
(* C21: the exit number of an external command is its exit status; a       *)
(* command ended by a signal has a non-zero exit number; composed with the *)
(* chain rules of RunModes.tla (&&, ||, try).                              *)
(***************************************************************************)
EXTENDS RunModes, Json, SequencesExt

CONSTANTS Codes, Signals

\* "linger": the command exits with status n but leaves a descendant behind that keeps the inherited
\* stdout/stderr open for a few seconds - its exit status is still n
Outcomes == {[how |-> "exit", n |-> c] : c \in Codes} \cup {[how |-> "signal", n |-> s] : s \in Signals}
            \cup {[how |-> "linger", n |-> c] : c \in {0, 3}}
\* the exit number murex must report: the status itself, or "some non-zero number" (0 = must be zero,
\* -1 = any non-zero value)
MustReport(o) == IF o.how \in {"exit", "linger"} THEN o.n ELSE -1
Failed(o) == o.how = "signal" \/ o.n # 0
\* for the chain rules any non-zero exit behaves alike
AsExit(o) == IF Failed(o) THEN 1 ELSE 0

Contexts == {"alone", "and", "or", "try"}
\* does the marker command after the external one run?
MarkerRuns(o, ctx) ==
    CASE ctx = "alone" -> TRUE                                                      \* `x ; marker`
      [] ctx = "and"   -> RanNormal(<<[op |-> "first", exit |-> AsExit(o)], [op |-> "&&", exit |-> 0]>>, 2)
      [] ctx = "or"    -> RanNormal(<<[op |-> "first", exit |-> AsExit(o)], [op |-> "||", exit |-> 0]>>, 2)
      [] ctx = "try"   -> DeclTry(<<[op |-> "first", exit |-> AsExit(o)], [op |-> ";", exit |-> 0]>>, "try").ran[2]

Case(o, ctx) == [how |-> o.how, n |-> o.n, ctx |-> ctx, report |-> MustReport(o), marker |-> MarkerRuns(o, ctx)]
ASSUME ndJsonSerialize("cases.ndjson", SetToSeq({Case(o, c) : o \in Outcomes, c \in Contexts}))
=============================================================================
