---------------------------- MODULE HistoryEval ----------------------------
(***************************************************************************)
(* TLC as the evaluator of History.tla on given histories (longer than the  *)
(* exhaustive bound): reads histories.ndjson, one record                    *)
(*   [id, ops : Seq([act : "Open"] | [act : "Write", e] | [act : "Crash",   *)
(*   e, at, p])]   (p = where in the interior a "part" crash cuts, 0..999)  *)
(* folds the actions of History.tla over it and writes, for every Open, the *)
(* lists that load may return (expected.ndjson).  `ok` says that the        *)
(* modelled file satisfies Durable, LoaderAgrees and NoForeign at every     *)
(* step of the history.                                                     *)
(***************************************************************************)
EXTENDS History, Json, SequencesExt

Histories == ndJsonDeserialize("histories.ndjson")

CutAt(f, op) == LET n == Len(Append1(f, op.e)) IN
                IF op.at = "nothing" THEN 0
                ELSE IF op.at = "allbutnl" THEN n - 1
                ELSE IF n <= 2 THEN 1 ELSE 1 + (op.p * (n - 2)) \div 1000

\* st = [fl (file), hs (appends so far), opens, ok]
ApplyOp(st, op) ==
    LET st2 ==
        IF op.act = "Open"
          THEN [st EXCEPT !.opens = Append(st.opens, Allowed(st.hs))]
        ELSE IF op.act = "Write"
          THEN [st EXCEPT !.fl = st.fl \o Append1(st.fl, op.e),
                          !.hs = Append(st.hs, [e |-> op.e, done |-> TRUE])]
        ELSE [st EXCEPT !.fl = st.fl \o SubSeq(Append1(st.fl, op.e), 1, CutAt(st.fl, op)),
                        !.hs = Append(st.hs, [e |-> op.e, done |-> FALSE])]
        ld == LoadOp(st2.fl)
    IN [st2 EXCEPT !.ok = /\ st.ok
                          /\ MxCollapse(ld) \in Allowed(st2.hs)
                          /\ ld = LoadDecl(st2.fl)
                          /\ \A i \in DOMAIN ld : \E j \in DOMAIN st2.hs : st2.hs[j].e = ld[i]]

RECURSIVE Fold(_, _, _)
Fold(st, ops, i) == IF i > Len(ops) THEN st ELSE Fold(ApplyOp(st, ops[i]), ops, i + 1)

Eval(h) == LET st == Fold([fl |-> <<>>, hs |-> <<>>, opens |-> <<>>, ok |-> TRUE], h.ops, 1)
           IN [id |-> h.id, ok |-> st.ok, opens |-> st.opens]

ASSUME EvalEmit == ndJsonSerialize("expected.ndjson", [i \in DOMAIN Histories |-> Eval(Histories[i])])
=============================================================================
