----------------------------- MODULE ArraysGen -----------------------------
(* Case tables for conformance: every input of the bound with what the rule says.   *)
(* The tables are written while TLC evaluates the assumptions of this module; the    *)
(* model-checking run that follows checks the machines of Arrays.tla against them.   *)
EXTENDS Arrays, ArraysParams, Json, SequencesExt

IdxCase(t) == [n |-> t.n, keys |-> t.keys,
               index |-> IndexDecl(t.n, t.keys),
               element |-> IF Len(t.keys) = 1 THEN ElementDecl(t.n, t.keys[1]) ELSE Err,
               notindex |-> NotIndexDecl(t.n, t.keys)]
MapKeyTokens == 1..4
MapCases == {[present |-> P, key |-> k, index |-> MapIndexDecl(P, k), judged |-> MapJudged(P, k)] :
                P \in {Q \in SUBSET MapKeyTokens : Cardinality(Q) \in 1..3}, k \in MapKeyTokens}
ASSUME "idx" \in Fams => /\ ndJsonSerialize("idx.ndjson", SetToSeq({IdxCase(t) : t \in IdxTasks}))
                         /\ ndJsonSerialize("map.ndjson", SetToSeq(MapCases))

RngCase(t) == [n |-> t.n, s |-> t.s, e |-> t.e, excl |-> t.excl,
               items |-> RangeDecl(t.n, t.s, t.e, t.excl),
               judged |-> RangeJudged(t.n, t.s, t.e, t.excl)]
ASSUME "range" \in Fams => ndJsonSerialize("range.ndjson", SetToSeq({RngCase(t) : t \in RngTasks}))

\* compact spelling of the table: a part is <<0, token, 0>> (literal) or <<1, value, width>>,
\* an item is <<0, token>> or <<1, v1, pad1, v2, pad2>>
Part3(p) == <<IF p.t = "num" THEN 1 ELSE 0, p.v, p.w>>
Item5(it) == IF it.t = "lit" THEN <<0, it.a.v>> ELSE <<1, it.a.v, it.a.pad, it.b.v, it.b.pad>>
MkCase(t) == [pre |-> t.pre,
              blocks |-> [j \in 1..Len(t.blocks) |->
                            [post |-> t.blocks[j].post,
                             items |-> [x \in 1..Len(t.blocks[j].items) |-> Item5(t.blocks[j].items[x])]]],
              elems |-> LET d == MkDecl(t.pre, t.blocks) IN
                        [k \in 1..Len(d) |-> [x \in 1..Len(d[k]) |-> Part3(d[k][x])]],
              judged |-> MkJudged(t.blocks)]
ASSUME "mk" \in Fams => ndJsonSerialize("mk.ndjson", SetToSeq({MkCase(t) : t \in MkTasks}))
=============================================================================
