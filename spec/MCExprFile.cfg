SPECIFICATION Spec
CONSTANTS
  Inputs <- GenInputs
  Family = "file"
  Lits3 = {}
  Lits4 = {}
  StrN = 0
  WordsF = 0
  WordsT = 0
  Small3 = FALSE
  Ops1 = {}
  Base = FALSE
INVARIANTS Agree InputsWellFormed
CHECK_DEADLOCK FALSE
