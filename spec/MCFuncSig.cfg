SPECIFICATION Spec
CONSTANTS
  MaxLen = 5
  Inputs <- AllStrings
  ArgVals = {"7", "x", "true", "1.5"}
  IntToks = {"7"}
  FracToks = {"1.5"}
  MaxParams = 2
  Calls <- AllCalls
INVARIANT Agree
POSTCONDITION Emit
CHECK_DEADLOCK FALSE
