SPECIFICATION Spec
CONSTANTS
  Names = {}
  Opts = {"G", "L"}
  GlobalOpts = {"G"}
  MaxLen = 4
  MaxDepth = 3
  Family = "cfg"
  TopLevel = "session"
INVARIANTS Agree Enumerated
PROPERTIES WriteIsLocal ReturnRestores
CHECK_DEADLOCK FALSE
