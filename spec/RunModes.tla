------------------------------ MODULE RunModes ------------------------------
(***************************************************************************)
(* Which commands of a block run, and the block's exit number, in murex's  *)
(* three schedulers (lang/interpreter_pc.go):                               *)
(*   runModeNormal   C04:  ;  newline  &&  ||  (and | inside)               *)
(*   runModeTry      C05:  `try {}` / `runmode try function`                *)
(*   runModeTryPipe  C05:  `trypipe {}` / `runmode trypipe function`        *)
(*                                                                         *)
(* Two descriptions are given and TLC checks that they agree on every      *)
(* program up to MaxLen commands:                                          *)
(*  - Decl*: the rule as the documentation/property states it, written     *)
(*    over chains (normal mode) and pipelines (try modes);                 *)
(*  - the operational machine: the scheduler loops, one action per loop     *)
(*    iteration, with their skip flags and early returns.                  *)
(***************************************************************************)
EXTENDS Integers, Sequences, FiniteSets, TLC

CONSTANTS MaxLen,     \* longest program
          Exits,      \* exit numbers commands may return, e.g. {0, 1, 3}
          Modes       \* subset of {"normal", "try", "trypipe"}

JoinOps == {";", "&&", "||", "|"}
Cmd == [op : JoinOps \cup {"first"}, exit : Exits]
\* a program: first command has op "first", the others a joining operator
Programs == UNION {{p \in [1..n -> Cmd] : p[1].op = "first" /\ \A i \in 2..n : p[i].op # "first"} : n \in 1..MaxLen}

N(P) == Len(P)
IsCond(P, i) == P[i].op \in {"&&", "||"}

(* ======================= declarative: normal mode ======================== *)
\* chain = maximal run of commands joined by && / ||; ChainStart(i) = its first command
RECURSIVE ChainStart(_, _)
ChainStart(P, i) == IF i = 1 \/ ~IsCond(P, i) THEN i ELSE ChainStart(P, i - 1)

\* command i runs iff every link of its chain up to i is satisfied by the own exit number
\* of the command before it (which, by induction, ran)
RanNormal(P, i) ==
    \A k \in (ChainStart(P, i) + 1)..i :
        /\ (P[k].op = "&&" => P[k - 1].exit = 0)
        /\ (P[k].op = "||" => P[k - 1].exit # 0)

\* a skipped command takes the exit number of the command before it
RECURSIVE ExitNormal(_, _)
ExitNormal(P, i) == IF RanNormal(P, i) THEN P[i].exit ELSE ExitNormal(P, i - 1)

DeclNormal(P) == [ran  |-> [i \in 1..N(P) |-> RanNormal(P, i)],
                  exit |-> ExitNormal(P, N(P))]

(* ======================= declarative: try / trypipe ====================== *)
\* pipeline = maximal run joined by |; a pipeline is [first, last]
PipeFirst(P, i) == i = 1 \/ P[i].op # "|"
RECURSIVE PipeEnd(_, _)
PipeEnd(P, i) == IF i = N(P) \/ P[i + 1].op # "|" THEN i ELSE PipeEnd(P, i + 1)

\* Walk the pipelines.  st = [ran: set of commands that ran, exit: exit number so far,
\* failed: the last pipeline that ran failed, over: block ended]
\* try     : all commands of a running pipeline run; it fails iff its last command fails
\* trypipe : commands of a pipeline run in order; the first failing one is the outcome and
\*           the rest of the pipeline does not run
RunPipe(P, f, mode) ==
    LET l == PipeEnd(P, f) IN
    IF mode = "try"
      THEN [cmds |-> f..l, exit |-> P[l].exit]
      ELSE LET bad == {k \in f..l : P[k].exit # 0} IN
           IF bad = {} THEN [cmds |-> f..l, exit |-> P[l].exit]
           ELSE LET b == CHOOSE k \in bad : \A j \in bad : k <= j IN
                IF b = l THEN [cmds |-> f..l, exit |-> P[l].exit]
                ELSE \* a failing command inside a pipeline: the next one is joined by |, not ||
                     [cmds |-> f..b, exit |-> P[b].exit]

RECURSIVE WalkTry(_, _, _, _)
WalkTry(P, f, mode, st) ==
    IF f > N(P) \/ st.over THEN st
    ELSE LET l == PipeEnd(P, f) IN
         IF P[f].op = "||" /\ ~st.failed
           THEN \* alternative not needed: skipped, counts as succeeding
                WalkTry(P, l + 1, mode, st)
         ELSE IF st.failed /\ P[f].op # "||"
           THEN [st EXCEPT !.over = TRUE]          \* failure and no alternative: block ends
         ELSE LET r == RunPipe(P, f, mode)
                  inside == r.cmds # f..l          \* trypipe: failed before the pipeline's end
              IN WalkTry(P, l + 1, mode,
                         [ran |-> st.ran \cup r.cmds, exit |-> r.exit,
                          failed |-> r.exit # 0, over |-> inside])

DeclTry(P, mode) ==
    LET st == WalkTry(P, 1, mode, [ran |-> {}, exit |-> 0, failed |-> FALSE, over |-> FALSE]) IN
    [ran |-> [i \in 1..N(P) |-> i \in st.ran], exit |-> st.exit]

Decl(P, mode) == IF mode = "normal" THEN DeclNormal(P) ELSE DeclTry(P, mode)

\* Programs on which the property text is unambiguous (the others are still executed):
\* a conditional operator joins single commands, not the head of a longer pipeline.
Judged(P, mode) ==
    \A i \in 2..N(P) : (P[i].op = "||" \/ (mode = "normal" /\ P[i].op = "&&")) => PipeEnd(P, i) = i

(* ========================= operational machine =========================== *)
VARIABLES prog, mode, i, skipPipe, ran, exit, cexit, done, dereg
\* cexit[k] = ExitNum field of process k as the scheduler sees it
\* dereg[k] = how often process k (registered in the FID table by compile) has been released:
\*            by executeProcess -> destroyProcess -> deregisterProcess when it is started (also
\*            when it is started only to find itself skipped), or directly by the try schedulers
\*            for the commands they never start                                            (C28)
vars == <<prog, mode, i, skipPipe, ran, exit, cexit, done, dereg>>

Init ==
    /\ prog \in Programs /\ mode \in Modes
    /\ i = 1 /\ skipPipe = FALSE /\ done = FALSE /\ exit = 0
    /\ ran = [k \in 1..Len(prog) |-> FALSE]
    /\ cexit = [k \in 1..Len(prog) |-> 0]
    /\ dereg = [k \in 1..Len(prog) |-> 0]

\* ---- runModeNormal: one iteration of `for i := range procs`
StepNormal ==
    /\ mode = "normal" /\ ~done /\ i <= N(prog)
    /\ LET skip == /\ i > 1
                   /\ \/ (prog[i].op = "&&" /\ cexit[i - 1] # 0)
                      \/ (prog[i].op = "||" /\ cexit[i - 1] = 0)
                      \/ (skipPipe /\ IsCond(prog, i))
       IN /\ skipPipe' = skip
          /\ ran' = [ran EXCEPT ![i] = ~skip]
          /\ cexit' = [cexit EXCEPT ![i] = IF skip THEN cexit[i - 1] ELSE prog[i].exit]
    /\ dereg' = [dereg EXCEPT ![i] = @ + 1]
    /\ i' = i + 1
    /\ UNCHANGED <<prog, mode, exit, done>>
FinishNormal ==
    /\ mode = "normal" /\ ~done /\ i > N(prog)
    /\ exit' = cexit[N(prog)] /\ done' = TRUE
    /\ UNCHANGED <<prog, mode, i, skipPipe, ran, cexit, dereg>>

\* ---- runModeTry / runModeTryPipe: one iteration of `for i := 0; i < len; i++`
\* the process is started; if it is the last of its pipeline (try) or always (trypipe) it is
\* waited for and its exit number examined
StepTry ==
    /\ mode \in {"try", "trypipe"} /\ ~done /\ i <= N(prog)
    /\ ran' = [ran EXCEPT ![i] = TRUE]
    /\ cexit' = [cexit EXCEPT ![i] = prog[i].exit]
    /\ LET next == i + 1
           waited == mode = "trypipe" \/ next > N(prog) \/ prog[next].op # "|"
           RECURSIVE SkipTo(_)
           SkipTo(k) == IF k <= N(prog) /\ prog[k].op = "||" THEN SkipTo(k + 1) ELSE k
           Rel(S) == dereg' = [k \in 1..N(prog) |-> IF k = i \/ k \in S THEN dereg[k] + 1 ELSE dereg[k]]
       IN IF ~waited
            THEN i' = next /\ Rel({}) /\ UNCHANGED <<exit, done>>
            ELSE /\ exit' = prog[i].exit
                 /\ IF next <= N(prog) /\ prog[i].exit < 1 /\ prog[next].op = "||"
                      THEN \* skip the alternative - and every alternative that follows it
                           i' = SkipTo(next) /\ Rel(next..(SkipTo(next) - 1)) /\ UNCHANGED done
                      ELSE IF next <= N(prog) /\ prog[i].exit > 0 /\ prog[next].op # "||"
                             THEN done' = TRUE /\ Rel(next..N(prog)) /\ UNCHANGED i  \* abort: rest deregistered
                             ELSE i' = next /\ Rel({}) /\ UNCHANGED done
    /\ UNCHANGED <<prog, mode, skipPipe>>
FinishTry ==
    /\ mode \in {"try", "trypipe"} /\ ~done /\ i > N(prog)
    /\ done' = TRUE
    /\ UNCHANGED <<prog, mode, i, skipPipe, ran, exit, cexit, dereg>>

Next == StepNormal \/ FinishNormal \/ StepTry \/ FinishTry
Spec == Init /\ [][Next]_vars

\* the schedulers do what the rule says (on the programs where the rule is unambiguous)
Agree == (done /\ Judged(prog, mode)) =>
            /\ ran = Decl(prog, mode).ran
            /\ exit = Decl(prog, mode).exit
\* C28: when the block has finished, every process it registered has been released exactly once
Released == done => \A k \in 1..N(prog) : dereg[k] = 1
Terminates == <>done
=============================================================================
