--------------------------- MODULE LifecycleTrace ---------------------------
(***************************************************************************)
(* Lifecycle.tla bound to the real scheduler: the verif gates of            *)
(* lang/interpreter_pc.go (rm.spawn) and lang/process.go (proc.exec,        *)
(* proc.waitprev, proc.destroy, proc.dereg, proc.dereg2) are logged by the  *)
(* harness in one total order while real blocks run; every log has to be a  *)
(* behaviour of Lifecycle.                                                  *)
(*                                                                         *)
(* A gate is passed just before the step it guards:                         *)
(*   rm.spawn         the scheduler is about to `go executeProcess`         *)
(*                    = NSpawn / TSpawn                                     *)
(*   proc.exec(k)     the goroutine of process k has started = PStart(k)    *)
(*   proc.waitprev(k) the body of k has returned            = PBody(k)      *)
(*   proc.destroy(k)  k has seen its predecessor terminated and is about to *)
(*                    send on WaitForTermination            = PWaitPrev(k)  *)
(*                    (a skipped process goes there directly from PStart)   *)
(*   proc.dereg(k), proc.dereg2(k): the send has completed (PDestroy(k) has *)
(*                    happened)                                             *)
(*   end              the block has returned to its caller                  *)
(* Steps without a gate are silent: the scheduler's own bookkeeping (NLoop, *)
(* NWaitPrev, NExamine, NWaitLast, TExamine, the final TSpawn) and the      *)
(* rendezvous itself (PDestroy): the receiver may run on before the sender  *)
(* reaches its next gate, so the send cannot be pinned to a log line.       *)
(* A log that Lifecycle cannot explain means the real scheduler started,    *)
(* waited for or released a process in an order the design does not allow.  *)
(***************************************************************************)
EXTENDS Lifecycle, Json

Log == ndJsonDeserialize("trace.ndjson")

VARIABLE l
tvars == <<vars, l>>
E == Log[l]
More == l <= Len(Log)
Step == l' = l + 1

TInit == /\ TLCSet(1, 1)
         /\ l = 1
         /\ prog = <<[op |-> "first", exit |-> 0]>> /\ mode = "normal"
         /\ spc = [at |-> "done", i |-> 1] /\ skipPipe = FALSE
         /\ ppc = <<"done">> /\ term = <<TRUE>> /\ cexit = <<0>> /\ recv = <<0>> /\ sent = <<0>> /\ dereg = <<1>>
         /\ blockExit = 0

\* a new block starts (whatever became of the one before it)
Begin == /\ More /\ E.ev = "begin"
         /\ prog' = E.prog /\ mode' = E.mode
         /\ spc' = [at |-> "loop", i |-> 1]
         /\ skipPipe' = FALSE
         /\ ppc' = [k \in 1..Len(E.prog) |-> "unstarted"]
         /\ term' = [k \in 1..Len(E.prog) |-> FALSE]
         /\ cexit' = [k \in 1..Len(E.prog) |-> 0]
         /\ recv' = [k \in 1..Len(E.prog) |-> 0]
         /\ sent' = [k \in 1..Len(E.prog) |-> 0]
         /\ dereg' = [k \in 1..Len(E.prog) |-> 0]
         /\ blockExit' = 0
         /\ Step

Spawn == /\ More /\ E.ev = "rm.spawn"
         /\ IF mode = "normal" THEN NSpawn ELSE (spc.i <= N /\ TSpawn)
         /\ Step
Exec == /\ More /\ E.ev = "proc.exec" /\ E.k \in 1..N /\ PStart(E.k) /\ Step
Body == /\ More /\ E.ev = "proc.waitprev" /\ E.k \in 1..N /\ PBody(E.k) /\ Step
Destroy == /\ More /\ E.ev = "proc.destroy" /\ E.k \in 1..N
           /\ IF ppc[E.k] = "waitprev" THEN PWaitPrev(E.k) ELSE (ppc[E.k] = "destroy" /\ UNCHANGED vars)
           /\ Step
Dereg == /\ More /\ E.ev \in {"proc.dereg", "proc.dereg2"} /\ E.k \in 1..N
         /\ ppc[E.k] = "done" /\ UNCHANGED vars
         /\ Step
End == /\ More /\ E.ev = "end" /\ Returned /\ UNCHANGED vars /\ Step

Silent == /\ More /\ E.ev # "begin"
          /\ \/ NLoop \/ NWaitPrev \/ NExamine \/ NWaitLast \/ TExamine
             \/ (mode # "normal" /\ spc.i > N /\ TSpawn)
             \/ \E k \in 1..MaxLen : k <= N /\ PDestroy(k)
          /\ UNCHANGED l

TNext == Begin \/ Spawn \/ Exec \/ Body \/ Destroy \/ Dereg \/ End \/ Silent
TSpec == TInit /\ [][TNext]_tvars

HWM == TLCSet(1, IF TLCGet(1) < l THEN l ELSE TLCGet(1))
Accepted == IF TLCGet(1) = Len(Log) + 1 THEN TRUE ELSE PrintT(<<"REJECTED_AT", TLCGet(1), Log[TLCGet(1)]>>) /\ FALSE
=============================================================================
