SPECIFICATION Spec
CONSTANTS
  Writers = {1}
  Readers = {5, 6}
  Typers = {}
  Getters = {}
  MaxBuf = 2
  WSizes = {0, 1, 2}
  MaxWrites = 2
  RSizes = {1, 2}
  MaxReads = 2
  Types = {}
  AllowForceClose = FALSE
  StrictLimit = TRUE
INVARIANTS TypeOK Conservation PerWriterOrder DeliveredIsPrefix NoEarlyEOF EofIsFinal Counters
CHECK_DEADLOCK FALSE
