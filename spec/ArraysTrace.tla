---------------------------- MODULE ArraysTrace ----------------------------
(***************************************************************************)
(* Validation of recorded executions of the real list builtins (C38) and   *)
(* of the real array writers/readers and foreach (C15) against the         *)
(* relations of Arrays.tla (sections 4 and 5).                              *)
(*                                                                         *)
(* trace.ndjson holds one record per execution:                            *)
(*   id   number of the record                                             *)
(*   op   "msort" "mtac" "prepend" "append" "match" "left" "right"          *)
(*        "prefix" "suffix" | "roundtrip" "lines" "foreach"                 *)
(*   xs   input list; every element is a sequence of byte values            *)
(*   ys   output list as decoded from the real output                       *)
(*   ns   match: output of `!match` with the same pattern                   *)
(*   arg  prepend/append: the elements given; prefix/suffix/match: <<text>> *)
(*   k    left/right: the count                                             *)
(*   raw  lines: the bytes the real writer produced                         *)
(* The verdict of every record is written to verdict.ndjson; the check      *)
(* requires one verdict per record (all lines consumed).                    *)
(***************************************************************************)
EXTENDS Arrays, Json, SequencesExt

TraceLog == ndJsonDeserialize("trace.ndjson")

Verdict(r) ==
    CASE r.op = "msort"     -> MSortOk(r.xs, r.ys)
      [] r.op = "mtac"      -> MTacOk(r.xs, r.ys)
      [] r.op = "prepend"   -> PrependOk(r.xs, r.arg, r.ys)
      [] r.op = "append"    -> AppendOk(r.xs, r.arg, r.ys)
      [] r.op = "match"     -> MatchOk(r.xs, r.arg[1], r.ys, r.ns)
      [] r.op = "left"      -> LeftOk(r.xs, r.k, r.ys)
      [] r.op = "right"     -> RightOk(r.xs, r.k, r.ys)
      [] r.op = "prefix"    -> PrefixOk(r.xs, r.arg[1], r.ys)
      [] r.op = "suffix"    -> SuffixOk(r.xs, r.arg[1], r.ys)
      [] r.op = "roundtrip" -> RoundTrip(r.xs, r.ys)
      [] r.op = "lines"     -> r.raw = FrameLines(r.xs) /\ UnframeLines(r.raw) = r.xs
      [] r.op = "foreach"   -> r.ys = ForeachDecl(r.xs)
      [] OTHER -> FALSE

ASSUME ndJsonSerialize("verdict.ndjson",
                       [i \in 1..Len(TraceLog) |-> [id |-> TraceLog[i].id, ok |-> Verdict(TraceLog[i])]])

\* the machines of Arrays.tla are not used here: smallest possible bounds
TOne == {0}
=============================================================================
