------------------------------- MODULE Flags -------------------------------
(***************************************************************************)
(* C24 - flag parsing follows the declared flag table.                     *)
(*   lang/parameters/flags.go  ParseFlags(params, *Arguments)              *)
(*   builtins/core/management/shell.go  cmdArgs  (the `args` builtin)      *)
(*                                                                         *)
(* An input is a flag table (flag name -> type or alias target), the three *)
(* options of parameters.Arguments and an argument list.  Two descriptions *)
(* are given and TLC checks that they agree on every input in the bound:   *)
(*  - Decl*: the rule as the property/documentation states it, written     *)
(*    over the ROLE of each argument position (value of the flag before    *)
(*    it, boolean flag, value flag, `--`, plain parameter, unknown flag);  *)
(*  - the operational machine: the loop of ParseFlags transcribed, one     *)
(*    action per `switch` evaluation (an alias rewrite re-enters the       *)
(*    switch: `goto scanFlags`), with its `previous` and `ignoreFlags`     *)
(*    registers.                                                           *)
(* The machine models the INTENDED behaviour: following aliases carries a  *)
(* termination measure (hop counter bounded by the table size), so an      *)
(* alias cycle ends in an error.  The real loop has no such measure.       *)
(*                                                                         *)
(* Strings are atomic for TLC, so the string predicates the code uses are  *)
(* tabulated over the token universe: Dash (HasPrefix "-"), IntToks and    *)
(* NumToks (what strconv accepts as whole / decimal number).  The check    *)
(* driver verifies these tables against the literal token text.            *)
(***************************************************************************)
EXTENDS Integers, Sequences, FiniteSets, TLC

CONSTANTS Names,      \* flag names a table may declare, e.g. {"-a", "-b"}
          Undecl,     \* flag-like tokens that no table declares, e.g. {"-z"}
          Values,     \* other argument tokens, e.g. {"x", "7", "1.5", "-5"}
          DashValues, \* the members of Values that start with "-"
          IntToks,    \* tokens that are decimal whole numbers (canonical text)
          NumToks,    \* tokens that are decimal numbers (canonical text), IntToks \subseteq NumToks
          MaxArgs,    \* longest argument list (exhaustive input space only)
          Inputs      \* the inputs to explore: AllInputs, or a set read from a file

DD == "--"
Types == {"str", "int", "num", "bool"}
ValueTypes == {"str", "int", "num"}
Tokens == Names \cup Undecl \cup {DD} \cup Values
Dash(t) == t \in Names \cup Undecl \cup {DD} \cup DashValues        \* strings.HasPrefix(t, "-")

Opts == [aa : BOOLEAN, ii : BOOLEAN, strict : BOOLEAN]      \* AllowAdditional IgnoreInvalidFlags StrictFlagPlacement
\* option combinations that the scan distinguishes (IgnoreInvalidFlags and StrictFlagPlacement
\* only matter together with AllowAdditional)
CoreOpts == {o \in Opts : ~o.aa => (~o.ii /\ ~o.strict)}
TableRange == Types \cup Names \cup Undecl
Tables == UNION {[D -> TableRange] : D \in SUBSET Names}
ArgLists == UNION {[1..n -> Tokens] : n \in 0..MaxArgs}
AllInputs == [tbl : Tables, opts : CoreOpts, params : ArgLists]

InputOK(c) ==
    /\ DOMAIN c.tbl \subseteq Names /\ \A k \in DOMAIN c.tbl : c.tbl[k] \in TableRange
    /\ c.opts \in Opts
    /\ \A k \in DOMAIN c.params : c.params[k] \in Tokens
ASSUME IntToks \subseteq NumToks /\ DashValues \subseteq Values
ASSUME \A c \in Inputs : InputOK(c)

\* Go: args.Flags[t] - the empty string for a name that is not declared
Entry(tbl, t) == IF t \in DOMAIN tbl THEN tbl[t] ELSE ""
IsAlias(tbl, t) == Dash(Entry(tbl, t))

\* value conversion (types.ConvertGoType on a string) as far as the property defines it:
\* ok = convertible, def = the property defines the outcome, kind/text = the converted value
Conv(ty, tok) ==
    CASE ty = "str" -> [ok |-> TRUE, def |-> TRUE, kind |-> "str", text |-> tok]
      [] ty = "int" -> IF tok \in IntToks THEN [ok |-> TRUE, def |-> TRUE, kind |-> "int", text |-> tok]
                       ELSE IF tok \in NumToks
                         THEN \* a fraction given to a whole-number flag: the property does not say
                              \* whether that is truncated or refused
                              [ok |-> TRUE, def |-> FALSE, kind |-> "int", text |-> "?"]
                         ELSE [ok |-> FALSE, def |-> TRUE, kind |-> "int", text |-> ""]
      [] ty = "num" -> IF tok \in NumToks THEN [ok |-> TRUE, def |-> TRUE, kind |-> "num", text |-> tok]
                       ELSE [ok |-> FALSE, def |-> TRUE, kind |-> "num", text |-> ""]
      [] OTHER      -> [ok |-> FALSE, def |-> FALSE, kind |-> "none", text |-> ""]
BoolTrue == [kind |-> "bool", text |-> "true"]
Val(cv) == [kind |-> cv.kind, text |-> cv.text]

\* a parse result as the caller sees it
FlagSet(f) == {[name |-> k, kind |-> f[k].kind, text |-> f[k].text] : k \in DOMAIN f}
OkResult(f, add) == [err |-> FALSE, cause |-> "", flags |-> FlagSet(f), additional |-> add]
ErrResult(cause) == [err |-> TRUE, cause |-> cause, flags |-> {}, additional |-> <<>>]

(* ============================ declarative rule ============================ *)
N(c) == Len(c.params)
Tok(c, i) == c.params[i]

\* "follows alias flags to their targets": the name at the end of the alias chain
Cycle == "<cycle>"
RECURSIVE Follow(_, _, _)
Follow(tbl, t, seen) ==
    IF t \in seen THEN Cycle
    ELSE IF IsAlias(tbl, t) THEN Follow(tbl, tbl[t], seen \cup {t})
    ELSE t
Resolve(tbl, t) == Follow(tbl, t, {})

\* what an argument is when it does not stand in value position (r = its alias target)
Class(c, t, r) ==
    IF ~Dash(t) THEN "pos"                                   \* plain parameter
    ELSE IF c.opts.aa /\ t = DD THEN "ddash"
    ELSE IF r = Cycle THEN "cycle"
    ELSE IF Entry(c.tbl, r) = "bool" THEN "bflag"
    ELSE IF Entry(c.tbl, r) \in ValueTypes THEN "vflag"
    ELSE "unknown"                                           \* not a declared flag

\* Per-position facts [tok, target, role]: the argument after a value flag is that flag's
\* value, whatever it looks like; every other argument has the role of its class.
\* (Computed once per input as a tuple and passed around as P - TLC does not memoise.)
RECURSIVE PosFrom(_, _, _)
PosFrom(c, i, before) ==
    IF i > N(c) THEN <<>>
    ELSE LET t == Tok(c, i)
             r == Resolve(c.tbl, t)
             role == IF before = "vflag" THEN "value" ELSE Class(c, t, r)
         IN <<[tok |-> t, target |-> r, role |-> role]>> \o PosFrom(c, i + 1, role)
Positions(c) == PosFrom(c, 1, "")
\* the conversion of the value at position i (role value) to the type of the flag before it
ConvAt(c, P, i) == Conv(Entry(c.tbl, P[i - 1].target), P[i].tok)

MinOf(S) == CHOOSE x \in S : \A y \in S : x <= y
\* the cut: `--`, or (StrictFlagPlacement) the first plain parameter; everything after it is additional
CutSet(c, P) == {i \in 1..N(c) : \/ P[i].role = "ddash"
                                 \/ (P[i].role = "pos" /\ c.opts.aa /\ c.opts.strict)}
Cut(c, P) == IF CutSet(c, P) = {} THEN N(c) + 1 ELSE MinOf(CutSet(c, P))

\* "... and otherwise reports a clean error": why position i (before the cut) is an error
ErrAt(c, P, i) ==
    LET r == P[i].role IN
    CASE r = "cycle"   -> "cycle"
      [] r = "unknown" -> IF c.opts.ii /\ c.opts.aa THEN "" ELSE "invalid-flag"
      [] r = "pos"     -> IF c.opts.aa THEN "" ELSE "no-flag"
      [] r = "value"   -> IF ConvAt(c, P, i).ok THEN "" ELSE "bad-value"
      [] r = "vflag"   -> IF i = N(c) THEN "no-value" ELSE ""
      [] OTHER         -> ""
ErrSet(c, P) == {i \in 1..(Cut(c, P) - 1) : ErrAt(c, P, i) # ""}

RECURSIVE AddFrom(_, _, _, _)
AddFrom(c, P, cut, i) ==
    IF i > N(c) THEN <<>>
    ELSE IF i > cut \/ P[i].role \in {"pos", "unknown"} THEN <<P[i].tok>> \o AddFrom(c, P, cut, i + 1)
    ELSE AddFrom(c, P, cut, i + 1)

\* the analysis of an input: positions, cut, first error, and the positions that take part in
\* the outcome
Analysis(c) ==
    LET P == Positions(c)
        cut == Cut(c, P)
        errs == ErrSet(c, P)
        first == IF errs = {} THEN N(c) + 1 ELSE MinOf(errs)
    IN [P |-> P, cut |-> cut, errs |-> errs, first |-> first, parsed |-> 1..MinOf({cut, first, N(c)})]

DeclA(c, A) ==
    IF A.errs # {} THEN ErrResult(ErrAt(c, A.P, A.first))
    ELSE LET P == A.P
             B == 1..(A.cut - 1)
             bools == {[name |-> P[i].target, kind |-> "bool", text |-> "true"] : i \in {j \in B : P[j].role = "bflag"}}
             vals == {[name |-> P[i - 1].target, kind |-> ConvAt(c, P, i).kind, text |-> ConvAt(c, P, i).text] :
                         i \in {j \in B : P[j].role = "value"}}
         IN [err |-> FALSE, cause |-> "", flags |-> bools \cup vals, additional |-> AddFrom(c, P, A.cut, 1)]
Decl(c) == DeclA(c, Analysis(c))

\* Inputs on which the property text is unambiguous (the others are still executed):
JudgedA(c, A) ==
    LET P == A.P
        V == {i \in A.parsed : P[i].role = "value"}
    IN
    \* a declared flag name, or `--` when additional parameters are allowed, in value position
    /\ \A i \in V : P[i].tok \notin DOMAIN c.tbl /\ ~(c.opts.aa /\ P[i].tok = DD)
    \* a conversion the property does not define
    /\ \A i \in V : ConvAt(c, P, i).def
    \* the same flag given twice with different values
    /\ \A i, j \in V : P[i - 1].target = P[j - 1].target => ConvAt(c, P, i) = ConvAt(c, P, j)
    \* an alias whose chain ends at a name that is not declared
    /\ \A i \in A.parsed \ V : IsAlias(c.tbl, P[i].tok) => P[i].target \in DOMAIN c.tbl \cup {Cycle}
    \* IgnoreInvalidFlags is not part of the property: judged only where it makes no difference
    /\ c.opts.ii => \A i \in A.parsed : P[i].role # "unknown"
Judged(c) == JudgedA(c, Analysis(c))

\* what the `args` builtin must store in its variable (error = the Error text is non-empty);
\* the builtin itself succeeds in storing it either way
ArgsBuiltin(res) == [stored |-> TRUE, error |-> res.err, flags |-> res.flags, additional |-> res.additional]

\* which parts of the rule an input exercises (coverage accounting only)
FeaturesA(c, A) ==
    LET P == A.P
        V == {i \in A.parsed : P[i].role = "value"}
        Has(S, f) == IF S = {} THEN {} ELSE {f}
    IN  Has({i \in A.parsed \ V : IsAlias(c.tbl, P[i].tok)}, "alias")
   \cup Has({i \in V : Entry(c.tbl, P[i - 1].target) \in {"int", "num"}}, "conv")
   \cup Has({i \in V : Dash(P[i].tok)}, "dashvalue")
   \cup Has({i \in A.parsed : P[i].role = "ddash"}, "ddash")
   \cup Has({i \in A.parsed : i = A.cut /\ P[i].role = "pos"}, "strictcut")
   \cup Has({i \in A.parsed : P[i].role = "pos"}, "additional")
   \cup Has({i \in A.parsed : P[i].role = "bflag"}, "bool")
   \cup Has(A.errs, "error")

(* ========================= operational machine =========================== *)
VARIABLES inp,          \* the input (constant during a behaviour)
          i,            \* loop index (1-based)
          cur,          \* params[i], possibly rewritten by alias hops
          hops,         \* alias rewrites done on the current argument    [termination measure]
          previous,     \* value flag waiting for its value, or ""
          ignoreFlags,
          flags,        \* flag name -> [kind, text]
          additional,
          done,         \* ParseFlags has returned
          result        \* the returned result (meaningful once done)
vars == <<inp, i, cur, hops, previous, ignoreFlags, flags, additional, done, result>>

Running == ~done
At(c, k) == IF k <= Len(c.params) THEN c.params[k] ELSE ""

Init ==
    /\ inp \in Inputs
    /\ i = 1 /\ cur = At(inp, 1) /\ hops = 0
    /\ previous = "" /\ ignoreFlags = FALSE
    /\ flags = <<>> /\ additional = <<>> /\ done = FALSE /\ result = ErrResult("")

Advance == /\ i' = i + 1 /\ cur' = At(inp, i + 1) /\ hops' = 0
Fail(cause) == /\ result' = ErrResult(cause) /\ done' = TRUE
               /\ UNCHANGED <<inp, i, cur, hops, previous, ignoreFlags, flags, additional>>

\* flags.set(previous, cur, args.Flags[previous]); previous = ""
SetPrevious ==
    LET cv == Conv(Entry(inp.tbl, previous), cur) IN
    IF cv.ok
      THEN /\ flags' = (previous :> Val(cv)) @@ flags
           /\ previous' = "" /\ Advance
           /\ UNCHANGED <<inp, ignoreFlags, additional, done, result>>
      ELSE Fail("bad-value")

\* one evaluation of the `switch` in `for i = range params { scanFlags: switch {...} }`
Scan ==
    /\ Running /\ i <= Len(inp.params)
    /\ LET tbl == inp.tbl
           o == inp.opts
       IN
       IF ignoreFlags THEN
            /\ additional' = Append(additional, cur) /\ Advance
            /\ UNCHANGED <<inp, previous, ignoreFlags, flags, done, result>>
       ELSE IF Dash(cur) THEN
            IF o.aa /\ cur = DD THEN
                 /\ ignoreFlags' = TRUE /\ Advance
                 /\ UNCHANGED <<inp, previous, flags, additional, done, result>>
            ELSE IF Dash(Entry(tbl, cur)) THEN
                 \* params[i] = args.Flags[params[i]]; goto scanFlags   - bounded by the table size
                 IF hops < Cardinality(DOMAIN tbl)
                   THEN /\ cur' = Entry(tbl, cur) /\ hops' = hops + 1
                        /\ UNCHANGED <<inp, i, previous, ignoreFlags, flags, additional, done, result>>
                   ELSE Fail("cycle")
            ELSE IF Entry(tbl, cur) = "bool" THEN
                 /\ flags' = (cur :> BoolTrue) @@ flags /\ Advance
                 /\ UNCHANGED <<inp, previous, ignoreFlags, additional, done, result>>
            ELSE IF Entry(tbl, cur) # "" THEN
                 /\ previous' = cur /\ Advance
                 /\ UNCHANGED <<inp, ignoreFlags, flags, additional, done, result>>
            ELSE IF previous # "" THEN SetPrevious
            ELSE IF o.ii /\ o.aa THEN
                 /\ additional' = Append(additional, cur) /\ Advance
                 /\ UNCHANGED <<inp, previous, ignoreFlags, flags, done, result>>
            ELSE Fail("invalid-flag")
       ELSE IF previous # "" THEN SetPrevious
       ELSE IF ~o.aa THEN Fail("no-flag")
       ELSE /\ additional' = Append(additional, cur) /\ Advance
            /\ ignoreFlags' = (o.strict \/ ignoreFlags)
            /\ UNCHANGED <<inp, previous, flags, done, result>>

\* after the loop
Finish ==
    /\ Running /\ i > Len(inp.params)
    /\ result' = IF previous # "" THEN ErrResult("no-value") ELSE OkResult(flags, additional)
    /\ done' = TRUE
    /\ UNCHANGED <<inp, i, cur, hops, previous, ignoreFlags, flags, additional>>

Next == Scan \/ Finish
Spec == Init /\ [][Next]_vars

(* ============================== properties =============================== *)
TypeOK ==
    /\ i \in 1..(Len(inp.params) + 1) /\ hops \in 0..Cardinality(DOMAIN inp.tbl)
    /\ previous \in {""} \cup DOMAIN inp.tbl /\ ignoreFlags \in BOOLEAN
    /\ DOMAIN flags \subseteq DOMAIN inp.tbl

\* the loop does what the rule says (on the inputs where the rule is unambiguous)
Agree == ~Running => LET A == Analysis(inp) IN JudgedA(inp, A) => result = DeclA(inp, A)

\* every step of the loop decreases a natural-number measure: the scan terminates on every
\* table, cyclic aliases included
Measure == IF ~Running THEN 0
           ELSE 1 + (Len(inp.params) + 1 - i) * (Cardinality(DOMAIN inp.tbl) + 2) + (Cardinality(DOMAIN inp.tbl) + 1 - hops)
Decreases == [][Measure' < Measure /\ Measure' >= 0]_vars
=============================================================================
