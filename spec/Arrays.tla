------------------------------- MODULE Arrays -------------------------------
(***************************************************************************)
(* Arrays, indexes, ranges, generated arrays and list builtins of murex.   *)
(*                                                                         *)
(*   C16  `[k]`, `[[/k]]`, `![k]`, `[key]`     lang/define_index_objects.go *)
(*                                             lang/define_element_object.go*)
(*   C17  `[s..e]flags`                        builtins/core/ranges         *)
(*   C18  `a [m..n]`, `ja`, expansion blocks   builtins/core/mkarray        *)
(*   C15  array framing per data type, foreach (operators, section 4)       *)
(*   C38  msort, mtac, prepend, append, ...    (operators, section 5)       *)
(*                                                                         *)
(* For every family with an algorithm in the code two descriptions are     *)
(* given: the rule as the property states it (…Decl) and a transcription of *)
(* the code's loop as a state machine (one action per loop iteration /     *)
(* callback).  TLC checks that they agree on every input in the bound      *)
(* (invariants Agree…) wherever the property defines the result (…Judged).  *)
(* The machines describe the INTENDED behaviour; where the real code       *)
(* deviates, the conformance run shows it.                                  *)
(*                                                                         *)
(* Element values never matter to these rules, so an array of length n is   *)
(* represented by its positions; texts cross the TLC boundary as small      *)
(* tokens (integers) which the conformance renderer maps to spellings.      *)
(***************************************************************************)
EXTENDS Integers, Sequences, FiniteSets, TLC

CONSTANTS Fams,         \* machines started by Init: subset of {"idx", "range", "mk"}
          IdxMaxN,      \* C16: array lengths 0..IdxMaxN
          IdxKeys,      \* C16: set of integer keys
          IdxMaxKeys,   \* C16: 1..IdxMaxKeys keys per lookup
          IdxWideN,     \* C16: single-key lookups also on lengths 0..IdxWideN ...
          IdxWideKeys,  \* C16: ... with these keys
          RngMaxN,      \* C17: list lengths 0..RngMaxN
          RngBounds,    \* C17: set of integers written as range bounds
          MkVals,       \* C18: set of integers used as range bounds
          MkPads,       \* C18: zero-padded widths tried (besides the natural spelling)
          MkExtra,      \* C18: extra <<m, n>> pairs (natural spelling), e.g. near +-200
          MkMaxBlocks,  \* C18: expansion blocks per parameter
          MkMaxAlts     \* C18: alternatives per block in the multi-block table

Max(a, b) == IF a >= b THEN a ELSE b
Min(a, b) == IF a <= b THEN a ELSE b
Abs(x) == IF x < 0 THEN -x ELSE x
Iota(n) == [j \in 1..n |-> j]

(* ========================================================================= *)
(* 1. C16  index and element lookups                                         *)
(* ========================================================================= *)
Ok(h) == [res |-> "ok", hits |-> h]
Err == [res |-> "err", hits |-> <<>>]

\* key k addresses an element of an array of length n
InRange(n, k) == -n <= k /\ k < n
\* its 0-based position
Pos(n, k) == IF k < 0 THEN k + n ELSE k

\* `[k1 k2 ...]`: the elements in the order asked for; any bad key fails the lookup
IndexDecl(n, keys) ==
    IF \A j \in 1..Len(keys) : InRange(n, keys[j])
      THEN Ok([j \in 1..Len(keys) |-> Pos(n, keys[j])])
      ELSE Err
\* `[[/k]]`
ElementDecl(n, k) == IndexDecl(n, <<k>>)

\* `![k1 k2 ...]` (documented complement; explicit non-negative keys only).  The property
\* text says nothing about its content: exported for reference, never judged on content.
NotIndexDecl(n, keys) ==
    IF \A j \in 1..Len(keys) : 0 <= keys[j] /\ keys[j] < n
      THEN Ok(SelectSeq([j \in 1..n |-> j - 1], LAMBDA p : \A j \in 1..Len(keys) : keys[j] # p))
      ELSE Err

\* map lookup: present = set of key tokens of the map; the value of a key is named by the key
MapIndexDecl(present, key) == IF key \in present THEN Ok(<<key>>) ELSE Err
MapJudged(present, key) == key \in present      \* the text is silent about absent keys

\* transcription of lang.isValidElementIndex
ElemOp(n, k) ==
    IF k < 0
      THEN LET i == k + n IN IF i < 0 THEN Err ELSE Ok(<<i>>)
      ELSE IF k >= n THEN Err ELSE Ok(<<k>>)

(* ========================================================================= *)
(* 2. C17  range filters                                                     *)
(* ========================================================================= *)
\* a bound as written: absent, or an integer
Bound(has, v) == [has |-> has, v |-> v]
NoBound == Bound(FALSE, 0)

\* Items are numbered 1..n.  lo = item named by the written start (a negative start -k names
\* the k-th item from the end).  Without `e` the written end-points are included, with `e`
\* they are excluded; an end that is not written has no end-point.
RangeDecl(n, s, e, excl) ==
    LET lo == IF s.v < 0 THEN n + s.v + 1 ELSE s.v
        Keep(j) == /\ (s.has => IF excl THEN j > lo ELSE j >= lo)
                   /\ (e.has => IF excl THEN j < e.v ELSE j <= e.v)
    IN SelectSeq(Iota(n), Keep)

\* the forms the property defines: [s..e] with 1 <= s <= e, [s..], [..e], [..], [-k..];
\* `[-k..]e` with k > n has no item to exclude and is left open
RangeJudged(n, s, e, excl) ==
    \/ s.has /\ e.has /\ 1 <= s.v /\ s.v <= e.v
    \/ s.has /\ ~e.has /\ s.v >= 1
    \/ s.has /\ ~e.has /\ s.v <= -1 /\ (excl => -s.v <= n)
    \/ ~s.has /\ e.has /\ e.v >= 1
    \/ ~s.has /\ ~e.has

(* ========================================================================= *)
(* 3. C18  mkarray                                                           *)
(* ========================================================================= *)
\* A bound as written: value and, when written with leading zeros, the number of digits.
\* pad = 0: natural spelling.  "08" = [v |-> 8, pad |-> 2]
Digits(x) == IF x < 10 THEN 1 ELSE IF x < 100 THEN 2 ELSE IF x < 1000 THEN 3 ELSE 4
Sp(v, pad) == [v |-> v, pad |-> pad]
ValidSp(sp) == sp.pad = 0 \/ sp.pad > Digits(Abs(sp.v))
\* an output element part: a number printed at width w (0 = natural) or a literal token
Num(v, w) == [t |-> "num", v |-> v, w |-> w]
Lit(id) == [t |-> "lit", v |-> id, w |-> 0]

\* every integer from a to b inclusive, ascending or descending, zero-padded to the width
\* of the zero-padded bound
NumRangeDecl(a, b) ==
    LET w == IF a.pad > 0 THEN a.pad ELSE b.pad IN
    IF a.v <= b.v THEN [i \in 1..(b.v - a.v + 1) |-> Num(a.v + i - 1, w)]
                  ELSE [i \in 1..(a.v - b.v + 1) |-> Num(a.v - i + 1, w)]

\* spellings on which "the width of a zero-padded bound" can be read in one way only
NumRangeJudged(a, b) ==
    \/ a.pad = 0 /\ b.pad = 0
    \/ /\ a.v >= 0 /\ b.v >= 0
       /\ \/ a.pad > 0 /\ a.pad = b.pad                         \* both at the same width
          \/ a.v < b.v /\ a.pad > 0 /\ b.pad = 0               \* only the lower bound padded
          \/ b.v < a.v /\ b.pad > 0 /\ a.pad = 0

\* An item of a block is a literal or a range; a block is its items and the literal text
\* that follows it; a parameter is a leading literal and 0..3 blocks.
ItemLit(id) == [t |-> "lit", a |-> Sp(id, 0), b |-> Sp(id, 0)]
ItemRng(a, b) == [t |-> "rng", a |-> a, b |-> b]
ItemAlts(it) == IF it.t = "lit" THEN <<Lit(it.a.v)>> ELSE NumRangeDecl(it.a, it.b)
RECURSIVE Concat(_)
Concat(ss) == IF ss = <<>> THEN <<>> ELSE Head(ss) \o Concat(Tail(ss))
BlockAlts(blk) == Concat([j \in 1..Len(blk.items) |-> ItemAlts(blk.items[j])])

\* cartesian product in odometer order, last block fastest
RECURSIVE Product(_)
Product(blocks) ==
    IF blocks = <<>> THEN << <<>> >>
    ELSE LET alts == BlockAlts(Head(blocks))
             rest == Product(Tail(blocks))
             nr == Len(rest)
         IN [k \in 1..(Len(alts) * nr) |->
                <<alts[((k - 1) \div nr) + 1], Lit(Head(blocks).post)>> \o rest[((k - 1) % nr) + 1]]
MkDecl(pre, blocks) == LET pr == Product(blocks) IN [k \in 1..Len(pr) |-> <<Lit(pre)>> \o pr[k]]
MkJudged(blocks) ==
    \A j \in 1..Len(blocks) : \A x \in 1..Len(blocks[j].items) :
        blocks[j].items[x].t = "rng" => NumRangeJudged(blocks[j].items[x].a, blocks[j].items[x].b)

(* ========================================================================= *)
(* 4. C15  array framing and foreach                                         *)
(* ========================================================================= *)
\* Elements are sequences of byte values.  NL = 10.
NL == 10
RECURSIVE FrameLines(_)
\* str / generic / *: every element followed by a newline
FrameLines(xs) == IF xs = <<>> THEN <<>> ELSE Head(xs) \o <<NL>> \o FrameLines(Tail(xs))
\* reading lines back: split at NL; a final unterminated piece is an element too
RECURSIVE SplitNL(_, _)
SplitNL(bs, cur) ==
    IF bs = <<>> THEN (IF cur = <<>> THEN <<>> ELSE <<cur>>)
    ELSE IF Head(bs) = NL THEN <<cur>> \o SplitNL(Tail(bs), <<>>)
    ELSE SplitNL(Tail(bs), Append(cur, Head(bs)))
UnframeLines(bs) == SplitNL(bs, <<>>)
\* the property: reading back what was written gives the same list, and foreach runs its
\* body once per element, in order, with the element bound verbatim
RoundTrip(xs, back) == back = xs
ForeachDecl(xs) == xs

(* ========================================================================= *)
(* 5. C38  list builtins (relations over recorded input/output)              *)
(* ========================================================================= *)
\* byte-wise lexicographic order on sequences of byte values
RECURSIVE LexLeq(_, _)
LexLeq(a, b) ==
    IF a = <<>> THEN TRUE
    ELSE IF b = <<>> THEN FALSE
    ELSE IF Head(a) < Head(b) THEN TRUE
    ELSE IF Head(a) > Head(b) THEN FALSE
    ELSE LexLeq(Tail(a), Tail(b))
MxSorted(ys) == \A i \in 1..(Len(ys) - 1) : LexLeq(ys[i], ys[i + 1])
Count(xs, v) == Cardinality({i \in 1..Len(xs) : xs[i] = v})
MxPermutation(xs, ys) ==
    /\ Len(xs) = Len(ys)
    /\ \A i \in 1..Len(xs) : Count(xs, xs[i]) = Count(ys, xs[i])
MSortOk(xs, ys) == MxPermutation(xs, ys) /\ MxSorted(ys)
MTacOk(xs, ys) == Len(ys) = Len(xs) /\ \A i \in 1..Len(xs) : ys[i] = xs[Len(xs) + 1 - i]
PrependOk(xs, add, ys) == ys = add \o xs
AppendOk(xs, add, ys) == ys = xs \o add
\* ys is a subsequence of xs picked by the index set I
SubseqAt(xs, I) == LET RECURSIVE Pick(_)
                       Pick(k) == IF k > Len(xs) THEN <<>>
                                  ELSE IF k \in I THEN <<xs[k]>> \o Pick(k + 1) ELSE Pick(k + 1)
                   IN Pick(1)
\* match / !match with the same pattern: complementary subsequences; hit[i] says whether
\* element i contains the pattern (computed by the spec from the bytes)
PrefixAt(x, p, k) == \A j \in 1..Len(p) : k + j - 1 <= Len(x) /\ x[k + j - 1] = p[j]
Contains(x, p) == \E k \in 1..(Len(x) - Len(p) + 1) : PrefixAt(x, p, k)
MatchOk(xs, p, ys, ns) ==
    LET I == {i \in 1..Len(xs) : Contains(xs[i], p)} IN
    /\ ys = SubseqAt(xs, I)
    /\ ns = SubseqAt(xs, (1..Len(xs)) \ I)
\* left k / right k: the k left-most / right-most bytes; a negative k counts from the other
\* side (left -1 drops the last byte, right -1 drops the first)
TakeLeft(x, k) == IF k >= 0 THEN SubSeq(x, 1, Min(k, Len(x))) ELSE SubSeq(x, 1, Max(0, Len(x) + k))
TakeRight(x, k) == IF k >= 0 THEN SubSeq(x, Max(1, Len(x) - k + 1), Len(x))
                   ELSE SubSeq(x, Min(Len(x) + 1, 1 - k), Len(x))
LeftOk(xs, k, ys) == Len(ys) = Len(xs) /\ \A i \in 1..Len(xs) : ys[i] = TakeLeft(xs[i], k)
RightOk(xs, k, ys) == Len(ys) = Len(xs) /\ \A i \in 1..Len(xs) : ys[i] = TakeRight(xs[i], k)
PrefixOk(xs, p, ys) == Len(ys) = Len(xs) /\ \A i \in 1..Len(xs) : ys[i] = p \o xs[i]
SuffixOk(xs, p, ys) == Len(ys) = Len(xs) /\ \A i \in 1..Len(xs) : ys[i] = xs[i] \o p

(* ========================================================================= *)
(* 6. the operational machines                                               *)
(* ========================================================================= *)
VARIABLES task,   \* the input (a record with field fam)
          pc,     \* control point of the transcribed loop
          m,      \* its local variables
          out     \* what it has emitted so far
vars == <<task, pc, m, out>>

(* ---------------- C16: itoIndexArray's loop over the keys ---------------- *)
KeySeqs == UNION {[1..c -> IdxKeys] : c \in 1..IdxMaxKeys}
IdxTasks == IF "idx" \notin Fams THEN {} ELSE
            {[fam |-> "idx", n |-> n, keys |-> ks] : n \in 0..IdxMaxN, ks \in KeySeqs}
            \cup {[fam |-> "idx", n |-> n, keys |-> <<k>>] : n \in 0..IdxWideN, k \in IdxWideKeys}

IdxInit(t) == pc = "loop" /\ m = [j |-> 1, res |-> "run"] /\ out = <<>>
\* one iteration of `for _, key := range params`
IdxStep ==
    /\ task.fam = "idx" /\ pc = "loop" /\ m.j <= Len(task.keys)
    /\ LET k == task.keys[m.j]
           i == IF k < 0 THEN k + task.n ELSE k      \* `if i < 0 { i += len(v) }`
       IN IF i < 0 \/ i >= task.n                    \* intended: both bounds tested
            THEN pc' = "done" /\ m' = [m EXCEPT !.res = "err"] /\ out' = <<>>
            ELSE pc' = pc /\ m' = [m EXCEPT !.j = m.j + 1] /\ out' = Append(out, i)
    /\ UNCHANGED task
IdxFinish ==
    /\ task.fam = "idx" /\ pc = "loop" /\ m.j > Len(task.keys)
    /\ pc' = "done" /\ m' = [m EXCEPT !.res = "ok"]
    /\ UNCHANGED <<task, out>>
AgreeIdx == (task.fam = "idx" /\ pc = "done") =>
                [res |-> m.res, hits |-> out] = IndexDecl(task.n, task.keys)

(* ------------- C17: createRfIndex / newIndex / readArray callback -------- *)
BoundSet == {NoBound} \cup {Bound(TRUE, v) : v \in RngBounds}
RngTasks == IF "range" \notin Fams THEN {} ELSE
            {[fam |-> "range", n |-> n, s |-> s, e |-> e, excl |-> x] :
                n \in 0..RngMaxN, s \in BoundSet, e \in BoundSet, x \in BOOLEAN}

\* createRfIndex, newIndex and (buffer mode, negative start) SetLength(n)
RngSetup(t) ==
    LET start0 == IF t.s.has THEN t.s.v ELSE 0          \* sStart == "" -> "0"
        end0 == IF t.e.has THEN t.e.v ELSE -1           \* sEnd == "" -> "-1"
        buffer == start0 < 0
        end1 == IF buffer /\ ~t.e.has THEN 1 ELSE end0
        end2 == IF start0 > 0 /\ ~t.excl THEN end1 + 1 ELSE end1
        start3 == start0 - 1                              \* newIndex: rf.start--, rf.end--
        end3 == end2 - 1
    IN [start |-> IF buffer THEN start3 + t.n + 1 ELSE start3,
        end |-> IF buffer THEN end3 + t.n + 1 ELSE end3,
        i |-> 0, started |-> ~t.s.has, pos |-> 1]
RngInit(t) == pc = "read" /\ m = RngSetup(t) /\ out = <<>>

\* one callback of stdin.ReadArray for item m.pos
RngStep ==
    /\ task.fam = "range" /\ pc = "read" /\ m.pos <= task.n
    /\ LET b == m.pos
           \* if !started { if Match.Start(b) {...} else {return} }
           iS == IF m.started THEN m.i ELSE m.i + 1
           startsNow == ~m.started /\ iS > m.start
           skipped == ~m.started /\ (~startsNow \/ task.excl)
           \* if r.End != "" && r.Match.End(b) {...}
           endCounts == task.e.has /\ m.end > -1
           iE == IF endCounts THEN iS + 1 ELSE iS
           atEnd == endCounts /\ iE > m.end
       IN IF skipped
            THEN /\ m' = [m EXCEPT !.i = iS, !.started = startsNow, !.pos = b + 1]
                 /\ UNCHANGED <<pc, out>>
            ELSE IF atEnd
              THEN /\ out' = IF task.excl THEN out ELSE Append(out, b)
                   /\ pc' = "done"                         \* p.Done(): no further callbacks
                   /\ m' = [m EXCEPT !.i = iE, !.started = TRUE]
              ELSE /\ out' = Append(out, b)
                   /\ m' = [m EXCEPT !.i = iE, !.started = TRUE, !.pos = b + 1]
                   /\ UNCHANGED pc
    /\ UNCHANGED task
RngFinish ==
    /\ task.fam = "range" /\ pc = "read" /\ m.pos > task.n
    /\ pc' = "done" /\ UNCHANGED <<task, m, out>>
AgreeRange == (task.fam = "range" /\ pc = "done" /\ RangeJudged(task.n, task.s, task.e, task.excl)) =>
                  out = RangeDecl(task.n, task.s, task.e, task.excl)

(* ------- C18: rangeToArrayString's loops and writeArrayString's odometer -- *)
Spellings(vals) == {sp \in {Sp(v, p) : v \in vals, p \in MkPads \cup {0}} : ValidSp(sp)}
\* (A) one numeric range, every spelling of every pair
\* (the IF keeps TLC from building the table of a family that is not being checked)
MkSingle == IF "mk" \notin Fams THEN {} ELSE
            {<<[items |-> <<ItemRng(a, b)>>, post |-> 0]>> : a \in Spellings(MkVals), b \in Spellings(MkVals)}
            \cup {<<[items |-> <<ItemRng(Sp(p[1], 0), Sp(p[2], 0))>>, post |-> 0]>> : p \in MkExtra}
\* (B) several blocks with literals around them: a menu of blocks of 1..MkMaxAlts alternatives
MenuItems == {<<ItemLit(10 + j)>> : j \in 1..1}
             \cup {[j \in 1..c |-> ItemLit(10 + j)] : c \in 2..MkMaxAlts}
             \cup {<<ItemRng(Sp(1, 0), Sp(c, 0))>> : c \in 1..MkMaxAlts}
             \cup {<<ItemRng(Sp(MkMaxAlts, 0), Sp(1, 0))>>, <<ItemRng(Sp(1, 2), Sp(MkMaxAlts, 0))>>,
                   <<ItemLit(11), ItemRng(Sp(8, 0), Sp(9, 0))>>}
MenuBlocks == {[items |-> it, post |-> p] : it \in MenuItems, p \in {0, 1}}
MkMulti == IF "mk" \notin Fams THEN {} ELSE UNION {[1..c -> MenuBlocks] : c \in 0..MkMaxBlocks}
MkTasks == {[fam |-> "mk", pre |-> 0, blocks |-> bl] : bl \in MkSingle}
           \cup {[fam |-> "mk", pre |-> p, blocks |-> bl] : p \in {0, 2}, bl \in MkMulti}

\* m.vars[l] = alternatives of block l collected so far (variable[l] in the code)
MkInit(t) ==
    /\ pc = IF t.blocks = <<>> THEN "emit" ELSE "expand"
    /\ m = [l |-> 1, x |-> 1, k |-> 0, vars |-> [j \in 1..Len(t.blocks) |-> <<>>],
            counter |-> [j \in 1..Len(t.blocks) |-> 0], i |-> 0]
    /\ out = <<>>

\* width chosen by rangeToArrayString: the first bound's when ascending, the second bound's
\* when descending or equal, if that spelling starts with '0' ("0" itself prints the same)
CodeWidth(a, b) == IF a.v < b.v THEN a.pad ELSE b.pad
\* one iteration of the `for i := range a` loops (k = i), or one literal item
MkExpand ==
    /\ task.fam = "mk" /\ pc = "expand"
    /\ LET blk == task.blocks[m.l]
           it == blk.items[m.x]
           cnt == IF it.t = "lit" THEN 1 ELSE Abs(it.a.v - it.b.v) + 1
           el == IF it.t = "lit" THEN Lit(it.a.v)
                 ELSE IF it.a.v < it.b.v THEN Num(m.k + it.a.v, CodeWidth(it.a, it.b))
                 ELSE Num(it.a.v - m.k, CodeWidth(it.a, it.b))
           lastK == m.k + 1 = cnt
           lastX == m.x = Len(blk.items)
           lastL == m.l = Len(task.blocks)
       IN /\ m' = [m EXCEPT !.vars[m.l] = Append(@, el),
                            !.k = IF lastK THEN 0 ELSE m.k + 1,
                            !.x = IF ~lastK THEN m.x ELSE IF lastX THEN 1 ELSE m.x + 1,
                            !.l = IF lastK /\ lastX /\ ~lastL THEN m.l + 1 ELSE m.l]
          /\ pc' = IF lastK /\ lastX /\ lastL THEN "emit" ELSE "expand"
    /\ UNCHANGED <<task, out>>

\* the string written for the current counters: template with the markers replaced
MkCurrent ==
    <<Lit(task.pre)>> \o Concat([j \in 1..Len(task.blocks) |->
                                    <<m.vars[j][m.counter[j] + 1], Lit(task.blocks[j].post)>>])
\* label nextIndex: write, then `counter[i]++` on the last block
MkEmit ==
    /\ task.fam = "mk" /\ pc = "emit"
    /\ out' = Append(out, MkCurrent)
    /\ LET i == Len(task.blocks) IN
       IF i < 1 THEN pc' = "done" /\ UNCHANGED m
       ELSE LET c == m.counter[i] + 1 IN
            /\ m' = [m EXCEPT !.counter[i] = c, !.i = i]
            /\ pc' = IF c = Len(m.vars[i]) THEN "carry" ELSE "emit"
    /\ UNCHANGED task
\* label nextCounter: `counter[i] = 0; i--; counter[i]++`
MkCarry ==
    /\ task.fam = "mk" /\ pc = "carry"
    /\ LET i == m.i - 1 IN
       IF i < 1 THEN pc' = "done" /\ m' = [m EXCEPT !.counter[m.i] = 0, !.i = i]
       ELSE LET c == m.counter[i] + 1 IN
            /\ m' = [m EXCEPT !.counter[m.i] = 0, !.counter[i] = c, !.i = i]
            /\ pc' = IF c < Len(m.vars[i]) THEN "emit" ELSE "carry"
    /\ UNCHANGED <<task, out>>
AgreeMk == (task.fam = "mk" /\ pc = "done" /\ MkJudged(task.blocks)) =>
               out = MkDecl(task.pre, task.blocks)

(* ------------------------------------------------------------------------- *)
Tasks == IdxTasks \cup RngTasks \cup MkTasks
Init == /\ task \in Tasks
        /\ CASE task.fam = "idx" -> IdxInit(task)
             [] task.fam = "range" -> RngInit(task)
             [] task.fam = "mk" -> MkInit(task)
Next == IdxStep \/ IdxFinish \/ RngStep \/ RngFinish \/ MkExpand \/ MkEmit \/ MkCarry
Spec == Init /\ [][Next]_vars /\ WF_vars(Next)

\* isValidElementIndex does what the property says for every n and k in the bound
ASSUME AgreeElem == \A n \in 0..Max(IdxMaxN, IdxWideN) : \A k \in IdxKeys \cup IdxWideKeys :
                        ElemOp(n, k) = ElementDecl(n, k)
\* no machine stops before its end.  Every action strictly increases a counter bounded by the
\* input (j; pos; (l, x, k); the odometer value), so NoStuck implies termination; the
\* temporal form is kept for reference (TLC's liveness check is slow with ~10^4 initial states)
NoStuck == pc # "done" => ENABLED Next
Terminates == <>(pc = "done")
=============================================================================
