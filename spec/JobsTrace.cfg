SPECIFICATION TSpec
CONSTANTS
  MaxProcs = 60
  MaxOps = 100000
CONSTRAINT HWM
INVARIANTS RunningListedOnce ReuseRule NoResurrection
POSTCONDITION TAccepted
CHECK_DEADLOCK FALSE
