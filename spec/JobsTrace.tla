------------------------------ MODULE JobsTrace ------------------------------
(***************************************************************************)
(* Validates event logs of the real job table (hooks emit under its mutex)  *)
(* recorded while goroutines add jobs, end them, collect and look up        *)
(* concurrently, against the actions of Jobs.tla.  A job ending is a flag   *)
(* on the process outside the table's lock: it takes effect somewhere       *)
(* between the driver's call.term and ret.term records.                     *)
(***************************************************************************)
EXTENDS Jobs, Json, TLCExt

Log == ndJsonDeserialize("trace.ndjson")
VARIABLES l, termPend, gcSeen, lkSeen
tvars == <<vars, l, termPend, gcSeen, lkSeen>>
E == Log[l]
IsEv(e) == l <= Len(Log) /\ E.ev = e /\ l' = l + 1

TInit == TLCSet(1, 1) /\ Init /\ l = 1 /\ termPend = {} /\ gcSeen = {} /\ lkSeen = {}
TReset == /\ IsEv("reset")
          /\ slots' = <<>> /\ term' = {} /\ nproc' = 0 /\ nops' = 0 /\ assigned' = <<>> /\ text' = <<>>
          /\ ret' = A("Init", [k |-> "none", list |-> <<>>])
          /\ termPend' = {} /\ gcSeen' = {} /\ lkSeen' = {}
\* processes are numbered in the order in which the table added them
\* ... and the driver logs the command line it gave the process
TAdd == IsEv("jobs.add") /\ Add(E.s) /\ ret'.p = E.p /\ ret'.job = E.a /\ UNCHANGED <<termPend, gcSeen, lkSeen>>
TCallTerm == IsEv("call.term") /\ UNCHANGED <<vars, gcSeen, lkSeen>> /\ termPend' = termPend \cup {E.p}
TTermSilent == /\ l <= Len(Log) /\ \E p \in termPend : (Terminate(p) /\ termPend' = termPend \ {p})
               /\ UNCHANGED <<l, gcSeen, lkSeen>>
TRetTerm == IsEv("ret.term") /\ E.p \in term /\ UNCHANGED vars /\ UNCHANGED <<termPend, gcSeen, lkSeen>>
\* GarbageCollect holds the table's lock for its whole sweep but reads each job's "terminated" flag
\* when the sweep reaches it: a job that ended after the sweep began may be seen either way.
TGcStart == IsEv("jobs.gc.start") /\ UNCHANGED <<vars, termPend, lkSeen>> /\ gcSeen' = term
Pad(s, n) == [i \in 1..n |-> IF i <= Len(s) THEN s[i] ELSE Nil]
TGc == /\ IsEv("jobs.gc")
       /\ LET f == Pad(E.slots, Len(slots)) IN
            /\ Len(E.slots) <= Len(slots)
            /\ \A i \in DOMAIN slots :
                  /\ f[i] \in {slots[i], Nil}
                  /\ (slots[i] \in gcSeen => f[i] = Nil)
                  /\ ((slots[i] # Nil /\ slots[i] \notin term) => f[i] = slots[i])
            /\ E.slots = TrimNil(f)
       /\ slots' = E.slots
       /\ nops' = nops + 1
       /\ ret' = A("GC", [k |-> "none", list |-> <<>>])
       /\ UNCHANGED <<term, nproc, assigned, text, termPend, gcSeen, lkSeen>>
\* a lookup holds the table's lock but reads the "terminated" flags as it goes: what it returns was
\* running when the lookup began (a job may end while the lookup is in progress)
TLookupStart == IsEv("jobs.lookup.start") /\ UNCHANGED <<vars, termPend, gcSeen>> /\ lkSeen' = term
TGet == /\ IsEv("jobs.get")
        /\ E.a \in DOMAIN slots /\ slots[E.a] = E.p /\ E.p # Nil /\ E.p \notin lkSeen
        /\ UNCHANGED <<vars, termPend, gcSeen, lkSeen>>
TLatest == /\ IsEv("jobs.latest")
           /\ E.a \in DOMAIN slots /\ slots[E.a] = E.p /\ E.p # Nil /\ E.p \notin lkSeen
           /\ \A i \in DOMAIN slots : i > E.a => (slots[i] = Nil \/ slots[i] \in term)
           /\ UNCHANGED <<vars, termPend, gcSeen, lkSeen>>
\* search by command line: the job returned was running when the lookup began, its command line contains the
\* search string, and every newer job has ended or does not match
TByText == /\ IsEv("jobs.bytext")
           /\ E.a \in DOMAIN slots /\ slots[E.a] = E.p /\ E.p # Nil /\ E.p \notin lkSeen
           /\ Contains(text[E.p], E.s)
           \* (IF, not a disjunction: in an action TLC explores every disjunct, also text[Nil])
           /\ \A i \in DOMAIN slots : IF i > E.a /\ slots[i] # Nil /\ slots[i] \notin term
                                         THEN ~Contains(text[slots[i]], E.s) ELSE TRUE
           /\ UNCHANGED <<vars, termPend, gcSeen, lkSeen>>
TNext == TByText \/ TReset \/ TLookupStart \/ TGcStart \/ TAdd \/ TCallTerm \/ TTermSilent \/ TRetTerm \/ TGc \/ TGet \/ TLatest
TSpec == TInit /\ [][TNext]_tvars

HWM == TLCSet(1, IF TLCGet(1) < l THEN l ELSE TLCGet(1))
TAccepted == IF TLCGet(1) = Len(Log) + 1 THEN TRUE ELSE PrintT(<<"REJECTED_AT", TLCGet(1)>>) /\ FALSE
=============================================================================
