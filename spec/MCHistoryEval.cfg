SPECIFICATION Spec
CONSTANTS
  Entries = {"a", "b", "c", "d", "L", "M"}
  Long = {"L", "M"}
  ShortLen = 2
  LongLen = 3
  MaxTok = 0
  FreshLine = TRUE
  MaxWrites = 0
  MaxCrashes = 0
  MaxOpens = 1
CHECK_DEADLOCK FALSE
