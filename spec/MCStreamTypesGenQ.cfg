SPECIFICATION Spec
CONSTANTS
  Writers = {1}
  Readers = {}
  Typers = {1, 2}
  Getters = {5}
  MaxBuf = 2
  WSizes = {}
  MaxWrites = 0
  RSizes = {}
  MaxReads = 0
  Types = {"", "null", "a", "b"}
  AllowForceClose = TRUE
  StrictLimit = TRUE

INVARIANTS TypeOK FirstWins TypeNeverNull GetTypeLegal GetTypeValue
PROPERTIES TypeSetOnce
CHECK_DEADLOCK FALSE
