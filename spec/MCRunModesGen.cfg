SPECIFICATION Spec
CONSTANTS
  MaxLen = 4
  Exits = {0, 1, 3}
  Modes = {"normal", "try", "trypipe"}
INVARIANTS Agree Released
POSTCONDITION Emit
CHECK_DEADLOCK FALSE
