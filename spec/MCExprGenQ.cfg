SPECIFICATION Spec
CONSTANTS
  Inputs <- GenInputs
  Family = "arith"
  Lits3 = {1, 3, 4, 5}
  Lits4 = {}
  StrN = 6
  WordsF = 0
  WordsT = 0
  Small3 = FALSE
  Ops1 = {"*", "/", "+", "-", "<", "<=", ">", ">=", "==", "!="}
  Base = TRUE
INVARIANTS Agree
CHECK_DEADLOCK FALSE
