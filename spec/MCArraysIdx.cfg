SPECIFICATION Spec
CONSTANTS
  Fams = {"idx"}
  IdxMaxN <- PIdxMaxN
  IdxKeys <- PIdxKeys
  IdxMaxKeys <- PIdxMaxKeys
  IdxWideN <- PIdxWideN
  IdxWideKeys <- PIdxWideKeys
  RngMaxN <- PRngMaxN
  RngBounds <- PRngBounds
  MkVals <- PMkVals
  MkPads <- PMkPads
  MkExtra <- PMkExtra
  MkMaxBlocks <- PMkMaxBlocks
  MkMaxAlts <- PMkMaxAlts
INVARIANT AgreeIdx
INVARIANT NoStuck
CHECK_DEADLOCK FALSE
