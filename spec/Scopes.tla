------------------------------- MODULE Scopes -------------------------------
(***************************************************************************)
(* Scoping of variables (C11) and of config options (C25) in murex.        *)
(*                                                                         *)
(* A history is a sequence of operations executed one after the other by   *)
(* one murex program:                                                      *)
(*   set n / unset n      local variable n of the running call             *)
(*                        (`n = v`, `set n=v`, `!set n`)                    *)
(*   gset n / gunset n    global variable n (`$GLOBAL.n = v`, `global n=v`, *)
(*                        `!global n`)                                      *)
(*   cset o / cdef o      `config set app o v` / `config default app o`     *)
(*   call ... ret         a function call and its end                      *)
(*   blk ... end          a block that is not a call: `if`, `switch`,       *)
(*                        `foreach` body, sub-shell `${ }`                  *)
(* The value written by the operation at position j of the history is j    *)
(* itself, so a read tells exactly which write it saw. 0 = undefined       *)
(* (variables) / declared default (config options).                        *)
(*                                                                         *)
(* Two descriptions are given and TLC checks that they agree after every   *)
(* operation of every well-nested history up to MaxLen (TLC builds them    *)
(* all):                                                                   *)
(*  - DeclObsSeq: the rule as the properties state it, over the history    *)
(*    alone: what a read sees is decided by WHICH CALL performed the       *)
(*    writes (blocks belong to the call around them);                      *)
(*  - the operational machine: lang.Process.Fork (lang/fork.go) pushing    *)
(*    forks that point at variable tables and config tables, and the       *)
(*    lookup chains of lang/variables.go getValue and config/config.go     *)
(*    GetFileRef/Set/Default/Copy.                                         *)
(***************************************************************************)
EXTENDS Integers, Sequences, FiniteSets, TLC

CONSTANTS Names,       \* variable names, e.g. {"x", "y"}
          Opts,        \* config options in play, e.g. {"G", "L"}
          GlobalOpts,  \* those declared `Global: true`, e.g. {"G"}
          MaxLen,      \* longest history
          MaxDepth,    \* deepest nesting of open calls + blocks
          Family,      \* "var" (C11) or "cfg" (C25): which data operations histories contain
          TopLevel     \* "function": the program body is itself a function call (mxh run-programs, `source`, scripts)
                       \* "session" : the program body runs at session level (what the interactive shell does)

\* some fixed order of the names (only used for symmetry pruning of the histories)
RECURSIVE SeqOfSet(_)
SeqOfSet(S) == IF S = {} THEN <<>> ELSE LET e == CHOOSE e \in S : TRUE IN <<e>> \o SeqOfSet(S \ {e})
NameOrder == SeqOfSet(Names)
Undef == 0          \* no binding
Default == 0        \* declared default of every option
NoOverride == -1    \* config table of a call holds nothing for the option

VarKinds == {"set", "gset", "unset", "gunset"}
CfgKinds == {"cset", "cdef"}
StructKinds == {"call", "ret", "blk", "end"}
DataOps == IF Family = "var" THEN [k : VarKinds, n : Names] ELSE [k : CfgKinds, n : Opts]
Ops == DataOps \cup [k : StructKinds, n : {"-"}]

(* ------------------------- well-nested histories ------------------------- *)
Last(s) == s[Len(s)]
Pop(s) == SubSeq(s, 1, Len(s) - 1)

\* stack of open constructs after a history
PushOpen(s, o) == CASE o.k \in {"call", "blk"} -> Append(s, o.k)
                    [] o.k \in {"ret", "end"} -> Pop(s)
                    [] OTHER -> s
\* names are interchangeable: the k-th name is first mentioned after the (k-1)-th
NameIdx(n) == CHOOSE i \in DOMAIN NameOrder : NameOrder[i] = n
Mentioned(h) == {h[j].n : j \in DOMAIN h} \cap Names
Allowed(h, s, o) ==
    /\ o.k = "ret" => (s # <<>> /\ Last(s) = "call")
    /\ o.k = "end" => (s # <<>> /\ Last(s) = "blk")
    /\ o.k \in {"call", "blk"} => Len(s) < MaxDepth
    /\ (o.k \in VarKinds /\ NameIdx(o.n) > 1) => (NameOrder[NameIdx(o.n) - 1] \in Mentioned(h) \/ o.n \in Mentioned(h))

RECURSIVE HistN(_)
HistN(n) == IF n = 0 THEN {[h |-> <<>>, s |-> <<>>]}
            ELSE {[h |-> Append(x[1].h, x[2]), s |-> PushOpen(x[1].s, x[2])] :
                     x \in {y \in HistN(n - 1) \X Ops : Allowed(y[1].h, y[1].s, y[2])}}
\* constructs still open at the end are closed implicitly (nothing is observed after that)
Histories == UNION {{p.h : p \in HistN(n)} : n \in 1..MaxLen}

(* ============================ declarative rule =========================== *)
\* Calls are named by the position of their `call` operation; 0 is the program body.
\* StkSeq(h)[i]: the calls that are open after the first i operations, innermost last.
RECURSIVE StkSeq(_)
StkSeq(h) == IF h = <<>> THEN <<>>
             ELSE LET p == StkSeq(Pop(h))
                      prev == IF p = <<>> THEN <<0>> ELSE Last(p)
                      o == Last(h)
                  IN Append(p, CASE o.k = "call" -> Append(prev, Len(h))
                                 [] o.k = "ret"  -> Pop(prev)
                                 [] OTHER -> prev)            \* blocks do not start a call
MaxOf(S) == CHOOSE m \in S : \A k \in S : k <= m
CfgVal(h, j) == IF h[j].k = "cset" THEN j ELSE Default

\* DeclObsSeq(h)[i]: what the program observes after its first i operations
DeclObsSeq(h) ==
    LET S == StkSeq(h)
        Running(i) == IF i = 0 THEN 0 ELSE Last(S[i])     \* the call that is running after i operations
        Doer(j) == Running(j - 1)                         \* the call that performed operation j (a `call` is performed by the caller)
        \* --- C11 ---
        \* local binding of n in the running call: that call's own most recent set/unset of n
        LocalWrites(i, n) == {j \in 1..i : h[j].k \in {"set", "unset"} /\ h[j].n = n /\ Doer(j) = Running(i)}
        Local(i, n) == LET W == LocalWrites(i, n) IN
                       IF W = {} THEN Undef ELSE IF h[MaxOf(W)].k = "set" THEN MaxOf(W) ELSE Undef
        \* the global n: the most recent global set/unset by anybody
        GlobalWrites(i, n) == {j \in 1..i : h[j].k \in {"gset", "gunset"} /\ h[j].n = n}
        Global(i, n) == LET W == GlobalWrites(i, n) IN
                        IF W = {} THEN Undef ELSE IF h[MaxOf(W)].k = "gset" THEN MaxOf(W) ELSE Undef
        \* plain $n: the local shadows the global; neither -> undefined-variable error
        Read(i, n) == IF Local(i, n) # Undef THEN Local(i, n) ELSE Global(i, n)
        \* --- C25 ---
        AtSession(c) == TopLevel = "session" /\ c = 0
        \* settings of o made by the running call itself (they matter for a non-global option inside a call)
        OwnWrites(i, o) == {j \in 1..i : h[j].k \in CfgKinds /\ h[j].n = o /\ Doer(j) = Running(i)}
        \* settings of o that reach the session value: any setting of a global option, and settings made at session level
        SessWrites(i, o) == {j \in 1..i : h[j].k \in CfgKinds /\ h[j].n = o /\ (o \in GlobalOpts \/ AtSession(Doer(j)))}
        Session(i, o) == LET W == SessWrites(i, o) IN IF W = {} THEN Default ELSE CfgVal(h, MaxOf(W))
        Cfg(i, o) == IF o \notin GlobalOpts /\ ~AtSession(Running(i)) /\ OwnWrites(i, o) # {}
                       THEN CfgVal(h, MaxOf(OwnWrites(i, o)))     \* `config default` counts: it pins the declared default in this call
                       ELSE Session(i, o)
    IN [i \in 1..Len(h) |-> [rd |-> [n \in Names |-> Read(i, n)],
                             gl |-> [n \in Names |-> Global(i, n)],
                             cf |-> [o \in Opts |-> Cfg(i, o)]]]

(* ========================== operational machine ========================== *)
\* The machine executes a history while TLC builds it: every reachable state is one history
\* (all of them, see Next) together with the interpreter state after its last operation.
VARIABLES hist,     \* the operations executed so far
          open,     \* calls/blocks not yet closed
          forks,    \* stack of lang.Fork: [vt |-> variable table id, ct |-> config table id or 0 = the global table]
          vtab,     \* heap of lang.Variables tables (NewVariables), id = index
          ctab,     \* heap of config.Config override tables (Config.Copy), id = index
          globals,  \* lang.GlobalVariables
          gconf,    \* config.InitConf values
          obs       \* what was observed after each operation
vars == <<hist, open, forks, vtab, ctab, globals, gconf, obs>>

EmptyV == [n \in Names |-> Undef]
EmptyC == [o \in Opts |-> NoOverride]

\* lang/variables.go getValue: local table, then GlobalVariables (then env, then error)
Lookup(f, vt, gl, n) == IF vt[f.vt][n] # Undef THEN vt[f.vt][n] ELSE gl[n]
\* config/config.go GetFileRef: own value if this is a copy holding one, else the global table (value or default)
CfgGet(f, ct, gc, o) == IF f.ct # 0 /\ ct[f.ct][o] # NoOverride THEN ct[f.ct][o] ELSE gc[o]
\* config/config.go Set: copies forward global (or undeclared) options to the global table
CfgSetsGlobal(f, o) == f.ct = 0 \/ o \in GlobalOpts

ObsOf(fk, vt, ct, gl, gc) ==
    LET f == Last(fk) IN
    [rd |-> [n \in Names |-> Lookup(f, vt, gl, n)],
     gl |-> [n \in Names |-> gl[n]],
     cf |-> [o \in Opts |-> CfgGet(f, ct, gc, o)]]

\* the program body: ShellProcess itself (session level) or its own F_FUNCTION fork
BottomFork == [vt |-> 1, ct |-> IF TopLevel = "function" THEN 1 ELSE 0]
InitCtab == IF TopLevel = "function" THEN <<EmptyC>> ELSE <<>>
InitGconf == [o \in Opts |-> Default]

Init ==
    /\ hist = <<>> /\ open = <<>>
    /\ vtab = <<EmptyV>>
    /\ ctab = InitCtab
    /\ forks = <<BottomFork>>
    /\ globals = EmptyV
    /\ gconf = InitGconf
    /\ obs = <<>>

Do(o) ==
    /\ Len(hist) < MaxLen
    /\ Allowed(hist, open, o)
    /\ hist' = Append(hist, o)
    /\ open' = PushOpen(open, o)
    /\ LET pc == Len(hist) + 1      \* position of o = the value it writes
           f == Last(forks)
           nforks == CASE o.k = "call" -> Append(forks, [vt |-> Len(vtab) + 1, ct |-> Len(ctab) + 1])   \* F_FUNCTION: NewVariables, Config.Copy()
                       [] o.k = "blk"  -> Append(forks, f)           \* F_PARENT_VARTABLE: fork.Variables = p.Variables, fork.Config = p.Config
                       [] o.k \in {"ret", "end"} -> Pop(forks)
                       [] OTHER -> forks
           nvtab == CASE o.k = "call"  -> Append(vtab, EmptyV)
                      [] o.k = "set"   -> [vtab EXCEPT ![f.vt][o.n] = pc]
                      [] o.k = "unset" -> [vtab EXCEPT ![f.vt][o.n] = Undef]       \* Unset: delete(v.vars, name) or error
                      [] OTHER -> vtab
           nctab == CASE o.k = "call" -> Append(ctab, EmptyC)        \* a copy starts empty and is parented to the GLOBAL table, not to the caller's
                      [] o.k = "cset" /\ ~CfgSetsGlobal(f, o.n) -> [ctab EXCEPT ![f.ct][o.n] = pc]
                      [] o.k = "cdef" /\ ~CfgSetsGlobal(f, o.n) -> [ctab EXCEPT ![f.ct][o.n] = Default]
                      [] OTHER -> ctab
           nglobals == CASE o.k = "gset"   -> [globals EXCEPT ![o.n] = pc]
                         [] o.k = "gunset" -> [globals EXCEPT ![o.n] = Undef]
                         [] OTHER -> globals
           ngconf == CASE o.k = "cset" /\ CfgSetsGlobal(f, o.n) -> [gconf EXCEPT ![o.n] = pc]
                       [] o.k = "cdef" /\ CfgSetsGlobal(f, o.n) -> [gconf EXCEPT ![o.n] = Default]
                       [] OTHER -> gconf
       IN /\ forks' = nforks /\ vtab' = nvtab /\ ctab' = nctab /\ globals' = nglobals /\ gconf' = ngconf
          /\ obs' = Append(obs, ObsOf(nforks, nvtab, nctab, nglobals, ngconf))

Next == \E o \in Ops : Do(o)
Spec == Init /\ [][Next]_vars

(* ------------------------------- properties ------------------------------ *)
\* the fork/table machinery does what the rule says, after every operation of every history
Agree == obs = DeclObsSeq(hist)
\* the reachable states are exactly the histories of the case table
Enumerated == hist = <<>> \/ hist \in Histories

\* a local write touches one table only and never the globals; a global write touches no table;
\* starting or leaving a call or block writes nothing
WriteIsLocal ==
    [][LET o == Last(hist') IN
       /\ o.k \in {"set", "unset"} => (globals' = globals /\ \A t \in DOMAIN vtab : t # Last(forks).vt => vtab'[t] = vtab[t])
       /\ o.k \in {"gset", "gunset"} => vtab' = vtab
       /\ o.k \in StructKinds => (globals' = globals /\ gconf' = gconf /\ \A t \in DOMAIN vtab : vtab'[t] = vtab[t])]_vars
\* when a call returns, the caller sees what it saw before the call, except for what was written globally meanwhile
ReturnRestores ==
    [][Last(hist').k = "ret" =>
         LET pc == Len(hist')
             q == Last(Last(StkSeq(hist)))       \* position of the matching call
             before == IF q = 1 THEN ObsOf(<<BottomFork>>, <<EmptyV>>, InitCtab, EmptyV, InitGconf) ELSE obs[q - 1]
         IN /\ \A n \in Names : (\A j \in q..pc : ~(hist'[j].k \in {"gset", "gunset"} /\ hist'[j].n = n))
                                   => Last(obs').rd[n] = before.rd[n]
            /\ \A o \in Opts \ GlobalOpts : Last(obs').cf[o] = before.cf[o]]_vars
=============================================================================
