SPECIFICATION Spec
CONSTANTS
  Names = {"-a", "-b"}
  Undecl = {"-z"}
  Values = {"x", "1.5", "-5"}
  DashValues = {"-5"}
  IntToks = {"7", "-5", "0"}
  NumToks = {"7", "-5", "0", "1.5"}
  MaxArgs = 2
  Inputs <- AllInputs
INVARIANTS TypeOK Agree
PROPERTY Decreases
POSTCONDITION Emit
CHECK_DEADLOCK FALSE
