SPECIFICATION Spec
CONSTANTS
  Entries = {"a", "b", "L"}
  Long = {"L"}
  ShortLen = 2
  LongLen = 3
  MaxTok = 2
  FreshLine = FALSE
  MaxWrites = 4
  MaxCrashes = 2
  MaxOpens = 4
VIEW view
INVARIANTS Durable LoaderAgrees SessionView NoForeign
CHECK_DEADLOCK FALSE
