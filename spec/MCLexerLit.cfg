SPECIFICATION Spec
CONSTANTS
  Width = 2
  Width2 = 1
  Deep = FALSE
  Layouts = {"compact", "spaced", "pretty", "nlcolon"}
CHECK_DEADLOCK FALSE
