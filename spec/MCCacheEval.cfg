SPECIFICATION Spec
CONSTANTS
  Namespaces = {"A", "B", "C"}
  Keys = {"k1", "k2", "k3"}
  Values = {"v1", "v2", "v3", "v4"}
  MaxOps = 0
  MaxTicks = 0
  Boots = {{}}
  MemLive = FALSE
  LazyWrite = TRUE
CHECK_DEADLOCK FALSE
