SPECIFICATION FairSpec
CONSTANTS
  MaxLen = 4
  Exits = {0, 1}
  Modes = {"normal", "try", "trypipe"}
INVARIANTS NoDeadlock SequentialStart ReleasedOnce Rendezvous
PROPERTIES EverythingEnds
CHECK_DEADLOCK FALSE
