---------------------------- MODULE RunModesGen ----------------------------
(* Case table for conformance: every program with what the rule says about it. *)
EXTENDS RunModes, Json, SequencesExt

Case(P, m) == [prog |-> P, mode |-> m, ran |-> Decl(P, m).ran, exit |-> Decl(P, m).exit,
               judged |-> Judged(P, m)]
Cases == {Case(P, m) : P \in Programs, m \in Modes}
Emit == ndJsonSerialize("cases.ndjson", SetToSeq(Cases))
=============================================================================
