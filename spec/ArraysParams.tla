---------------------------- MODULE ArraysParams ----------------------------
(* Bounds of the Arrays model (quick tier).  The checks replace this file in the  *)
(* scratch directory to widen the bounds (thorough tier) and to add the seeded    *)
(* random pairs; TLC configuration files cannot spell negative numbers.           *)
EXTENDS Integers
PIdxMaxN == 5
PIdxKeys == -8..8
PIdxMaxKeys == 2
PIdxWideN == 20
PIdxWideKeys == -30..30
PRngMaxN == 8
PRngBounds == -10..12
PMkVals == -10..10
PMkPads == {2, 3}
PMkExtra == {<<-200, 200>>, <<200, -200>>, <<198, 200>>, <<-198, -200>>, <<99, 101>>, <<101, 99>>}
PMkMaxBlocks == 3
PMkMaxAlts == 2
=============================================================================
