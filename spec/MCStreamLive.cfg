SPECIFICATION FairSpec
CONSTANTS
  Writers = {1}
  Readers = {5}
  Typers = {}
  Getters = {}
  MaxBuf = 2
  WSizes = {0, 1, 2}
  MaxWrites = 3
  RSizes = {0, 1, 2}
  MaxReads = 8
  Types = {}
  AllowForceClose = FALSE
  StrictLimit = TRUE
PROPERTIES WriterProgress AllReturn
CHECK_DEADLOCK FALSE
