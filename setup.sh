#!/bin/bash
# Build the framework from files on disk only (offline): the conformance harness against
# /repo's working tree with -tags verif, and a TLC smoke test.
set -e
cd /verif
python3 - <<'PY'
import sys
sys.path.insert(0, '/verif')
from vlib import common
print(common.build_mxh())
PY
d=$(mktemp -d)
cp spec/Stream.tla spec/MCStreamLive.cfg "$d"/
(cd "$d" && timeout 300 java -XX:+UseParallelGC -cp /opt/veriftools/tla/tla2tools.jar:/opt/veriftools/tla/CommunityModules-deps.jar tlc2.TLC -workers 4 -metadir "$d/meta" -config MCStreamLive.cfg Stream.tla | grep -q "No error has been found")
rm -rf "$d"
echo setup ok
