"""Read a TLC state-graph dump (-dump dot,actionlabels) and derive replayable paths.

Each node keeps only the variables asked for (parsed TLA values).  Paths are lists of
node ids starting at an initial state.
"""
import re
import random
from collections import deque
from . import tlaval

_node_re = re.compile(r'^(-?\d+) \[label="(.*?)"(,tooltip=|,style = filled)')
_edge_re = re.compile(r'^(-?\d+) -> (-?\d+) \[label="(.*?)"')
_unesc_re = re.compile(r'\\(.)')


def _unescape(s):
    return _unesc_re.sub(lambda m: '\n' if m.group(1) == 'n' else m.group(1), s)


class Graph:
    def __init__(self):
        self.nodes = {}      # id -> dict(var -> value)
        self.init = []
        self.succ = {}       # id -> list of (label, dst)
        self.nedges = 0


def load_dot(path, want_vars):
    g = Graph()
    want = set(want_vars)
    with open(path, 'r') as f:
        for line in f:
            c = line[:1]
            if not (c.isdigit() or c == '-'):
                continue
            m = _edge_re.match(line)
            if m:
                a, b, lab = int(m.group(1)), int(m.group(2)), m.group(3)
                g.succ.setdefault(a, []).append((lab, b))
                g.nedges += 1
                continue
            m = _node_re.match(line)
            if m:
                nid = int(m.group(1))
                if nid in g.nodes:
                    continue
                txt = _unescape(m.group(2))
                st = {}
                cur = None
                buf = []
                for ln in txt.split('\n'):
                    if ln.startswith('/\\ '):
                        if cur is not None and cur in want:
                            st[cur] = tlaval.parse('\n'.join(buf))
                        name, _, val = ln[3:].partition(' = ')
                        cur = name.strip()
                        buf = [val]
                    else:
                        buf.append(ln)
                if cur is not None and cur in want:
                    st[cur] = tlaval.parse('\n'.join(buf))
                g.nodes[nid] = st
                if m.group(3).startswith(',style'):
                    g.init.append(nid)
    return g


def bfs_tree(g):
    parent = {}
    order = []
    dq = deque()
    for i in g.init:
        parent[i] = None
        dq.append(i)
    while dq:
        n = dq.popleft()
        order.append(n)
        for _, d in g.succ.get(n, ()):
            if d not in parent:
                parent[d] = n
                dq.append(d)
    return parent, order


def path_to(parent, n):
    p = []
    while n is not None:
        p.append(n)
        n = parent[n]
    p.reverse()
    return p


def node_cover_paths(g, extend_to_terminal=True, rng=None):
    """Root-to-leaf paths of the BFS tree: every reachable state is on one of them.
    Optionally each path is extended (randomly, loop-free) until a state without
    unvisited successors so that behaviours end in quiescent states."""
    parent, order = bfs_tree(g)
    haschild = set(p for p in parent.values() if p is not None)
    leaves = [n for n in order if n not in haschild]
    paths = []
    for lf in leaves:
        p = path_to(parent, lf)
        if extend_to_terminal:
            seen = set(p)
            cur = lf
            while True:
                nxt = [d for _, d in g.succ.get(cur, ()) if d not in seen]
                if not nxt:
                    break
                cur = rng.choice(nxt) if rng else nxt[0]
                seen.add(cur)
                p.append(cur)
        paths.append(p)
    return paths


def edge_cover_paths(g, rng=None, max_len=200):
    """Paths such that every edge of the graph is traversed by at least one path."""
    parent, order = bfs_tree(g)
    covered = set()
    paths = []
    # process edges in BFS order of their source
    for n in order:
        for lab, d in g.succ.get(n, ()):
            if (n, d) in covered:
                continue
            p = path_to(parent, n)
            for i in range(len(p) - 1):
                covered.add((p[i], p[i + 1]))
            cur = n
            nxt = d
            while True:
                covered.add((cur, nxt))
                p.append(nxt)
                cur = nxt
                if len(p) >= max_len:
                    break
                cand = [dd for _, dd in g.succ.get(cur, ()) if (cur, dd) not in covered and dd != cur]
                if not cand:
                    break
                nxt = rng.choice(cand) if rng else cand[0]
            paths.append(p)
    return paths


def sample(paths, k, seed):
    if len(paths) <= k:
        return list(paths)
    r = random.Random(seed)
    return r.sample(paths, k)
