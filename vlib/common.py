"""Shared machinery for /verif/check: environment, building the harness from /repo's
current working tree, running TLC in a scratch directory, evidence and verdict
bookkeeping."""
import json
import os
import re
import shutil
import subprocess
import sys
import tempfile
import time

VERIF = os.path.dirname(os.path.dirname(os.path.abspath(__file__)))
REPO = os.environ.get('VERIF_REPO', '/repo')
SPEC = os.path.join(VERIF, 'spec')
# VERIF_REPO (mutation / seeded-change testing against a scratch copy of the repository): binaries, the generated
# harness module, evidence and replays go to a private directory so that nothing of the real run is overwritten
if 'VERIF_REPO' in os.environ:
    import hashlib
    OUTROOT = os.path.join(VERIF, '.alt', hashlib.md5(REPO.encode()).hexdigest()[:10])
else:
    OUTROOT = VERIF
BUILD = os.path.join(OUTROOT, '.build')
HARNESS = os.path.join(OUTROOT, 'harness')
TLA_CP = '/opt/veriftools/tla/tla2tools.jar:/opt/veriftools/tla/CommunityModules-deps.jar'
NCPU = os.cpu_count() or 4


class Infra(Exception):
    """Infrastructure failure: exit 2, never a verdict."""


def goenv():
    e = dict(os.environ)
    e['GOFLAGS'] = '-mod=mod'
    e['GOPROXY'] = 'off'
    e.pop('GOSUMDB', None)
    e['GOTOOLCHAIN'] = 'auto'
    return e


def log(*a):
    print(*a, file=sys.stderr, flush=True)


def run(cmd, cwd=None, env=None, timeout=None, inp=None, check=False):
    t0 = time.time()
    try:
        p = subprocess.run(cmd, cwd=cwd, env=env, timeout=timeout, input=inp,
                           stdout=subprocess.PIPE, stderr=subprocess.PIPE)
    except subprocess.TimeoutExpired as ex:
        raise Infra('timeout after %ss: %s' % (timeout, ' '.join(cmd[:6])))
    if check and p.returncode != 0:
        raise Infra('command failed (%d): %s\n%s' % (p.returncode, ' '.join(cmd[:8]),
                                                     (p.stderr or b'').decode('utf-8', 'replace')[-4000:]))
    return p


_built = {}


def _harness_dir():
    if OUTROOT != VERIF:
        shutil.rmtree(HARNESS, ignore_errors=True)
        shutil.copytree(os.path.join(VERIF, 'harness'), HARNESS)
    return HARNESS


def build_mxh(race=False):
    """(Re)build the harness binary against /repo's current working tree with -tags verif."""
    key = 'race' if race else 'std'
    if key in _built:
        return _built[key]
    os.makedirs(BUILD, exist_ok=True)
    hdir = _harness_dir()
    shutil.copyfile(os.path.join(REPO, 'go.sum'), os.path.join(hdir, 'go.sum'))
    gomod = open(os.path.join(hdir, 'go.mod.tmpl')).read().replace('@REPO@', REPO)
    open(os.path.join(hdir, 'go.mod'), 'w').write(gomod)
    out = os.path.join(BUILD, 'mxh-race' if race else 'mxh')
    cmd = ['go', 'build', '-tags', 'verif', '-o', out]
    if race:
        cmd.insert(2, '-race')
    cmd.append('./cmd/mxh')
    t0 = time.time()
    p = run(cmd, cwd=hdir, env=goenv(), timeout=1500)
    if p.returncode != 0:
        raise Infra('harness build failed:\n' + p.stderr.decode('utf-8', 'replace')[-6000:])
    log('[build] %s in %.1fs' % (os.path.basename(out), time.time() - t0))
    _built[key] = out
    return out


def build_tool(name):
    """Build harness/cmd/<name> (a plain helper binary, no murex dependency needed but same module)."""
    if name in _built:
        return _built[name]
    build_mxh()
    out = os.path.join(BUILD, name)
    p = run(['go', 'build', '-tags', 'verif', '-o', out, './cmd/' + name], cwd=HARNESS, env=goenv(), timeout=600)
    if p.returncode != 0:
        raise Infra('%s build failed:\n%s' % (name, p.stderr.decode('utf-8', 'replace')[-3000:]))
    _built[name] = out
    return out


def build_murex():
    if 'murex' in _built:
        return _built['murex']
    os.makedirs(BUILD, exist_ok=True)
    out = os.path.join(BUILD, 'murex')
    p = run(['go', 'build', '-tags', 'verif', '-o', out, '.'], cwd=REPO, env=goenv(), timeout=1500)
    if p.returncode != 0:
        raise Infra('murex build failed:\n' + p.stderr.decode('utf-8', 'replace')[-6000:])
    _built['murex'] = out
    return out


class TLCResult:
    def __init__(self):
        self.generated = 0
        self.distinct = 0
        self.depth = 0
        self.ok = False
        self.violated = None      # name of violated invariant / property
        self.error = None
        self.out = ''
        self.wall = 0.0
        self.coverage = {}        # action -> (distinct, generated)
        self.dir = None


def tlc(module, cfg, workdir, workers=None, extra=None, timeout=900, files=None,
        coverage=False, heap=None, deque=False, defines=None):
    """Run TLC on spec/<module>.tla with spec/<cfg> inside workdir (a scratch dir).
    files: dict name->content of extra files to place in the directory.
    Returns TLCResult; raises Infra on crash/timeout/parse errors."""
    os.makedirs(workdir, exist_ok=True)
    for fn in os.listdir(SPEC):
        if fn.endswith('.tla') or fn.endswith('.cfg'):
            shutil.copyfile(os.path.join(SPEC, fn), os.path.join(workdir, fn))
    for k, v in (files or {}).items():
        mode = 'wb' if isinstance(v, bytes) else 'w'
        with open(os.path.join(workdir, k), mode) as f:
            f.write(v)
    meta = tempfile.mkdtemp(prefix='meta', dir=workdir)
    jopts = ['-XX:+UseParallelGC', '-Xss256m', '-Djava.io.tmpdir=' + meta]     # (TLC's own tlc-<n> directories stay out of /tmp)
    if heap:
        jopts.append('-Xmx' + heap)
    if deque:
        jopts.append('-Dtlc2.tool.queue.IStateQueue=StateDeque')
    cmd = ['java'] + jopts + ['-cp', TLA_CP, 'tlc2.TLC', '-workers', str(workers or NCPU),
                               '-metadir', meta, '-config', cfg]
    if coverage:
        cmd += ['-coverage', '1']
    cmd += (extra or [])
    cmd.append(module + '.tla')
    t0 = time.time()
    env = dict(os.environ)
    env.pop('JAVA_TOOL_OPTIONS', None)
    try:
        p = subprocess.run(cmd, cwd=workdir, env=env, timeout=timeout,
                           stdout=subprocess.PIPE, stderr=subprocess.STDOUT)
    except subprocess.TimeoutExpired:
        subprocess.run(['pkill', '-f', meta], check=False)
        raise Infra('TLC timeout (%ss) on %s/%s' % (timeout, module, cfg))
    r = TLCResult()
    r.wall = time.time() - t0
    r.out = p.stdout.decode('utf-8', 'replace')
    r.dir = workdir
    shutil.rmtree(meta, ignore_errors=True)
    m = re.search(r'(\d+) states generated, (\d+) distinct states found', r.out)
    if m:
        r.generated, r.distinct = int(m.group(1)), int(m.group(2))
    m = re.search(r'depth of the complete state graph search is (\d+)', r.out)
    if m:
        r.depth = int(m.group(1))
    m = re.search(r'Invariant (\S+) is violated', r.out)
    if m:
        r.violated = m.group(1)
    m2 = re.search(r'Temporal properties were violated', r.out)
    if m2:
        r.violated = r.violated or 'temporal'
    m3 = re.search(r'Action property (\S+) is violated', r.out)
    if m3:
        r.violated = m3.group(1)
    if 'Assumption' in r.out and 'is false' in r.out:
        r.violated = r.violated or 'assumption'
    if 'Deadlock reached' in r.out:
        r.violated = r.violated or 'deadlock'
    if re.search(r'Postcondition \S+ .*is false', r.out) and not r.violated:
        r.violated = 'postcondition'
    r.ok = ('No error has been found' in r.out) or ('Finished computing initial states' in r.out and p.returncode == 0)
    if coverage:
        for mm in re.finditer(r'<(\w+) line \d+, col \d+ to line \d+, col \d+ of module (\w+)>: (\d+):(\d+)', r.out):
            name = mm.group(1)
            d, g = int(mm.group(3)), int(mm.group(4))
            od, og = r.coverage.get(name, (0, 0))
            r.coverage[name] = (od + d, og + g)
    if not r.ok and not r.violated:
        # parse or evaluation error
        raise Infra('TLC failed on %s/%s (exit %d):\n%s' % (module, cfg, p.returncode, r.out[-5000:]))
    return r


class Check:
    """Per-run context: collects verdicts and evidence for one property."""

    def __init__(self, pid, tier, seed, level):
        self.pid = pid
        self.tier = tier
        self.seed = seed
        self.level = level
        self.t0 = time.time()
        self.cov = {'evaluations': 0, 'distinct_nontrivial': 0, 'rule': '', 'samples': [],
                    'states': 0, 'transitions': 0, 'traces_validated_against_impl': 0,
                    'exhaustive': False}
        self.assumptions = []
        self.violations = []     # list of dict(desc, case)
        self.known_hits = []
        self.scratch = tempfile.mkdtemp(prefix='verif-%s-' % pid)
        # every child process (each murex start creates a murex<random> directory in TMPDIR; go build; java) keeps its
        # temporary files inside the scratch directory, which is removed when the run ends
        os.makedirs(os.path.join(self.scratch, 'tmp'))
        os.environ['TMPDIR'] = os.path.join(self.scratch, 'tmp')
        self.known = load_known().get(pid, [])

    # ---- verdict bookkeeping
    def violation(self, key, desc, case):
        """Report a failing case.  key: stable identifier of the concrete failing case,
        matched against known_findings.json entries (regex on key)."""
        for k in self.known:
            if k.get('status') == 'open' and re.search(k['match'], key):
                if k['id'] not in [h['id'] for h in self.known_hits]:
                    self.known_hits.append({'id': k['id'], 'what': k['what'], 'key': key})
                return False
        self.violations.append({'key': key, 'desc': desc, 'case': case})
        return True

    def add_tlc(self, r):
        self.cov['states'] += r.distinct
        self.cov['transitions'] += r.generated

    def sample(self, s, limit=5):
        if len(self.cov['samples']) < limit:
            self.cov['samples'].append(s)

    def finish(self):
        wall = time.time() - self.t0
        for h in self.known_hits:
            print('KNOWN-FINDING: property=%s %s [%s]' % (self.pid, h['what'], h['id']))
        rc = 0
        replay = None
        if self.violations and not self.cov.get('samples'):
            # a run that only met violating cases still shows what its cases look like
            for v in self.violations[:2]:
                self.cov.setdefault('samples', []).append({'kind': 'violating case', 'key': v['key'][:300], 'case': json.loads(json.dumps(v.get('case'), default=str))})
        if self.violations:
            os.makedirs(os.path.join(OUTROOT, 'replays'), exist_ok=True)
            replay = os.path.join(OUTROOT, 'replays', '%s-%s-%d.json' % (self.pid, self.tier, self.seed))
            with open(replay, 'w') as f:
                json.dump({'property': self.pid, 'tier': self.tier, 'seed': self.seed,
                           'violations': self.violations[:(100000 if os.environ.get('VERIF_ALLVIOL') else 50)]}, f, indent=1, default=str)
            for v in self.violations[:10]:
                log('  violation: %s :: %s' % (v['key'], v['desc']))
            print('VIOLATION property=%s replay=%s' % (self.pid, replay))
            rc = 1
        ev = {'property_id': self.pid, 'tier': self.tier, 'seed': self.seed, 'level': self.level,
              'coverage': self.cov, 'assumptions': self.assumptions, 'wall_s': round(wall, 2),
              'violations': len(self.violations)}
        if self.known_hits:
            ev['coverage']['known_findings_hit'] = self.known_hits
        os.makedirs(os.path.join(OUTROOT, 'evidence'), exist_ok=True)
        with open(os.path.join(OUTROOT, 'evidence', self.pid + '.json'), 'w') as f:
            json.dump(ev, f, indent=1, default=str)
        shutil.rmtree(self.scratch, ignore_errors=True)
        return rc


def load_known():
    p = os.path.join(VERIF, 'known_findings.json')
    if not os.path.exists(p):
        return {}
    d = json.load(open(p))
    out = {}
    for e in d.get('findings', []):
        out.setdefault(e['property'], []).append(e)
    return out


def read_ndjson(path):
    out = []
    with open(path) as f:
        for line in f:
            line = line.strip()
            if line:
                out.append(json.loads(line))
    return out


def write_ndjson(path, rows):
    with open(path, 'w') as f:
        for r in rows:
            f.write(json.dumps(r, separators=(',', ':')))
            f.write('\n')


def gen_graph_paths(ck, module, cfg, want_vars, step_fn, mode, seed, limit=None, timeout=900):
    """Run TLC with a dot dump and derive replay paths covering every state ('nodes') or
    every transition ('edges') of the state graph.  step_fn(node_state_dict) -> step dict."""
    import random
    from . import graph
    wd = os.path.join(ck.scratch, 'gen-' + cfg)
    r = tlc(module, cfg, wd, extra=['-dump', 'dot,actionlabels', 'g.dot'], timeout=timeout)
    if r.violated:
        return r, None, None
    t0 = time.time()
    g = graph.load_dot(os.path.join(wd, 'g.dot'), want_vars)
    os.remove(os.path.join(wd, 'g.dot'))
    rng = random.Random(seed)
    if mode == 'edges':
        paths = graph.edge_cover_paths(g, rng=rng)
    else:
        paths = graph.node_cover_paths(g, extend_to_terminal=True, rng=rng)
    total = len(paths)
    if limit and len(paths) > limit:
        paths = graph.sample(paths, limit, seed)
    rows = [{'id': k, 'steps': [step_fn(g.nodes[n]) for n in p]} for k, p in enumerate(paths)]
    log('[gen] %s/%s: %d nodes %d edges -> %d paths (%d used) in %.1fs' % (
        module, cfg, len(g.nodes), g.nedges, total, len(rows), time.time() - t0))
    return r, rows, {'nodes': len(g.nodes), 'edges': g.nedges, 'paths_total': total}


def _read_rows(outp):
    rows_out = []
    if os.path.exists(outp):
        for line in open(outp, errors='replace'):
            line = line.strip()
            if line:
                try:
                    rows_out.append(json.loads(line))
                except ValueError:
                    pass
    return rows_out


def _run_one_alone(mxh, subcmd, row, extra_args, scratch, tag, limit):
    """-> 'done' | 'died' | 'hung' for one row in a process of its own"""
    inp = os.path.join(scratch, '%s-alone-in.ndjson' % tag)
    outp = os.path.join(scratch, '%s-alone-out.ndjson' % tag)
    write_ndjson(inp, [row])
    if os.path.exists(outp):
        os.remove(outp)
    p = subprocess.Popen([mxh, subcmd, '-in', inp, '-out', outp] + (extra_args or []), stdout=subprocess.DEVNULL, stderr=subprocess.DEVNULL)
    try:
        p.wait(timeout=limit)
    except subprocess.TimeoutExpired:
        p.kill()
        p.wait()
        return 'hung'
    return 'done' if any('status' in x for x in _read_rows(outp)) else 'died'


def run_shards(ck, subcmd, rows, extra_args=None, shards=None, timeout=1800, tag='sh', stall=420):
    """Run `mxh <subcmd> -in X -out Y` over rows in parallel processes.
    Returns (results, crashed) where crashed is a list of (stderr_tail, unfinished_rows)
    for shards whose process died.
    A shard that writes nothing for `stall` seconds (or runs into `timeout`) is stopped; its unfinished rows (those
    marked as started, if the sub-command marks them) are then run one per process: a row that does not finish within
    300 s, twice, is a hang of the real code on that row and is reported as a violation; if no row reproduces it the
    stop was the machine's fault (Infra)."""
    mxh = build_mxh()
    shards = shards or min(NCPU, max(1, len(rows) // 50))
    procs = []
    for s in range(shards):
        part = rows[s::shards]
        if not part:
            continue
        inp = os.path.join(ck.scratch, '%s-in-%d.ndjson' % (tag, s))
        outp = os.path.join(ck.scratch, '%s-out-%d.ndjson' % (tag, s))
        errp = os.path.join(ck.scratch, '%s-err-%d.txt' % (tag, s))
        write_ndjson(inp, part)
        if os.path.exists(outp):
            os.remove(outp)
        ef = open(errp, 'wb')
        procs.append({'p': subprocess.Popen([mxh, subcmd, '-in', inp, '-out', outp] + (extra_args or []),
                                            stdout=subprocess.DEVNULL, stderr=ef), 'ef': ef, 'errp': errp, 'outp': outp, 'part': part,
                      'size': -1, 'last': time.time(), 'stopped': None})
    t0 = time.time()
    while any(x['p'].poll() is None for x in procs):
        time.sleep(0.5)
        now = time.time()
        for x in procs:
            if x['p'].poll() is not None:
                continue
            try:
                sz = os.path.getsize(x['outp'])
            except OSError:
                sz = 0
            if sz != x['size']:
                x['size'], x['last'] = sz, now
            if now - x['last'] > stall or now - t0 > timeout:
                x['stopped'] = 'no output for %d s' % stall if now - x['last'] > stall else 'time limit of %d s' % timeout
                x['p'].kill()
    res = []
    crashed = []
    stopped = []
    for x in procs:
        x['p'].wait()
        x['ef'].close()
        err = open(x['errp'], 'rb').read()
        rows_out = _read_rows(x['outp'])
        done = [r for r in rows_out if 'status' in r]
        res += done
        fin = set(r['id'] for r in done)
        started = set(r['start'] for r in rows_out if 'start' in r)
        unfinished = [r for r in x['part'] if r['id'] not in fin]
        inflight = [r for r in unfinished if r['id'] in started]
        if x['stopped']:
            stopped.append((x['stopped'], inflight or unfinished))
        elif x['p'].returncode != 0:
            crashed.append({'stderr': err.decode('utf-8', 'replace')[-3000:], 'unfinished': unfinished, 'inflight': inflight})
    if stopped:
        hung = []
        tried = 0
        for why, cand in stopped:
            for row in cand[:48]:
                tried += 1
                if _run_one_alone(mxh, subcmd, row, extra_args, ck.scratch, tag, 300) == 'hung' and \
                        _run_one_alone(mxh, subcmd, row, extra_args, ck.scratch, tag, 300) == 'hung':
                    hung.append(row)
                    break
        for row in hung:
            desc = json.dumps(row, sort_keys=True, default=str)
            ck.violation('hang:%s:%s' % (subcmd, desc[:160]),
                         'the real code does not return on this case (`mxh %s` stopped: %s; the case alone exceeded 300 s twice)' % (subcmd, stopped[0][0]),
                         {'row': row})
        raise Infra('%s shard stopped (%s); %s' % (subcmd, stopped[0][0],
                    '%d case(s) hang when run alone' % len(hung) if hung else 'none of %d unfinished cases hangs alone (machine overloaded?)' % tried))
    return res, crashed
