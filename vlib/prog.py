"""Run murex programs through `mxh run-programs` in parallel shards with crash/hang isolation."""
import base64
import json
import os
import subprocess
from . import common


def run_programs(ck, cases, perturb=None, shards=None, timeout=3600, tag='prog'):
    """cases: list of dict(id, src, [repeat, timeout_ms, fids]).  Returns dict id -> result
    where result = {'status': done|hung|crashed, 'runs': [...]} with out/err decoded to bytes."""
    mxh = common.build_mxh()
    shards = shards or min(common.NCPU, max(1, len(cases) // 100))
    results = {}
    pending = [cases[s::shards] for s in range(shards)]
    pending = [p for p in pending if p]
    rnd = 0
    while pending:
        rnd += 1
        if rnd > 40:
            raise common.Infra('run-programs: too many restarts')
        procs = []
        for s, part in enumerate(pending):
            inp = os.path.join(ck.scratch, '%s-in-%d-%d.ndjson' % (tag, rnd, s))
            outp = os.path.join(ck.scratch, '%s-out-%d-%d.ndjson' % (tag, rnd, s))
            common.write_ndjson(inp, part)
            cmd = [mxh, 'run-programs', '-in', inp, '-out', outp]
            if perturb:
                cmd += ['-perturb', str(perturb + s)]
            procs.append((subprocess.Popen(cmd, stdout=subprocess.PIPE, stderr=subprocess.PIPE, stdin=subprocess.DEVNULL), outp, part))
        nxt = []
        for p, outp, part in procs:
            try:
                _, err = p.communicate(timeout=timeout)
            except subprocess.TimeoutExpired:
                for q, _, _ in procs:
                    q.kill()
                raise common.Infra('run-programs shard did not finish within %ds (machine overloaded?)' % timeout)
            started = None
            fin = set()
            if os.path.exists(outp):
                for line in open(outp):
                    line = line.strip()
                    if not line:
                        continue
                    try:
                        x = json.loads(line)
                    except ValueError:
                        continue
                    if 'start' in x:
                        started = x['start']
                    elif 'id' in x:
                        for r in x.get('runs', []):
                            r['out'] = base64.b64decode(r.get('out', ''))
                            r['err'] = base64.b64decode(r.get('err', ''))
                        results[x['id']] = x
                        fin.add(x['id'])
            if p.returncode == 0:
                continue
            rest = [c for c in part if c['id'] not in fin]
            if p.returncode != 3 and started is not None and started not in fin:
                # the process died while running `started`
                results[started] = {'id': started, 'status': 'crashed', 'runs': [],
                                    'stderr': err.decode('utf-8', 'replace')[-3000:]}
                rest = [c for c in rest if c['id'] != started]
            elif p.returncode != 3 and started is None:
                raise common.Infra('run-programs failed before the first case: ' + err.decode('utf-8', 'replace')[-2000:])
            if rest:
                nxt.append(rest)
        pending = nxt
    return results
