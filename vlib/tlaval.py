"""Parser for TLA+ values as printed by TLC (state dumps, simulation traces).

Supported: integers, strings, TRUE/FALSE, sequences <<..>>, sets {..},
records [a |-> v, ...], functions (k :> v @@ k :> v), model values (bare identifiers).
Functions become dicts, records dicts, sequences lists, sets sorted lists tagged as
tuple ('set', [...]) is avoided: sets are returned as python lists too (callers know).
"""


class ParseError(Exception):
    pass


def parse(s):
    p = _P(s)
    v = p.value()
    p.ws()
    if p.i != len(p.s):
        raise ParseError("trailing text at %d: %r" % (p.i, p.s[p.i:p.i + 30]))
    return v


class _P:
    def __init__(self, s):
        self.s = s
        self.i = 0

    def ws(self):
        s = self.s
        n = len(s)
        while self.i < n and s[self.i] in " \t\r\n":
            self.i += 1

    def peek(self, k=1):
        return self.s[self.i:self.i + k]

    def expect(self, t):
        self.ws()
        if not self.s.startswith(t, self.i):
            raise ParseError("expected %r at %d: %r" % (t, self.i, self.s[self.i:self.i + 30]))
        self.i += len(t)

    def value(self):
        self.ws()
        v = self.atom()
        # function composition with @@ handled in '(' atom
        return v

    def atom(self):
        self.ws()
        s = self.s
        c = self.peek()
        if c == '"':
            return self.string()
        if c == '<' and self.peek(2) == '<<':
            self.i += 2
            out = []
            self.ws()
            if self.peek(2) == '>>':
                self.i += 2
                return out
            while True:
                out.append(self.value())
                self.ws()
                if self.peek(2) == '>>':
                    self.i += 2
                    return out
                self.expect(',')
        if c == '{':
            self.i += 1
            out = []
            self.ws()
            if self.peek() == '}':
                self.i += 1
                return out
            while True:
                out.append(self.value())
                self.ws()
                if self.peek() == '}':
                    self.i += 1
                    return out
                self.expect(',')
        if c == '[':
            self.i += 1
            out = {}
            self.ws()
            if self.peek() == ']':
                self.i += 1
                return out
            while True:
                self.ws()
                k = self.ident()
                self.expect('|->')
                out[k] = self.value()
                self.ws()
                if self.peek() == ']':
                    self.i += 1
                    return out
                self.expect(',')
        if c == '(':
            self.i += 1
            out = {}
            while True:
                k = self.value()
                self.expect(':>')
                v = self.value()
                out[_key(k)] = v
                self.ws()
                if self.peek(2) == '@@':
                    self.i += 2
                    continue
                self.expect(')')
                return out
        if c == '-' or c.isdigit():
            j = self.i + 1
            while j < len(s) and s[j].isdigit():
                j += 1
            v = int(s[self.i:j])
            self.i = j
            return v
        if c.isalpha() or c == '_':
            w = self.ident()
            if w == 'TRUE':
                return True
            if w == 'FALSE':
                return False
            return w
        raise ParseError("unexpected %r at %d: %r" % (c, self.i, s[self.i:self.i + 30]))

    def ident(self):
        s = self.s
        j = self.i
        while j < len(s) and (s[j].isalnum() or s[j] == '_'):
            j += 1
        if j == self.i:
            raise ParseError("identifier expected at %d: %r" % (self.i, s[self.i:self.i + 30]))
        w = s[self.i:j]
        self.i = j
        return w

    def string(self):
        s = self.s
        assert s[self.i] == '"'
        j = self.i + 1
        out = []
        while True:
            ch = s[j]
            if ch == '\\':
                nx = s[j + 1]
                out.append({'n': '\n', 't': '\t', 'r': '\r', 'f': '\f'}.get(nx, nx))
                j += 2
                continue
            if ch == '"':
                break
            out.append(ch)
            j += 1
        self.i = j + 1
        return ''.join(out)


def _key(k):
    if isinstance(k, list):
        return tuple(k)
    return k


def parse_state(text):
    """Parse a TLC state print ('/\\ var = value' conjunct list) into a dict."""
    out = {}
    # split on lines that start a new conjunct
    cur = None
    buf = []
    for line in text.split('\n'):
        if line.startswith('/\\ '):
            if cur is not None:
                out[cur] = parse('\n'.join(buf))
            rest = line[3:]
            name, _, val = rest.partition(' = ')
            cur = name.strip()
            buf = [val]
        else:
            buf.append(line)
    if cur is not None:
        out[cur] = parse('\n'.join(buf))
    return out
